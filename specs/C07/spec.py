"""C07 -- parallel_pipeline: ordered serial stages, bounded tokens, each item exactly once (token buffer, stage machine, token census, filter chain)."""
import os
import sys
import re
HERE = os.path.dirname(os.path.abspath(__file__))
sys.path.insert(0, os.path.join(HERE, '..'))
sys.path.insert(0, os.path.join(HERE, '..', '..', 'tools'))
import common
import native
import cxx2c
from cxx2c import Rewriter, CClass, slice_block, tag_loops, ExtractionBreak, load, c_residue
from prove import Job

PP = 'src/tbb/parallel_pipeline.cpp'


def _gt_space(names):
    """`a>member` -> `a> member` (white space only): the class converter does not recognise a bare member name that directly follows `>`"""
    return (r'(?<!-)>(?=(?:%s)\b)' % '|'.join(names), '> ', 0)


def extract(ctx):
    sliced, fired = [], {}
    ti = CClass(PP, r'struct task_info \{', 'task_info')
    ti.harvest_members(['my_object', 'my_token', 'my_token_ready', 'is_valid'])
    ib = CClass(PP, r'class input_buffer \{', 'input_buffer', tbind={'size_type': 'Token'})
    ib.harvest_members(['array', 'array_size', 'low_token', 'high_token', 'is_ordered'])
    if not re.search(r'static const size_type initial_buffer_size = 4;', load(PP)):
        raise ExtractionBreak('initial_buffer_size changed')
    if not re.search(r'typedef unsigned long Token;', load(PP)) and not re.search(r'using Token = unsigned long;', load(PP)):
        raise ExtractionBreak('Token is no longer unsigned long')
    decl = re.sub(r'struct task_info \{', 'typedef struct task_info {', ti.struct_decl()).replace('};', '} task_info;') + ib.struct_decl().replace('task_info* array', 'task_info* array')
    common.write(ctx, 'ib_struct.inc', decl)
    rw = ib.rw
    # grow (defined out of class)
    s = slice_block(PP, r'void input_buffer::grow\( size_type minimum_size \)')
    sliced.append('%s:%d input_buffer::grow' % (PP, s.line))
    t = s.text
    t = rw.sub(t, r'void input_buffer::grow\( size_type minimum_size \)', 'void input_buffer_grow(struct input_buffer* self, size_type minimum_size)\nCONTRACT_grow', 1, 1, name='sig')
    t = rw.sub(t, r'cache_aligned_allocator<task_info>\(\)\.allocate\((\w+)\)', r'(task_info*)alloc_nofail(\1*sizeof(task_info))', 1, 1, name='alloc->alloc_nofail')
    t = rw.sub(t, r'cache_aligned_allocator<task_info>\(\)\.deallocate\((\w+),\s*(\w+)\)', r'free(\1)', 1, 1, name='dealloc->free')
    t = rw.sub(t, r'(?<![\w.>])(array_size|array|low_token)\b', r'self->\1', 3, name='field')
    t = tag_loops(t, 'grow', rw, names=[(r'while\s*\(\s*new_size\s*<', 'size'), (r'i\s*<\s*new_size', 'init'), (r'i\s*<\s*old_size', 'rehash')])
    ctx.grow_loops = sum(v for k_, v in rw.fired.items() if k_.startswith('loop:grow_'))
    grow = t
    M = ['grow']
    PRE = [(r'spin_mutex::scoped_lock lock\( array_mutex \);', 'LOCK_HELD();', 1), (r'ITT_NOTIFY\([^;]*\);', 'RG_NOP();', 1),
           _gt_space(['array_size', 'array', 'low_token', 'high_token', 'is_ordered'])]
    t = ib.convert(ib.method(r'bool try_put_token\( task_info& info \)'), 'input_buffer_try_put_token', methods=M,
                   pre=PRE + [(r'= info;', '= *info;', 1)], fcast=['long'])
    t = rw.sub(t, r'\(long\)\(token-self->low_token\)', '((long)(token-self->low_token))', 0)
    t = rw.sub(t, r'^bool input_buffer_try_put_token\(struct input_buffer\* self, task_info\* info\)', 'bool input_buffer_try_put_token(struct input_buffer* self, task_info* info)\nCONTRACT_put', 1, 1, name='contract-anchor')
    put = t
    t = ib.convert(ib.method(r'void try_to_spawn_task_for_next_token\(StageTask& spawner, d1::execution_data& ed\)'), 'input_buffer_try_to_spawn_task_for_next_token',
                   pre=PRE + [(r'task_info& item = array\[', 'task_info* item = &array[', 1), (r'wakee = item;', 'wakee = *item;', 0), (r'item\.is_valid', 'item->is_valid', 0),
                              (r'spawner\.spawn_stage_task\(wakee, ed\);', 'STUB_spawn_stage_task(&wakee);', 0)])
    t = rw.sub(t, r'StageTask\* spawner, d1::execution_data\* ed\)', 'int spawner_unused)\nCONTRACT_next', 1, 1, name='bind-template(StageTask) + contract-anchor')
    nxt = t
    t = ib.convert(ib.method(r'Token get_ordered_token\(\)'), 'input_buffer_get_ordered_token')
    got = t
    s = ib.method(r'input_buffer\( bool ordered\)', ctor=True)
    t = ib.convert(s, 'input_buffer_ctor', methods=M, skip_init=['end_of_input_tls', 'end_of_input_tls_allocated'])
    ctor = t
    common.write(ctx, 'ib.inc', '\n'.join([grow, put, nxt, got, ctor]))
    # second instantiation of the release method: StageTask := stage_task, the spawner's real spawn_stage_task is called (jobs stage.release*)
    t = ib.convert(ib.method(r'void try_to_spawn_task_for_next_token\(StageTask& spawner, d1::execution_data& ed\)'), 'input_buffer_try_to_spawn_task_for_next_token',
                   pre=PRE + [(r'task_info& item = array\[', 'task_info* item = &array[', 1), (r'wakee = item;', 'wakee = *item;', 0), (r'item\.is_valid', 'item->is_valid', 0),
                              (r'spawner\.spawn_stage_task\(wakee, ed\);', 'stage_task_spawn_stage_task(spawner, &wakee, ed);', 0)])
    t = rw.sub(t, r'StageTask\* spawner, d1::execution_data\* ed\)', 'struct stage_task* spawner, execution_data* ed)', 1, 1, name='bind-template(StageTask := stage_task)')
    common.write(ctx, 'ib_got.inc', got)
    common.write(ctx, 'ib_stage.inc', t)
    sliced += ib.sliced
    fired['input_buffer'] = rw.fired
    st, pl, bf = extract_stage(ctx, sliced, fired)
    extract_filters(ctx, sliced, fired, bf)
    return sliced, fired


PF = 'include/oneapi/tbb/detail/_pipeline_filters.h'
PH = 'include/oneapi/tbb/parallel_pipeline.h'


def _proto(t):
    return re.sub(r'\s*\n\s*CONTRACT_\w+', '', t[:t.index('{')]).strip() + ';\n'


def extract_stage(ctx, sliced, fired):
    """stage_task (the per-item stage machine), pipeline (add_filter / fill_pipeline / parallel_pipeline / set_end_of_input) and the
    base_filter mode predicates, converted to C.  Callees outside the pipeline (r1::spawn, small_object_allocator, wait_context, the
    filter bodies, TLS) become STUB_* calls; the two input_buffer methods are called through STUB_try_put_token /
    STUB_try_to_spawn_task_for_next_token, whose models are the post-conditions the ib.* jobs prove."""
    rw = Rewriter('stage_task')
    # ---- base_filter: mode bits and predicates (header) ----
    bf = CClass(PF, r'class base_filter\s*\{', 'base_filter', rw=rw,
                tbind={'base_filter*': 'struct base_filter*', 'r1::input_buffer*': 'struct input_buffer*', 'r1::pipeline*': 'struct pipeline*'})
    bf.harvest_members(['next_filter_in_pipeline', 'my_input_buffer', 'my_filter_mode', 'my_pipeline'])
    consts = []
    for nm in ('filter_is_serial', 'filter_is_out_of_order', 'filter_may_emit_null'):
        m = re.search(r'static constexpr\s+unsigned int %s = ([^;]+);' % nm, bf.text)
        if not m:
            raise ExtractionBreak('base_filter::%s not found' % nm)
        consts.append('#define %s ((unsigned int)(%s))\n' % (nm, m.group(1)))   # namespace-scope constants must be macros (a static const is NONDET in CBMC's C mode)
    rw.fired['mode-constant -> #define'] = 3
    preds = [bf.convert(bf.method(r'bool is_serial\(\) const'), 'base_filter_is_serial', fcast=['bool']),
             bf.convert(bf.method(r'bool is_ordered\(\) const'), 'base_filter_is_ordered'),
             bf.convert(bf.method(r'bool object_may_be_null\(\)'), 'base_filter_object_may_be_null')]
    nip = bf.convert(bf.method(r'static base_filter\* not_in_pipeline\(\)'), 'base_filter_not_in_pipeline', ret='struct base_filter*',
                     pre=[(r'std::intptr_t\(-1\)', '((intptr_t)(-1))', 1)])
    nip = rw.sub(nip, r'\(\(base_filter\*\)', '((struct base_filter*)', 1, name='type-tag')
    # ---- pipeline ----
    pl = CClass(PP, r'class pipeline \{', 'pipeline', rw=rw,
                tbind={'task_group_context&': 'struct tgc*', 'd1::base_filter*': 'struct base_filter*', 'd1::wait_context': 'wait_context',
                       'd1::base_filter': 'struct base_filter', 'd1::filter_node': 'struct filter_node', 'd1::task_group_context': 'struct tgc'})
    pl.harvest_members(['my_context', 'first_filter', 'last_filter', 'input_tokens', 'end_of_input', 'wait_ctx'])
    # ---- stage_task ----
    st = CClass(PP, r'class stage_task : public d1::task, public task_info \{', 'stage_task', rw=rw,
                tbind={'pipeline&': 'struct pipeline*', 'd1::base_filter*': 'struct base_filter*', 'd1::base_filter': 'struct base_filter',
                       'd1::small_object_allocator': 'small_object_allocator', 'd1::execution_data': 'execution_data', 'task': 'struct stage_task'})
    st.harvest_members(['my_pipeline', 'my_filter', 'm_allocator', 'my_at_start'])
    st.members.insert(0, ('task_info', 'base', ''))      # base class sub-object task_info (initialised before the members, as in C++)
    rw.fired['base-class task_info -> leading member `base`'] = 1
    decl = ''.join(consts) + bf.struct_decl() + pl.struct_decl() + st.struct_decl()
    common.write(ctx, 'stage_struct.inc', decl)

    PRE = [(r'ITT_NOTIFY\([^;]*\);', 'RG_NOP();', 0),
           _gt_space(['my_pipeline', 'my_filter', 'my_at_start', 'my_object', 'my_token', 'my_token_ready', 'first_filter', 'last_filter', 'input_tokens', 'end_of_input']),
           (r'\bmy_pipeline\.', 'my_pipeline->', 0),                                       # reference member -> pointer member
           (r'm_allocator = alloc;', 'm_allocator = *alloc;', 0),                          # reference parameter copied into the member
           (r'task_info::reset\(\);', 'task_info_reset(&base);', 0),
           (r'(?<![\w.>])(my_object|my_token_ready|my_token|is_valid)\b', r'base.\1', 0),             # members inherited from task_info
           (r'd1::small_object_allocator alloc\{\};', 'small_object_allocator alloc = {0};', 0),
           (r'd1::base_filter\*', 'struct base_filter*', 0),
           (r'alloc\.new_object<stage_task>\(\s*ed,\s*([^,();]+),\s*alloc\s*\)', r'NEW_input_stage_task(ed, \1, &alloc)', 0),
           (r'alloc\.new_object<stage_task>\(\s*ed,\s*([^,();]+),\s*([^,();]+),\s*([^,();]+),\s*alloc\s*\)', r'NEW_item_stage_task(ed, \1, \2, \3, &alloc)', 0),
           (r'r1::spawn\( \*(NEW_input_stage_task\([^;]*\)), my_pipeline->my_context \);', r'STUB_spawn(\1, my_pipeline->my_context);', 0),
           (r'r1::spawn\(\*clone, my_pipeline->my_context\);', 'STUB_spawn(clone, my_pipeline->my_context);', 0),
           (r'stage_task\* clone =', 'struct stage_task* clone =', 0),
           (r'my_pipeline->wait_ctx\.(reserve|release)\(\);', r'STUB_wait_\1(&my_pipeline->wait_ctx);', 0),
           (r'm_allocator\.delete_object\(this, ed\);', 'STUB_delete_object(&m_allocator, self, ed);', 0),
           (r'return this;', 'return self;', 0),
           (r'(\w+)->finalize\(base\.my_object\);', r'STUB_filter_finalize(\1, base.my_object);', 0),
           (r'\(\*(\w+)\)\(base\.my_object\)', r'STUB_filter_call(\1, base.my_object)', 0),
           (r'(?<![\w.>])(\w+)->(is_serial|is_ordered|object_may_be_null)\(\)', r'base_filter_\2(\1)', 0),
           (r'(?<![\w.>])(\w+)->my_input_buffer->get_ordered_token\(\)', r'STUB_get_ordered_token(\1->my_input_buffer)', 0),
           (r'(?<![\w.>])(\w+)->my_input_buffer->my_tls_end_of_input\(\)', r'STUB_my_tls_end_of_input(\1->my_input_buffer)', 0),
           (r'(?<![\w.>])(\w+)->my_input_buffer->try_to_spawn_task_for_next_token\(\*this, ed\);', r'STUB_try_to_spawn_task_for_next_token(\1->my_input_buffer, self, ed);', 0),
           (r'(?<![\w.>])(\w+)->my_input_buffer->try_put_token\(\*this\)', r'STUB_try_put_token(\1->my_input_buffer, &base)', 0)]
    M = ['execute_filter', 'try_spawn_stage_task', 'finalize', 'reset']
    proved = []      # extents (in parallel_pipeline.cpp) of the functions whose atomic sites carry the guarantee

    def keep(sl):
        proved.append(sl)
        return sl

    def atom(t, fn):
        t = rw.atomics(t, ['input_tokens', 'end_of_input'], 0)
        return rw.number_sites(t, fn, by_kind=True)

    def cv(cls, sl, cfn, **kw):
        t = cls.convert(sl, cfn, pre=kw.pop('pre', PRE), **kw)
        t = re.sub(r'\)\s*override\s*\{', ') {', t, 1)
        t = re.sub(r'(\(struct stage_task\* self, )pipeline\* pipeline\b', r'\1struct pipeline* pipeline', t, 1)    # parameter `pipeline& pipeline`: type tag
        return t
    out = []

    def sm(sig, cfn, short, ctor=False, pre_text=None):
        sl = keep(st.method(sig, ctor=ctor))
        if pre_text:
            sl.text = pre_text(sl.text)
        return atom(cv(st, sl, cfn, methods=M), short)
    out.append(sm(r'void try_spawn_stage_task\(d1::execution_data& ed\)', 'stage_task_try_spawn_stage_task', 'tsst'))
    out.append(sm(r'stage_task\(pipeline& pipeline, d1::small_object_allocator& alloc \)', 'stage_task_ctor_input', 'ctor1', ctor=True))
    out.append(sm(r'stage_task\(pipeline& pipeline, d1::base_filter\* filter, const task_info& info, d1::small_object_allocator& alloc\)', 'stage_task_ctor_item', 'ctor2', ctor=True,
                  pre_text=lambda x: rw.sub(x, r'\btask_info\(info\)', 'base(*info)', 0, name='base-class initialiser -> member `base`')))
    out.append(sm(r'void reset\(\)', 'stage_task_reset', 'reset'))
    out.append(sm(r'void finalize\(d1::execution_data& ed\)', 'stage_task_finalize', 'fin'))
    out.append(sm(r'task\* execute\(d1::execution_data& ed\) override', 'stage_task_execute', 'exec'))
    out.append(sm(r'task\* cancel\(d1::execution_data& ed\) override', 'stage_task_cancel', 'cancel'))
    out.append(sm(r'~stage_task\(\) override', 'stage_task_dtor', 'dtor'))
    out.append(sm(r'void spawn_stage_task\(const task_info& info, d1::execution_data& ed\)', 'stage_task_spawn_stage_task', 'sst'))
    xf = slice_block(PP, r'bool stage_task::execute_filter\(d1::execution_data& ed\)')
    sliced.append('%s:%d stage_task::execute_filter' % (PP, xf.line))
    keep(xf)
    xf.text = rw.sub(xf.text, r'bool stage_task::execute_filter\(', 'bool execute_filter(', 1, 1, name='sig')
    out.append(atom(cv(st, xf, 'stage_task_execute_filter', methods=M), 'xf'))

    # ---- pipeline: constructor, add_filter, fill_pipeline; parallel_pipeline(); set_end_of_input() ----
    PPRE = PRE + [(r'wait_ctx = (\w+);', r'STUB_wait_init(&wait_ctx, \1);', 0),
                  (r'fill_pipeline\(\*root\.(left|right)\);', r'REC_fill_pipeline(self, root->\1);', 0),       # filter_node_ptr::operator* on a child; recursive call
                  (r'add_filter\(\*root\.create_filter\(\)\);', 'pipeline_add_filter(self, STUB_create_filter(root));', 0),
                  (r'd1::base_filter::not_in_pipeline\(\)', 'base_filter_not_in_pipeline()', 0),
                  (r'new_fitler\.my_pipeline = this;', 'new_fitler->my_pipeline = self;', 0),
                  (r'&new_fitler\b', 'new_fitler', 0),                                                         # address of a reference parameter (now a pointer)
                  (r'new_fitler\.(is_serial|is_ordered|object_may_be_null)\(\)', r'base_filter_\1(new_fitler)', 0),
                  (r'new \(allocate_memory\(sizeof\(input_buffer\)\)\) input_buffer\( ([^;]*) \);', r'NEW_input_buffer(\1);', 0),
                  (r'new_fitler\.my_input_buffer->create_my_tls\(\);', 'STUB_create_my_tls(new_fitler->my_input_buffer);', 0)]
    pout = []
    pc = keep(pl.method(r'pipeline\(d1::task_group_context& cxt, std::size_t max_token\)', ctor=True))
    pout.append(pl.convert(pc, 'pipeline_ctor', pre=PPRE, fcast=['Token']))
    pout.append(pl.convert(pl.method(r'void fill_pipeline\(const d1::filter_node& root\)'), 'pipeline_fill_pipeline', pre=PPRE))
    af = slice_block(PP, r'void pipeline::add_filter\( d1::base_filter& new_fitler \)')
    sliced.append('%s:%d pipeline::add_filter' % (PP, af.line))
    af.text = rw.sub(af.text, r'void pipeline::add_filter\(', 'void add_filter(', 1, 1, name='sig')
    pout.append(pl.convert(af, 'pipeline_add_filter', pre=PPRE))
    pp = slice_block(PP, r'void __TBB_EXPORTED_FUNC parallel_pipeline\(d1::task_group_context& cxt, std::size_t max_token, const d1::filter_node& fn\)')
    sliced.append('%s:%d parallel_pipeline' % (PP, pp.line))
    t = pp.text
    t = rw.sub(t, r'void __TBB_EXPORTED_FUNC parallel_pipeline\(d1::task_group_context& cxt, std::size_t max_token, const d1::filter_node& fn\)',
               'void r1_parallel_pipeline(struct tgc* cxt, size_t max_token, struct filter_node* fn)', 1, 1, name='sig (ref-param -> pointer)')
    t = rw.sub(t, r'pipeline pipe\(cxt, max_token\);', 'struct pipeline pipe; pipeline_ctor(&pipe, cxt, max_token);', 0, name='object definition -> ctor call')
    t = rw.sub(t, r'pipe\.fill_pipeline\(fn\);', 'pipeline_fill_pipeline(&pipe, fn);', 0, name='method')
    t = rw.sub(t, r'd1::small_object_allocator alloc\{\};', 'small_object_allocator alloc = {0};', 0, name='alloc')
    t = rw.sub(t, r'stage_task& st = \*alloc\.new_object<stage_task>\(pipe, alloc\);', 'struct stage_task* st = NEW_first_stage_task(&pipe, &alloc);', 0, name='new_object<stage_task> -> ctor')
    t = rw.sub(t, r'r1::execute_and_wait\(st, cxt, pipe\.wait_ctx, cxt\);', 'STUB_execute_and_wait(st, cxt, &pipe.wait_ctx, cxt);', 0, name='execute_and_wait -> stub')
    pout.append(rw.std(t))
    se = slice_block(PP, r'void __TBB_EXPORTED_FUNC set_end_of_input\(d1::base_filter& bf\)')
    sliced.append('%s:%d set_end_of_input' % (PP, se.line))
    keep(se)
    t = se.text
    t = rw.sub(t, r'void __TBB_EXPORTED_FUNC set_end_of_input\(d1::base_filter& bf\)', 'void r1_set_end_of_input(struct base_filter* bf)', 1, 1, name='sig (ref-param -> pointer)')
    t = rw.sub(t, r'\bbf\.', 'bf->', 0, name='ref-param use')
    t = rw.sub(t, r'bf->(is_serial|object_may_be_null)\(\)', r'base_filter_\1(bf)', 0, name='method')
    t = rw.sub(t, r'bf->my_input_buffer->end_of_input_tls_allocated', 'STUB_tls_allocated(bf->my_input_buffer)', 0, name='tls')
    t = rw.sub(t, r'bf->my_input_buffer->set_my_tls_end_of_input\(\);', 'STUB_set_my_tls_end_of_input(bf->my_input_buffer);', 0, name='tls')
    t = rw.asserts(t)
    t = atom(rw.std(t), 'seoi')
    seoi = t
    ptxt = ''.join(_proto(x) for x in pout) + '\n'.join(pout)
    bad = c_residue(ptxt + seoi)
    if bad:
        raise ExtractionBreak('pipeline.inc: C++ residue %s' % bad)
    common.write(ctx, 'pipeline.inc', ptxt)
    common.write(ctx, 'seoi.inc', seoi)
    sliced += ['%s pipeline method' % x for x in pl.sliced]

    # ---- closed world for the rely/guarantee job: every access to pipeline::input_tokens / end_of_input lies in a function whose sites carry the guarantee ----
    src = load(PP)
    msk = cxx2c.mask(src)
    for mm in re.finditer(r'\b(input_tokens|end_of_input)\b', msk):
        if any(sl.start <= mm.start() < sl.end for sl in proved):
            continue
        ln = src[src.rfind('\n', 0, mm.start()) + 1:src.find('\n', mm.start())]
        if re.fullmatch(r'\s*std::atomic<(Token|bool)> (input_tokens|end_of_input);\s*', ln):
            continue
        raise ExtractionBreak('closed-world scan: %s is accessed outside the functions under rely/guarantee: line %d: %s' % (mm.group(1), cxx2c.line_of(src, mm.start()), ln.strip()))
    for rel_dir in ('src', 'include'):
        for root, _, files in os.walk(os.path.join(cxx2c.REPO, rel_dir)):
            for fn in files:
                fp = os.path.join(root, fn)
                if fp.endswith('parallel_pipeline.cpp') or not fn.endswith(('.h', '.cpp')):
                    continue
                try:
                    other = open(fp, errors='replace').read()
                except OSError:
                    continue
                if re.search(r'\binput_tokens\b|(?<![\w])end_of_input\b(?!_)', cxx2c.mask(other)):
                    raise ExtractionBreak('closed-world scan: %s mentions input_tokens / end_of_input' % fp)
    rw.fired['closed-world scan (input_tokens, end_of_input)'] = 1
    # task_info::reset
    ti = CClass(PP, r'struct task_info \{', 'task_info', rw=rw)
    ti.harvest_members(['my_object', 'my_token', 'my_token_ready', 'is_valid'])
    tir = ti.convert(ti.method(r'void reset\(\)'), 'task_info_reset')
    tir = rw.sub(tir, r'struct task_info\* self', 'task_info* self', 1, 1, name='typedef-name')
    stage = tir + '\n' + '\n'.join(preds) + '\n' + nip + '\n' + ''.join(_proto(x) for x in out) + '\n'.join(out)
    bad = c_residue(stage)
    if bad:
        raise ExtractionBreak('stage.inc: C++ residue %s' % bad)
    common.write(ctx, 'stage.inc', stage)
    sliced += ['%s stage_task/base_filter/task_info method' % x for x in st.sliced + bf.sliced + ti.sliced]
    fired['stage_task'] = rw.fired
    return st, pl, bf



def extract_filters(ctx, sliced, fired, bf):
    """concrete_filter<...>::operator() (the four specialisations), base_filter::set_end_of_input, token_helper<T*,false>, operator& and filter_node(x, y)."""
    rw = Rewriter('filters')
    text = load(PF)
    if not re.search(r'class flow_control \{\s*bool is_pipeline_stopped = false;', text):
        raise ExtractionBreak('flow_control layout changed')
    if not re.search(r'void stop\(\) \{ is_pipeline_stopped = true; \}', text):
        raise ExtractionBreak('flow_control::stop changed')
    if not re.search(r'class concrete_filter<void, OutputType, Body>: public base_filter \{.*?concrete_filter\(unsigned int m, const Body& body\) :\s*base_filter\(m \| filter_may_emit_null\)', text, re.S):
        raise ExtractionBreak('concrete_filter<void,Output,Body> constructor no longer sets filter_may_emit_null')
    common.write(ctx, 'flow_control.inc', 'typedef struct flow_control { bool is_pipeline_stopped; } flow_control;\n#define FLOW_CONTROL_INIT {false}\n')
    out = []
    # token_helper<T*, false>: the pointer specialisation (items are passed as the pointer itself)
    th = CClass(PF, r'struct token_helper<T\*, false> \{', 'ptr_helper', rw=rw, tbind={'pointer': 'void*', 'value_type': 'void*'})
    for sig, nm in ((r'static pointer create_token\(const value_type & source\)', 'create_token'), (r'static value_type & token\(pointer & t\)', 'token'),
                    (r'static void \* cast_to_void_ptr\(pointer ref\)', 'cast_to_void_ptr'), (r'static pointer cast_from_void_ptr\(void \* ref\)', 'cast_from_void_ptr')):
        s = th.method(sig)
        s.text = rw.sub(s.text, r'const value_type & source', 'value_type source', 0, name='const T& of a pointer type -> by value')
        c = th.convert(s, 'ptr_helper_' + nm)
        out.append(c)
    out.append(bf.convert(bf.method(r'void set_end_of_input\(\)'), 'base_filter_set_end_of_input', pre=[(r'r1::set_end_of_input\(\*this\);', 'r1_set_end_of_input(self);', 0)]))
    variants = (('mid', r'class concrete_filter: public base_filter \{', r'void\* operator\(\)\(void\* input\) override'),
                ('in', r'class concrete_filter<void, OutputType, Body>: public base_filter \{', r'void\* operator\(\)\(void\*\) override'),
                ('out', r'class concrete_filter<InputType, void, Body>: public base_filter \{', r'void\* operator\(\)\(void\* input\) override'),
                ('inout', r'class concrete_filter<void, void, Body>: public base_filter \{', r'void\* operator\(\)\(void\*\) override'))
    for v, cls, sig in variants:
        s = slice_block(PF, sig, within=cls)
        sliced.append('%s:%d concrete_filter[%s]::operator()' % (PF, s.line, v))
        x = s.text
        x = rw.sub(x, r'void\* operator\(\)\(void\*(?: input)?\) override', 'void* cf_%s_call(struct base_filter* self, void* input)' % v, 1, 1, name='sig')
        x = rw.sub(x, r'\b(?:input|output)_helper::destroy_token\(', 'STUB_destroy_token(self, ', 0, name='destroy_token -> stub (memory, not C07)')
        x = rw.sub(x, r'\b(?:input|output)_helper::', 'ptr_helper_', 0, name='bind-template(token_helper<T*,false>)')
        x = rw.sub(x, r'std::move\(ptr_helper_token\(temp_input\)\)', '*ptr_helper_token(&temp_input)', 0, name='reference argument/result -> pointer')
        x = rw.sub(x, r'tbb::detail::invoke\(my_body, ', 'STUB_body(self, ', 0, name='body -> stub')
        x = rw.sub(x, r'\bmy_body\(control\)', 'STUB_input_body(self, &control)', 0, name='body -> stub')
        x = rw.sub(x, r'flow_control control;', 'flow_control control = FLOW_CONTROL_INIT;', 0, name='default member initialiser')
        x = rw.sub(x, r'(?<![\w.>])set_end_of_input\(\);', 'base_filter_set_end_of_input(self);', 0, name='method')
        x = rw.sub(x, r'\b(input|output)_pointer\b', 'void*', 0, name='bind-template(pointer)')
        x = rw.std(x)
        out.append(x)
    txt = '\n'.join(out)
    bad = c_residue(txt)
    if bad:
        raise ExtractionBreak('filters.inc: C++ residue %s' % bad)
    common.write(ctx, 'filters.inc', txt)
    # operator& and filter_node(x, y)
    s = slice_block(PH, r'filter<T,U> operator&\( const filter<T,V>& left, const filter<V,U>& right \)')
    sliced.append('%s:%d operator&' % (PH, s.line))
    x = s.text
    x = rw.sub(x, r'filter<T,U> operator&\( const filter<T,V>& left, const filter<V,U>& right \)', 'struct filter_node* filter_and(struct filter* left, struct filter* right)', 1, 1, name='sig (ref-param -> pointer; filter<T,U> is its root pointer)')
    x = rw.sub(x, r'\b(left|right)\.my_root', r'\1->my_root', 0, name='ref-param use')
    x = rw.sub(x, r'filter_node_ptr\( new \(r1::allocate_memory\(sizeof\(filter_node\)\)\) filter_node\(([^;]*)\) \);', r'NEW_filter_node(\1);', 0, name='placement new -> allocation + constructor')
    x = rw.std(rw.asserts(x))
    fnode = CClass(PF, r'class filter_node \{', 'filter_node', rw=rw, tbind={'filter_node_ptr': 'struct filter_node*', 'std::atomic<std::intptr_t>': 'intptr_t'})
    fnode.harvest_members(['ref_count', 'left', 'right'])
    c0 = fnode.method(r'filter_node\(\) : ref_count\(0\)', ctor=True)
    c0.text = cxx2c.cpp_resolve(c0.text, {'__TBB_TEST_FILTER_NODE_COUNT': None}, 'filter_node()')
    c2 = fnode.method(r'filter_node\(const filter_node_ptr& x, const filter_node_ptr& y\)', ctor=True)
    c2.text = rw.sub(c2.text, r'const filter_node_ptr& (\w)', r'filter_node_ptr \1', 0, name='const T& of a pointer type -> by value')
    c2.text = rw.sub(c2.text, r': filter_node\(\)\{', '{ filter_node_ctor0(self);', 0, name='delegating constructor -> call')
    t0 = fnode.convert(c0, 'filter_node_ctor0')
    t2 = fnode.convert(c2, 'filter_node_ctor2')
    common.write(ctx, 'fnode_struct.inc', fnode.struct_decl() + 'struct filter { struct filter_node* my_root; };\n')
    ftxt = 'static struct filter_node* NEW_filter_node(struct filter_node* x, struct filter_node* y);\n' + t0 + t2 + x
    bad = c_residue(ftxt)
    if bad:
        raise ExtractionBreak('fnode.inc: C++ residue %s' % bad)
    common.write(ctx, 'fnode.inc', ftxt)
    sliced += ['%s filter helper' % z for z in th.sliced + fnode.sliced]
    fired['filters'] = rw.fired


def build(ctx):
    sliced, fired = extract(ctx)
    C = os.path.join(HERE, 'c07.c')
    jobs = [
        Job('ib.grow', C, 'h_grow', route='LC', enforce='input_buffer_grow', loops=True, nloops=ctx.grow_loops, timeout=600, target='input_buffer::grow', source=PP),
        Job('ib.try_put_token', C, 'h_put', route='LC', replace=['input_buffer_grow'], timeout=900,
            target='input_buffer::try_put_token (modular: grow replaced by its proved contract)', source=PP),
        Job('ib.next_token', C, 'h_next', route='LF', timeout=600,
            target='input_buffer::try_to_spawn_task_for_next_token', source=PP),
        Job('stage.step.input_serial', C, 'h_step', route='RG', defines=['STAGE', 'STEP', 'ONLY_START_SERIAL'], timeout=900,
            target='stage_task::execute / execute_filter / try_spawn_stage_task / reset / finalize / ~stage_task / stage_task(pipeline&,alloc) + concrete_filter<void,..>::operator() + r1::set_end_of_input [input-stage task, serial input filter]', source=PP),
        Job('stage.step.input_parallel', C, 'h_step', route='RG', defines=['STAGE', 'STEP', 'ONLY_START_PARALLEL'], timeout=900,
            target='stage_task::execute / execute_filter / try_spawn_stage_task / reset / finalize / ~stage_task / stage_task(pipeline&,alloc) + concrete_filter<void,..>::operator() + r1::set_end_of_input [input-stage task, parallel input filter]', source=PP),
        Job('stage.step.item', C, 'h_step', route='RG', defines=['STAGE', 'STEP', 'ONLY_MID'], timeout=900,
            target='stage_task::execute / execute_filter / reset / finalize / ~stage_task [task carrying an item at any later filter]', source=PP),
        Job('stage.release', C, 'h_release', route='LF', defines=['STAGE', 'RELEASE'], timeout=300,
            target='input_buffer::try_to_spawn_task_for_next_token<stage_task> -> stage_task::spawn_stage_task -> stage_task(pipeline&,filter,info,alloc)', source=PP),
        Job('stage.cancel', C, 'h_cancel', route='LF', defines=['STAGE', 'CANCEL'], target='stage_task::cancel / finalize / ~stage_task', source=PP),
        Job('chain.add_filter', C, 'h_add_filter', route='LF', defines=['STAGE', 'CHAIN'], target='pipeline::add_filter', source=PP),
        Job('chain.fill_pipeline', C, 'h_fill', route='LF', defines=['STAGE', 'CHAIN'], target='pipeline::fill_pipeline (inductive step over the filter tree) + add_filter', source=PP),
        Job('chain.start', C, 'h_start', route='LF', defines=['STAGE', 'CHAIN'], target='parallel_pipeline() + pipeline::pipeline + fill_pipeline + stage_task(pipeline&,alloc)', source=PP),
        Job('filter.call', C, 'h_cf', route='LF', defines=['STAGE', 'FILTERS'], target='concrete_filter<...>::operator() (4 specialisations) + base_filter::set_end_of_input + r1::set_end_of_input + token_helper<T*,false>', source=PF),
        Job('filter.and', C, 'h_and', route='LF', defines=['STAGE', 'FILTERS'], target='operator&(filter, filter) + filter_node(x, y)', source=PH),
        Job('ib.ctor', C, 'h_ctor', route='LC', replace=['input_buffer_grow'], target='input_buffer::input_buffer + get_ordered_token', source=PP),
    ]
    return {
        'jobs': jobs, 'sliced': sliced, 'fired': fired,
        'trusted': ['cache_aligned_allocator::allocate succeeds (alloc_nofail: the throwing exit is cut)',
                    'spin_mutex array_mutex serialises the three input_buffer methods (C08 proves spin_mutex; LOCK_HELD() marks the section)',
                    'buffer sizes up to 2^16 slots (MAXSZ, a stated precondition of the contracts)',
                    'stage.step.*: STUB_try_put_token / STUB_try_to_spawn_task_for_next_token are models of the two input_buffer methods: exactly the post-conditions that ib.try_put_token / ib.next_token prove (token drawn once, run-now iff lowest outstanding number, low_token + 1); what the release does with the parked item is proved on the real code in stage.release',
                    'r1::spawn (STUB_spawn: records the task; that a spawned task is executed exactly once is C01), small_object_allocator::new_object/delete_object (allocation + constructor call / destructor call), wait_context::reserve/release (a counter; that execute_and_wait returns when it reaches zero is C01)',
                    'user filter bodies (STUB_body / STUB_input_body: arbitrary result, an input body may call flow_control::stop()); later filters of the chain return arbitrary objects',
                    'basic_tls (the per-thread end-of-input flag is one boolean of the executing thread)',
                    'chain.*: NEW_input_buffer is the post-condition of ib.ctor (empty ring, tokens start at 0, mode = argument); the recursive calls of fill_pipeline are the induction hypothesis (a subtree appends its own filters at the end of the chain)',
                    'filter.*: token_helper<T*,false> (items passed as the pointer itself) is the instantiation; destroy_token is a stub (memory)'],
        'drops': ['scoped_lock declaration -> LOCK_HELD() ghost marker', 'ITT_NOTIFY -> RG_NOP()', 'references -> pointers', 'constructor init list -> assignments in declared order (TLS members skipped)',
                  'base class task_info of stage_task -> leading member `base`; d1::task base class dropped (no data used)', 'memory-order arguments dropped (SC)',
                  'the implicit pipeline destructor at the end of parallel_pipeline() (memory only)', 'filter_node_ptr -> raw pointer (reference counting not modelled)', '`override`, `const`, `noexcept`, template headers'],
        'not_decided': ['composition into a whole run: that a parked item is always released (while an item is parked at a serial filter some live task holds a lower number of that buffer, so the wait cannot reach zero with parked items) is argued from the per-step obligations (turn passed on exactly once after the invocation, released item restarted at its filter, one reserve/release per task), not mechanised',
                        'weak memory: end_of_input is accessed relaxed and input_tokens with release/acquire; the census is proved under SC only',
                        'exceptions thrown by a filter body and task_group_context cancellation (only: a cancelled task releases the wait exactly once and finalizes the item it still carries)',
                        'a filter body that runs nested parallelism and thereby executes another input-stage task of the same pipeline on its own thread (thread-local end flag shared)',
                        'fill_pipeline: only the inductive step (inner node / leaf); filter_node reference counts; filter_node_leaf::create_filter and the concrete_filter constructors (only: the <void,Output> constructor sets filter_may_emit_null, checked textually)',
                        'token_helper specialisations other than T* (heap-allocated tokens, values overlaid on void*)', 'pipeline / input_buffer destructors',
                        'that a spawned task runs exactly once and that execute_and_wait returns exactly when the wait context drops to zero (C01)', 'token wrap-around at 2^64'],
        'assumptions': ['at most 2^16 outstanding tokens per buffer', 'tokens do not wrap around 2^64', 'sequentially consistent atomics on pipeline::input_tokens and pipeline::end_of_input; closed world (scan enforced at extraction: no other function touches the two words)',
                        'max_number_of_live_tokens >= 1 and <= 2^62 (documented precondition; asserted by the pipeline constructor)', 'operands of operator& are non-empty filters (documented; asserted)',
                        'stage.step preconditions are established by the other jobs: input-stage tasks are fresh (stage_task(pipeline&,alloc) / reset, proved in the same job and chain.start); a serial filter has a buffer of its own kind (chain.add_filter); a task carrying an item holds a token (stage.step post-condition / stage.release)'],
    }


def replay(ctx, jobname, failure):
    exe = native.build([os.path.join(HERE, 'c07_replay.cpp')], os.path.join(ctx.work, 'c07_replay'), flags=['-fno-access-control', '-I', os.path.join(ctx.repo, 'src')], link_tbb=True)
    rc, out = native.run([exe, jobname], timeout=120)
    rep = {'cmd': exe + ' ' + jobname, 'rc': rc, 'output': out[-1500:], 'reproduced': False, 'detail': 'native recipes found no failing sequence'}
    m = re.search(r'(?m)^REPRODUCED (.*)', out)
    if m:
        rep['reproduced'] = True
        rep['detail'] = m.group(1)
        w = re.search(r'class=(\S+)', m.group(1))
        rep['witness_class'] = w.group(1) if w else None
    return rep
