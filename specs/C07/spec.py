"""C07 -- parallel_pipeline: ordered serial stages, bounded tokens, each item exactly once (token buffer)."""
import os
import sys
import re
HERE = os.path.dirname(os.path.abspath(__file__))
sys.path.insert(0, os.path.join(HERE, '..'))
sys.path.insert(0, os.path.join(HERE, '..', '..', 'tools'))
import common
import native
from cxx2c import Rewriter, CClass, slice_block, tag_loops, ExtractionBreak, load
from prove import Job

PP = 'src/tbb/parallel_pipeline.cpp'


def extract(ctx):
    sliced, fired = [], {}
    ti = CClass(PP, r'struct task_info \{', 'task_info')
    ti.harvest_members(['my_object', 'my_token', 'my_token_ready', 'is_valid'])
    ib = CClass(PP, r'class input_buffer \{', 'input_buffer', tbind={'size_type': 'Token'})
    ib.harvest_members(['array', 'array_size', 'low_token', 'high_token', 'is_ordered'])
    if not re.search(r'static const size_type initial_buffer_size = 4;', load(PP)):
        raise ExtractionBreak('initial_buffer_size changed')
    if not re.search(r'typedef unsigned long Token;', load(PP)) and not re.search(r'using Token = unsigned long;', load(PP)):
        raise ExtractionBreak('Token is no longer unsigned long')
    decl = re.sub(r'struct task_info \{', 'typedef struct task_info {', ti.struct_decl()).replace('};', '} task_info;') + ib.struct_decl().replace('task_info* array', 'task_info* array')
    common.write(ctx, 'ib_struct.inc', decl)
    rw = ib.rw
    # grow (defined out of class)
    s = slice_block(PP, r'void input_buffer::grow\( size_type minimum_size \)')
    sliced.append('%s:%d input_buffer::grow' % (PP, s.line))
    t = s.text
    t = rw.sub(t, r'void input_buffer::grow\( size_type minimum_size \)', 'void input_buffer_grow(struct input_buffer* self, size_type minimum_size)\nCONTRACT_grow', 1, 1, name='sig')
    t = rw.sub(t, r'cache_aligned_allocator<task_info>\(\)\.allocate\((\w+)\)', r'(task_info*)alloc_nofail(\1*sizeof(task_info))', 1, 1, name='alloc->alloc_nofail')
    t = rw.sub(t, r'cache_aligned_allocator<task_info>\(\)\.deallocate\((\w+),\s*(\w+)\)', r'free(\1)', 1, 1, name='dealloc->free')
    t = rw.sub(t, r'(?<![\w.>])(array_size|array|low_token)\b', r'self->\1', 3, name='field')
    t = tag_loops(t, 'grow', rw, expect=3)
    grow = t
    M = ['grow']
    PRE = [(r'spin_mutex::scoped_lock lock\( array_mutex \);', 'LOCK_HELD();', 1), (r'ITT_NOTIFY\([^;]*\);', 'RG_NOP();', 1)]
    t = ib.convert(ib.method(r'bool try_put_token\( task_info& info \)'), 'input_buffer_try_put_token', methods=M,
                   pre=PRE + [(r'= info;', '= *info;', 1)], fcast=['long'])
    t = rw.sub(t, r'\(long\)\(token-self->low_token\)', '((long)(token-self->low_token))', 0)
    t = rw.sub(t, r'^bool input_buffer_try_put_token\(struct input_buffer\* self, task_info\* info\)', 'bool input_buffer_try_put_token(struct input_buffer* self, task_info* info)\nCONTRACT_put', 1, 1, name='contract-anchor')
    put = t
    t = ib.convert(ib.method(r'void try_to_spawn_task_for_next_token\(StageTask& spawner, d1::execution_data& ed\)'), 'input_buffer_try_to_spawn_task_for_next_token',
                   pre=PRE + [(r'task_info& item = array\[', 'task_info* item = &array[', 1), (r'wakee = item;', 'wakee = *item;', 1), (r'item\.is_valid', 'item->is_valid', 1),
                              (r'spawner\.spawn_stage_task\(wakee, ed\);', 'STUB_spawn_stage_task(&wakee);', 1)])
    t = rw.sub(t, r'StageTask\* spawner, d1::execution_data\* ed\)', 'int spawner_unused)\nCONTRACT_next', 1, 1, name='bind-template(StageTask) + contract-anchor')
    nxt = t
    t = ib.convert(ib.method(r'Token get_ordered_token\(\)'), 'input_buffer_get_ordered_token')
    got = t
    s = ib.method(r'input_buffer\( bool ordered\)', ctor=True)
    t = ib.convert(s, 'input_buffer_ctor', methods=M, skip_init=['end_of_input_tls', 'end_of_input_tls_allocated'])
    ctor = t
    common.write(ctx, 'ib.inc', '\n'.join([grow, put, nxt, got, ctor]))
    sliced += ib.sliced
    fired['input_buffer'] = rw.fired
    return sliced, fired


def build(ctx):
    sliced, fired = extract(ctx)
    C = os.path.join(HERE, 'c07.c')
    jobs = [
        Job('ib.grow', C, 'h_grow', route='LC', enforce='input_buffer_grow', loops=True, nloops=3, timeout=600, target='input_buffer::grow', source=PP),
        Job('ib.try_put_token', C, 'h_put', route='LC', replace=['input_buffer_grow'], timeout=900,
            target='input_buffer::try_put_token (modular: grow replaced by its proved contract)', source=PP),
        Job('ib.next_token', C, 'h_next', route='LF', timeout=600,
            target='input_buffer::try_to_spawn_task_for_next_token', source=PP),
        Job('ib.ctor', C, 'h_ctor', route='LC', replace=['input_buffer_grow'], target='input_buffer::input_buffer + get_ordered_token', source=PP),
    ]
    return {
        'jobs': jobs, 'sliced': sliced, 'fired': fired,
        'trusted': ['cache_aligned_allocator::allocate succeeds (alloc_nofail: the throwing exit is cut)', 'spin_mutex array_mutex serialises the three methods (C08 proves spin_mutex; LOCK_HELD() marks the section)',
                    'stage_task::spawn_stage_task (stub recording its argument; that the spawned task runs once is C01)', 'buffer sizes up to 2^16 slots (MAXSZ, a stated precondition of the contracts)'],
        'drops': ['scoped_lock declaration -> LOCK_HELD() ghost marker', 'ITT_NOTIFY -> RG_NOP()', 'references -> pointers', 'constructor init list -> assignments in declared order (TLS members skipped)'],
        'not_decided': ['stage_task::execute_filter / try_spawn_stage_task token accounting (live-token bound)', 'end_of_input races with parallel first filters', 'thread-local end-of-input flags',
                        'unordered serial buffers: which item is released (items carry no token there)', 'return of the call (wait_ctx, C01)'],
        'assumptions': ['at most 2^16 outstanding tokens per buffer', 'tokens do not wrap around 2^64'],
    }


def replay(ctx, jobname, failure):
    exe = native.build([os.path.join(HERE, 'c07_replay.cpp')], os.path.join(ctx.work, 'c07_replay'), flags=['-fno-access-control', '-I', os.path.join(ctx.repo, 'src')], link_tbb=True)
    rc, out = native.run([exe, jobname], timeout=120)
    rep = {'cmd': exe + ' ' + jobname, 'rc': rc, 'output': out[-1500:], 'reproduced': False, 'detail': 'native recipes found no failing sequence'}
    m = re.search(r'REPRODUCED (.*)', out)
    if m:
        rep['reproduced'] = True
        rep['detail'] = m.group(1)
        w = re.search(r'class=(\S+)', m.group(1))
        rep['witness_class'] = w.group(1) if w else None
    return rep
