/* C07 harnesses: the pipeline's token buffer (input_buffer), function contracts + loop contracts.  ib*.inc are generated from /repo. */
#include "verif.h"
#include <stdlib.h>
typedef unsigned long Token; typedef Token size_type;
#include "ib_struct.inc"
#define initial_buffer_size ((size_type)4)
#define MAXSZ (1UL << 16)
#define POW2(x) ((x) != 0 && (((x) & ((x) - 1)) == 0))
#define LOCK_HELD() ((void)0)
Token GH_t;   /* ghost: one arbitrary token (Skolem constant, never constrained by a harness) */
static void *alloc_nofail(size_t n) { void *p = malloc(n); __CPROVER_assume(p != NULL); return p; }

#define SLOT(b, t) ((b)->array[(t) & ((b)->array_size - 1)])
#define RI_SHAPE(b) (POW2((b)->array_size) && (b)->array_size >= 4 && (b)->array_size <= MAXSZ)
/* ordered buffers, for a token t of the current window [low, low+size) (each slot has exactly one such representative):
   a valid slot holds the item whose own token is t; t is not low (that one runs, it is never parked) and was handed out already */
#define RI_AT(b, t) (((b)->is_ordered && (t) - (b)->low_token < (b)->array_size && SLOT(b, t).is_valid) ==> \
                     (SLOT(b, t).my_token == (t) && (t) != (b)->low_token && SLOT(b, t).my_token_ready && (t) - (b)->low_token < (b)->high_token - (b)->low_token))
#define SAME_ITEM(a, b) ((a).is_valid == (b).is_valid && (a).my_token == (b).my_token && (a).my_object == (b).my_object && (a).my_token_ready == (b).my_token_ready)

#define CONTRACT_grow \
 __CPROVER_requires(__CPROVER_is_fresh(self, sizeof(*self))) \
 __CPROVER_requires((self->array_size == 0 && self->array == NULL) || (RI_SHAPE(self) && __CPROVER_is_fresh(self->array, self->array_size * sizeof(task_info)))) \
 __CPROVER_requires(minimum_size <= 2 * MAXSZ) \
 __CPROVER_assigns(self->array, self->array_size) __CPROVER_frees(self->array) \
 __CPROVER_ensures(POW2(self->array_size) && self->array_size >= 4 && self->array_size >= minimum_size && self->array_size >= 2 * __CPROVER_old(self->array_size) && self->array_size <= 4 * MAXSZ) \
 __CPROVER_ensures(self->low_token == __CPROVER_old(self->low_token) && self->high_token == __CPROVER_old(self->high_token) && self->is_ordered == __CPROVER_old(self->is_ordered)) \
 __CPROVER_ensures(__CPROVER_is_fresh(self->array, self->array_size * sizeof(task_info))) \
 /* an arbitrary token of the new window: its item is kept if it lay in the old window, its slot is invalid otherwise */ \
 __CPROVER_ensures((GH_t - self->low_token < __CPROVER_old(self->array_size)) \
      ? (SLOT(self, GH_t).is_valid == __CPROVER_old(SLOT(self, GH_t).is_valid) && SLOT(self, GH_t).my_token == __CPROVER_old(SLOT(self, GH_t).my_token) \
         && SLOT(self, GH_t).my_object == __CPROVER_old(SLOT(self, GH_t).my_object) && SLOT(self, GH_t).my_token_ready == __CPROVER_old(SLOT(self, GH_t).my_token_ready)) \
      : (GH_t - self->low_token < self->array_size ==> !SLOT(self, GH_t).is_valid))
#define LOOP_grow_1 __CPROVER_assigns(new_size) __CPROVER_loop_invariant(POW2(new_size) && new_size >= 4 && new_size <= 4 * MAXSZ && new_size >= 2 * old_size) __CPROVER_decreases(8 * MAXSZ - new_size)
#define LOOP_grow_2 __CPROVER_assigns(i, __CPROVER_object_whole(new_array)) __CPROVER_loop_invariant(i <= new_size) \
   __CPROVER_loop_invariant((GH_t & (new_size - 1)) < i ==> !new_array[GH_t & (new_size - 1)].is_valid) __CPROVER_decreases(new_size - i)
#define LOOP_grow_3 __CPROVER_assigns(i, t, __CPROVER_object_whole(new_array)) \
   __CPROVER_loop_invariant(i <= old_size && t == self->low_token + i && POW2(old_size) && POW2(new_size) && new_size >= 2 * old_size) \
   __CPROVER_loop_invariant((GH_t - self->low_token < i) ? SAME_ITEM(new_array[GH_t & (new_size - 1)], old_array[GH_t & (old_size - 1)]) \
                                                          : (GH_t - self->low_token < new_size ==> !new_array[GH_t & (new_size - 1)].is_valid)) __CPROVER_decreases(old_size - i)

#define CONTRACT_put
bool g_spawned; task_info g_spawned_item;
static void STUB_spawn_stage_task(task_info *w) { g_spawned = true; g_spawned_item = *w; }
#define CONTRACT_next
#include "ib.inc"

void h_grow(void) { struct input_buffer *s; size_type m; input_buffer_grow(s, m); VACUITY_END(); }
void h_put(void) {
    struct input_buffer *s = malloc(sizeof(*s)); __CPROVER_assume(s != NULL);
    s->array_size = nondet_size_t(); s->low_token = nondet_size_t(); s->high_token = nondet_size_t(); s->is_ordered = nondet_bool();
    __CPROVER_assume(RI_SHAPE(s));
    s->array = malloc(s->array_size * sizeof(task_info)); __CPROVER_assume(s->array != NULL);
    task_info item; item.my_object = nondet_ptr(); item.my_token = nondet_size_t(); item.my_token_ready = nondet_bool(); item.is_valid = nondet_bool();
    task_info *info = &item;
    __CPROVER_assume(RI_AT(s, GH_t));
    __CPROVER_assume(s->high_token - s->low_token <= MAXSZ);                                             /* at most MAXSZ tokens outstanding */
    __CPROVER_assume(!(s->is_ordered && info->my_token_ready) || info->my_token - s->low_token < s->high_token - s->low_token);  /* a token handed out earlier, not yet released */
    /* each item is put once per filter: its token is not parked already */
    __CPROVER_assume(!(s->is_ordered && info->my_token_ready && info->my_token == GH_t && GH_t - s->low_token < s->array_size) || !SLOT(s, GH_t).is_valid);
    Token low0 = s->low_token, high0 = s->high_token, size0 = s->array_size; bool ord = s->is_ordered;
    task_info in0 = *info, gh0 = SLOT(s, GH_t);
    bool parked = input_buffer_try_put_token(s, info);
    OBLIGATION(POW2(s->array_size) && s->array_size >= 4 && s->array_size >= size0, "C07.put: the buffer stays a power of two and never shrinks");
    OBLIGATION(s->low_token == low0 && s->is_ordered == ord, "C07.put: low_token is not moved by a put");
    OBLIGATION(info->is_valid && info->my_object == in0.my_object, "C07.put: the item is marked valid and its object is untouched");
    if (ord) {
        OBLIGATION(info->my_token_ready, "C07.put: an ordered filter gives the item a token");
        OBLIGATION(in0.my_token_ready ? (info->my_token == in0.my_token && s->high_token == high0) : (info->my_token == high0 && s->high_token == high0 + 1),
                   "C07.put: the token is assigned once (next ticket) and never reassigned");
        OBLIGATION(parked == (info->my_token != low0), "C07.put: the caller runs the item now iff it carries the lowest outstanding token, otherwise it is parked");
        if (parked) {
            OBLIGATION(info->my_token - low0 < s->array_size, "C07.put: a parked token lies inside the window (outstanding tokens never share a slot)");
            OBLIGATION(SLOT(s, info->my_token).is_valid && SLOT(s, info->my_token).my_token == info->my_token && SLOT(s, info->my_token).my_object == info->my_object,
                       "C07.put: the item is parked, unmodified, in the slot of its own token");
        }
        if (GH_t - low0 < size0 && GH_t != info->my_token)
            OBLIGATION((SLOT(s, GH_t).is_valid != 0) == (gh0.is_valid != 0) && (!gh0.is_valid || (SLOT(s, GH_t).my_token == gh0.my_token && SLOT(s, GH_t).my_object == gh0.my_object)),
                       "C07.put: every other parked item keeps its slot content (also across a grow)");
    } else {
        OBLIGATION(s->high_token == high0 + 1 && parked == (high0 != low0), "C07.put: unordered serial filter: tickets are unique and only the lowest one runs now");
    }
    OBLIGATION(RI_AT(s, GH_t), "C07.put: buffer invariant preserved at an arbitrary token");
    VACUITY_END();
}
void h_next(void) {
    struct input_buffer b; b.array_size = nondet_size_t(); b.low_token = nondet_size_t(); b.high_token = nondet_size_t(); b.is_ordered = nondet_bool();
    __CPROVER_assume(RI_SHAPE(&b));
    b.array = malloc(b.array_size * sizeof(task_info)); __CPROVER_assume(b.array != NULL);
    struct input_buffer *s = &b;
    __CPROVER_assume(RI_AT(s, GH_t) && RI_AT(s, s->low_token + 1) && RI_AT(s, s->low_token));   /* the invariant, instantiated at the ghost token, the next token and low_token */
    Token low0 = s->low_token, high0 = s->high_token, size0 = s->array_size;
    task_info next0 = SLOT(s, low0 + 1), gh0 = SLOT(s, GH_t);
    g_spawned = false;
    input_buffer_try_to_spawn_task_for_next_token(s, 0);
    OBLIGATION(s->low_token == low0 + 1 && s->array_size == size0 && s->high_token == high0, "C07.next: low_token advances by exactly one, nothing else moves");
    OBLIGATION((g_spawned != 0) == (next0.is_valid != 0), "C07.next: a stage task is spawned iff an item was parked under the new low_token");
    OBLIGATION(!g_spawned || g_spawned_item.my_object == next0.my_object, "C07.next: the released item is the parked one, unmodified");
    OBLIGATION(!(g_spawned && s->is_ordered) || g_spawned_item.my_token == s->low_token, "C07.next: ordered filter: the released item carries exactly the new low_token (items leave in token order)");
    OBLIGATION(!SLOT(s, s->low_token).is_valid, "C07.next: the released slot is invalidated (the item is released once)");
    OBLIGATION(RI_AT(s, GH_t), "C07.next: buffer invariant preserved at an arbitrary token");
    if (((GH_t ^ s->low_token) & (s->array_size - 1)) != 0)
        OBLIGATION(SLOT(s, GH_t).is_valid == gh0.is_valid && SLOT(s, GH_t).my_object == gh0.my_object && SLOT(s, GH_t).my_token == gh0.my_token, "C07.next: every other parked item is untouched");
    VACUITY_END();
}
void h_ctor(void) {
    struct input_buffer *b = malloc(sizeof(*b)); __CPROVER_assume(b != NULL);
    bool ordered = nondet_bool();
    input_buffer_ctor(b, ordered);
    OBLIGATION(b->array_size >= 4 && POW2(b->array_size) && b->low_token == 0 && b->high_token == 0 && b->is_ordered == ordered, "C07.ctor: empty buffer of a power-of-two size >= 4, tokens start at 0");
    OBLIGATION(GH_t < b->array_size ==> !SLOT(b, GH_t).is_valid, "C07.ctor: no slot is valid in a new buffer");
    Token t1 = input_buffer_get_ordered_token(b), t2 = input_buffer_get_ordered_token(b);
    OBLIGATION(t1 == 0 && t2 == 1 && b->high_token == 2, "C07.order: get_ordered_token hands out consecutive, unique tokens");
    VACUITY_END();
}
