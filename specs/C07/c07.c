/* C07 harnesses: the pipeline's token buffer (input_buffer), function contracts + loop contracts.  ib*.inc are generated from /repo. */
#include "verif.h"
#include <stdlib.h>
typedef unsigned long Token; typedef Token size_type;
#include "ib_struct.inc"
#define initial_buffer_size ((size_type)4)
#define MAXSZ (1UL << 16)
#define POW2(x) ((x) != 0 && (((x) & ((x) - 1)) == 0))
#define LOCK_HELD() ((void)0)
Token GH_t;   /* ghost: one arbitrary token (Skolem constant, never constrained by a harness) */
static void *alloc_nofail(size_t n) { void *p = malloc(n); __CPROVER_assume(p != NULL); return p; }

#define SLOT(b, t) ((b)->array[(t) & ((b)->array_size - 1)])
#define RI_SHAPE(b) (POW2((b)->array_size) && (b)->array_size >= 4 && (b)->array_size <= MAXSZ)
/* ordered buffers: a valid slot holds an item whose own token lies in the window (low, low+size) and hashes to that slot */
#define RI_AT(b, t) (((b)->is_ordered && SLOT(b, t).is_valid) ==> (SLOT(b, t).my_token - (b)->low_token > 0 && SLOT(b, t).my_token - (b)->low_token < (b)->array_size \
                     && ((SLOT(b, t).my_token ^ (t)) & ((b)->array_size - 1)) == 0 && SLOT(b, t).my_token_ready))
#define SAME_ITEM(a, b) ((a).is_valid == (b).is_valid && (a).my_token == (b).my_token && (a).my_object == (b).my_object && (a).my_token_ready == (b).my_token_ready)

#define CONTRACT_grow \
 __CPROVER_requires(__CPROVER_is_fresh(self, sizeof(*self))) \
 __CPROVER_requires((self->array_size == 0 && self->array == NULL) || (RI_SHAPE(self) && __CPROVER_is_fresh(self->array, self->array_size * sizeof(task_info)))) \
 __CPROVER_requires(minimum_size <= 2 * MAXSZ) \
 __CPROVER_assigns(self->array, self->array_size) __CPROVER_frees(self->array) \
 __CPROVER_ensures(POW2(self->array_size) && self->array_size >= 4 && self->array_size >= minimum_size && self->array_size >= 2 * __CPROVER_old(self->array_size) && self->array_size <= 4 * MAXSZ) \
 __CPROVER_ensures(self->low_token == __CPROVER_old(self->low_token) && self->high_token == __CPROVER_old(self->high_token) && self->is_ordered == __CPROVER_old(self->is_ordered)) \
 __CPROVER_ensures(__CPROVER_is_fresh(self->array, self->array_size * sizeof(task_info))) \
 /* an arbitrary token of the new window: its item is kept if it lay in the old window, its slot is invalid otherwise */ \
 __CPROVER_ensures((GH_t - self->low_token < __CPROVER_old(self->array_size)) \
      ? (SLOT(self, GH_t).is_valid == __CPROVER_old(SLOT(self, GH_t).is_valid) && SLOT(self, GH_t).my_token == __CPROVER_old(SLOT(self, GH_t).my_token) \
         && SLOT(self, GH_t).my_object == __CPROVER_old(SLOT(self, GH_t).my_object) && SLOT(self, GH_t).my_token_ready == __CPROVER_old(SLOT(self, GH_t).my_token_ready)) \
      : (GH_t - self->low_token < self->array_size ==> !SLOT(self, GH_t).is_valid))
#define LOOP_grow_1 __CPROVER_assigns(new_size) __CPROVER_loop_invariant(POW2(new_size) && new_size >= 4 && new_size <= 4 * MAXSZ && new_size >= 2 * old_size) __CPROVER_decreases(8 * MAXSZ - new_size)
#define LOOP_grow_2 __CPROVER_assigns(i, __CPROVER_object_whole(new_array)) __CPROVER_loop_invariant(i <= new_size) \
   __CPROVER_loop_invariant((GH_t & (new_size - 1)) < i ==> !new_array[GH_t & (new_size - 1)].is_valid) __CPROVER_decreases(new_size - i)
#define LOOP_grow_3 __CPROVER_assigns(i, t, __CPROVER_object_whole(new_array)) \
   __CPROVER_loop_invariant(i <= old_size && t == self->low_token + i && POW2(old_size) && POW2(new_size) && new_size >= 2 * old_size) \
   __CPROVER_loop_invariant((GH_t - self->low_token < i) ? SAME_ITEM(new_array[GH_t & (new_size - 1)], old_array[GH_t & (old_size - 1)]) \
                                                          : (GH_t - self->low_token < new_size ==> !new_array[GH_t & (new_size - 1)].is_valid)) __CPROVER_decreases(old_size - i)

#define CONTRACT_put \
 __CPROVER_requires(__CPROVER_is_fresh(self, sizeof(*self)) && RI_SHAPE(self) && __CPROVER_is_fresh(self->array, self->array_size * sizeof(task_info)) && __CPROVER_is_fresh(info, sizeof(*info))) \
 __CPROVER_requires(RI_AT(self, GH_t)) \
 __CPROVER_requires(self->high_token - self->low_token <= MAXSZ)                    /* at most MAXSZ tokens outstanding */ \
 __CPROVER_requires((self->is_ordered && info->my_token_ready) ==> (info->my_token - self->low_token < MAXSZ))   /* a token handed out earlier and not yet released */ \
 /* each item is put once per filter: its token is not parked already */ \
 __CPROVER_requires((self->is_ordered && info->my_token_ready && ((info->my_token ^ GH_t) & (self->array_size - 1)) == 0 && info->my_token - self->low_token < self->array_size) ==> !SLOT(self, GH_t).is_valid) \
 __CPROVER_assigns(self->array, self->array_size, self->high_token, *info, __CPROVER_object_whole(self->array)) __CPROVER_frees(self->array) \
 __CPROVER_ensures(POW2(self->array_size) && self->array_size >= 4 && self->array_size <= 4 * MAXSZ && self->array_size >= __CPROVER_old(self->array_size)) \
 __CPROVER_ensures(self->low_token == __CPROVER_old(self->low_token) && self->is_ordered == __CPROVER_old(self->is_ordered)) \
 __CPROVER_ensures(info->is_valid && info->my_object == __CPROVER_old(info->my_object)) \
 __CPROVER_ensures(self->is_ordered ==> (info->my_token_ready && (__CPROVER_old(info->my_token_ready) ? (info->my_token == __CPROVER_old(info->my_token) && self->high_token == __CPROVER_old(self->high_token)) \
                                                               : (info->my_token == __CPROVER_old(self->high_token) && self->high_token == __CPROVER_old(self->high_token) + 1)))) \
 __CPROVER_ensures(!self->is_ordered ==> self->high_token == __CPROVER_old(self->high_token) + 1) \
 /* run now (false) iff it is the lowest outstanding token; otherwise parked under its own token, unmodified, inside the window */ \
 __CPROVER_ensures(self->is_ordered ==> (__CPROVER_return_value == (info->my_token != self->low_token))) \
 __CPROVER_ensures(!self->is_ordered ==> (__CPROVER_return_value == (__CPROVER_old(self->high_token) != self->low_token))) \
 __CPROVER_ensures((self->is_ordered && __CPROVER_return_value) ==> (info->my_token - self->low_token < self->array_size && SLOT(self, info->my_token).is_valid \
                    && SLOT(self, info->my_token).my_token == info->my_token && SLOT(self, info->my_token).my_object == info->my_object)) \
 __CPROVER_ensures(RI_AT(self, GH_t)) \
 /* frame: an arbitrary OTHER parked token keeps its item */ \
 __CPROVER_ensures((self->is_ordered && GH_t - self->low_token < __CPROVER_old(self->array_size) && GH_t != info->my_token) ==> \
      (SLOT(self, GH_t).is_valid == __CPROVER_old(SLOT(self, GH_t).is_valid) && SLOT(self, GH_t).my_token == __CPROVER_old(SLOT(self, GH_t).my_token) && SLOT(self, GH_t).my_object == __CPROVER_old(SLOT(self, GH_t).my_object)))

bool g_spawned; task_info g_spawned_item;
static void STUB_spawn_stage_task(task_info *w) { g_spawned = true; g_spawned_item = *w; }
#define CONTRACT_next \
 __CPROVER_requires(__CPROVER_is_fresh(self, sizeof(*self)) && RI_SHAPE(self) && __CPROVER_is_fresh(self->array, self->array_size * sizeof(task_info))) \
 __CPROVER_requires(RI_AT(self, GH_t) && RI_AT(self, self->low_token + 1)) \
 __CPROVER_assigns(self->low_token, __CPROVER_object_whole(self->array), g_spawned, g_spawned_item) \
 __CPROVER_ensures(self->low_token == __CPROVER_old(self->low_token) + 1 && self->array_size == __CPROVER_old(self->array_size) && self->high_token == __CPROVER_old(self->high_token)) \
 /* exactly the item parked under the new low_token is released, if there is one; its slot is invalidated so it is released once */ \
 __CPROVER_ensures(g_spawned == __CPROVER_old(SLOT(self, self->low_token + 1).is_valid)) \
 __CPROVER_ensures(g_spawned ==> (g_spawned_item.my_object == __CPROVER_old(SLOT(self, self->low_token + 1).my_object) && (self->is_ordered ==> g_spawned_item.my_token == self->low_token))) \
 __CPROVER_ensures(!SLOT(self, self->low_token).is_valid) \
 __CPROVER_ensures(RI_AT(self, GH_t)) \
 __CPROVER_ensures(((GH_t ^ self->low_token) & (self->array_size - 1)) != 0 ==> (SLOT(self, GH_t).is_valid == __CPROVER_old(SLOT(self, GH_t).is_valid) && SLOT(self, GH_t).my_object == __CPROVER_old(SLOT(self, GH_t).my_object)))

#include "ib.inc"

void h_grow(void) { struct input_buffer *s; size_type m; input_buffer_grow(s, m); VACUITY_END(); }
void h_put(void) { struct input_buffer *s; task_info *i; input_buffer_try_put_token(s, i); VACUITY_END(); }
void h_next(void) { struct input_buffer *s; g_spawned = false; input_buffer_try_to_spawn_task_for_next_token(s, 0); VACUITY_END(); }
void h_ctor(void) {
    struct input_buffer *b = malloc(sizeof(*b)); __CPROVER_assume(b != NULL);
    bool ordered = nondet_bool();
    input_buffer_ctor(b, ordered);
    OBLIGATION(b->array_size >= 4 && POW2(b->array_size) && b->low_token == 0 && b->high_token == 0 && b->is_ordered == ordered, "C07.ctor: empty buffer of a power-of-two size >= 4, tokens start at 0");
    OBLIGATION(GH_t < b->array_size ==> !SLOT(b, GH_t).is_valid, "C07.ctor: no slot is valid in a new buffer");
    Token t1 = input_buffer_get_ordered_token(b), t2 = input_buffer_get_ordered_token(b);
    OBLIGATION(t1 == 0 && t2 == 1 && b->high_token == 2, "C07.order: get_ordered_token hands out consecutive, unique tokens");
    VACUITY_END();
}
