/* C07 harnesses: the pipeline's token buffer (input_buffer), function contracts + loop contracts.  ib*.inc are generated from /repo. */
#include "verif.h"
#include <stdlib.h>
typedef unsigned long Token; typedef Token size_type;
#include "ib_struct.inc"
#define initial_buffer_size ((size_type)4)
#define MAXSZ (1UL << 16)
#define POW2(x) ((x) != 0 && (((x) & ((x) - 1)) == 0))
#define LOCK_HELD() ((void)0)
Token GH_t;   /* ghost: one arbitrary token (Skolem constant, never constrained by a harness) */
static void *alloc_nofail(size_t n) { void *p = malloc(n); __CPROVER_assume(p != NULL); return p; }

#define SLOT(b, t) ((b)->array[(t) & ((b)->array_size - 1)])
#define RI_SHAPE(b) (POW2((b)->array_size) && (b)->array_size >= 4 && (b)->array_size <= MAXSZ)
/* The issue frontier GH_lim: every token/ticket handed out so far is < GH_lim.  A buffer that draws the numbers itself (GH_issuer: every unordered serial buffer - one ticket per
   put - and the buffer of the first serial_in_order filter when items reach it without a token) has GH_lim == high_token; an ordered buffer that is fed with tokens drawn by an
   earlier serial_in_order filter never touches its own high_token, there GH_lim stands for the high_token of that earlier buffer.
   Invariant, for a token/ticket t of the current window [low, low+size) (each slot has exactly one such representative): a valid slot holds an item whose number is t; t is not low
   (that one runs, it is never parked) and was handed out already; in an ordered buffer the item carries t as its token. */
Token GH_lim; bool GH_issuer;
#define LIM_OK(b) ((!(b)->is_ordered ==> GH_issuer) && (GH_issuer ==> GH_lim == (b)->high_token) && GH_lim - (b)->low_token <= MAXSZ)
#define RI_AT(b, t) (((t) - (b)->low_token < (b)->array_size && SLOT(b, t).is_valid) ==> \
                     ((t) != (b)->low_token && (t) - (b)->low_token < GH_lim - (b)->low_token && ((b)->is_ordered ==> (SLOT(b, t).my_token == (t) && SLOT(b, t).my_token_ready))))
#define SAME_ITEM(a, b) ((a).is_valid == (b).is_valid && (a).my_token == (b).my_token && (a).my_object == (b).my_object && (a).my_token_ready == (b).my_token_ready)

#ifndef STAGE
#define CONTRACT_grow \
 __CPROVER_requires(__CPROVER_is_fresh(self, sizeof(*self))) \
 __CPROVER_requires((self->array_size == 0 && self->array == NULL) || (RI_SHAPE(self) && __CPROVER_is_fresh(self->array, self->array_size * sizeof(task_info)))) \
 __CPROVER_requires(minimum_size <= 2 * MAXSZ) \
 __CPROVER_assigns(self->array, self->array_size) __CPROVER_frees(self->array) \
 __CPROVER_ensures(POW2(self->array_size) && self->array_size >= 4 && self->array_size >= minimum_size && self->array_size >= 2 * __CPROVER_old(self->array_size) && self->array_size <= 4 * MAXSZ) \
 __CPROVER_ensures(self->low_token == __CPROVER_old(self->low_token) && self->high_token == __CPROVER_old(self->high_token) && self->is_ordered == __CPROVER_old(self->is_ordered)) \
 __CPROVER_ensures(__CPROVER_is_fresh(self->array, self->array_size * sizeof(task_info))) \
 /* an arbitrary token of the new window: its item is kept if it lay in the old window, its slot is invalid otherwise */ \
 __CPROVER_ensures((GH_t - self->low_token < __CPROVER_old(self->array_size)) \
      ? (SLOT(self, GH_t).is_valid == __CPROVER_old(SLOT(self, GH_t).is_valid) && SLOT(self, GH_t).my_token == __CPROVER_old(SLOT(self, GH_t).my_token) \
         && SLOT(self, GH_t).my_object == __CPROVER_old(SLOT(self, GH_t).my_object) && SLOT(self, GH_t).my_token_ready == __CPROVER_old(SLOT(self, GH_t).my_token_ready)) \
      : (GH_t - self->low_token < self->array_size ==> !SLOT(self, GH_t).is_valid))
#define LOOP_grow_size __CPROVER_assigns(new_size) __CPROVER_loop_invariant(POW2(new_size) && new_size >= 4 && new_size <= 4 * MAXSZ && new_size >= 2 * old_size) __CPROVER_decreases(8 * MAXSZ - new_size)
#define LOOP_grow_init __CPROVER_assigns(i, __CPROVER_object_whole(new_array)) __CPROVER_loop_invariant(i <= new_size) \
   __CPROVER_loop_invariant((GH_t & (new_size - 1)) < i ==> !new_array[GH_t & (new_size - 1)].is_valid) __CPROVER_decreases(new_size - i)
#define LOOP_grow_rehash __CPROVER_assigns(i, t, __CPROVER_object_whole(new_array)) \
   __CPROVER_loop_invariant(i <= old_size && t == self->low_token + i && POW2(old_size) && POW2(new_size) && new_size >= 2 * old_size) \
   __CPROVER_loop_invariant((GH_t - self->low_token < i) ? SAME_ITEM(new_array[GH_t & (new_size - 1)], old_array[GH_t & (old_size - 1)]) \
                                                          : (GH_t - self->low_token < new_size ==> !new_array[GH_t & (new_size - 1)].is_valid)) __CPROVER_decreases(old_size - i)

#define CONTRACT_put
bool g_spawned; task_info g_spawned_item;
static void STUB_spawn_stage_task(task_info *w) { g_spawned = true; g_spawned_item = *w; }
#define CONTRACT_next
#include "ib.inc"

void h_grow(void) { struct input_buffer *s; size_type m; input_buffer_grow(s, m); VACUITY_END(); }
void h_put(void) {
    struct input_buffer *s = malloc(sizeof(*s)); __CPROVER_assume(s != NULL);
    s->array_size = nondet_size_t(); s->low_token = nondet_size_t(); s->high_token = nondet_size_t(); s->is_ordered = nondet_bool();
#if defined(PUT_ORDERED)
    __CPROVER_assume(s->is_ordered);
#elif defined(PUT_UNORDERED)
    __CPROVER_assume(!s->is_ordered);
#endif
    __CPROVER_assume(RI_SHAPE(s));
    s->array = malloc(s->array_size * sizeof(task_info)); __CPROVER_assume(s->array != NULL);
    task_info item; item.my_object = nondet_ptr(); item.my_token = nondet_size_t(); item.my_token_ready = nondet_bool(); item.is_valid = nondet_bool();
    task_info *info = &item;
    __CPROVER_assume(LIM_OK(s));                                                                         /* at most MAXSZ tokens outstanding */
    __CPROVER_assume(RI_AT(s, GH_t));
    if (s->is_ordered) {
        /* either this is the first serial_in_order filter the items meet (none has a token yet: stage.step "arrives at the next buffer without a token") or every item has one, drawn earlier, not yet released here */
        __CPROVER_assume(GH_issuer ? !info->my_token_ready : (info->my_token_ready && info->my_token - s->low_token < GH_lim - s->low_token));
        /* each item is put once per filter: its token is not parked already */
        __CPROVER_assume(!(info->my_token_ready && info->my_token == GH_t && GH_t - s->low_token < s->array_size) || !SLOT(s, GH_t).is_valid);
    }
    Token low0 = s->low_token, high0 = s->high_token, size0 = s->array_size; bool ord = s->is_ordered;
    task_info in0 = *info, gh0 = SLOT(s, GH_t);
    bool parked = input_buffer_try_put_token(s, info);
    if (GH_issuer) GH_lim = s->high_token;
    OBLIGATION(POW2(s->array_size) && s->array_size >= 4 && s->array_size >= size0, "C07.put: the buffer stays a power of two and never shrinks");
    OBLIGATION(s->low_token == low0 && s->is_ordered == ord, "C07.put: low_token is not moved by a put");
    OBLIGATION(info->is_valid && info->my_object == in0.my_object, "C07.put: the item is marked valid and its object is untouched");
    Token tk;    /* the number under which the item is known to this buffer */
    if (ord) {
        OBLIGATION(info->my_token_ready, "C07.put: an ordered filter gives the item a token");
        OBLIGATION(in0.my_token_ready ? (info->my_token == in0.my_token && s->high_token == high0) : (info->my_token == high0 && s->high_token == high0 + 1),
                   "C07.put: the token is assigned once (next ticket) and never reassigned");
        tk = info->my_token;
    } else {
        OBLIGATION(s->high_token == high0 + 1, "C07.put: unordered serial filter: every put draws a ticket of its own (tickets are unique)");
        OBLIGATION(info->my_token == in0.my_token && info->my_token_ready == in0.my_token_ready, "C07.put: unordered serial filter: the item's ordered token (if it has one) is left alone");
        tk = high0;
    }
    OBLIGATION(parked == (tk != low0), "C07.put: the caller runs the item now iff it carries the lowest outstanding token/ticket, otherwise it is parked (one invocation of a serial filter at a time)");
    if (parked) {
        OBLIGATION(tk - low0 < s->array_size, "C07.put: a parked token lies inside the window (outstanding tokens never share a slot)");
        OBLIGATION(SLOT(s, tk).is_valid && SLOT(s, tk).my_object == info->my_object && SLOT(s, tk).my_token == info->my_token && SLOT(s, tk).my_token_ready == info->my_token_ready,
                   "C07.put: the item is parked, unmodified, in the slot of its own token/ticket");
    }
    if (GH_t - low0 < size0 && GH_t != tk)
        OBLIGATION((SLOT(s, GH_t).is_valid != 0) == (gh0.is_valid != 0) && (!gh0.is_valid || (SLOT(s, GH_t).my_token == gh0.my_token && SLOT(s, GH_t).my_object == gh0.my_object && SLOT(s, GH_t).my_token_ready == gh0.my_token_ready)),
                   "C07.put: every other parked item keeps its slot content (also across a grow): none is lost or overwritten");
    OBLIGATION(RI_AT(s, GH_t), "C07.put: buffer invariant preserved at an arbitrary token");
    OBLIGATION((GH_issuer ==> GH_lim == s->high_token) && GH_lim - s->low_token <= MAXSZ + 1, "C07.put: the issue frontier follows high_token");
    VACUITY_END();
}
void h_next(void) {
    struct input_buffer b; b.array_size = nondet_size_t(); b.low_token = nondet_size_t(); b.high_token = nondet_size_t(); b.is_ordered = nondet_bool();
    __CPROVER_assume(RI_SHAPE(&b));
    b.array = malloc(b.array_size * sizeof(task_info)); __CPROVER_assume(b.array != NULL);
    struct input_buffer *s = &b;
    __CPROVER_assume(LIM_OK(s) && GH_lim - s->low_token >= 1);                                    /* the caller has just run the item with token/ticket low_token: that number was handed out */
    __CPROVER_assume(RI_AT(s, GH_t) && RI_AT(s, s->low_token + 1) && RI_AT(s, s->low_token));   /* the invariant, instantiated at the ghost token, the next token and low_token */
    Token low0 = s->low_token, high0 = s->high_token, size0 = s->array_size;
    task_info next0 = SLOT(s, low0 + 1), gh0 = SLOT(s, GH_t);
    g_spawned = false;
    input_buffer_try_to_spawn_task_for_next_token(s, 0);
    OBLIGATION(s->low_token == low0 + 1 && s->array_size == size0 && s->high_token == high0, "C07.next: low_token advances by exactly one, nothing else moves");
    OBLIGATION((g_spawned != 0) == (next0.is_valid != 0), "C07.next: a stage task is spawned iff an item was parked under the new low_token");
    OBLIGATION(!g_spawned || (g_spawned_item.my_object == next0.my_object && g_spawned_item.my_token == next0.my_token && g_spawned_item.my_token_ready == next0.my_token_ready), "C07.next: the released item is the parked one, unmodified");
    OBLIGATION(!(g_spawned && s->is_ordered) || g_spawned_item.my_token == s->low_token, "C07.next: ordered filter: the released item carries exactly the new low_token (items leave in token order)");
    OBLIGATION(!SLOT(s, s->low_token).is_valid, "C07.next: the released slot is invalidated (the item is released once)");
    OBLIGATION(RI_AT(s, GH_t), "C07.next: buffer invariant preserved at an arbitrary token");
    if (((GH_t ^ s->low_token) & (s->array_size - 1)) != 0)
        OBLIGATION(SLOT(s, GH_t).is_valid == gh0.is_valid && SLOT(s, GH_t).my_object == gh0.my_object && SLOT(s, GH_t).my_token == gh0.my_token, "C07.next: every other parked item is untouched (serial_out_of_order: parked items leave one at a time in ticket order, none is lost)");
    VACUITY_END();
}
void h_ctor(void) {
    struct input_buffer *b = malloc(sizeof(*b)); __CPROVER_assume(b != NULL);
    bool ordered = nondet_bool();
    input_buffer_ctor(b, ordered);
    OBLIGATION(b->array_size >= 4 && POW2(b->array_size) && b->low_token == 0 && b->high_token == 0 && b->is_ordered == ordered, "C07.ctor: empty buffer of a power-of-two size >= 4, tokens start at 0");
    OBLIGATION(GH_t < b->array_size ==> !SLOT(b, GH_t).is_valid, "C07.ctor: no slot is valid in a new buffer");
    Token t1 = input_buffer_get_ordered_token(b), t2 = input_buffer_get_ordered_token(b);
    OBLIGATION(t1 == 0 && t2 == 1 && b->high_token == 2, "C07.order: get_ordered_token hands out consecutive, unique tokens");
    VACUITY_END();
}

#else /* ======================================================= STAGE =======================================================
   The per-item stage machine (stage_task), the token counter and the construction of the filter chain.  Everything that is executed is extracted text
   (stage.inc, pipeline.inc, seoi.inc, ib_stage.inc); this section supplies the C types, the stubs of callees outside the pipeline and the ghost state.

   One call of stage_task::execute is one STEP of one task.  The step is verified for an arbitrary task (input-stage task or a task that carries an item at an
   arbitrary filter of an arbitrary chain: the filter it stands at, F0, has an arbitrary mode, so has its successor F1 if there is one) under arbitrary
   interference of any number of other tasks on the two shared words pipeline::input_tokens and pipeline::end_of_input (rely/guarantee, SC).

   Ghost census of the token counter (max = max_number_of_live_tokens):
     PRE   = number of tasks that hold the INPUT ROLE (an input-stage task that has not taken its token yet, or a task that is committed to create/become one)
     held  = items that hold a token (carried by a task or parked in a buffer),  lost = tokens taken by an input task that then met end of input
   INV_T:  PRE <= 1;  PRE == 1 ==> input_tokens >= 1  (the token the input role will take is reserved: the counter never underflows and at most max items are in flight);
           input_tokens + held + lost == max;   while end_of_input is false: lost == 0 and (input_tokens >= 1 ==> PRE == 1) (the pipeline does not run dry of input tasks). */
typedef struct { int id; } small_object_allocator;
typedef struct { int dummy; } execution_data;
typedef struct { long refs; } wait_context;
struct tgc { int dummy; };
#include "fnode_struct.inc"   /* filter_node_ptr is a counted pointer: bound to the raw pointer (reference counting is not part of C07) */
struct stage_task;
#include "stage_struct.inc"
#define LOCK_HELD() ((void)0)
#define MAXTOK (1UL << 62)
#define SERIAL(f) (((f)->my_filter_mode & filter_is_serial) != 0)
#define ORDERED(f) (SERIAL(f) && !((f)->my_filter_mode & filter_is_out_of_order))
#define MAYNULL(f) (((f)->my_filter_mode & filter_may_emit_null) != 0)

/* ---------------- the world of one step ---------------- */
static struct pipeline g_P; static struct base_filter g_F[3]; static struct input_buffer g_B[3]; static struct tgc g_ctx;
static struct stage_task g_task, g_newtask[2]; static execution_data g_ed;
static Token g_max, g_held_others, g_lost; static unsigned char g_pre_others;
static bool g_me_pre, g_me_holds, g_owe_spawn, g_owe_recycle;
#define PRE_CNT ((int)g_pre_others + (int)g_me_pre + (int)g_owe_spawn + (int)g_owe_recycle)
#define INV_T (g_max >= 1 && g_max <= MAXTOK && PRE_CNT <= 1 && (PRE_CNT == 1 ==> g_P.input_tokens >= 1) && g_P.input_tokens <= g_max && g_held_others <= g_max && g_lost <= g_max \
     && g_P.input_tokens + g_held_others + (Token)g_me_holds + g_lost == g_max && (!g_P.end_of_input ==> (g_lost == 0 && (g_P.input_tokens >= 1 ==> PRE_CNT == 1))))
static bool g_in_step;   /* interference is switched on inside a step only */
static void interfere(void) {   /* any number of steps of any number of other tasks on the two shared words: they keep INV_T, cannot touch my own ghost flags, and never lower end_of_input */
    if (!g_in_step) return;
    bool eoi0 = g_P.end_of_input;
    g_P.input_tokens = nondet_ulong(); g_P.end_of_input = nondet_bool(); g_pre_others = nondet_uchar(); g_held_others = nondet_ulong(); g_lost = nondet_ulong();
    __CPROVER_assume(INV_T); __CPROVER_assume(!eoi0 || g_P.end_of_input);
}
/* per-step log */
static bool g_at_start0; static task_info g_item0;
static int g_calls, g_next_calls, g_put_calls, g_take_calls, g_give_calls, g_spawn_calls, g_new_input, g_new_item, g_delete_calls, g_destroyed, g_reserved, g_released;
static struct base_filter *g_call_f; static void *g_call_arg, *g_call_ret; static bool g_stopped, g_tls_end, g_tls0, g_eoi_seen, g_eoi_raised;
static struct input_buffer *g_next_buf, *g_put_buf; static int g_next_at_calls; static struct base_filter *g_next_spawner_filter;
static task_info g_put_in, g_put_item; static bool g_put_parked, g_ready_at_take, g_pre_at_call, g_pre_at_ticket; static Token g_avail_seen;
static struct stage_task *g_spawned, *g_deleted; static struct base_filter *g_filter_at_delete; static void *g_object_at_delete;
static int g_ticket_calls; static Token g_high0;

#define ATOMIC_FETCH_SUB_AT(site, x, v) ({ interfere(); Token old_ = (x); \
      OBLIGATION(g_me_pre, "C07.tokens: a token is taken only by the task that holds the input role (one taker at a time, each item takes one token)"); \
      OBLIGATION(old_ >= 1, "C07.tokens: the free-token counter never underflows (no more than max_number_of_live_tokens items in flight)"); \
      (x) = old_ - (Token)(v); g_take_calls++; g_me_pre = false; g_me_holds = true; g_owe_spawn = (old_ > 1); g_ready_at_take = self->base.my_token_ready; \
      __CPROVER_assert(INV_T, "C07.tokens: guarantee: fetch_sub keeps the token census"); old_; })
#define ATOMIC_FETCH_ADD_AT(site, x, v) ({ interfere(); Token old_ = (x); \
      OBLIGATION(g_me_holds, "C07.tokens: a token is given back only for an item that holds one, once"); \
      (x) = old_ + (Token)(v); g_give_calls++; g_me_holds = false; g_owe_recycle = (old_ == 0); g_avail_seen = old_; \
      __CPROVER_assert(INV_T, "C07.tokens: guarantee: fetch_add keeps the token census"); old_; })
#define ATOMIC_LOAD_AT(site, x) ({ interfere(); bool v_ = (x); if (v_) g_eoi_seen = true; v_; })
#define ATOMIC_STORE_AT(site, x, v) ({ interfere(); OBLIGATION((v) == true, "C07.end: end_of_input is only ever raised, never lowered"); (x) = (v); g_eoi_raised = true; \
      __CPROVER_assert(INV_T, "C07.tokens: guarantee: raising end_of_input keeps the token census"); })

static void STUB_wait_init(wait_context *w, long n) { w->refs = n; }
static void STUB_wait_reserve(wait_context *w) { w->refs++; g_reserved++; }
static void STUB_wait_release(wait_context *w) { w->refs--; g_released++; }
static void STUB_filter_finalize(struct base_filter *f, void *obj) { g_destroyed++; }
static bool STUB_my_tls_end_of_input(struct input_buffer *b) { return g_tls_end; }
static void STUB_set_my_tls_end_of_input(struct input_buffer *b) { g_tls_end = true; }
static bool STUB_tls_allocated(struct input_buffer *b) { return true; }
#include "seoi.inc"
#include "ib_got.inc"
static Token STUB_get_ordered_token(struct input_buffer *b) { g_ticket_calls++; g_pre_at_ticket = g_me_pre; return input_buffer_get_ordered_token(b); }

#include "flow_control.inc"
/* The user bodies.  An input body may call flow_control::stop() (is_pipeline_stopped = true). */
static int g_body_calls, g_destroy_calls, g_destroy_at; static void *g_body_arg, *g_body_ret, *g_destroy_arg; static bool g_body_stops;
static void *STUB_body(struct base_filter *f, void *item) { g_body_calls++; g_body_arg = item; g_body_ret = nondet_ptr(); return g_body_ret; }
static void *STUB_input_body(struct base_filter *f, flow_control *fc) { g_body_calls++; if (nondet_bool()) { fc->is_pipeline_stopped = true; g_body_stops = true; } g_body_ret = nondet_ptr(); return g_body_ret; }
static void STUB_destroy_token(struct base_filter *f, void *tok) { g_destroy_calls++; g_destroy_arg = tok; g_destroy_at = g_body_calls; }
#include "filters.inc"
/* A filter invocation (the virtual call (*my_filter)(item)).  The input filter is the REAL concrete_filter<void,Output,Body>::operator() when the filter may emit null items and the
   real concrete_filter<void,void,Body>::operator() otherwise (the constructor of the former sets filter_may_emit_null, checked at extraction); later filters return anything. */
static void *STUB_filter_call(struct base_filter *f, void *obj) {
    g_calls++; g_call_f = f; g_call_arg = obj; g_pre_at_call = g_me_pre && !g_owe_spawn;
    void *r;
    if (g_at_start0) { r = MAYNULL(f) ? cf_in_call(f, obj) : cf_inout_call(f, obj); g_stopped = g_body_stops; }
    else r = nondet_ptr();
    g_call_ret = r; return r;
}
/* input_buffer::try_put_token, by the post-conditions that job ib.try_put_token proves: valid; ordered: a token is drawn once (next ticket); unordered: a ticket per put;
   the caller runs now iff its token/ticket is the lowest outstanding one, otherwise the item is parked */
static bool STUB_try_put_token(struct input_buffer *b, task_info *info) {
    g_put_calls++; g_put_buf = b; g_put_in = *info;
    info->is_valid = true;
    Token tk;
    if (b->is_ordered) { if (!info->my_token_ready) { info->my_token = b->high_token; b->high_token = b->high_token + 1; info->my_token_ready = true; } tk = info->my_token; }
    else { tk = b->high_token; b->high_token = b->high_token + 1; }
    g_put_parked = (tk != b->low_token); g_put_item = *info;
    return g_put_parked;
}
/* input_buffer::try_to_spawn_task_for_next_token, by the post-condition of ib.next_token (low_token advances by one); what it does with the released item is job stage.release */
static void STUB_try_to_spawn_task_for_next_token(struct input_buffer *b, struct stage_task *sp, execution_data *ed) {
    g_next_calls++; g_next_buf = b; g_next_at_calls = g_calls; g_next_spawner_filter = sp->my_filter; b->low_token = b->low_token + 1;
}
static struct stage_task *NEW_input_stage_task(execution_data *ed, struct pipeline *p, small_object_allocator *a);
static struct stage_task *NEW_item_stage_task(execution_data *ed, struct pipeline *p, struct base_filter *f, task_info *info, small_object_allocator *a);
static void STUB_spawn(struct stage_task *t, struct tgc *ctx) {
    g_spawn_calls++; g_spawned = t;
    if (t != NULL && t->my_at_start) {   /* a new input-stage task */
        OBLIGATION(g_owe_spawn, "C07.tokens: a new input-stage task is started only by the task that just took a token and found more free ones");
        if (g_owe_spawn) { g_owe_spawn = false; g_pre_others = 1; }
    }
}
static void STUB_delete_object(small_object_allocator *a, struct stage_task *t, execution_data *ed);
#include "stage.inc"
#include "ib_stage.inc"
static struct stage_task *NEW_input_stage_task(execution_data *ed, struct pipeline *p, small_object_allocator *a) {
    struct stage_task *t = &g_newtask[g_new_input + g_new_item]; g_new_input++; stage_task_ctor_input(t, p, a); return t; }
static struct stage_task *NEW_item_stage_task(execution_data *ed, struct pipeline *p, struct base_filter *f, task_info *info, small_object_allocator *a) {
    struct stage_task *t = &g_newtask[g_new_input + g_new_item]; g_new_item++; stage_task_ctor_item(t, p, f, info, a); return t; }
static void STUB_delete_object(small_object_allocator *a, struct stage_task *t, execution_data *ed) {
    g_delete_calls++; g_deleted = t; g_filter_at_delete = t->my_filter; g_object_at_delete = t->base.my_object; stage_task_dtor(t); }

static void mk_world(bool at_start) {
    g_max = nondet_ulong(); g_P.input_tokens = nondet_ulong(); g_P.end_of_input = nondet_bool(); g_P.my_context = &g_ctx; g_P.wait_ctx.refs = nondet_long(); __CPROVER_assume(g_P.wait_ctx.refs >= 1 && g_P.wait_ctx.refs < (1L << 40));
    g_pre_others = nondet_uchar(); g_held_others = nondet_ulong(); g_lost = nondet_ulong();
    g_me_pre = at_start; g_me_holds = !at_start; g_owe_spawn = false; g_owe_recycle = false;
    __CPROVER_assume(INV_T);
    for (int i = 0; i < 3; i++) {
        g_F[i].my_filter_mode = nondet_unsigned(); __CPROVER_assume(g_F[i].my_filter_mode <= 7u); g_F[i].my_pipeline = &g_P; g_F[i].my_input_buffer = NULL;
        g_B[i].array = NULL; g_B[i].array_size = 0; g_B[i].low_token = nondet_ulong(); g_B[i].high_token = nondet_ulong(); g_B[i].is_ordered = ORDERED(&g_F[i]);
    }
    /* chain invariants established by pipeline::add_filter (job chain.add_filter): a serial filter has a buffer of its own kind; a parallel first filter that may emit null has one (for the TLS flag) */
    g_P.first_filter = at_start ? &g_F[0] : &g_F[2];
    for (int i = 0; i < 3; i++) if (SERIAL(&g_F[i]) || (g_P.first_filter == &g_F[i] && MAYNULL(&g_F[i]))) g_F[i].my_input_buffer = &g_B[i];
    g_F[0].next_filter_in_pipeline = nondet_bool() ? &g_F[1] : NULL;
    g_F[1].next_filter_in_pipeline = NULL; g_F[2].next_filter_in_pipeline = &g_F[0];
    g_tls_end = g_tls0 = nondet_bool();
}
static void mk_task(struct stage_task *t, bool at_start) {
    t->my_pipeline = &g_P; t->my_filter = &g_F[0]; t->my_at_start = at_start; t->m_allocator.id = 7;
    t->base.my_object = nondet_ptr(); t->base.my_token = nondet_ulong(); t->base.my_token_ready = nondet_bool(); t->base.is_valid = nondet_bool();
    if (at_start)   /* established by the input constructor and by reset() (jobs stage.ctor, stage.step[recycle]) */
        __CPROVER_assume(t->base.my_object == NULL && !t->base.my_token_ready);
    if (!at_start && ORDERED(&g_F[0]) )   /* the task was admitted to the ordered filter it stands at: its token is the buffer's low_token */
        __CPROVER_assume(t->base.my_token_ready && t->base.my_token == g_B[0].low_token);
}

#ifdef STEP
/* ---------------- one step of stage_task::execute (-> execute_filter, try_spawn_stage_task, reset, finalize, ~stage_task) ---------------- */
void h_step(void) {
    bool at_start = nondet_bool();
    mk_world(at_start); struct stage_task *self = &g_task; mk_task(self, at_start);
#if defined(ONLY_START_SERIAL)          /* the three jobs partition the domain: input-stage task at a serial / parallel input filter, task carrying an item */
    __CPROVER_assume(at_start && SERIAL(&g_F[0]));
#elif defined(ONLY_START_PARALLEL)
    __CPROVER_assume(at_start && !SERIAL(&g_F[0]));
#elif defined(ONLY_MID)
    __CPROVER_assume(!at_start);
#endif
    g_at_start0 = at_start; g_item0 = self->base; g_high0 = g_B[0].high_token;
    struct base_filter *F0 = &g_F[0], *F1 = g_F[0].next_filter_in_pipeline; Token low0 = g_B[0].low_token;
    g_in_step = true;
    struct stage_task *res = stage_task_execute(self, &g_ed);
    g_in_step = false;
    bool ret = (res != NULL);
    OBLIGATION(res == NULL || res == self, "C07.stage: execute returns the task itself (to be run again) or nothing");
    bool cont = ret && !self->my_at_start, input_again = ret && self->my_at_start;
    bool parked = !ret && g_put_calls == 1 && g_put_parked, left = g_give_calls >= 1, ended = !ret && !parked && !left;
    /* ---- every item passes every filter exactly once, in chain order ---- */
    OBLIGATION(g_calls <= 1, "C07.stage: one step of a task invokes at most one filter");
    if (g_calls == 1) {
        OBLIGATION(g_call_f == F0 && g_call_arg == g_item0.my_object, "C07.stage: the filter invoked is the one the item stands at, on the item's current object");
    } else {
        OBLIGATION(at_start && !ret && g_eoi_seen && g_take_calls == 0 && g_put_calls == 0, "C07.stage: only an input-stage task that observed end of input runs no filter; it takes no token and ends");
    }
    if (g_stopped) OBLIGATION(!ret && g_put_calls == 0 && g_give_calls == 0, "C07.end: when the input filter signals the end, its (null) result is not passed on as an item and the task ends");
    if (g_stopped) OBLIGATION(g_P.end_of_input, "C07.end: when the input filter signals the end, the pipeline-wide end_of_input flag is up before the task ends (no further input-stage task will invoke the filter, none is started)");
    if (at_start && g_calls == 1 && g_call_ret != NULL)
        OBLIGATION(!ended, "C07.stage: an item returned by the input filter is never dropped");
    if (g_calls == 1 && !ended) {   /* the item exists and has passed F0 */
        if (F1 != NULL) {
            OBLIGATION(!left && !input_again, "C07.stage: an item that has later filters to pass neither leaves the pipeline nor is forgotten");
            OBLIGATION(cont != parked, "C07.stage: after a filter the item is either carried on by this task or parked in the next filter's buffer - exactly one of the two");
            if (SERIAL(F1)) {
                OBLIGATION(g_put_calls == 1 && g_put_buf == F1->my_input_buffer, "C07.stage: the item is offered exactly once to the buffer of the next filter when that filter is serial");
                OBLIGATION(g_put_in.my_object == g_call_ret, "C07.stage: what is offered to the next filter is the output of the filter just run");
                if (cont) OBLIGATION(!g_put_parked, "C07.stage: the task goes on into a serial filter only if the buffer granted it the turn (lowest outstanding token)");
            }
            if (cont) OBLIGATION(self->my_filter == F1 && self->base.my_object == g_call_ret, "C07.stage: the task goes on at the NEXT filter of the chain with the output of the filter just run (no filter skipped or repeated)");
            if (parked) OBLIGATION(g_destroyed == 0, "C07.stage: the task that parked an item lets go of it: the parked object is not destroyed with the task");
        } else if (at_start && SERIAL(F0) && input_again && g_take_calls == 0) {
            OBLIGATION(g_give_calls == 0, "C07.stage: in a pipeline of one serial filter the input task may pass the item through its only filter without taking a token; then it gives none back");
        } else {
            OBLIGATION(left && g_give_calls == 1 && g_put_calls == 0 && !cont, "C07.stage: an item that passed the last filter leaves the pipeline: its token is given back exactly once");
        }
    }
    OBLIGATION(g_destroyed == 0, "C07.stage: no item is destroyed by a task that ends normally (it was parked, has left the pipeline, or there was none)");
    /* ---- serial filters: one invocation at a time, the turn is passed on exactly once ---- */
    if (!at_start && SERIAL(F0)) {
        OBLIGATION(g_next_calls == 1 && g_next_buf == F0->my_input_buffer, "C07.serial: after running a serial filter the task passes the filter's turn on exactly once (next token released)");
        OBLIGATION(g_next_at_calls == 1, "C07.serial: the turn is passed on only after the filter invocation has returned (never two invocations at once)");
        OBLIGATION(g_next_spawner_filter == F0, "C07.serial: an item released from the buffer is restarted at the filter whose buffer released it");
    }
    OBLIGATION(g_next_calls <= 1 && (g_next_calls == 0 || g_next_buf == F0->my_input_buffer), "C07.serial: a task never passes on the turn of a filter it did not run");
    if (at_start && SERIAL(F0) && g_calls == 1)
        OBLIGATION(g_pre_at_call, "C07.serial: a serial input filter is invoked only by the one task holding the input role, before that role is handed on");
    /* ---- ordered token ---- */
    if (at_start && ORDERED(F0) && g_calls == 1 && !ended) {
        OBLIGATION(g_ticket_calls == 1 && g_B[0].high_token == g_high0 + 1, "C07.order: a serial_in_order input filter draws exactly one ticket per item");
        OBLIGATION(g_pre_at_ticket, "C07.order: the ticket is drawn while the task still holds the input role, so tickets follow the order in which the filter processed the items");
        if (cont || parked) OBLIGATION((cont ? self->base.my_token : g_put_item.my_token) == g_high0 && (cont ? self->base.my_token_ready : g_put_item.my_token_ready), "C07.order: the item carries that ticket as its token");
    } else {
        OBLIGATION(g_ticket_calls == 0 || (at_start && ended), "C07.order: tickets are drawn only for new items of the input filter (a gap in the ticket sequence would stall every later ordered filter; a ticket drawn at the very end of input is the last one and harms nothing)");
    }
    if (g_put_calls == 1)
        OBLIGATION(g_put_in.my_token_ready == (g_item0.my_token_ready || (at_start && ORDERED(F0))) && (!g_item0.my_token_ready || g_put_in.my_token == g_item0.my_token),
                   "C07.order: the task never changes a token once assigned, and an item that has not passed an ordered filter arrives at the next buffer without a token");
    if (cont && g_item0.my_token_ready) OBLIGATION(self->base.my_token_ready && self->base.my_token == g_item0.my_token, "C07.order: the token assigned by the first serial_in_order filter stays with the item");
    /* ---- token accounting ---- */
    OBLIGATION(g_take_calls <= 1 && g_give_calls <= 1, "C07.tokens: at most one token is taken and at most one given back per step");
    if (cont || parked) OBLIGATION(g_me_holds, "C07.tokens: an item that goes on past the input filter holds a token");
    OBLIGATION(!g_owe_spawn, "C07.tokens: a task that took a token while more were free has started the next input-stage task (the pipeline keeps reading input)");
    if (input_again) OBLIGATION(g_me_pre || g_owe_recycle, "C07.tokens: a task becomes the input-stage task only if it already was (one-filter pipeline) or it returned its token finding none free");
    else {
        if (g_owe_recycle) OBLIGATION(g_eoi_seen, "C07.end: a task that returned its token and found none free gives up reading input only because end of input was signalled");
        if (g_me_pre) OBLIGATION(!ret && (g_eoi_seen || g_eoi_raised || g_P.end_of_input), "C07.end: the input-stage task ends only after end of input was signalled");
    }
    if (input_again) {
        OBLIGATION(self->my_filter == g_P.first_filter && self->base.my_object == NULL && !self->base.my_token_ready,
                   "C07.stage: a recycled task is a fresh input-stage task: at the first filter, no item, no token");
        if (g_owe_recycle) OBLIGATION(g_avail_seen == 0, "C07.tokens: a task recycles itself as input-stage task only when it found no free token (no other task holds the input role)");
    }
    if (g_eoi_raised) {
        OBLIGATION(at_start && g_calls == 1 && g_call_ret == NULL, "C07.end: end_of_input is raised only by the input stage and only when the input filter returned no item");
        OBLIGATION(g_stopped || g_eoi_seen || g_tls0 || !MAYNULL(F0), "C07.end: end_of_input is raised only if the input filter signalled the end (flow_control::stop) or cannot emit null items");
    }
    /* census after the step (the dispositions above are exhaustive: INV_T must hold again) */
    if (input_again) { g_me_pre = true; g_owe_recycle = false; } else { g_owe_recycle = false; g_me_pre = false; }
    if (parked && g_me_holds) { g_me_holds = false; g_held_others++; }
    if (ended && g_me_holds) { g_me_holds = false; g_lost++; }
    if (left) g_me_holds = false;
    OBLIGATION(!g_me_holds || cont, "C07.tokens: a token stays with the item: only a task that carries an item on keeps holding one");
    OBLIGATION(INV_T, "C07.tokens: the token census holds again after the step (free + held + lost == max, at most one input role, input never runs dry before end of input)");
    /* ---- wait context: the call returns only when no task is left ---- */
    OBLIGATION(ret ? (g_delete_calls == 0 && g_released == 0) : (g_delete_calls == 1 && g_deleted == self && g_released == 1), "C07.end: a task that ends is destroyed exactly once and releases the pipeline's wait exactly once; a task that goes on does neither");
    OBLIGATION(g_reserved == g_new_input + g_new_item && g_spawn_calls == g_new_input + g_new_item, "C07.end: every task created reserves the pipeline's wait once and is spawned once");
    if (g_new_input == 1) OBLIGATION(g_spawned->my_at_start && g_spawned->my_filter == g_P.first_filter && g_spawned->my_pipeline == &g_P && g_spawned->base.my_object == NULL && !g_spawned->base.my_token_ready,
                                     "C07.stage: a new input-stage task starts at the first filter of the same pipeline with no item and no token");
    OBLIGATION(g_new_input <= 1 && g_new_item == 0, "C07.tokens: a step starts at most one new input-stage task");
    VACUITY_END();
}
#endif
#ifdef RELEASE
/* ---------------- input_buffer::try_to_spawn_task_for_next_token<stage_task> -> stage_task::spawn_stage_task -> stage_task(pipeline&, filter, info, alloc) ---------------- */
void h_release(void) {
    mk_world(false); struct stage_task *sp = &g_task; mk_task(sp, false);
    struct base_filter *F0 = &g_F[0]; struct input_buffer *b = &g_B[0];
    __CPROVER_assume(SERIAL(F0));                                   /* the spawner has just run the serial filter F0 and still stands at it (stage.step: "restarted at the filter whose buffer released it") */
    b->array_size = nondet_size_t(); __CPROVER_assume(RI_SHAPE(b));
    b->array = malloc(b->array_size * sizeof(task_info)); __CPROVER_assume(b->array != NULL);
    Token low0 = b->low_token, high0 = b->high_token; task_info next0 = SLOT(b, low0 + 1), gh0 = SLOT(b, GH_t);
    struct stage_task sp0 = *sp; long refs0 = g_P.wait_ctx.refs;
    input_buffer_try_to_spawn_task_for_next_token(b, sp, &g_ed);
    OBLIGATION(b->low_token == low0 + 1 && b->high_token == high0, "C07.release: the turn moves to exactly the next token");
    OBLIGATION(!SLOT(b, low0 + 1).is_valid, "C07.release: the slot of the released token is emptied (an item is released once)");
    if (next0.is_valid) {
        OBLIGATION(g_new_item == 1 && g_new_input == 0 && g_spawn_calls == 1 && g_spawned == &g_newtask[0], "C07.release: exactly one task is created and spawned for the item parked under the new low token");
        struct stage_task *c = &g_newtask[0];
        OBLIGATION(c->base.my_object == next0.my_object && c->base.my_token == next0.my_token && c->base.my_token_ready == next0.my_token_ready, "C07.release: the new task carries the parked item unmodified (object and token)");
        OBLIGATION(c->my_filter == F0 && !c->my_at_start && c->my_pipeline == &g_P, "C07.release: the released item is restarted at the filter whose buffer held it, as a task that has read its input (it will run exactly that filter next)");
        OBLIGATION(g_reserved == 1 && g_P.wait_ctx.refs == refs0 + 1, "C07.end: the new task reserves the pipeline's wait exactly once (the call cannot return while the item is in flight)");
    } else {
        OBLIGATION(g_new_item == 0 && g_new_input == 0 && g_spawn_calls == 0 && g_reserved == 0, "C07.release: nothing is spawned when no item is parked under the new low token");
    }
    OBLIGATION(sp->my_filter == sp0.my_filter && sp->base.my_object == sp0.base.my_object && sp->base.my_token == sp0.base.my_token && sp->my_at_start == sp0.my_at_start, "C07.release: the releasing task's own item is untouched");
    if (((GH_t ^ b->low_token) & (b->array_size - 1)) != 0)
        OBLIGATION(SLOT(b, GH_t).is_valid == gh0.is_valid && SLOT(b, GH_t).my_object == gh0.my_object && SLOT(b, GH_t).my_token == gh0.my_token, "C07.release: every other parked item stays parked, untouched");
    VACUITY_END();
}
#endif

#ifdef CANCEL
/* ---------------- stage_task::cancel -> finalize -> ~stage_task (task_group_context cancelled): the wait is still released exactly once ---------------- */
void h_cancel(void) {
    bool at_start = nondet_bool(); mk_world(at_start); struct stage_task *self = &g_task; mk_task(self, at_start);
    if (nondet_bool()) self->my_filter = NULL;
    struct base_filter *f0 = self->my_filter; void *o0 = self->base.my_object;
    struct stage_task *res = stage_task_cancel(self, &g_ed);
    OBLIGATION(res == NULL && g_delete_calls == 1 && g_deleted == self && g_released == 1 && g_reserved == 0, "C07.end: a cancelled task is destroyed exactly once and releases the pipeline's wait exactly once");
    VACUITY_END();
}
#endif

#ifdef CHAIN
/* ---------------- pipeline::pipeline, add_filter, fill_pipeline, parallel_pipeline(): the filter chain and the initial state ---------------- */
static struct input_buffer g_newbuf[2]; static int g_new_buffers, g_tls_created; static struct input_buffer *g_tls_buf;
/* input_buffer::input_buffer(ordered), by the post-condition of job ib.ctor: empty ring of 4, tokens start at 0, the mode is the argument */
static struct input_buffer *NEW_input_buffer(bool ordered) { struct input_buffer *b = &g_newbuf[g_new_buffers++]; b->array = NULL; b->array_size = 4; b->low_token = 0; b->high_token = 0; b->is_ordered = ordered; return b; }
static void STUB_create_my_tls(struct input_buffer *b) { g_tls_created++; g_tls_buf = b; }
static struct base_filter g_created[3]; static int g_create_calls, g_rec_calls; static struct filter_node *g_create_node, *g_rec_arg[2]; static struct base_filter *g_last_at_rec[2];
static struct base_filter *fresh_filter(void) { struct base_filter *f = &g_created[g_create_calls + g_rec_calls]; f->my_filter_mode = nondet_unsigned(); __CPROVER_assume(f->my_filter_mode <= 7u);
    f->next_filter_in_pipeline = base_filter_not_in_pipeline(); f->my_input_buffer = NULL; f->my_pipeline = NULL; return f; }
static struct base_filter *STUB_create_filter(struct filter_node *n) { struct base_filter *f = fresh_filter(); g_create_node = n; g_create_calls++; return f; }
static void pipeline_add_filter(struct pipeline *self, struct base_filter *new_fitler);
/* the recursive call of fill_pipeline on a subtree (induction hypothesis: a subtree appends its own filters, at least one, at the end of the chain) */
static void REC_fill_pipeline(struct pipeline *self, struct filter_node *n) { g_last_at_rec[g_rec_calls] = self->last_filter; g_rec_arg[g_rec_calls] = n; struct base_filter *f = fresh_filter(); g_rec_calls++; pipeline_add_filter(self, f); }
static struct stage_task *NEW_first_stage_task(struct pipeline *p, small_object_allocator *a) { struct stage_task *t = &g_newtask[g_new_input]; g_new_input++; stage_task_ctor_input(t, p, a); return t; }
static int g_wait_calls; static size_t g_max_token; static struct filter_node *g_root;
static void STUB_execute_and_wait(struct stage_task *st, struct tgc *c1, wait_context *w, struct tgc *c2) {
    g_wait_calls++;
    struct pipeline *p = st->my_pipeline;
    OBLIGATION(g_new_input == 1 && st == &g_newtask[0] && st->my_at_start && st->base.my_object == NULL && !st->base.my_token_ready, "C07.start: the pipeline starts with exactly one task: an input-stage task without item or token");
    OBLIGATION(p->first_filter != NULL && st->my_filter == p->first_filter && (g_rec_calls + g_create_calls) >= 1, "C07.start: the filter chain is complete before the first task is created, and that task stands at the first filter");
    OBLIGATION(w == &p->wait_ctx && w->refs == 1 && g_reserved == 1, "C07.end: the caller waits on the pipeline's wait context, which counts exactly the one live task");
    OBLIGATION(p->input_tokens == (Token)g_max_token && !p->end_of_input, "C07.tokens: at the start all max_number_of_live_tokens tokens are free and end of input is not signalled (the token census holds with the first task in the input role)");
}
#include "pipeline.inc"
static void mk_chain(struct pipeline *P, struct base_filter *A, struct base_filter *Bf, bool *empty) {
    P->my_context = &g_ctx; P->input_tokens = nondet_ulong(); P->end_of_input = false; P->wait_ctx.refs = 0;
    *empty = nondet_bool();
    A->my_filter_mode = nondet_unsigned(); Bf->my_filter_mode = nondet_unsigned(); A->my_input_buffer = NULL; Bf->my_input_buffer = NULL; A->my_pipeline = P; Bf->my_pipeline = P;
    if (*empty) { P->first_filter = NULL; P->last_filter = NULL; }
    else { P->first_filter = A; P->last_filter = nondet_bool() ? A : Bf; A->next_filter_in_pipeline = (P->last_filter == A) ? NULL : (nondet_bool() ? Bf : (struct base_filter *)&g_F[2]); Bf->next_filter_in_pipeline = NULL; }
}
void h_add_filter(void) {
    struct pipeline P; struct base_filter A, Bf, N; bool empty; mk_chain(&P, &A, &Bf, &empty);
    N.my_filter_mode = nondet_unsigned(); __CPROVER_assume(N.my_filter_mode <= 7u); N.next_filter_in_pipeline = base_filter_not_in_pipeline(); N.my_input_buffer = NULL; N.my_pipeline = NULL;
    struct base_filter *first0 = P.first_filter, *last0 = P.last_filter, *anext0 = A.next_filter_in_pipeline;
    pipeline_add_filter(&P, &N);
    OBLIGATION(P.last_filter == &N && N.next_filter_in_pipeline == NULL, "C07.chain: the added filter becomes the end of the chain");
    if (empty) OBLIGATION(P.first_filter == &N, "C07.chain: the first filter added is the first filter of the pipeline");
    else {
        OBLIGATION(P.first_filter == first0 && last0->next_filter_in_pipeline == &N, "C07.chain: a later filter is linked directly behind the previous last one; the first filter stays (left-to-right order, each filter once)");
        if (last0 != &A) OBLIGATION(A.next_filter_in_pipeline == anext0, "C07.chain: the links between earlier filters are untouched");
    }
    OBLIGATION(N.my_pipeline == &P, "C07.chain: the filter knows its pipeline (set_end_of_input reaches the right flag)");
    if (SERIAL(&N)) OBLIGATION(g_new_buffers == 1 && N.my_input_buffer == &g_newbuf[0] && N.my_input_buffer->is_ordered == ORDERED(&N), "C07.chain: every serial filter gets a token buffer of its own, ordered exactly when the filter is serial_in_order");
    else if (P.first_filter == &N && MAYNULL(&N)) OBLIGATION(g_new_buffers == 1 && N.my_input_buffer == &g_newbuf[0] && !N.my_input_buffer->is_ordered && g_tls_created == 1 && g_tls_buf == N.my_input_buffer, "C07.chain: a parallel input filter that may emit null items gets a buffer with the thread-local end-of-input flag");
    VACUITY_END();
}
void h_fill(void) {
    struct pipeline P; struct base_filter A, Bf; bool empty; mk_chain(&P, &A, &Bf, &empty);
    struct filter_node root, L, R; bool inner = nondet_bool(); root.left = inner ? &L : NULL; root.right = inner ? &R : NULL;   /* operator& builds nodes with two children, make_filter builds leaves */
    struct base_filter *last0 = P.last_filter;
    pipeline_fill_pipeline(&P, &root);
    if (inner) {
        OBLIGATION(g_rec_calls == 2 && g_rec_arg[0] == &L && g_rec_arg[1] == &R, "C07.chain: an inner node of the filter expression contributes the filters of its left operand first, then those of its right operand, each subtree exactly once");
        OBLIGATION(g_create_calls == 0 && g_last_at_rec[0] == last0 && g_last_at_rec[1] == &g_created[0], "C07.chain: an inner node adds no filter of its own, and nothing comes between the two subtrees");
    } else {
        OBLIGATION(g_rec_calls == 0 && g_create_calls == 1 && g_create_node == &root, "C07.chain: a leaf contributes exactly one filter, the one it creates");
        OBLIGATION(P.last_filter == &g_created[0] && (empty ? P.first_filter == &g_created[0] : last0->next_filter_in_pipeline == &g_created[0]), "C07.chain: the leaf's filter is appended at the end of the chain built so far");
    }
    VACUITY_END();
}
void h_start(void) {
    struct filter_node root, L, R; bool inner = nondet_bool(); root.left = inner ? &L : NULL; root.right = inner ? &R : NULL; g_root = &root;
    g_max_token = nondet_size_t(); __CPROVER_assume(g_max_token >= 1);      /* documented precondition of parallel_pipeline: max_number_of_live_tokens > 0 */
    r1_parallel_pipeline(&g_ctx, g_max_token, &root);
    OBLIGATION(g_wait_calls == 1, "C07.end: parallel_pipeline returns only through the wait for its tasks");
    VACUITY_END();
}
#endif
#ifdef FILTERS
/* ---------------- concrete_filter<...>::operator(): what one filter invocation does with the item and how the end of input is signalled ---------------- */
void h_cf(void) {
    mk_world(true); struct base_filter *F = &g_F[0]; void *in = nondet_ptr(); int v = nondet_int(); __CPROVER_assume(0 <= v && v < 4);
    bool eoi0 = g_P.end_of_input, tls0 = g_tls_end;
    if (v == 0) { void *r = cf_mid_call(F, in);
        OBLIGATION(g_body_calls == 1 && g_body_arg == in, "C07.filter: one invocation of a filter runs its body exactly once, on the item it was handed");
        OBLIGATION(r == g_body_ret, "C07.filter: the body's result is the item handed to the next filter");
        OBLIGATION(g_destroy_calls == 0 || g_destroy_at == 1, "C07.filter: the input item is not released before the body has run on it");
        OBLIGATION(g_P.end_of_input == eoi0 && g_tls_end == tls0, "C07.filter: a filter that is not the input filter never signals end of input");
    } else if (v == 1) { void *r = cf_out_call(F, in);
        OBLIGATION(g_body_calls == 1 && g_body_arg == in && r == NULL, "C07.filter: the last filter runs its body exactly once on the item and emits nothing");
        OBLIGATION(g_P.end_of_input == eoi0 && g_tls_end == tls0, "C07.filter: the last filter never signals end of input");
    } else if (v == 2) { __CPROVER_assume(MAYNULL(F));     /* set by the constructor of this specialisation */
        void *r = cf_in_call(F, in);
        OBLIGATION(g_body_calls == 1, "C07.filter: one invocation of the input filter runs its body exactly once");
        if (g_body_stops) OBLIGATION(r == NULL && (SERIAL(F) ? g_P.end_of_input : g_tls_end), "C07.end: when the body calls flow_control::stop() the filter returns no item and signals the end (pipeline flag for a serial input filter, thread flag for a parallel one)");
        else OBLIGATION(r == g_body_ret && g_P.end_of_input == eoi0 && g_tls_end == tls0, "C07.end: without flow_control::stop() the body's result is emitted as an item and no end of input is signalled");
    } else { void *r = cf_inout_call(F, in);
        OBLIGATION(g_body_calls == 1 && (r == NULL) == g_body_stops, "C07.end: a filter that is input and output at once returns no item exactly when its body called flow_control::stop()");
    }
    VACUITY_END();
}
/* ---------------- operator&: the filter expression tree ---------------- */
static struct filter_node g_nodes[2]; static int g_new_nodes;
#include "fnode.inc"
static struct filter_node *NEW_filter_node(struct filter_node *x, struct filter_node *y) { struct filter_node *n = &g_nodes[g_new_nodes++]; filter_node_ctor2(n, x, y); return n; }
void h_and(void) {
    struct filter l, r; struct filter_node a, b; a.left = nondet_ptr(); a.right = nondet_ptr(); b.left = nondet_ptr(); b.right = nondet_ptr();
    l.my_root = &a; r.my_root = nondet_bool() ? &b : &a;          /* operands are non-empty filters (documented precondition, asserted by the operator); f & f is allowed */
    struct filter_node a0 = a, b0 = b;
    struct filter_node *n = filter_and(&l, &r);
    OBLIGATION(g_new_nodes == 1 && n == &g_nodes[0], "C07.chain: l & r builds exactly one new node");
    OBLIGATION(n->left == l.my_root && n->right == r.my_root, "C07.chain: the node built for l & r has l's tree as its left child and r's tree as its right child (so fill_pipeline lists l's filters before r's)");
    OBLIGATION(a.left == a0.left && a.right == a0.right && b.left == b0.left && b.right == b0.right, "C07.chain: the operand trees are not modified");
    VACUITY_END();
}
#endif
#endif
