// Native recipes on the REAL input_buffer (class local to src/tbb/parallel_pipeline.cpp; included white-box).
#include "tbb/parallel_pipeline.cpp"
#include <cstdio>
#include <vector>
#include <random>
#include <algorithm>
#include <string>
namespace tbb { namespace detail { namespace r1 { void handle_perror(int, const char*) { std::abort(); } } } }
using namespace tbb::detail::r1;
struct Spawner { std::vector<task_info> out; void spawn_stage_task(const task_info& w, tbb::detail::d1::execution_data&) { out.push_back(w); } };
// Ordered serial stage: items arrive in `order` (a permutation of tokens 0..n-1, each already carrying its token); every item must
// leave exactly once and in token order.
static bool run(const std::vector<unsigned long>& order, std::string& why) {
    size_t n = order.size();
    input_buffer b(true);
    b.high_token = n;                                  // all n tokens were handed out by an earlier ordered stage
    std::vector<unsigned long> left; Spawner sp; tbb::detail::d1::execution_data* ed = nullptr;
    size_t k = 0;
    auto finish = [&](unsigned long tok) {             // the stage ran token `tok`; note completion, which may release the next parked one(s)
        left.push_back(tok);
        for (;;) { size_t before = sp.out.size(); b.try_to_spawn_task_for_next_token(sp, *ed); if (sp.out.size() == before) break; left.push_back((unsigned long)(size_t)sp.out.back().my_object); }
    };
    (void)k;
    for (unsigned long t : order) {
        task_info ti; ti.my_object = (void*)(size_t)t; ti.my_token = t; ti.my_token_ready = true;
        if (!b.try_put_token(ti)) finish(t);
    }
    if (left.size() != n) { why = "only " + std::to_string(left.size()) + " of " + std::to_string(n) + " items ever left the ordered stage"; return true; }
    for (size_t i = 0; i < n; ++i) if (left[i] != i) { why = "item " + std::to_string(left[i]) + " left in position " + std::to_string(i); return true; }
    return false;
}
int main(int argc, char** argv) {
    std::string why;
    std::vector<std::vector<unsigned long>> cases = {
        {8, 9, 4, 5, 6, 7, 1, 2, 3, 0}, {4, 8, 16, 15, 14, 13, 12, 11, 10, 9, 7, 6, 5, 3, 2, 1, 0}, {3, 2, 1, 0}, {1, 0, 3, 2, 5, 4}, {16, 17, 1, 2, 3, 4, 5, 6, 7, 8, 9, 10, 11, 12, 13, 14, 15, 0}};
    // tokens 0..low-1 pass in order; `low` is held back; a few successors are parked; then one far-ahead token forces the ring to grow by several doublings at once
    for (unsigned long low : {0ul, 3ul, 7ul, 12ul}) for (unsigned long parked = 1; parked <= 3; ++parked) for (unsigned long jump = 5; jump <= 40; ++jump) {
        std::vector<unsigned long> p; unsigned long n = low + jump + 1;
        for (unsigned long t = 0; t < low; ++t) p.push_back(t);
        for (unsigned long t = low + 1; t <= low + parked; ++t) p.push_back(t);
        p.push_back(low + jump); p.push_back(low);
        for (unsigned long t = low + parked + 1; t < low + jump; ++t) p.push_back(t);
        if (p.size() == n) cases.push_back(p);
    }
    std::mt19937 rng(1);
    for (int r = 0; r < 3000; ++r) { size_t n = 2 + rng() % 40; std::vector<unsigned long> p(n); for (size_t i = 0; i < n; ++i) p[i] = i; std::shuffle(p.begin(), p.end(), rng); cases.push_back(p); }
    for (auto& c : cases) if (run(c, why)) {
        std::printf("REPRODUCED class=pipeline-token-buffer ordered serial stage, tokens arriving in the order");
        for (auto t : c) std::printf(" %lu", t);
        std::printf(": %s\n", why.c_str()); return 0;
    }
    std::printf("NOT-REPRODUCED\n"); return 0;
}
