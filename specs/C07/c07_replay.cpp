// Native recipes on the REAL input_buffer (class local to src/tbb/parallel_pipeline.cpp; included white-box).
#include "tbb/parallel_pipeline.cpp"
#include <cstdio>
#include <cstring>
#include <vector>
#include <random>
#include <algorithm>
#include <string>
namespace tbb { namespace detail { namespace r1 { void handle_perror(int, const char*) { std::abort(); } } } }
using namespace tbb::detail::r1;
struct Spawner { std::vector<task_info> out; void spawn_stage_task(const task_info& w, tbb::detail::d1::execution_data&) { out.push_back(w); } };
// Ordered serial stage: items arrive in `order` (a permutation of tokens 0..n-1, each already carrying its token); every item must
// leave exactly once and in token order.
static bool run(const std::vector<unsigned long>& order, std::string& why) {
    size_t n = order.size();
    input_buffer b(true);
    b.high_token = n;                                  // all n tokens were handed out by an earlier ordered stage
    std::vector<unsigned long> left; Spawner sp; tbb::detail::d1::execution_data* ed = nullptr;
    size_t k = 0;
    auto finish = [&](unsigned long tok) {             // the stage ran token `tok`; note completion, which may release the next parked one(s)
        left.push_back(tok);
        for (;;) { size_t before = sp.out.size(); b.try_to_spawn_task_for_next_token(sp, *ed); if (sp.out.size() == before) break; left.push_back((unsigned long)(size_t)sp.out.back().my_object); }
    };
    (void)k;
    for (unsigned long t : order) {
        task_info ti; ti.my_object = (void*)(size_t)t; ti.my_token = t; ti.my_token_ready = true;
        if (!b.try_put_token(ti)) finish(t);
    }
    if (left.size() != n) { why = "only " + std::to_string(left.size()) + " of " + std::to_string(n) + " items ever left the ordered stage"; return true; }
    for (size_t i = 0; i < n; ++i) if (left[i] != i) { why = "item " + std::to_string(left[i]) + " left in position " + std::to_string(i); return true; }
    return false;
}

// ---------------------------------------------------------------------------------------------------------------------------------------
// Whole-pipeline recipes through the public API (jobs stage.* / chain.* / filter.*): every clause of C07 is observed on real runs over all filter-mode
// sequences of length 1..3 (+ some of length 4), several token limits and item counts, with per-item stage delays that reorder arrivals.
#include "oneapi/tbb/parallel_pipeline.h"
#include "oneapi/tbb/global_control.h"
#include <atomic>
#include <thread>
#include <chrono>
#include <unistd.h>
namespace pr {
static std::atomic<long> g_big_live{0}, g_big_bad{0};
struct Big {   // larger than a pointer and not trivially copyable: travels between filters as a heap token (token_helper<T,true>); every copy must die exactly once, none may be used after its death
    size_t id, magic, pad; Big(size_t i = 0) : id(i), magic(0xC0FFEE), pad(0) { g_big_live++; } Big(const Big& o) : id(o.id), magic(o.magic), pad(0) { if (o.magic != 0xC0FFEE) g_big_bad++; g_big_live++; }
    Big(Big&& o) : id(o.id), magic(o.magic), pad(0) { if (o.magic != 0xC0FFEE) g_big_bad++; g_big_live++; } ~Big() { if (magic != 0xC0FFEE) g_big_bad++; magic = 0xDEAD; g_big_live--; }
    Big& operator=(const Big&) = default;
};
static size_t idof(size_t x) { return x; } static size_t idof(const Big& b) { if (b.magic != 0xC0FFEE) g_big_bad++; return b.id; }
struct State {
    int L; size_t n, max_tokens; std::vector<tbb::filter_mode> modes;
    std::vector<std::vector<std::atomic<int>>> count;            // count[f][item]
    std::vector<std::atomic<int>> inside;                         // concurrent invocations per filter
    std::vector<std::vector<size_t>> order;                       // processing order per serial filter (appended inside the filter, serial => no race unless the property is broken)
    std::vector<std::atomic<size_t>> order_len;
    std::atomic<size_t> emitted{0}, left{0}; std::atomic<long> live{0}, max_live{0};
    std::atomic<bool> stopped{false}; std::atomic<int> calls_after_stop{0}, overlap{0};
    unsigned seed;
    State(int L_, size_t n_, size_t mt, std::vector<tbb::filter_mode> m, unsigned sd) : L(L_), n(n_), max_tokens(mt), modes(m), count(L_), inside(L_), order(L_), order_len(L_), seed(sd) {
        for (int f = 0; f < L; ++f) { count[f] = std::vector<std::atomic<int>>(n + 1); for (auto& c : count[f]) c = 0; inside[f] = 0; order[f].assign(n + 8, ~size_t(0)); order_len[f] = 0; }
    }
    static bool serial(tbb::filter_mode m) { return m != tbb::filter_mode::parallel; }
    void delay(int f, size_t item) { unsigned h = (unsigned)(item * 2654435761u) ^ (unsigned)(f * 40503u) ^ seed; h ^= h >> 13; h *= 0x5bd1e995u; h ^= h >> 15;
        unsigned k = h % 7; if (k == 0) std::this_thread::sleep_for(std::chrono::microseconds(200 + h % 300)); else if (k < 3) for (unsigned i = 0; i < (h % 64); ++i) std::this_thread::yield(); }
    void enter(int f, size_t item) {
        if (inside[f].fetch_add(1) > 0 && serial(modes[f])) overlap++;
        if (item < n) count[f][item]++;
        if (serial(modes[f])) { size_t k = order_len[f].fetch_add(1); if (k < order[f].size()) order[f][k] = item; }
    }
    void leave(int f) { inside[f].fetch_sub(1); }
};
template<class Item>
static bool run(int L, std::vector<tbb::filter_mode> modes, size_t tokens, size_t n, unsigned seed, std::string& why) {
    g_big_live = 0; g_big_bad = 0;
    State S(L, n, tokens, modes, seed); State* s = &S;
    auto note_live = [s]() { long l = s->live.fetch_add(1) + 1; long m = s->max_live.load(); while (l > m && !s->max_live.compare_exchange_weak(m, l)) {} };
    tbb::filter<void, void> chain;
    if (L == 1) {
        chain = tbb::make_filter<void, void>(modes[0], [s, note_live](tbb::flow_control& fc) {
            if (s->stopped && State::serial(s->modes[0])) s->calls_after_stop++;
            size_t id = s->emitted.load(); bool take = false;
            while (id < s->n && !(take = s->emitted.compare_exchange_weak(id, id + 1))) {}
            if (!take) { s->stopped = true; fc.stop(); return; }
            note_live(); s->enter(0, id); s->delay(0, id); s->leave(0); s->live--; s->left++;
        });
    } else {
        tbb::filter<void, Item> f = tbb::make_filter<void, Item>(modes[0], [s, note_live](tbb::flow_control& fc) -> Item {
            if (s->stopped && State::serial(s->modes[0])) s->calls_after_stop++;
            if (State::serial(s->modes[0]) && s->inside[0].load() > 0) s->overlap++;
            size_t id = s->emitted.load(); bool take = false;
            while (id < s->n && !(take = s->emitted.compare_exchange_weak(id, id + 1))) {}
            if (!take) { s->stopped = true; fc.stop(); return Item(0); }
            s->enter(0, id); s->delay(0, id); s->leave(0); note_live(); return Item(id);          // item ids start at 0: with Item = size_t the first item is a "null" object
        });
        for (int i = 1; i + 1 < L; ++i) f = f & tbb::make_filter<Item, Item>(modes[i], [s, i](Item it) -> Item { size_t id = idof(it); s->enter(i, id); s->delay(i, id); s->leave(i); return Item(id); });
        chain = f & tbb::make_filter<Item, void>(modes[L - 1], [s, L](Item it) { size_t id = idof(it); s->enter(L - 1, id); s->delay(L - 1, id); s->leave(L - 1); s->live--; s->left++; });
    }
    tbb::parallel_pipeline(tokens, chain);
    auto name = [&]() { std::string r = "modes="; for (auto m : modes) r += (m == tbb::filter_mode::parallel ? "P" : m == tbb::filter_mode::serial_in_order ? "I" : "O"); return r + " tokens=" + std::to_string(tokens) + " items=" + std::to_string(n); };
    if (g_big_bad) { why = name() + ": an item object was used or destroyed after it had been destroyed (" + std::to_string(g_big_bad.load()) + " times)"; return true; }
    if (g_big_live != 0) { why = name() + ": " + std::to_string(g_big_live.load()) + " item objects were never destroyed / destroyed twice"; return true; }
    if (!S.stopped) { why = name() + ": parallel_pipeline returned before the input filter signalled end of input (emitted " + std::to_string(S.emitted.load()) + ")"; return true; }
    if (S.left != S.emitted || S.emitted != n) { why = name() + ": " + std::to_string(S.emitted.load()) + " items emitted, " + std::to_string(S.left.load()) + " left the last filter when the call returned"; return true; }
    for (int f = 0; f < L; ++f) for (size_t i = 0; i < n; ++i) if (S.count[f][i] != 1) { why = name() + ": item " + std::to_string(i) + " passed filter " + std::to_string(f) + " " + std::to_string(S.count[f][i].load()) + " times"; return true; }
    if (S.overlap) { why = name() + ": a serial filter ran two invocations at once"; return true; }
    if (S.max_live > (long)tokens) { why = name() + ": " + std::to_string(S.max_live.load()) + " items in flight, limit " + std::to_string(tokens); return true; }
    if (S.calls_after_stop) { why = name() + ": the serial input filter was invoked again after it had signalled end of input"; return true; }
    int first_io = -1;
    for (int f = 0; f < L; ++f) if (modes[f] == tbb::filter_mode::serial_in_order) {
        if (first_io < 0) { first_io = f; continue; }
        for (size_t k = 0; k < n; ++k) if (S.order[f][k] != S.order[first_io][k]) { why = name() + ": serial_in_order filter " + std::to_string(f) + " processed item " + std::to_string(S.order[f][k]) + " in position " + std::to_string(k) + ", the first ordered filter had item " + std::to_string(S.order[first_io][k]) + " there"; return true; }
    }
    if (first_io == 0) for (size_t k = 0; k < n; ++k) if (S.order[0][k] != k) { why = name() + ": ordered input filter order broken"; return true; }
    return false;
}
static int all(const char* job) {
    std::thread([] { std::this_thread::sleep_for(std::chrono::seconds(60)); std::printf("REPRODUCED class=pipeline-hang job did not finish: a pipeline run neither completed nor returned within 60 s\n"); std::fflush(stdout); _exit(0); }).detach();
    tbb::global_control gc(tbb::global_control::max_allowed_parallelism, 8);
    const tbb::filter_mode M[3] = {tbb::filter_mode::parallel, tbb::filter_mode::serial_in_order, tbb::filter_mode::serial_out_of_order};
    std::string why; unsigned seed = 1;
    for (int rep = 0; rep < 2; ++rep)
    for (int L = 1; L <= 4; ++L) {
        int combos = 1; for (int i = 0; i < L; ++i) combos *= 3;
        for (int c = 0; c < combos; ++c) {
            if (L == 4 && (c % 5) != rep) continue;
            std::vector<tbb::filter_mode> modes; int x = c; for (int i = 0; i < L; ++i) { modes.push_back(M[x % 3]); x /= 3; }
            for (size_t tokens : {size_t(1), size_t(3), size_t(16)}) for (size_t n : {size_t(0), size_t(1), size_t(5), size_t(48)}) {
                if ((rep == 0 ? run<size_t>(L, modes, tokens, n, seed++, why) : run<Big>(L, modes, tokens, n, seed++, why))) { std::printf("REPRODUCED class=pipeline-run %s\n", why.c_str()); std::fflush(stdout); _exit(0); }
            }
        }
    }
    std::printf("NOT-REPRODUCED: pipeline runs, all clauses of C07 held\n"); std::fflush(stdout); _exit(0);
}
}
int main(int argc, char** argv) {
    if (argc > 1 && (!std::strncmp(argv[1], "stage.", 6) || !std::strncmp(argv[1], "chain.", 6) || !std::strncmp(argv[1], "filter.", 7))) return pr::all(argv[1]);
    std::string why;
    std::vector<std::vector<unsigned long>> cases = {
        {8, 9, 4, 5, 6, 7, 1, 2, 3, 0}, {4, 8, 16, 15, 14, 13, 12, 11, 10, 9, 7, 6, 5, 3, 2, 1, 0}, {3, 2, 1, 0}, {1, 0, 3, 2, 5, 4}, {16, 17, 1, 2, 3, 4, 5, 6, 7, 8, 9, 10, 11, 12, 13, 14, 15, 0}};
    // tokens 0..low-1 pass in order; `low` is held back; a few successors are parked; then one far-ahead token forces the ring to grow by several doublings at once
    for (unsigned long low : {0ul, 3ul, 7ul, 12ul}) for (unsigned long parked = 1; parked <= 3; ++parked) for (unsigned long jump = 5; jump <= 40; ++jump) {
        std::vector<unsigned long> p; unsigned long n = low + jump + 1;
        for (unsigned long t = 0; t < low; ++t) p.push_back(t);
        for (unsigned long t = low + 1; t <= low + parked; ++t) p.push_back(t);
        p.push_back(low + jump); p.push_back(low);
        for (unsigned long t = low + parked + 1; t < low + jump; ++t) p.push_back(t);
        if (p.size() == n) cases.push_back(p);
    }
    std::mt19937 rng(1);
    for (int r = 0; r < 3000; ++r) { size_t n = 2 + rng() % 40; std::vector<unsigned long> p(n); for (size_t i = 0; i < n; ++i) p[i] = i; std::shuffle(p.begin(), p.end(), rng); cases.push_back(p); }
    for (auto& c : cases) if (run(c, why)) {
        std::printf("REPRODUCED class=pipeline-token-buffer ordered serial stage, tokens arriving in the order");
        for (auto t : c) std::printf(" %lu", t);
        std::printf(": %s\n", why.c_str()); return 0;
    }
    std::printf("NOT-REPRODUCED\n"); return 0;
}
