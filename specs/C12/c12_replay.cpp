// Native replay for C12 on the REAL concurrent_unordered_map.
#include <oneapi/tbb/concurrent_unordered_map.h>
#include <oneapi/tbb/concurrent_unordered_set.h>
#include <oneapi/tbb/concurrent_set.h>
#include <oneapi/tbb/concurrent_map.h>
#include <cstdio>
#include <string>
struct IdHash { size_t operator()(size_t k) const { return k; } };
// ranges: the boundary between the two halves of a split must be one fixed element, whatever is inserted afterwards
static bool range_recipe() {
    typedef tbb::concurrent_unordered_set<size_t, IdHash> set_t;
    for (size_t base : {8u, 16u, 64u}) {
        set_t s;
        for (size_t k = 8; k < 16; ++k) s.insert(k + base - 8 + (base - 8) % 8);      // one key per bucket of the default 8 buckets
        set_t::range_type left = s.range();
        if (!left.is_divisible()) continue;
        set_t::range_type right(left, tbb::split());
        auto e0 = left.end(); auto b0 = right.begin();
        if (e0 != b0) { std::printf("REPRODUCED class=range-halves-do-not-meet directly after the split left.end() != right.begin()\n"); return true; }
        if (b0 == s.end()) continue;
        size_t first = *b0, bucket = first % s.unsafe_bucket_count();
        // every key of that bucket whose split-order key is smaller than first's lands between the bucket's dummy node and `first`
        for (size_t k = bucket; k < first; k += s.unsafe_bucket_count()) {
            s.insert(k);
            if (left.end() != e0 || right.begin() != b0) {
                std::printf("REPRODUCED class=range-boundary-moved after insert(%zu) behind the dummy node of bucket %zu, left.end() is %s and right.begin() is %s the element %zu they both were when the range was split: the halves no longer partition the parent range\n",
                            k, bucket, left.end() == e0 ? "still" : "no longer", right.begin() == b0 ? "still" : "no longer", first);
                return true;
            }
        }
    }
    return false;
}
// skip list: sequential recipe on the real concurrent_set / concurrent_multiset
static bool skip_recipe() {
    tbb::concurrent_set<unsigned short> s; tbb::concurrent_multiset<unsigned short> ms;
    const unsigned N = 3000;
    for (unsigned i = 0; i < N; ++i) { unsigned short k = (unsigned short)((i * 7919u) % 4001u);
        bool fresh = s.find(k) == s.end(); auto r = s.insert(k);
        if (r.second != fresh) { std::printf("REPRODUCED class=skiplist-duplicate insert(%u) reported %d although the key was %s\n", k, (int)r.second, fresh ? "absent" : "present"); return true; }
        if (s.find(k) == s.end() || *s.find(k) != k) { std::printf("REPRODUCED class=skiplist-lost-key key %u is not found right after its insert returned\n", k); return true; }
        ms.insert(k); ms.insert(k); }
    size_t n = 0; bool first = true; unsigned short last = 0;
    for (unsigned short k : s) { if (!first && !(last < k)) { std::printf("REPRODUCED class=skiplist-order iteration yields %u after %u\n", k, last); return true; } last = k; first = false; ++n; }
    if (n != s.size()) { std::printf("REPRODUCED class=skiplist-size size() == %zu but iteration sees %zu elements\n", s.size(), n); return true; }
    n = 0; first = true;
    for (unsigned short k : ms) { if (!first && k < last) { std::printf("REPRODUCED class=skiplist-order multiset iteration yields %u after %u\n", k, last); return true; } last = k; first = false; ++n; }
    if (n != 2 * N || ms.size() != 2 * N) { std::printf("REPRODUCED class=skiplist-size multiset holds %zu / iterates %zu elements after %u inserts\n", ms.size(), n, 2 * N); return true; }
    return false;
}
// skip list, white box: unsafe_extract / unsafe_erase on the real concurrent_multiset - the node handed out carries no link at any level, and every level's chain of the
// remaining list is exactly the remaining nodes of that height in level-0 order
#include <vector>
template <typename Set> static bool levels_consistent(Set& s, const char* when) {
    auto* head = s.my_head_ptr.load(); if (!head) return true;
    std::vector<decltype(head)> all; for (auto* n = head->next(0); n; n = n->next(0)) all.push_back(n);
    if (all.size() != s.size()) { std::printf("REPRODUCED class=skiplist-size %s: size() == %zu but level 0 holds %zu nodes\n", when, s.size(), all.size()); return false; }
    for (size_t l = 0; l < head->height(); ++l) { size_t k = 0; auto* n = head->next(l);
        for (; n; n = n->next(l)) { while (k < all.size() && (all[k]->height() <= l)) ++k;
            if (k == all.size() || all[k] != n) { std::printf("REPRODUCED class=skiplist-level-chain %s: the chain of level %zu holds a node that is not the next node of that height in level-0 order (stale or skipped link)\n", when, l); return false; } ++k; }
        while (k < all.size() && (all[k]->height() <= l)) ++k;
        if (k != all.size()) { std::printf("REPRODUCED class=skiplist-level-chain %s: a node of height > %zu is missing from the chain of level %zu\n", when, l, l); return false; } }
    return true;
}
static bool extract_recipe() {
    for (unsigned round = 0; round < 8; ++round) {
        tbb::concurrent_multiset<int> s; for (int i = 0; i < 600; ++i) s.insert((i * 7 + (int)round) % 200);
        if (!levels_consistent(s, "after the inserts")) return true;
        unsigned taken = 0;
        for (auto it = s.begin(); it != s.end();) { auto cur = it++; auto* n = cur.my_node_ptr; size_t h = n->height();
            if (h < 2 && (taken % 3)) { ++taken; continue; }
            ++taken; size_t before = s.size(); int key = *cur; auto* follower = n->next(0);
            auto nh = s.unsafe_extract(cur);
            if (nh.empty() || tbb::detail::d1::node_handle_accessor::get_node_ptr(nh) != n || s.size() != before - 1) { std::printf("REPRODUCED class=extract-result unsafe_extract of key %d handed out another node or size() went from %zu to %zu\n", key, before, s.size()); return true; }
            for (size_t l = 0; l < h; ++l) if (n->next(l) != nullptr) {
                std::printf("REPRODUCED class=stale-level-link after unsafe_extract the node of key %d (height %zu) still points at a node of the source container at level %zu: re-inserted through insert(node_type&&), a reader that reaches it at level 0 follows that link out of the container\n", key, h, l); return true; }
            if (!levels_consistent(s, "after unsafe_extract")) return true;
            (void)follower;
            if (taken % 2) { s.insert(std::move(nh)); if (!nh.empty() || !levels_consistent(s, "after insert(node_type&&)")) { if (!nh.empty()) std::printf("REPRODUCED class=extract-reinsert the extracted node could not be inserted again\n"); return true; } }
        }
        // unsafe_erase(iterator) returns the follower
        for (auto it = s.begin(); it != s.end();) { auto* n = it.my_node_ptr; auto* f = n->next(0); size_t before = s.size(); auto r = s.unsafe_erase(it);
            if (r.my_node_ptr != f || s.size() != before - 1) { std::printf("REPRODUCED class=erase-result unsafe_erase(iterator) did not return the element that followed, or size() went from %zu to %zu\n", before, s.size()); return true; }
            it = r; if (it != s.end()) ++it; }
        if (!levels_consistent(s, "after unsafe_erase")) return true;
    }
    return false;
}
int main(int argc, char** argv) {
    if (argc > 1 && (std::string(argv[1]).rfind("skip.extract", 0) == 0 || std::string(argv[1]).rfind("skip.erase", 0) == 0 || std::string(argv[1]).rfind("skip.node", 0) == 0)) { if (!extract_recipe()) std::printf("NOT-REPRODUCED\n"); return 0; }
    if (argc > 1 && std::string(argv[1]).rfind("skip.", 0) == 0) { if (!skip_recipe()) std::printf("NOT-REPRODUCED\n"); return 0; }
    if (argc > 1 && std::string(argv[1]).rfind("range.", 0) == 0 && range_recipe()) return 0;
    for (size_t n : {12u, 3u, 5u, 24u, 100u, 1000u}) {
        tbb::concurrent_unordered_map<size_t, int, IdHash> m;
        m.rehash(n);
        size_t bc = m.unsafe_bucket_count();
        if (bc & (bc - 1)) { std::printf("REPRODUCED class=bucket-count-not-power-of-two rehash(%zu) left unsafe_bucket_count() == %zu, not a power of two: bucket = hash %% count no longer matches the split-order keys\n", n, bc); return 0; }
        for (size_t k = 0; k < 4 * n + 64; ++k) { auto r = m.insert({k, 1}); if (!r.second) { std::printf("REPRODUCED class=unordered-duplicate insert(%zu) after rehash(%zu) reported a duplicate\n", k, n); return 0; } }
        for (size_t k = 0; k < 4 * n + 64; ++k) { if (m.count(k) != 1) { std::printf("REPRODUCED class=unordered-lost-key after rehash(%zu) and %zu inserts, key %zu is found %zu times\n", n, 4 * n + 64, k, m.count(k)); return 0; } if (m.insert({k, 2}).second) { std::printf("REPRODUCED class=unordered-duplicate key %zu inserted twice after rehash(%zu)\n", k, n); return 0; } }
        if (m.size() != 4 * n + 64) { std::printf("REPRODUCED class=unordered-size size() == %zu after %zu distinct inserts\n", m.size(), 4 * n + 64); return 0; }
    }
    std::printf("NOT-REPRODUCED\n"); return 0;
}
