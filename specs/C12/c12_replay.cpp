// Native replay for C12 on the REAL concurrent_unordered_map.
#include <oneapi/tbb/concurrent_unordered_map.h>
#include <oneapi/tbb/concurrent_unordered_set.h>
#include <cstdio>
#include <string>
struct IdHash { size_t operator()(size_t k) const { return k; } };
int main(int argc, char** argv) {
    for (size_t n : {12u, 3u, 5u, 24u, 100u, 1000u}) {
        tbb::concurrent_unordered_map<size_t, int, IdHash> m;
        m.rehash(n);
        size_t bc = m.unsafe_bucket_count();
        if (bc & (bc - 1)) { std::printf("REPRODUCED class=bucket-count-not-power-of-two rehash(%zu) left unsafe_bucket_count() == %zu, not a power of two: bucket = hash %% count no longer matches the split-order keys\n", n, bc); return 0; }
        for (size_t k = 0; k < 4 * n + 64; ++k) { auto r = m.insert({k, 1}); if (!r.second) { std::printf("REPRODUCED class=unordered-duplicate insert(%zu) after rehash(%zu) reported a duplicate\n", k, n); return 0; } }
        for (size_t k = 0; k < 4 * n + 64; ++k) { if (m.count(k) != 1) { std::printf("REPRODUCED class=unordered-lost-key after rehash(%zu) and %zu inserts, key %zu is found %zu times\n", n, 4 * n + 64, k, m.count(k)); return 0; } if (m.insert({k, 2}).second) { std::printf("REPRODUCED class=unordered-duplicate key %zu inserted twice after rehash(%zu)\n", k, n); return 0; } }
        if (m.size() != 4 * n + 64) { std::printf("REPRODUCED class=unordered-size size() == %zu after %zu distinct inserts\n", m.size(), 4 * n + 64); return 0; }
    }
    std::printf("NOT-REPRODUCED\n"); return 0;
}
