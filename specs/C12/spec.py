"""C12 -- concurrent unordered containers: split-order key arithmetic and the bucket-count protocol."""
import os
import sys
import re
HERE = os.path.dirname(os.path.abspath(__file__))
sys.path.insert(0, os.path.join(HERE, '..'))
sys.path.insert(0, os.path.join(HERE, '..', '..', 'tools'))
import common
import native
import cxx2c
from cxx2c import Rewriter, slice_block, slice_stmt, tag_loops, ExtractionBreak, load
from prove import Job

UB = 'include/oneapi/tbb/detail/_concurrent_unordered_base.h'
MH = 'include/oneapi/tbb/detail/_machine.h'
TY = ['size_type', 'sokey_type', 'uintptr_t', 'size_t', 'float']


def extract(ctx):
    sliced, fired = [], {}
    log2_txt, f = common.log2_c(ctx, sliced)
    fired['log2'] = f
    common.write(ctx, 'log2.inc', log2_txt)
    rw = Rewriter('unordered')
    out = []
    # byte table + reverse_byte + machine_reverse_bits<size_t>
    s = slice_stmt(MH, r'const T reverse<T>::byte_table\[256\] = \{')
    sliced.append('%s:%d reverse<T>::byte_table' % (MH, s.line))
    t = rw.sub(s.text, r'const T reverse<T>::byte_table\[256\] = \{', 'static const unsigned char byte_table[256] = {', 1, 1, name='template static member -> C table (T:=unsigned char)')
    if t.count('0x') != 256:
        raise ExtractionBreak('byte_table no longer has 256 entries')
    out.append(t)
    s = slice_block(MH, r'inline unsigned char reverse_byte\(unsigned char src\)')
    sliced.append('%s:%d reverse_byte' % (MH, s.line))
    out.append(rw.sub(s.text, r'reverse<unsigned char>::byte_table\[src\]', 'byte_table[src]', 1, 1, name='ns-strip'))
    s = slice_block(MH, r'T machine_reverse_bits\(T src\)')
    sliced.append('%s:%d machine_reverse_bits' % (MH, s.line))
    t = cxx2c.cpp_resolve(s.text, {'TBB_USE_CLANG_BITREVERSE_BUILTINS': 0}, 'machine_reverse_bits')
    rw.fired['cpp-resolve(TBB_USE_CLANG_BITREVERSE_BUILTINS=0: the generic arm g++ compiles)'] = 1
    t = rw.sub(t, r'T machine_reverse_bits\(T src\)', 'static size_t machine_reverse_bits(size_t src)', 1, 1, name='sig + bind-template(T:=size_t)')
    t = rw.sub(t, r'\bT\b', 'size_t', 2, name='bind-template(T:=size_t)')
    t = rw.casts(t, 2)
    t = tag_loops(t, 'rev', rw, expect=1)
    out.append(t)
    for name, sig in (('split_order_key_regular', r'static constexpr sokey_type split_order_key_regular\( sokey_type hash \)'), ('split_order_key_dummy', r'static constexpr sokey_type split_order_key_dummy\( sokey_type hash \)')):
        s = slice_block(UB, sig)
        sliced.append('%s:%d %s' % (UB, s.line, name))
        t = rw.sub(s.text, r'static constexpr sokey_type', 'static sokey_type', 1, 1, name='constexpr')
        t = rw.sub(t, r'\breverse_bits\(', 'machine_reverse_bits(', 1, 1, name='reverse_bits<T> forwards to machine_reverse_bits')
        t = rw.fcasts(t, TY)
        out.append(t)
    s = slice_block(UB, r'size_type get_parent\( size_type bucket \) const')
    sliced.append('%s:%d get_parent' % (UB, s.line))
    t = rw.sub(s.text, r'size_type get_parent\( size_type bucket \) const', 'static size_type get_parent(size_type bucket)', 1, 1, name='sig')
    t = rw.sub(t, r'tbb::detail::log2\(', 'tbb_log2(', 1, 1, name='ns-strip')
    t = rw.asserts(t, 1)
    t = rw.fcasts(t, TY)
    out.append(t)
    s = slice_block(UB, r'static constexpr size_type round_up_to_power_of_two\( size_type bucket_count \)')
    sliced.append('%s:%d round_up_to_power_of_two' % (UB, s.line))
    t = rw.sub(s.text, r'static constexpr size_type round_up_to_power_of_two', 'static size_type round_up_to_power_of_two', 1, 1, name='constexpr')
    t = rw.sub(t, r'tbb::detail::log2\(', 'tbb_log2(', 1, 1, name='ns-strip')
    t = rw.fcasts(t, TY)
    out.append(t)
    common.write(ctx, 'sokey.inc', '\n'.join(out) + '\n')
    # bucket-count writers
    out = []
    s = slice_block(UB, r'void rehash\( size_type bucket_count \)')
    sliced.append('%s:%d rehash' % (UB, s.line))
    t = rw.sub(s.text, r'void rehash\( size_type bucket_count \)', 'void cub_rehash(struct cub* self, size_type bucket_count)', 1, 1, name='sig')
    t = rw.sub(t, r'(?<![\w.>])my_bucket_count\b', 'self->my_bucket_count', 1, name='field')
    t = rw.atomics(t, ['my_bucket_count'], 1)
    t = rw.number_sites(t, 'rehash', by_kind=True)
    t = tag_loops(t, 'rehash', rw)
    out.append(t)
    s = slice_block(UB, r'void adjust_table_size\( size_type total_elements, size_type current_size \)')
    sliced.append('%s:%d adjust_table_size' % (UB, s.line))
    t = rw.sub(s.text, r'void adjust_table_size\( size_type total_elements, size_type current_size \)', 'void cub_adjust_table_size(struct cub* self, size_type total_elements, size_type current_size)', 1, 1, name='sig')
    t = rw.sub(t, r'(?<![\w.>])(my_bucket_count|my_max_load_factor)\b', r'self->\1', 2, name='field')
    t = rw.atomics(t, ['my_bucket_count'], 1)
    t = rw.fcasts(t, TY)
    t = rw.number_sites(t, 'adjust', by_kind=True)
    out.append(t)
    common.write(ctx, 'bcount.inc', '\n'.join(out) + '\n')
    fired['unordered'] = rw.fired
    return sliced, fired


# ---------------------------------------------------------------------------------------------------------------------
# split-ordered list: list_node accessors, search_after / try_insert / internal_insert, insert_dummy_node,
# get_bucket / init_bucket / prepare_bucket, internal_find / internal_equal_range / first_value_node / iterator ++
# ---------------------------------------------------------------------------------------------------------------------
NODE_METHODS = ['next', 'order_key', 'set_next', 'try_set_next', 'is_dummy']


def node_calls(rw, t, minc):
    """X->m(args) on list nodes -> list_node_m(X[, args]) (the accessors themselves are sliced into nodes.inc)"""
    def fn(m, a):
        a = [x for x in a if x != '']
        return 'list_node_%s(%s)' % (m.group('m'), ', '.join([m.group('o')] + a))
    return rw.call(t, r'(?P<o>\b\w+)->(?P<m>%s)' % '|'.join(NODE_METHODS), fn, minc, name='node accessor call')


def key_calls(rw, t, minc_eq, minc_hash=0):
    """traits_type::get_key(static_cast<value_node_ptr>(X)->value()) -> NODE_KEY(X); my_hash_compare(a, b) -> KEY_EQUAL(a, b); my_hash_compare(k) -> KEY_HASH(k)"""
    t = rw.sub(t, r'traits_type::get_key\(static_cast<value_node_ptr>\((\w+)\)->value\(\)\)', r'NODE_KEY(\1)', minc_eq, name='key of a value node -> NODE_KEY')
    cnt = {'eq': 0, 'hash': 0}

    def fn(m, a):
        if len(a) == 2:
            cnt['eq'] += 1
            return 'KEY_EQUAL(%s, %s)' % (a[0], a[1])
        cnt['hash'] += 1
        return 'KEY_HASH(%s)' % a[0]
    t = rw.call(t, r'\bmy_hash_compare', fn, minc_eq + minc_hash, name='hash_compare functor')
    if cnt['eq'] < minc_eq or cnt['hash'] < minc_hash:
        raise ExtractionBreak('hash_compare: %r, expected >= %d equality and >= %d hash applications' % (cnt, minc_eq, minc_hash))
    return t


def extract_solist(ctx, sliced, fired):
    rw = Rewriter('solist')
    # ---- list_node accessors (the only code that touches my_next) ----
    LN = r'class list_node \{'
    out = []
    for name, sig, csig in (
            ('next', r'node_ptr next\(\) const', 'static node_ptr list_node_next(node_ptr self)'),
            ('order_key', r'sokey_type order_key\(\) const', 'static sokey_type list_node_order_key(node_ptr self)'),
            ('is_dummy', r'bool is_dummy\(\)', 'static bool list_node_is_dummy(node_ptr self)'),
            ('set_next', r'void set_next\( node_ptr next_node \)', 'static void list_node_set_next(node_ptr self, node_ptr next_node)'),
            ('try_set_next', r'bool try_set_next\( node_ptr expected_next, node_ptr new_next \)', 'static bool list_node_try_set_next(node_ptr self, node_ptr expected_next, node_ptr new_next)')):
        s = slice_block(UB, sig, within=LN)
        sliced.append('%s:%d list_node::%s' % (UB, s.line, name))
        t = rw.sub(s.text, sig, csig, 1, 1, name='sig')
        t = rw.atomics(t, ['my_next'], 0)
        t = rw.sub(t, r'\bmy_next\b', 'NODE_NEXT_WORD(self)', 0, name='field')
        t = rw.sub(t, r'\bmy_order_key\b', 'NODE_ORDER_KEY(self)', 0, name='field')
        t = rw.number_sites(t, 'node_' + name, by_kind=True)
        out.append(t)
    common.write(ctx, 'nodes.inc', '\n'.join(out) + '\n')
    # ---- search_after / try_insert / internal_insert ----
    out = []
    s = slice_block(UB, r'std::pair<value_node_ptr, bool> search_after\( node_ptr& prev, sokey_type order_key, const key_type& key \)')
    sliced.append('%s:%d search_after' % (UB, s.line))
    t = key_calls(rw, s.text, 0)
    t = node_calls(rw, t, 1)
    t = rw.sub(t, r'(?<!& )\bprev\b', '(*prev)', 1, name='ref-param')
    t = rw.sub(t, r'std::pair<value_node_ptr, bool> search_after\( node_ptr& prev, sokey_type order_key, const key_type& key \)',
               'struct sres cub_search_after(struct cub* self, node_ptr* prev, sokey_type order_key, key_type key)', 1, 1, name='sig')
    t = rw.sub(t, r'return \{([^{};]*)\};', r'return (struct sres){\1};', 1, name='braced return -> compound literal')
    t = rw.casts(t, 0)
    t = rw.std(t)
    t = tag_loops(t, 'search', rw, expect=1)
    out.append(t)
    s = slice_block(UB, r'static bool try_insert\( node_ptr prev_node, node_ptr new_node, node_ptr current_next_node \)')
    sliced.append('%s:%d try_insert' % (UB, s.line))
    t = rw.sub(s.text, r'static bool try_insert\(', 'static bool cub_try_insert(', 1, 1, name='sig')
    t = node_calls(rw, t, 0)
    out.append(t)
    s = slice_block(UB, r'internal_insert_return_type internal_insert\( ValueType&& value, CreateInsertNode create_insert_node \)')
    sliced.append('%s:%d internal_insert' % (UB, s.line))
    t = rw.sub(s.text, r'internal_insert_return_type internal_insert\( ValueType&& value, CreateInsertNode create_insert_node \)',
               'struct iir cub_internal_insert(struct cub* self, key_type value)', 1, 1, name='sig (the value is represented by its key; the node factory by STUB_create_insert_node)')
    t = rw.sub(t, r'(?s)static_assert\(.*?\);', 'RG_NOP();', 0, 1, name='static_assert (compile time) -> RG_NOP')
    t = rw.sub(t, r'const key_type& key = traits_type::get_key\(value\);', 'key_type key = value;', 1, 1, name='key extraction')
    t = key_calls(rw, t, 0, 1)
    t = rw.sub(t, r'\bauto search_result\b', 'struct sres search_result', 1, 1, name='auto')
    t = rw.sub(t, r'\bauto sz\b', 'size_type sz', 0, 1, name='auto')
    t = rw.sub(t, r'\bsearch_after\(prev,', 'cub_search_after(self, &prev,', 1, name='method + ref-param')
    t = rw.sub(t, r'\btry_insert\(', 'cub_try_insert(', 0, name='method')
    t = rw.sub(t, r'\bprepare_bucket\(', 'STUB_prepare_bucket(self, ', 1, 1, name='callee stub (proved in solist.bucket)')
    t = rw.sub(t, r'\bcreate_insert_node\(', 'STUB_create_insert_node(self, ', 1, 1, name='callee stub (node factory)')
    t = rw.sub(t, r'\badjust_table_size\(', 'STUB_adjust_table_size(self, ', 0, name='callee stub (proved in bcount.adjust)')
    t = rw.sub(t, r'\bsplit_order_key_regular\(', 'STUB_split_order_key_regular(', 1, 1, name='callee stub (proved in sokey.order: odd, a function of the hash)')
    t = rw.sub(t, r'internal_insert_return_type\{', '(struct iir){', 1, name='braced temporary -> compound literal')
    t = rw.atomics(t, ['my_size', 'my_bucket_count'], 0)
    t = rw.sub(t, r'(?<![\w.>])(my_size|my_bucket_count)\b', r'self->\1', 0, name='field')
    t = rw.asserts(t, 0)
    t = rw.casts(t, 0)
    t = rw.fcasts(t, TY)
    t = rw.std(t)
    t = rw.number_sites(t, 'insert', by_kind=True)
    t = tag_loops(t, 'insert', rw, expect=1)
    out.append(t)
    common.write(ctx, 'insert.inc', '\n'.join(out) + '\n')

    # ---- insert_dummy_node ----
    s = slice_block(UB, r'node_ptr insert_dummy_node\( node_ptr parent_dummy_node, sokey_type order_key \)')
    sliced.append('%s:%d insert_dummy_node' % (UB, s.line))
    t = rw.sub(s.text, r'node_ptr insert_dummy_node\( node_ptr parent_dummy_node, sokey_type order_key \)',
               'node_ptr cub_insert_dummy_node(struct cub* self, node_ptr parent_dummy_node, sokey_type order_key)', 1, 1, name='sig')
    t = node_calls(rw, t, 1)
    t = rw.sub(t, r'\bcreate_dummy_node\(', 'STUB_create_dummy_node(self, ', 1, 1, name='callee stub (node factory)')
    t = rw.sub(t, r'\bdestroy_node\(', 'STUB_destroy_node(self, ', 0, name='callee stub (node disposal)')
    t = rw.sub(t, r'\btry_insert\(', 'cub_try_insert(', 0, name='method')
    t = rw.std(t)
    t = tag_loops(t, 'dummy', rw, expect=2)
    common.write(ctx, 'dummy.inc', out[1] + '\n' + t + '\n')      # try_insert + insert_dummy_node
    # ---- prepare_bucket / get_bucket / init_bucket ----
    outb = []
    for name, sig, csig in (
            ('init_bucket', r'void init_bucket\( size_type bucket \)', 'void cub_init_bucket(struct cub* self, size_type bucket)'),
            ('get_bucket', r'node_ptr get_bucket\( size_type bucket_index \)', 'node_ptr cub_get_bucket(struct cub* self, size_type bucket_index)'),
            ('prepare_bucket', r'node_ptr prepare_bucket\( sokey_type hash_key \)', 'node_ptr cub_prepare_bucket(struct cub* self, sokey_type hash_key)')):
        s = slice_block(UB, sig)
        sliced.append('%s:%d %s' % (UB, s.line, name))
        t = rw.sub(s.text, sig, csig, 1, 1, name='sig')
        t = rw.atomics(t, ['my_segments', 'my_bucket_count'], 1)
        t = rw.sub(t, r'(?<![\w.>])my_segments\[([^\]]*)\]', r'SEG_WORD(self, \1)', 0, name='segment table entry')
        t = rw.sub(t, r'(?<![\w.>])my_bucket_count\b', 'BC_WORD(self)', 0, name='field')
        t = rw.sub(t, r'&my_head\b', 'CUB_HEAD(self)', 0, name='the list head node')
        if name == 'init_bucket':
            t = rw.sub(t, r'(?<![\w.>])init_bucket\(', 'STUB_init_bucket(self, ', 1, 1, name='recursive call -> the function\'s own contract (parent index smaller: job sokey.order)')
            t = rw.sub(t, r'\bget_parent\(', 'STUB_get_parent(', 1, 1, name='callee stub (proved in sokey.order)')
            t = rw.sub(t, r'\bsplit_order_key_dummy\(', 'STUB_split_order_key_dummy(', 1, 1, name='callee stub (proved in sokey.order)')
            t = rw.sub(t, r'\binsert_dummy_node\(', 'STUB_insert_dummy_node(self, ', 1, 1, name='callee stub (proved in solist.dummy)')
        else:
            t = rw.sub(t, r'(?<![\w.>])(init_bucket|get_bucket)\(', r'cub_\1(self, ', 1, 1, name='method')
        t = rw.asserts(t, 0)
        t = rw.std(t)
        t = rw.number_sites(t, name, by_kind=True)
        t = tag_loops(t, name, rw)
        outb.append(t)
    common.write(ctx, 'bucket.inc', '\n'.join(outb[:2]) + '\n')
    common.write(ctx, 'prepare.inc', outb[2] + '\n')
    fired['solist'] = rw.fired


def extract_range(ctx, sliced, fired):
    """const_range_type: the splittable range of the unordered containers + first_value_node"""
    rw = Rewriter('range')
    CR = r'class const_range_type \{'
    out = []
    s = slice_block(UB, r'value_node_ptr first_value_node\( node_ptr first_node \) const')
    sliced.append('%s:%d first_value_node' % (UB, s.line))
    t = rw.sub(s.text, r'value_node_ptr first_value_node\( node_ptr first_node \) const', 'value_node_ptr cub_first_value_node(struct cub* self, node_ptr first_node)', 1, 1, name='sig')
    t = node_calls(rw, t, 1)
    t = rw.casts(t, 0)
    t = rw.std(t)
    t = tag_loops(t, 'fvn', rw, expect=1)
    out.append(t)
    common.write(ctx, 'fvn.inc', t + '\n')
    FIELDS = ['my_begin_node', 'my_end_node', 'my_midpoint_node']

    def conv(t):
        t = node_calls(rw, t, 0)
        t = rw.sub(t, r'my_instance\.first_value_node\(', 'FVN(self->my_instance, ', 0, name='method of the container (first_value_node, sliced)')
        t = rw.sub(t, r'my_instance\.get_parent\(', 'STUB_get_parent(', 0, name='callee stub (proved in sokey.order)')
        t = rw.atomics(t, ['my_segments', 'my_bucket_count'], 0, obj=r'my_instance\.')
        t = rw.sub(t, r'my_instance\.my_segments\[([^\]]*)\]', r'SEG_WORD(self->my_instance, \1)', 0, name='segment table entry')
        t = rw.sub(t, r'my_instance\.my_bucket_count\b', 'BC_WORD(self->my_instance)', 0, name='field')
        t = rw.sub(t, r'\breverse_bits\(', 'STUB_reverse_bits(', 0, name='callee stub (proved in rev.bits)')
        t = rw.sub(t, r'(?<![\w.>])(%s)\b' % '|'.join(FIELDS), r'self->\1', 0, name='field')
        t = rw.sub(t, r'\brange\.(?=my_)', 'range->', 0, name='ref-param')
        t = rw.sub(t, r'(?<![\w.>])(empty|set_midpoint)\(\)', r'crange_\1(self)', 0, name='method')
        t = rw.sub(t, r'\brange\.(empty|set_midpoint)\(\)', r'crange_\1(range)', 0, name='method on the ref-param')
        t = rw.sub(t, r'\biterator\(', 'ITER(', 0, name='iterator construction from a node')
        t = rw.asserts(t, 0)
        t = rw.fcasts(t, TY)
        t = rw.casts(t, 0)
        t = rw.number_sites(t, 'range', by_kind=True)
        return rw.std(t)
    protos = []
    for name, sig, csig in (
            ('empty', r'bool empty\(\) const', 'bool crange_empty(struct crange* self)'),
            ('is_divisible', r'bool is_divisible\(\) const', 'bool crange_is_divisible(struct crange* self)'),
            ('set_midpoint', r'void set_midpoint\(\) const', 'void crange_set_midpoint(struct crange* self)'),
            ('begin', r'iterator begin\(\) const', 'node_ptr crange_begin(struct crange* self)'),
            ('end', r'iterator end\(\) const', 'node_ptr crange_end(struct crange* self)')):
        s = slice_block(UB, sig, within=CR)
        sliced.append('%s:%d const_range_type::%s' % (UB, s.line, name))
        t = rw.sub(s.text, sig, csig, 1, 1, name='sig')
        t = conv(t)
        if name == 'set_midpoint':
            t = tag_loops(t, 'midpoint', rw, expect=1)
        protos.append(csig + ';')
        out.append(t)
    # the splitting constructor and the constructor from a table: initialiser lists -> assignments in DECLARED member order
    decl = slice_block(UB, CR).text
    order = [m.group(1) for m in re.finditer(r'\b(my_instance|my_begin_node|my_end_node|my_midpoint_node)\s*;', decl)]
    if order[:3] != ['my_instance', 'my_begin_node', 'my_end_node']:
        raise ExtractionBreak('const_range_type: member declaration order changed: %r' % order)
    for name, sig, csig in (
            ('split ctor', r'const_range_type\( const_range_type& range, split \)', 'void crange_split_ctor(struct crange* self, struct crange* range)'),
            ('table ctor', r'const_range_type\( const concurrent_unordered_base& table \)', 'void crange_table_ctor(struct crange* self, struct cub* table)')):
        s = slice_block(UB, sig, within=CR, ctor=True)
        sliced.append('%s:%d const_range_type %s' % (UB, s.line, name))
        txt = s.text
        m = cxx2c.mask(txt)
        colon = m.index(':', m.index(')'))
        b = m.index('{', txt.rindex(')', 0, m.rindex('{')))   # the body brace (after the last initialiser)
        items = []
        for it in cxx2c.split_args(txt[colon + 1:b]):
            im = re.match(r'\s*(\w+)\s*\((.*)\)\s*$', it, re.S)
            if not im:
                raise ExtractionBreak('const_range_type %s: cannot parse initialiser %r' % (name, it))
            items.append((im.group(1), im.group(2).strip()))
        items.sort(key=lambda x: order.index(x[0]))
        rw.fired['ctor-init-list->assignments(declared order)'] = rw.fired.get('ctor-init-list->assignments(declared order)', 0) + len(items)
        body = '{\n' + ''.join('    %s = %s;\n' % (k, v) for k, v in items) + txt[b + 1:]
        body = rw.sub(body, r'\brange\.my_instance\b', 'range->my_instance', 0, name='ref-param')
        body = rw.sub(body, r'const_cast<node_ptr>\(&table\.my_head\)', 'CUB_HEAD(table)', 0, name='the list head node')
        body = rw.sub(body, r'(?<![\w.>])my_instance = my_instance\.first_value_node', 'BAD', 0, 0, name='guard')
        body = rw.sub(body, r'(?<![\w.>])my_instance = ', 'self->my_instance = ', 1, 1, name='field (reference member -> pointer)')
        body = rw.sub(body, r'self->my_instance = table;', 'self->my_instance = table;', 0, name='ref-param')
        t = csig + ' ' + conv(body)
        out.append(t)
    common.write(ctx, 'range.inc', '\n'.join(protos) + '\n' + '\n'.join(out[1:]) + '\n')
    fired['range'] = rw.fired


def extract_find(ctx, sliced, fired):
    """lookups and traversal: internal_find, internal_equal_range, solist_iterator::operator++ (first_value_node comes from extract_range)"""
    rw = Rewriter('find')
    out = []
    s = slice_block(UB, r'solist_iterator& operator\+\+\(\)', within=r'class solist_iterator \{')
    sliced.append('%s:%d solist_iterator::operator++' % (UB, s.line))
    t = rw.sub(s.text, r'solist_iterator& operator\+\+\(\)', 'void solist_iterator_preinc(struct solist_iterator* self)', 1, 1, name='sig')
    t = node_calls(rw, t, 1)
    t = rw.sub(t, r'\bauto next_node\b', 'node_ptr next_node', 1, 1, name='auto')
    t = rw.sub(t, r'(?<![\w.>])my_node_ptr\b', 'self->my_node_ptr', 2, name='field')
    t = rw.sub(t, r'return \*this;', 'return;', 1, 1, name='return *this')
    t = rw.casts(t, 0)
    t = rw.std(t)
    t = tag_loops(t, 'inc', rw, expect=1)
    out.append(t)
    for name, sig, csig, nl in (
            ('internal_find', r'value_node_ptr internal_find\( const K& key \)', 'value_node_ptr cub_internal_find(struct cub* self, key_type key)', 1),
            ('internal_equal_range', r'std::pair<value_node_ptr, value_node_ptr> internal_equal_range\( const K& key \)', 'struct vpair cub_internal_equal_range(struct cub* self, key_type key)', 2)):
        s = slice_block(UB, sig)
        sliced.append('%s:%d %s' % (UB, s.line, name))
        t = rw.sub(s.text, sig, csig, 1, 1, name='sig')
        t = key_calls(rw, t, 0, 1)
        t = node_calls(rw, t, 1)
        t = rw.sub(t, r'\bprepare_bucket\(', 'STUB_prepare_bucket(self, ', 1, 1, name='callee stub (proved in solist.bucket)')
        t = rw.sub(t, r'\bsplit_order_key_regular\(', 'STUB_split_order_key_regular(', 1, 1, name='callee stub (proved in sokey.order)')
        t = rw.sub(t, r'(?<![\w.>])first_value_node\(', 'cub_first_value_node(self, ', 0, name='method (sliced)')
        t = rw.sub(t, r'std::make_pair\(', '(struct vpair){', 0, name='make_pair -> compound literal')
        t = rw.sub(t, r'(\(struct vpair\)\{[^;]*)\);', r'\1};', 0, name='make_pair -> compound literal (close)')
        t = rw.sub(t, r'return \{([^{};]*)\};', r'return (struct vpair){\1};', 0, name='braced return -> compound literal')
        t = rw.casts(t, 0)
        t = rw.fcasts(t, TY)
        t = rw.std(t)
        t = tag_loops(t, name.replace('internal_', ''), rw, expect=nl)
        out.append(t)
    common.write(ctx, 'find.inc', '\n'.join(out) + '\n')
    fired['find'] = rw.fired


SK = 'include/oneapi/tbb/detail/_concurrent_skip_list.h'
SNODE_METHODS = ['next', 'set_next', 'height', 'index_number', 'set_index_number']


def snode_calls(rw, t, minc):
    """X->m(args) on skip list nodes -> snode_m(X[, args]); X->atomic_next(L).compare_exchange_strong(e, d) -> a CAS on the word"""
    def cas(m, a):
        return 'ATOMIC_CAS(SNODE_NEXT_WORD(%s, %s), &(%s), %s)' % (m.group('o'), m.group('l'), a[0], a[1])
    t = rw.call(t, r'(?P<o>\b\w+)->atomic_next\((?P<l>[^()]*)\)\.compare_exchange_strong', cas, 0, name='atomic_next(level).compare_exchange_strong -> ATOMIC_CAS on the level word')

    def fn(m, a):
        a = [x for x in a if x != '']
        return 'snode_%s(%s)' % (m.group('m'), ', '.join([m.group('o')] + a))
    return rw.call(t, r'(?P<o>\b\w+)->(?P<m>%s)' % '|'.join(SNODE_METHODS), fn, minc, name='skip node accessor call')


def extract_skip(ctx, sliced, fired):
    rw = Rewriter('skiplist')
    NC = r'class skip_list_node \{'
    out = []
    for name, sig, csig in (
            ('height', r'size_type height\(\) const', 'static size_type snode_height(node_ptr self)'),
            ('index_number', r'size_type index_number\(\) const', 'static size_type snode_index_number(node_ptr self)'),
            ('set_index_number', r'void set_index_number\( size_type index_num \)', 'static void snode_set_index_number(node_ptr self, size_type index_num)'),
            ('next', r'node_ptr next\( size_type level \) const', 'static node_ptr snode_next(node_ptr self, size_type level)'),
            ('set_next', r'void set_next\( size_type level, node_ptr n \)', 'static void snode_set_next(node_ptr self, size_type level, node_ptr n)')):
        s = slice_block(SK, sig, within=NC)
        sliced.append('%s:%d skip_list_node::%s' % (SK, s.line, name))
        t = rw.sub(s.text, sig, csig, 1, 1, name='sig')
        t = rw.sub(t, r'get_atomic_next\(level\)\.load\([^()]*\)', 'ATOMIC_LOAD(SNODE_NEXT_WORD(self, level))', 0, name='atomic load of the level word')
        t = rw.sub(t, r'get_atomic_next\(level\)\.store\((\w+), [^()]*\);', r'ATOMIC_STORE(SNODE_NEXT_WORD(self, level), \1);', 0, name='atomic store to the level word')
        t = rw.sub(t, r'\bmy_height\b', 'SNODE_HEIGHT(self)', 0, name='field')
        t = rw.sub(t, r'\bmy_index_number = (\w+);', r'SNODE_SET_INDEX(self, \1);', 0, name='field write')
        t = rw.sub(t, r'\bmy_index_number\b', 'SNODE_INDEX(self)', 0, name='field')
        t = snode_calls(rw, t, 0)
        t = rw.asserts(t, 0)
        t = rw.std(t)
        t = rw.number_sites(t, 'snode_' + name, by_kind=True)
        out.append(t)
    common.write(ctx, 'snodes.inc', '\n'.join(out) + '\n')

    def body_rules(t):
        t = rw.sub(t, r'\bcmp\(', 'CMP(cmp, ', 0, name='comparator object call')
        t = rw.sub(t, r'\bmy_compare\(', 'LESS(', 0, name='key_compare call')
        t = rw.sub(t, r'\bget_key\(', 'GET_KEY(', 0, name='key of a node')
        t = snode_calls(rw, t, 0)
        t = rw.asserts(t, 0)
        t = rw.casts(t, 0)
        return rw.std(t)
    out = []
    s = slice_block(SK, r'bool found\( node_ptr node, const K& key \) const')
    sliced.append('%s:%d found' % (SK, s.line))
    t = rw.sub(s.text, r'bool found\( node_ptr node, const K& key \) const', 'static bool csl_found(struct csl* self, node_ptr node, key_type key)', 1, 1, name='sig')
    out.append(body_rules(t))
    for nth, cname, third in ((0, 'csl_find_position_key', 'key_type key'), (1, 'csl_find_position_node', 'node_ptr node')):
        s = slice_block(SK, r'node_ptr internal_find_position\( size_type level, node_ptr& prev,', nth=nth)
        sliced.append('%s:%d internal_find_position (%s overload)' % (SK, s.line, 'key' if nth == 0 else 'node'))
        t = s.text
        t = snode_calls(rw, t, 1)
        t = rw.sub(t, r'(?<!& )\bprev\b', '(*prev)', 1, name='ref-param')
        t = rw.sub(t, r'(?s)node_ptr internal_find_position\( size_type level, node_ptr& prev,.*?const Comparator& cmp \) const',
                   'node_ptr %s(struct csl* self, size_type level, node_ptr* prev, %s, int cmp)' % (cname, third), 1, 1, name='sig (comparator object -> its tag)')
        t = body_rules(t)
        t = tag_loops(t, 'fpk' if nth == 0 else 'fpn', rw, expect=1)
        out.append(t)
    common.write(ctx, 'skipfound.inc', out[0] + '\n')
    common.write(ctx, 'skipfind.inc', '\n'.join(out[1:]) + '\n')
    # fill_prev_curr_arrays
    s = slice_block(SK, r'void fill_prev_curr_arrays\(array_type& prev_nodes, array_type& curr_nodes, node_ptr node, const key_type& key,')
    sliced.append('%s:%d fill_prev_curr_arrays' % (SK, s.line))
    t = rw.sub(s.text, r'(?s)void fill_prev_curr_arrays\(array_type& prev_nodes, array_type& curr_nodes, node_ptr node, const key_type& key,\s*const Comparator& cmp, node_ptr head \)',
               'void csl_fill_prev_curr_arrays(struct csl* self, node_ptr* prev_nodes, node_ptr* curr_nodes, node_ptr node, key_type key, int cmp, node_ptr head)', 1, 1, name='sig (std::array& -> pointer)')
    t = rw.sub(t, r'std::fill\((\w+)\.begin\(\) \+ (\w+), \1\.begin\(\) \+ (\w+), (\w+)\);', r'ARR_FILL(\1, \2, \3, \4);', 0, name='std::fill over an index range')
    t = rw.sub(t, r'\b(prev_nodes|curr_nodes)\[([^\]]*)\] = ([^;]*);', r'ARR_WR(\1, \2, \3);', 0, name='array element write')
    t = rw.sub(t, r'\binternal_find_position\(level - 1, prev,', 'STUB_find_position_key(self, level - 1, &prev,', 1, 1, name='callee stub (proved in skip.find_position) + ref-param')
    t = rw.atomics(t, ['my_max_height'], 1)
    t = rw.sub(t, r'(?<![\w.>])my_max_height\b', 'self->my_max_height', 1, name='field')
    t = body_rules(t)
    t = rw.number_sites(t, 'fill', by_kind=True)
    t = tag_loops(t, 'fill', rw, expect=1)
    common.write(ctx, 'skipfill.inc', t + '\n')
    # internal_insert_node
    s = slice_block(SK, r'std::pair<iterator, bool> internal_insert_node\( node_ptr new_node \)')
    sliced.append('%s:%d internal_insert_node' % (SK, s.line))
    t = rw.sub(s.text, r'std::pair<iterator, bool> internal_insert_node\( node_ptr new_node \)', 'struct ires csl_internal_insert_node(struct csl* self, node_ptr new_node)', 1, 1, name='sig')
    t = rw.sub(t, r'array_type (prev_nodes|curr_nodes);', r'node_ptr \1[max_level];', 2, 2, name='std::array -> C array')
    t = rw.sub(t, r'auto compare = select_comparator\(std::integral_constant<bool, allow_multimapping>\{\}\);', 'int compare = SELECT_COMPARATOR(allow_multimapping);', 1, 1, name='comparator object -> its tag (less / not_greater)')
    t = rw.sub(t, r'\bcreate_head_if_necessary\(\)', 'STUB_create_head_if_necessary(self)', 1, 1, name='callee stub (proved in skip.head)')
    t = rw.sub(t, r'\bfill_prev_curr_arrays\(', 'STUB_fill_prev_curr_arrays(self, ', 1, 1, name='callee stub (proved in skip.fill)')
    t = rw.sub(t, r'curr_nodes\[lev\] = internal_find_position\(lev, prev_nodes\[lev\], new_node, compare\);', 'ARR_WR(curr_nodes, lev, STUB_find_position_node(self, lev, ARR_REF(prev_nodes, lev), new_node, compare));', 0, name='callee stub (proved in skip.find_position) + ref-param')
    t = rw.sub(t, r'\bfound\(', 'csl_found(self, ', 0, name='method')
    t = rw.sub(t, r'return std::pair<iterator, bool>\(iterator\((\w+)\), (true|false)\);', r'return (struct ires){\1, \2};', 2, name='pair<iterator,bool> -> struct')
    t = rw.sub(t, r'(?<![&\w] )(?<!&)\b(prev_nodes|curr_nodes)\[([^\]]*)\](?! =)', r'ARR_RD(\1, \2)', 0, name='array element read')
    t = rw.sub(t, r'\+\+my_size;', 'ATOMIC_PREINC(my_size);', 0, name='atomic ++')
    t = rw.atomics(t, ['my_max_height'], 1)
    t = rw.sub(t, r'(?<![\w.>])(my_max_height|my_size)\b', r'self->\1', 1, name='field')
    t = body_rules(t)
    t = rw.number_sites(t, 'ins', by_kind=True)
    t = tag_loops(t, 'ins', rw, expect=5)
    common.write(ctx, 'skipins.inc', t + '\n')
    # head creation
    outh = []
    for name, sig, csig in (('get_head', r'node_ptr get_head\(\) const', 'static node_ptr csl_get_head(struct csl* self)'),
                            ('create_head_if_necessary', r'node_ptr create_head_if_necessary\(\)', 'node_ptr csl_create_head_if_necessary(struct csl* self)')):
        s = slice_block(SK, sig)
        sliced.append('%s:%d %s' % (SK, s.line, name))
        t = rw.sub(s.text, sig, csig, 1, 1, name='sig')
        t = rw.sub(t, r'(?<![\w.>])get_head\(\)', 'csl_get_head(self)', 0, name='method')
        t = rw.sub(t, r'\bcreate_head_node\(\)', 'STUB_create_head_node(self)', 0, name='callee stub (node factory)')
        t = rw.sub(t, r'\bdelete_node\(', 'STUB_delete_node(self, ', 0, name='callee stub (node disposal)')
        t = rw.atomics(t, ['my_head_ptr'], 1)
        t = rw.sub(t, r'(?<![\w.>])my_head_ptr\b', 'self->my_head_ptr', 1, name='field')
        t = rw.asserts(t, 0)
        t = rw.std(t)
        t = rw.number_sites(t, name, by_kind=True)
        outh.append(t)
    common.write(ctx, 'skiphead.inc', '\n'.join(outh) + '\n')
    # level generator
    s = slice_block(SK, r'std::size_t operator\(\)\(\)', within=r'class concurrent_geometric_level_generator \{')
    sliced.append('%s:%d concurrent_geometric_level_generator::operator()' % (SK, s.line))
    t = rw.sub(s.text, r'std::size_t operator\(\)\(\)', 'static size_t level_generator_call(void)', 1, 1, name='sig')
    t = rw.sub(t, r'engines\.local\(\)\(\)', 'STUB_minstd_rand()', 1, 1, name='callee stub (std::minstd_rand: a value in [1, 2^31-2])')
    t = rw.sub(t, r'tbb::detail::log2\(', 'tbb_log2(', 1, 1, name='ns-strip')
    t = rw.asserts(t, 0)
    t = rw.fcasts(t, ['std::size_t'])
    t = rw.std(t)
    m = re.search(r'static constexpr std::size_t max_level = MaxLevel;', load(SK))
    if not m or not re.search(r'static_assert\(max_level == 32,', load(SK)):
        raise ExtractionBreak('level generator: max_level is no longer pinned to 32')
    common.write(ctx, 'skiplevel.inc', t + '\n')
    fired['skiplist'] = rw.fired


def snode_calls_ix(rw, t, minc):
    """like snode_calls, but the object may be an indexed array element: prev_nodes[level]->set_next(...) -> snode_set_next(prev_nodes[level], ...)"""
    def fn(m, a):
        a = [x for x in a if x != '']
        return 'snode_%s(%s)' % (m.group('m'), ', '.join([m.group('o')] + a))
    return rw.call(t, r'(?P<o>\b\w+(?:\[[^\[\]]*\])?)->(?P<m>%s)' % '|'.join(SNODE_METHODS), fn, minc, name='skip node accessor call (object may be an array element)')


def extract_skip_unsafe(ctx, sliced, fired):
    """the non-concurrent half of the skip list: node construction (skip_list_node::create + constructor + get_atomic_next + calc_node_size), fill_prev_array_for_existing_node,
    internal_extract, unsafe_erase(iterator), end()"""
    rw = Rewriter('skipunsafe')
    NC = r'class skip_list_node \{'
    # ---- node layout and construction ----
    out = []
    s = slice_block(SK, r'static size_type calc_node_size\( size_type height \)', within=NC)
    sliced.append('%s:%d skip_list_node::calc_node_size' % (SK, s.line))
    t = rw.sub(s.text, r'static size_type calc_node_size\( size_type height \)', 'static size_type snode_calc_node_size(size_type height)', 1, 1, name='sig')
    t = rw.sub(t, r'(?s)static_assert\(.*?\);', 'RG_NOP();', 0, 1, name='static_assert (compile time) -> RG_NOP')
    t = rw.sub(t, r'sizeof\(skip_list_node\)', 'sizeof(struct skip_list_node)', 0, name='class name -> struct tag')
    t = rw.sub(t, r'sizeof\(atomic_node_ptr\)', 'sizeof(raw_node_ptr)', 0, name='std::atomic<node_ptr> -> node pointer')
    out.append(rw.std(t))
    s = slice_block(SK, r'atomic_node_ptr& get_atomic_next\( size_type level \)', within=NC)
    sliced.append('%s:%d skip_list_node::get_atomic_next' % (SK, s.line))
    t = rw.sub(s.text, r'atomic_node_ptr& get_atomic_next\( size_type level \)', 'static raw_node_ptr* snode_get_atomic_next(struct skip_list_node* self, size_type level)', 1, 1, name='sig (reference result -> pointer)')
    t = rw.sub(t, r'\batomic_node_ptr\b', 'raw_node_ptr', 2, name='std::atomic<node_ptr> -> node pointer')
    t = rw.sub(t, r'\bthis\b', 'self', 1, name='this')
    t = rw.sub(t, r'return arr\[level\];', 'return &arr[level];', 1, 1, name='reference result -> pointer')
    t = rw.casts(t, 1)
    out.append(rw.std(t))
    # the constructor: initialiser list -> assignments in DECLARED member order
    decl = slice_block(SK, NC).text
    order = [m.group(1) for m in re.finditer(r'\bsize_type (my_height|my_index_number);', decl)]
    if sorted(order) != ['my_height', 'my_index_number']:
        raise ExtractionBreak('skip_list_node: data members changed: %r' % order)
    s = slice_block(SK, r'skip_list_node\( size_type levels \)', within=NC, ctor=True)
    sliced.append('%s:%d skip_list_node constructor' % (SK, s.line))
    txt = s.text
    mk = cxx2c.mask(txt)
    b = mk.rindex('{')
    colon = mk.find(':', mk.index(')'))
    items = []
    if 0 <= colon < b:
        for it in cxx2c.split_args(txt[colon + 1:b]):
            im = re.match(r'\s*(\w+)\s*\((.*)\)\s*$', it, re.S)
            if not im or im.group(1) not in order:
                raise ExtractionBreak('skip_list_node constructor: cannot parse initialiser %r' % it)
            items.append((im.group(1), im.group(2).strip()))
    items.sort(key=lambda x: order.index(x[0]))
    rw.fired['ctor-init-list->assignments(declared order)'] = len(items)
    out.append('static void snode_ctor(struct skip_list_node* self, size_type levels) {\n' + ''.join('    self->%s = %s;\n' % kv for kv in items) + txt[b + 1:])
    s = slice_block(SK, r'static skip_list_node\* create\( container_allocator_type& alloc, size_type height \)', within=NC)
    sliced.append('%s:%d skip_list_node::create' % (SK, s.line))
    t = rw.sub(s.text, r'static skip_list_node\* create\( container_allocator_type& alloc, size_type height \)', 'static struct skip_list_node* snode_create(size_type height)', 1, 1, name='sig (the allocator object is dropped)')
    t = rw.sub(t, r'(?s)static_assert\(.*?\);', 'RG_NOP();', 0, 1, name='static_assert (compile time) -> RG_NOP')
    t = rw.sub(t, r'\bcalc_node_size\(', 'snode_calc_node_size(', 1, 1, name='method')
    t = rw.sub(t, r'auto\* node = reinterpret_cast<skip_list_node\*>\(allocator_traits::allocate\(alloc, (\w+)\)\);', r'struct skip_list_node* node = (struct skip_list_node*)STUB_allocate(\1);', 1, 1, name='allocator_traits::allocate -> STUB_allocate (bytes)')
    t = rw.sub(t, r'allocator_traits::construct\(alloc, node, (\w+)\);', r'snode_ctor(node, \1);', 0, 1, name='allocator_traits::construct(node, h) -> the constructor (sliced)')
    t = rw.sub(t, r'allocator_traits::construct\(alloc, &node->get_atomic_next\((\w+)\), ([^;]*)\);', r'CONSTRUCT_PTR(snode_get_atomic_next(node, \1), \2);', 0, name='allocator_traits::construct(&level pointer, v) -> store through the pointer')
    t = rw.std(t)
    t = tag_loops(t, 'create', rw, names=[(r'for \(size_type l = 0', 'levels')])
    out.append(t)
    common.write(ctx, 'skipnode.inc', '\n'.join(out) + '\n')

    def body_rules(t):
        t = snode_calls_ix(rw, t, 0)
        t = rw.sub(t, r'(?<![&\w] )(?<!&)\bprev_nodes\[([^\]]*)\](?! =)', r'ARR_RD(prev_nodes, \1)', 0, name='array element read')
        t = rw.asserts(t, 0)
        t = rw.casts(t, 0)
        return rw.std(t)
    # ---- fill_prev_array_for_existing_node ----
    s = slice_block(SK, r'void fill_prev_array_for_existing_node\( array_type& prev_nodes, node_ptr node \)')
    sliced.append('%s:%d fill_prev_array_for_existing_node' % (SK, s.line))
    t = rw.sub(s.text, r'void fill_prev_array_for_existing_node\( array_type& prev_nodes, node_ptr node \)',
               'void csl_fill_prev_array_for_existing_node(struct csl* self, node_ptr* prev_nodes, node_ptr node)', 1, 1, name='sig (std::array& -> pointer)')
    t = rw.sub(t, r'\bcreate_head_if_necessary\(\)', 'STUB_create_head_if_necessary(self)', 1, 1, name='callee stub (proved in skip.head)')
    t = rw.sub(t, r'\bprev_nodes\.fill\((\w+)\);', r'ARR_FILL(prev_nodes, 0, max_level, \1);', 0, name='std::array::fill')
    t = rw.sub(t, r'\bprev_nodes\[([^\]]*)\] = ([^;]*);', r'ARR_WR(prev_nodes, \1, \2);', 0, name='array element write')
    t = body_rules(t)
    t = tag_loops(t, 'fpa', rw, names=[(r'for \(size_type level = snode_height\(node\)', 'levels'), (r'while \(snode_next\(prev', 'walk')])
    common.write(ctx, 'skipfpa.inc', t + '\n')
    # ---- end(), internal_extract, unsafe_erase(iterator) ----
    out = []
    s = slice_block(SK, r'const_iterator end\(\) const')
    sliced.append('%s:%d end' % (SK, s.line))
    t = rw.sub(s.text, r'const_iterator end\(\) const', 'static node_ptr csl_end(struct csl* self)', 1, 1, name='sig (iterator -> the node it holds)')
    t = rw.sub(t, r'\bconst_iterator\(', 'ITER(', 1, 1, name='iterator construction from a node')
    out.append(rw.std(t))
    s = slice_block(SK, r'std::pair<node_ptr, node_ptr> internal_extract\( const_iterator it \)')
    sliced.append('%s:%d internal_extract' % (SK, s.line))
    t = rw.sub(s.text, r'std::pair<node_ptr, node_ptr> internal_extract\( const_iterator it \)', 'struct npair csl_internal_extract(struct csl* self, node_ptr it)', 1, 1, name='sig (iterator -> the node it holds)')
    t = rw.sub(t, r'std::pair<node_ptr, node_ptr> result\(nullptr, nullptr\);', 'struct npair result = {NULL, NULL};', 1, 1, name='std::pair -> struct')
    t = rw.sub(t, r'array_type prev_nodes;', 'node_ptr prev_nodes[max_level];', 1, 1, name='std::array -> C array')
    t = rw.sub(t, r'(?<![\w.>])end\(\)', 'csl_end(self)', 1, name='method')
    t = rw.sub(t, r'\bit\.my_node_ptr\b', 'it', 1, name='iterator -> the node it holds')
    t = rw.sub(t, r'(?<![\w.>])fill_prev_array_for_existing_node\(', 'csl_fill_prev_array_for_existing_node(self, ', 1, 1, name='method')
    t = rw.atomics(t, ['my_size'], 0)
    t = rw.sub(t, r'(?<![\w.>])my_size\b', 'self->my_size', 0, name='field')
    t = body_rules(t)
    t = rw.number_sites(t, 'extract', by_kind=True)
    t = tag_loops(t, 'extract', rw, names=[(r'for \(size_type level = 0', 'unlink')])
    out.append(t)
    s = slice_block(SK, r'iterator unsafe_erase\( iterator pos \)')
    sliced.append('%s:%d unsafe_erase(iterator)' % (SK, s.line))
    t = rw.sub(s.text, r'iterator unsafe_erase\( iterator pos \)', 'node_ptr csl_unsafe_erase(struct csl* self, node_ptr pos)', 1, 1, name='sig (iterator -> the node it holds)')
    t = rw.sub(t, r'std::pair<node_ptr, node_ptr> extract_result = internal_extract\(pos\);', 'struct npair extract_result = ERASE_EXTRACT(self, pos);', 1, 1, name='std::pair -> struct; callee (proved in skip.extract)')
    t = rw.sub(t, r'\bdelete_value_node\(', 'STUB_delete_value_node(self, ', 0, name='callee stub (node disposal)')
    t = rw.sub(t, r'(?<![\w.>])end\(\)', 'csl_end(self)', 0, name='method')
    out.append(rw.std(t))
    common.write(ctx, 'skipextract.inc', out[0] + '\n' + out[1] + '\n')
    common.write(ctx, 'skiperase.inc', out[0] + '\n' + out[2] + '\n')
    fired['skipunsafe'] = rw.fired


def build(ctx):
    sliced, fired = extract(ctx)
    extract_solist(ctx, sliced, fired)
    extract_range(ctx, sliced, fired)
    extract_find(ctx, sliced, fired)
    extract_skip(ctx, sliced, fired)
    extract_skip_unsafe(ctx, sliced, fired)
    C = os.path.join(HERE, 'c12.c')
    jobs = [
        Job('rev.bits', C, 'h_reverse', route='LW', unwind=10, target='machine_reverse_bits<size_t> + reverse_byte + byte_table', source=MH),
        Job('sokey.order', C, 'h_sokey', route='LW', unwind=10, timeout=600, target='split_order_key_regular/dummy + get_parent: ordering at every table size 2^k', source=UB),
        Job('sokey.modpow2', C, 'h_modpow2', route='LW', unwind=66, target='bucket = hash % bucket_count for bucket_count == 2^k (k <= 63, divisor constant per unrolled iteration)', source=UB),
        Job('bcount.round_up', C, 'h_round_up', route='LF', target='round_up_to_power_of_two', source=UB),
        Job('bcount.rehash', C, 'h_rehash', route='RG', loops=True, target='concurrent_unordered_base::rehash', source=UB),
        Job('bcount.adjust', C, 'h_adjust', route='RG', target='concurrent_unordered_base::adjust_table_size [IEEE float]', source=UB),
    ] + [
        Job('solist.insert.' + nm, C, 'h_insert', route='RG', loops=True, nloops=2, defines=['C12_LIST', 'L_INSERT', 'MULTI=%d' % mv], timeout=600,
            target='concurrent_unordered_base::internal_insert + search_after + try_insert + list_node::next/set_next/try_set_next (any list, any number of threads; allow_multimapping == %s)' % ('true' if mv else 'false'), source=UB)
        for nm, mv in (('unique', 0), ('multi', 1))
    ] + [
        Job('range.' + nm, C, 'h_range_' + nm, route='RG', loops=True, nloops=1, defines=['C12_LIST', 'L_RANGE'], timeout=900,
            target='concurrent_unordered_base::const_range_type ' + what + ' + set_midpoint + begin/end/empty + first_value_node (under concurrent inserts and bucket initialisations)', source=UB)
        for nm, what in (('split', 'splitting constructor'), ('ctor', 'constructor from a container'))
    ] + [
        Job('walk.' + nm, C, 'h_' + h, route='RG', loops=True, nloops=nl, defines=['C12_LIST', 'L_FIND'], timeout=300, target=tg, source=UB)
        for nm, h, nl, tg in (('first_value_node', 'fvn', 1, 'concurrent_unordered_base::first_value_node (any list, concurrent inserts)'),
                              ('iterator_increment', 'inc', 1, 'solist_iterator::operator++ (any list, concurrent inserts)'),
                              ('internal_find', 'find', 1, 'concurrent_unordered_base::internal_find (any list, concurrent inserts)'),
                              ('internal_equal_range', 'equal_range', 3, 'concurrent_unordered_base::internal_equal_range + first_value_node (any list, concurrent inserts; unique and multi)'))
    ] + [
        Job('skip.level', C, 'h_level', route='LF', defines=['C12_SKIP', 'SK_LEVEL'], target='concurrent_geometric_level_generator::operator() (every engine value)', source=SK),
        Job('skip.head', C, 'h_head', route='RG', defines=['C12_SKIP', 'SK_HEAD'], target='concurrent_skip_list::create_head_if_necessary + get_head (any number of threads)', source=SK),
    ] + [
        Job('skip.find_position.' + nm, C, 'h_find_position_' + nm, route='RG', loops=True, nloops=1, defines=['C12_SKIP', 'SK_FIND'], timeout=300,
            target='concurrent_skip_list::internal_find_position (%s overload) + skip_list_node::next/height (any level, any list, concurrent inserts)' % nm, source=SK)
        for nm in ('key', 'node')
    ] + [
        Job('skip.node_create', C, 'h_node_create', route='LC', loops=True, nloops=1, defines=['C12_SKIP', 'SK_NODE'], timeout=600,
            target='skip_list_node::create + constructor + get_atomic_next + calc_node_size (every height 1..max_level, real layout)', source=SK),
        Job('skip.extract.prev_array', C, 'h_fpa', route='LC', loops=True, nloops=2, defines=['C12_SKIP', 'SK_EXT', 'SK_FPA'], timeout=1200, solver='cadical',
            target='concurrent_skip_list::fill_prev_array_for_existing_node + skip_list_node::next/height (lists of any length)', source=SK),
        Job('skip.extract.unlink', C, 'h_extract', route='LC', loops=True, nloops=1, defines=['C12_SKIP', 'SK_EXT', 'SK_UNLINK'], timeout=1200, solver='cadical',
            target='concurrent_skip_list::internal_extract + end + skip_list_node::next/set_next/height (lists of any length, one arbitrary level)', source=SK),
        Job('skip.erase', C, 'h_erase', route='LF', defines=['C12_SKIP', 'SK_EXT', 'SK_ERASE'], target='concurrent_skip_list::unsafe_erase(iterator)', source=SK),
    ] + [
        Job('skip.insert_node.level0.' + nm, C, 'h_skip_insert', route='RG', loops=True, nloops=5, defines=['C12_SKIP', 'SK_INS', 'SK_L0', 'MULTI=%d' % mv], timeout=900, unwind=10,
            target='concurrent_skip_list::internal_insert_node + found + skip_list_node::set_next/set_index_number: the level-0 link (membership) (any number of threads; allow_multimapping == %s)' % ('true' if mv else 'false'), source=SK)
        for nm, mv in (('unique', 0), ('multi', 1))
    ] + [
        Job('skip.insert_node.upper.' + nm, C, 'h_skip_insert', route='RG', loops=True, nloops=5, defines=['C12_SKIP', 'SK_INS', 'MULTI=%d' % mv], timeout=1800, unwind=10,
            target='concurrent_skip_list::internal_insert_node: the link at one arbitrary upper level (any number of threads; allow_multimapping == %s)' % ('true' if mv else 'false'), source=SK)
        for nm, mv in (('unique', 0), ('multi', 1)) if ctx.tier == 'thorough'     # 5-10 min each (measured 450-520 s, three in parallel): thorough tier only
    ] + [
        Job('solist.bucket', C, 'h_bucket', route='RG', loops=True, nloops=1, defines=['C12_LIST', 'L_BUCKET'], timeout=300,
            target='concurrent_unordered_base::get_bucket + init_bucket (segment-table entry of one arbitrary bucket and of its parent; any number of threads)', source=UB),
        Job('solist.prepare_bucket', C, 'h_prepare', route='LW', unwind=66, defines=['C12_LIST', 'L_PREPARE'], timeout=300,
            target='concurrent_unordered_base::prepare_bucket (every power-of-two bucket count)', source=UB),
        Job('solist.dummy', C, 'h_dummy', route='RG', loops=True, nloops=2, defines=['C12_LIST', 'L_DUMMY'], timeout=600,
            target='concurrent_unordered_base::insert_dummy_node + try_insert (any list, any number of threads initialising the bucket)', source=UB),
    ]
    return {
        'jobs': jobs, 'sliced': sliced, 'fired': fired,
        'trusted': [
            '__builtin_clzl as modelled by CBMC', 'SC atomics',
            'rely for my_bucket_count: other threads only replace a power of two by a larger power of two (the guarantee proved for rehash and adjust_table_size; reserve() shifts left from the current value)',
            'list model (jobs solist.*, walk.*, range.*, skip.*): nodes are handles with immutable attributes (order key / key, height, equivalence to the key at hand) and a ghost rank = place in the list once linked; '
            'every access to a next pointer of a linked node is preceded by arbitrary interference constrained by the list invariant instantiated at the word read and at ONE arbitrary other node W '
            '(sorted along the pointer; W not strictly between the node and its successor; distinct ranks; rank order implies key order). That the per-pointer guarantee proved at each linking CAS re-establishes '
            'this invariant for the whole chain (transitivity along the chain) is the induction of the rely/guarantee method, not a CBMC obligation',
            'rely, unique-key split-ordered list: an equivalent node W is linked only while this thread\'s node is not, and then behind every linked node whose order key is <= the key\'s (guarantees "C12.unique" of solist.insert.unique)',
            'rely, dummy nodes: a node with a bucket\'s dummy key is linked only while no other node with that key is linked (guarantee "C12.dummy" of solist.dummy)',
            'rely, segment table: an entry is null or the bucket\'s one linked dummy node and never changes once set (guarantee of solist.bucket); bucket 0 is set once the container holds an element',
            'rely, skip list: a node with key K is linked at level 0 of a unique-key list only while no other node with that key is linked; my_max_height only grows, <= max_level; my_head_ptr is set once',
            'ghost ranks are 8-bit: ranks are only compared, every obligation mentions far fewer than 2^8 of them, so any order-isomorphic embedding is as good as the reals',
            'stubs with the contract proved elsewhere: prepare_bucket (solist.bucket / solist.prepare_bucket), split_order_key_regular/dummy and get_parent (sokey.order), insert_dummy_node (solist.dummy), adjust_table_size (bcount.adjust), '
            'first_value_node inside the range jobs (walk.first_value_node), internal_find_position inside skip.insert_node (skip.find_position.*), create_head_if_necessary (skip.head)',
            'stub WITHOUT a proof of its contract: fill_prev_curr_arrays inside skip.insert_node (per level: prev is the head or compares before the key, curr is null or does not) - its loop over the levels is not under contract yet',
            'node factories / disposal (create_node, create_dummy_node, destroy_node, create_head_node, delete_node) and the hash / key-equality functors (equal keys hash alike; the functor is a function of the key)',
            'reverse_bits inside set_midpoint as an uninterpreted function with reverse_bits(b) == dummy key of bucket b', 'std::minstd_rand yields values in [1, 2^31-2]',
            'skip list, non-concurrent operations (jobs skip.extract.*, skip.erase): per-index list of up to 4095 elements (node i IS the i-th node in level-0 order; keys are attributes of the index, sorted along it); '
            'the well-formedness precondition (each level\'s chain is exactly the nodes of that height, in level-0 order) is supplied as instances at the use sites for the node extracted and two arbitrary witness nodes; '
            'the slots of ONE arbitrary level are real memory, the slots of the other levels are an uninterpreted function of (node, level) as they were on entry and stores to them are checked and dropped '
            '(levels exchange no data: a value read at level l is stored at level l); unsafe_* operations run without concurrent operations (documented requirement of the interface)',
            'stubs with the contract proved elsewhere (skip list, non-concurrent half): fill_prev_array_for_existing_node inside skip.extract.unlink (skip.extract.prev_array), internal_extract inside skip.erase (skip.extract.unlink), '
            'create_head_if_necessary inside skip.extract.prev_array (skip.head); allocator_traits::allocate yields a fresh block of the requested size with arbitrary contents (skip.node_create)',
        ],
        'drops': ['template static member table -> C array', 'constexpr', 'std::atomic -> ATOMIC_*_AT sites', 'static_assert -> RG_NOP', 'std::pair / braced returns -> C structs', 'comparator objects -> a tag (less / not_greater)',
                  'std::array position arrays of the skip list -> accessor macros ARR_RD/ARR_WR/ARR_REF/ARR_FILL', 'allocator_traits::construct(node, h) -> the sliced constructor; construct(&level pointer, v) -> store through the pointer; the allocator object is dropped', 'reference members/parameters -> pointers', 'iterator objects -> the node they hold'],
        'not_decided': ['quick tier: the upper-level links of skip list internal_insert_node (jobs skip.insert_node.upper.*, 5-10 min each) run in the thorough tier only', 'skip list: fill_prev_curr_arrays (the descent over the levels) is used through an unproved contract (sliced into skipfill.inc, no job yet); the index_number tie-break among equal keys at upper levels of a multi skip list (order of equal keys across levels); '
                        'lookups of the skip list (internal_find_multi/unique, internal_get_bound = lower/upper_bound, internal_equal_range incl. its jump to the full height of every equal node, internal_count) and its iterator/range; facts about upper levels are proved for ONE arbitrary level at a time with the other levels of the position arrays fixed to (head, null)',
                        'skip list insert(node_type&&) / internal_insert_node precondition side: that an upper level pointer of the node being inserted is null (as skip.node_create and skip.extract.unlink leave it) until this insert writes it, and is written with a valid successor before the CAS of that level, is not yet an obligation of skip.insert_node.*; '
                        'node handles (unsafe_extract wrapper, node_handle_accessor), internal_merge, internal_erase(key) / unsafe_erase(first, last) loops, clear(), internal_copy / move / swap of the skip list; '
                        'skip.extract.*: one arbitrary level at a time (cross-level data flow is excluded by construction of the model, see trusted base); the composition "every level\'s chain is again exactly the remaining nodes" is per slot and per witness node (ghost indices), the induction over the chain is a written argument',
                        'unordered: internal_equal_range encloses EVERY equivalent element (contiguity of equal keys in multi containers); the split point of a range lies at or before the range end (needs the reverse_bits/get_parent arithmetic of set_midpoint); '
                        'unsafe_erase/extract/merge/rehash-by-copy paths; reserve() (float loop); internal_insert_value / emplace wrappers (node ownership after a failed insert: only the flag and the remaining_node are decided)',
                        'termination / lock-freedom of the retry loops (only: a step moves strictly forward; the linking CAS expects the value last read)',
                        'regular() discards hash bit 63: two hashes differing only there share an order key (harmless through the key-equality re-check)',
                        'weak memory: all atomics are taken as sequentially consistent (the published node\'s fields are written before the releasing CAS; not modelled)'],
        'assumptions': ['bucket counts up to 2^62', 'skip list keys: Key = uint16_t with std::less (template instantiation); unordered keys: size_t with an arbitrary hash/equality functor pair',
                        'lists of fewer than 2^8 distinguishable positions per obligation (ghost ranks)', 'skip.extract.*: skip lists of up to 4095 elements, node handles = index + 1 (16 bit)'],
    }


def replay(ctx, jobname, failure):
    if os.environ.get('C12_SKIP_NATIVE'):      # mutation testing: the native build of libtbb takes minutes under load
        return {'reproduced': False, 'detail': 'native replay skipped (C12_SKIP_NATIVE)'}
    exe = native.build([os.path.join(HERE, 'c12_replay.cpp')], os.path.join(ctx.work, 'c12_replay'), flags=['-fno-access-control'], link_tbb=True)
    rc, out = native.run([exe, jobname], timeout=120)
    rep = {'cmd': exe + ' ' + jobname, 'rc': rc, 'output': out[-1500:], 'reproduced': False, 'detail': 'native recipes found no failing sequence'}
    m = re.search(r'REPRODUCED (.*)', out)
    if m:
        rep['reproduced'] = True
        rep['detail'] = m.group(1)
        w = re.search(r'class=(\S+)', m.group(1))
        rep['witness_class'] = w.group(1) if w else None
    return rep
