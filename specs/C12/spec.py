"""C12 -- concurrent unordered containers: split-order key arithmetic and the bucket-count protocol."""
import os
import sys
import re
HERE = os.path.dirname(os.path.abspath(__file__))
sys.path.insert(0, os.path.join(HERE, '..'))
sys.path.insert(0, os.path.join(HERE, '..', '..', 'tools'))
import common
import native
import cxx2c
from cxx2c import Rewriter, slice_block, slice_stmt, tag_loops, ExtractionBreak, load
from prove import Job

UB = 'include/oneapi/tbb/detail/_concurrent_unordered_base.h'
MH = 'include/oneapi/tbb/detail/_machine.h'
TY = ['size_type', 'sokey_type', 'uintptr_t', 'size_t', 'float']


def extract(ctx):
    sliced, fired = [], {}
    log2_txt, f = common.log2_c(ctx, sliced)
    fired['log2'] = f
    common.write(ctx, 'log2.inc', log2_txt)
    rw = Rewriter('unordered')
    out = []
    # byte table + reverse_byte + machine_reverse_bits<size_t>
    s = slice_stmt(MH, r'const T reverse<T>::byte_table\[256\] = \{')
    sliced.append('%s:%d reverse<T>::byte_table' % (MH, s.line))
    t = rw.sub(s.text, r'const T reverse<T>::byte_table\[256\] = \{', 'static const unsigned char byte_table[256] = {', 1, 1, name='template static member -> C table (T:=unsigned char)')
    if t.count('0x') != 256:
        raise ExtractionBreak('byte_table no longer has 256 entries')
    out.append(t)
    s = slice_block(MH, r'inline unsigned char reverse_byte\(unsigned char src\)')
    sliced.append('%s:%d reverse_byte' % (MH, s.line))
    out.append(rw.sub(s.text, r'reverse<unsigned char>::byte_table\[src\]', 'byte_table[src]', 1, 1, name='ns-strip'))
    s = slice_block(MH, r'T machine_reverse_bits\(T src\)')
    sliced.append('%s:%d machine_reverse_bits' % (MH, s.line))
    t = cxx2c.cpp_resolve(s.text, {'TBB_USE_CLANG_BITREVERSE_BUILTINS': 0}, 'machine_reverse_bits')
    rw.fired['cpp-resolve(TBB_USE_CLANG_BITREVERSE_BUILTINS=0: the generic arm g++ compiles)'] = 1
    t = rw.sub(t, r'T machine_reverse_bits\(T src\)', 'static size_t machine_reverse_bits(size_t src)', 1, 1, name='sig + bind-template(T:=size_t)')
    t = rw.sub(t, r'\bT\b', 'size_t', 2, name='bind-template(T:=size_t)')
    t = rw.casts(t, 2)
    t = tag_loops(t, 'rev', rw, expect=1)
    out.append(t)
    for name, sig in (('split_order_key_regular', r'static constexpr sokey_type split_order_key_regular\( sokey_type hash \)'), ('split_order_key_dummy', r'static constexpr sokey_type split_order_key_dummy\( sokey_type hash \)')):
        s = slice_block(UB, sig)
        sliced.append('%s:%d %s' % (UB, s.line, name))
        t = rw.sub(s.text, r'static constexpr sokey_type', 'static sokey_type', 1, 1, name='constexpr')
        t = rw.sub(t, r'\breverse_bits\(', 'machine_reverse_bits(', 1, 1, name='reverse_bits<T> forwards to machine_reverse_bits')
        t = rw.fcasts(t, TY)
        out.append(t)
    s = slice_block(UB, r'size_type get_parent\( size_type bucket \) const')
    sliced.append('%s:%d get_parent' % (UB, s.line))
    t = rw.sub(s.text, r'size_type get_parent\( size_type bucket \) const', 'static size_type get_parent(size_type bucket)', 1, 1, name='sig')
    t = rw.sub(t, r'tbb::detail::log2\(', 'tbb_log2(', 1, 1, name='ns-strip')
    t = rw.asserts(t, 1)
    t = rw.fcasts(t, TY)
    out.append(t)
    s = slice_block(UB, r'static constexpr size_type round_up_to_power_of_two\( size_type bucket_count \)')
    sliced.append('%s:%d round_up_to_power_of_two' % (UB, s.line))
    t = rw.sub(s.text, r'static constexpr size_type round_up_to_power_of_two', 'static size_type round_up_to_power_of_two', 1, 1, name='constexpr')
    t = rw.sub(t, r'tbb::detail::log2\(', 'tbb_log2(', 1, 1, name='ns-strip')
    t = rw.fcasts(t, TY)
    out.append(t)
    if not re.search(r'size_type bucket = hash_key % my_bucket_count\.load\(std::memory_order_acquire\);', load(UB)):
        raise ExtractionBreak('prepare_bucket no longer computes hash_key % my_bucket_count')
    common.write(ctx, 'sokey.inc', '\n'.join(out) + '\n')
    # bucket-count writers
    out = []
    s = slice_block(UB, r'void rehash\( size_type bucket_count \)')
    sliced.append('%s:%d rehash' % (UB, s.line))
    t = rw.sub(s.text, r'void rehash\( size_type bucket_count \)', 'void cub_rehash(struct cub* self, size_type bucket_count)', 1, 1, name='sig')
    t = rw.sub(t, r'(?<![\w.>])my_bucket_count\b', 'self->my_bucket_count', 1, name='field')
    t = rw.atomics(t, ['my_bucket_count'], 1)
    t = rw.number_sites(t, 'rehash', by_kind=True)
    t = tag_loops(t, 'rehash', rw)
    out.append(t)
    s = slice_block(UB, r'void adjust_table_size\( size_type total_elements, size_type current_size \)')
    sliced.append('%s:%d adjust_table_size' % (UB, s.line))
    t = rw.sub(s.text, r'void adjust_table_size\( size_type total_elements, size_type current_size \)', 'void cub_adjust_table_size(struct cub* self, size_type total_elements, size_type current_size)', 1, 1, name='sig')
    t = rw.sub(t, r'(?<![\w.>])(my_bucket_count|my_max_load_factor)\b', r'self->\1', 2, name='field')
    t = rw.atomics(t, ['my_bucket_count'], 1)
    t = rw.fcasts(t, TY)
    t = rw.number_sites(t, 'adjust', by_kind=True)
    out.append(t)
    common.write(ctx, 'bcount.inc', '\n'.join(out) + '\n')
    fired['unordered'] = rw.fired
    return sliced, fired


# ---------------------------------------------------------------------------------------------------------------------
# split-ordered list: list_node accessors, search_after / try_insert / internal_insert, insert_dummy_node,
# get_bucket / init_bucket / prepare_bucket, internal_find / internal_equal_range / first_value_node / iterator ++
# ---------------------------------------------------------------------------------------------------------------------
NODE_METHODS = ['next', 'order_key', 'set_next', 'try_set_next', 'is_dummy']


def node_calls(rw, t, minc):
    """X->m(args) on list nodes -> list_node_m(X[, args]) (the accessors themselves are sliced into nodes.inc)"""
    def fn(m, a):
        a = [x for x in a if x != '']
        return 'list_node_%s(%s)' % (m.group('m'), ', '.join([m.group('o')] + a))
    return rw.call(t, r'(?P<o>\b\w+)->(?P<m>%s)' % '|'.join(NODE_METHODS), fn, minc, name='node accessor call')


def key_calls(rw, t, minc_eq, minc_hash=0):
    """traits_type::get_key(static_cast<value_node_ptr>(X)->value()) -> NODE_KEY(X); my_hash_compare(a, b) -> KEY_EQUAL(a, b); my_hash_compare(k) -> KEY_HASH(k)"""
    t = rw.sub(t, r'traits_type::get_key\(static_cast<value_node_ptr>\((\w+)\)->value\(\)\)', r'NODE_KEY(\1)', minc_eq, name='key of a value node -> NODE_KEY')
    cnt = {'eq': 0, 'hash': 0}

    def fn(m, a):
        if len(a) == 2:
            cnt['eq'] += 1
            return 'KEY_EQUAL(%s, %s)' % (a[0], a[1])
        cnt['hash'] += 1
        return 'KEY_HASH(%s)' % a[0]
    t = rw.call(t, r'\bmy_hash_compare', fn, minc_eq + minc_hash, name='hash_compare functor')
    if cnt['eq'] < minc_eq or cnt['hash'] < minc_hash:
        raise ExtractionBreak('hash_compare: %r, expected >= %d equality and >= %d hash applications' % (cnt, minc_eq, minc_hash))
    return t


def extract_solist(ctx, sliced, fired):
    rw = Rewriter('solist')
    # ---- list_node accessors (the only code that touches my_next) ----
    LN = r'class list_node \{'
    out = []
    for name, sig, csig in (
            ('next', r'node_ptr next\(\) const', 'static node_ptr list_node_next(node_ptr self)'),
            ('order_key', r'sokey_type order_key\(\) const', 'static sokey_type list_node_order_key(node_ptr self)'),
            ('is_dummy', r'bool is_dummy\(\)', 'static bool list_node_is_dummy(node_ptr self)'),
            ('set_next', r'void set_next\( node_ptr next_node \)', 'static void list_node_set_next(node_ptr self, node_ptr next_node)'),
            ('try_set_next', r'bool try_set_next\( node_ptr expected_next, node_ptr new_next \)', 'static bool list_node_try_set_next(node_ptr self, node_ptr expected_next, node_ptr new_next)')):
        s = slice_block(UB, sig, within=LN)
        sliced.append('%s:%d list_node::%s' % (UB, s.line, name))
        t = rw.sub(s.text, sig, csig, 1, 1, name='sig')
        t = rw.atomics(t, ['my_next'], 0)
        t = rw.sub(t, r'\bmy_next\b', 'NODE_NEXT_WORD(self)', 0, name='field')
        t = rw.sub(t, r'\bmy_order_key\b', 'NODE_ORDER_KEY(self)', 0, name='field')
        t = rw.number_sites(t, 'node_' + name, by_kind=True)
        out.append(t)
    common.write(ctx, 'nodes.inc', '\n'.join(out) + '\n')
    # ---- search_after / try_insert / internal_insert ----
    out = []
    s = slice_block(UB, r'std::pair<value_node_ptr, bool> search_after\( node_ptr& prev, sokey_type order_key, const key_type& key \)')
    sliced.append('%s:%d search_after' % (UB, s.line))
    t = key_calls(rw, s.text, 1)
    t = node_calls(rw, t, 2)
    t = rw.sub(t, r'(?<!& )\bprev\b', '(*prev)', 1, name='ref-param')
    t = rw.sub(t, r'std::pair<value_node_ptr, bool> search_after\( node_ptr& prev, sokey_type order_key, const key_type& key \)',
               'struct sres cub_search_after(struct cub* self, node_ptr* prev, sokey_type order_key, key_type key)', 1, 1, name='sig')
    t = rw.sub(t, r'return \{([^{};]*)\};', r'return (struct sres){\1};', 1, name='braced return -> compound literal')
    t = rw.casts(t, 0)
    t = rw.std(t)
    t = tag_loops(t, 'search', rw, expect=1)
    out.append(t)
    s = slice_block(UB, r'static bool try_insert\( node_ptr prev_node, node_ptr new_node, node_ptr current_next_node \)')
    sliced.append('%s:%d try_insert' % (UB, s.line))
    t = rw.sub(s.text, r'static bool try_insert\(', 'static bool cub_try_insert(', 1, 1, name='sig')
    t = node_calls(rw, t, 0)
    out.append(t)
    s = slice_block(UB, r'internal_insert_return_type internal_insert\( ValueType&& value, CreateInsertNode create_insert_node \)')
    sliced.append('%s:%d internal_insert' % (UB, s.line))
    t = rw.sub(s.text, r'internal_insert_return_type internal_insert\( ValueType&& value, CreateInsertNode create_insert_node \)',
               'struct iir cub_internal_insert(struct cub* self, key_type value)', 1, 1, name='sig (the value is represented by its key; the node factory by STUB_create_insert_node)')
    t = rw.sub(t, r'(?s)static_assert\(.*?\);', 'RG_NOP();', 0, 1, name='static_assert (compile time) -> RG_NOP')
    t = rw.sub(t, r'const key_type& key = traits_type::get_key\(value\);', 'key_type key = value;', 1, 1, name='key extraction')
    t = key_calls(rw, t, 0, 1)
    t = rw.sub(t, r'\bauto search_result\b', 'struct sres search_result', 1, 1, name='auto')
    t = rw.sub(t, r'\bauto sz\b', 'size_type sz', 0, 1, name='auto')
    t = rw.sub(t, r'\bsearch_after\(prev,', 'cub_search_after(self, &prev,', 1, name='method + ref-param')
    t = rw.sub(t, r'\btry_insert\(', 'cub_try_insert(', 0, name='method')
    t = rw.sub(t, r'\bprepare_bucket\(', 'STUB_prepare_bucket(self, ', 1, 1, name='callee stub (proved in solist.bucket)')
    t = rw.sub(t, r'\bcreate_insert_node\(', 'STUB_create_insert_node(self, ', 1, 1, name='callee stub (node factory)')
    t = rw.sub(t, r'\badjust_table_size\(', 'STUB_adjust_table_size(self, ', 0, name='callee stub (proved in bcount.adjust)')
    t = rw.sub(t, r'\bsplit_order_key_regular\(', 'STUB_split_order_key_regular(', 1, 1, name='callee stub (proved in sokey.order: odd, a function of the hash)')
    t = rw.sub(t, r'internal_insert_return_type\{', '(struct iir){', 1, name='braced temporary -> compound literal')
    t = rw.atomics(t, ['my_size', 'my_bucket_count'], 0)
    t = rw.sub(t, r'(?<![\w.>])(my_size|my_bucket_count)\b', r'self->\1', 0, name='field')
    t = rw.asserts(t, 0)
    t = rw.casts(t, 0)
    t = rw.fcasts(t, TY)
    t = rw.std(t)
    t = rw.number_sites(t, 'insert', by_kind=True)
    t = tag_loops(t, 'insert', rw, expect=1)
    out.append(t)
    common.write(ctx, 'insert.inc', '\n'.join(out) + '\n')
    fired['solist'] = rw.fired


def build(ctx):
    sliced, fired = extract(ctx)
    extract_solist(ctx, sliced, fired)
    C = os.path.join(HERE, 'c12.c')
    jobs = [
        Job('rev.bits', C, 'h_reverse', route='LW', unwind=10, target='machine_reverse_bits<size_t> + reverse_byte + byte_table', source=MH),
        Job('sokey.order', C, 'h_sokey', route='LW', unwind=10, timeout=600, target='split_order_key_regular/dummy + get_parent: ordering at every table size 2^k', source=UB),
        Job('sokey.modpow2', C, 'h_modpow2', route='LW', unwind=66, target='bucket = hash % bucket_count for bucket_count == 2^k (k <= 63, divisor constant per unrolled iteration)', source=UB),
        Job('bcount.round_up', C, 'h_round_up', route='LF', target='round_up_to_power_of_two', source=UB),
        Job('bcount.rehash', C, 'h_rehash', route='RG', loops=True, target='concurrent_unordered_base::rehash', source=UB),
        Job('bcount.adjust', C, 'h_adjust', route='RG', target='concurrent_unordered_base::adjust_table_size [IEEE float]', source=UB),
        Job('solist.insert', C, 'h_insert', route='RG', loops=True, nloops=2, defines=['C12_LIST', 'L_INSERT'], timeout=300,
            target='concurrent_unordered_base::internal_insert + search_after + try_insert + list_node::next/set_next/try_set_next (any list, any number of threads, unique and multi)', source=UB),
    ]
    return {
        'jobs': jobs, 'sliced': sliced, 'fired': fired,
        'trusted': ['__builtin_clzl as modelled by CBMC', 'rely for my_bucket_count: other threads only replace a power of two by a larger power of two (the guarantee proved for rehash and adjust_table_size; reserve() shifts left from the current value)',
                    'SC atomics'],
        'drops': ['template static member table -> C array', 'constexpr', 'std::atomic -> ATOMIC_*_AT sites'],
        'not_decided': ['lock-free list insertion (try_insert CAS on a heap-shaped list)', 'dummy-node initialisation races', 'skip list (concurrent_map/set): linking, fully_linked, level generator', 'traversal sees each element once',
                        'reserve() (float loop)', 'regular() discards hash bit 63: two hashes differing only there share an order key (harmless through the key-equality re-check)'],
        'assumptions': ['bucket counts up to 2^62'],
    }


def replay(ctx, jobname, failure):
    exe = native.build([os.path.join(HERE, 'c12_replay.cpp')], os.path.join(ctx.work, 'c12_replay'), flags=['-fno-access-control'], link_tbb=True)
    rc, out = native.run([exe, jobname], timeout=120)
    rep = {'cmd': exe + ' ' + jobname, 'rc': rc, 'output': out[-1500:], 'reproduced': False, 'detail': 'native recipes found no failing sequence'}
    m = re.search(r'REPRODUCED (.*)', out)
    if m:
        rep['reproduced'] = True
        rep['detail'] = m.group(1)
        w = re.search(r'class=(\S+)', m.group(1))
        rep['witness_class'] = w.group(1) if w else None
    return rep
