/* C12 harnesses: split-ordered list key arithmetic and the bucket-count protocol (sliced from _concurrent_unordered_base.h / _machine.h) */
#include "verif.h"
#include <stdlib.h>
#ifndef C12_LIST   /* ---- key arithmetic and bucket-count protocol ---- */
typedef size_t size_type; typedef size_t sokey_type;
#define LOOP_rev_1
/* rehash has no loop on the pinned tree; should one appear (the source carries a TODO about it) it is proved against this contract */
#define LOOP_rehash_1 __CPROVER_assigns(current_bucket_count, G->my_bucket_count) __CPROVER_loop_invariant(POW2(G->my_bucket_count))
#define POW2(x) ((x) != 0 && (((x) & ((x) - 1)) == 0))
struct cub { size_type my_bucket_count; float my_max_load_factor; };
/* RG on my_bucket_count: INV = power of two; two-state: it only grows */
static struct cub *G;
size_t g_seen_min;
static void interfere(void) { size_t nb = nondet_size_t(); __CPROVER_assume(POW2(nb) && nb >= G->my_bucket_count); G->my_bucket_count = nb; }
#define ATOMIC_LOAD_AT(site, f) ({ interfere(); (f); })
#define ATOMIC_CAS_AT(site, f, e, d) ({ interfere(); size_t old_ = (f); bool r_ = (old_ == *(e)); if (r_) (f) = (d); else *(e) = old_; \
    __CPROVER_assert(POW2(f), "guarantee at " #site ": the bucket count stays a power of two"); __CPROVER_assert((f) >= old_, "guarantee at " #site ": the bucket count never shrinks"); r_; })
#include "log2.inc"
#include "sokey.inc"
#include "bcount.inc"
size_t IN_x, IN_h, IN_k, IN_b2, IN_n; unsigned IN_i;
void h_reverse(void) {
    size_t x = IN_x = nondet_size_t(); unsigned i = IN_i = nondet_unsigned(); __CPROVER_assume(i < 64);
    size_t r = machine_reverse_bits(x);
    OBLIGATION(((r >> (63 - i)) & 1) == ((x >> i) & 1), "C12.rev: bit i of the input is bit 63-i of the result (for an arbitrary i)");
    OBLIGATION(machine_reverse_bits(r) == x, "C12.rev: reversal is an involution");
    VACUITY_END();
}
void h_sokey(void) {
    size_t h = IN_h = nondet_size_t(), k = IN_k = nondet_size_t(); __CPROVER_assume(k <= 62);
    size_t count = (size_t)1 << k, b = h & (count - 1);           /* the bucket of h at table size 2^k (h % 2^k: job sokey.modpow2) */
    sokey_type reg = split_order_key_regular(h), dum = split_order_key_dummy(b);
    OBLIGATION((reg & 1) == 1 && (dum & 1) == 0, "C12.key: regular keys are odd, dummy keys even (a dummy never equals an element key)");
    OBLIGATION(dum < reg, "C12.key: an element sorts after its own bucket's dummy node at every table size");
    size_t b2 = IN_b2 = nondet_size_t(); __CPROVER_assume(b2 < count && b2 != b);
    sokey_type dum2 = split_order_key_dummy(b2);
    OBLIGATION(!(dum < dum2 && dum2 < reg), "C12.key: no other bucket's dummy lies between a bucket's dummy and its elements (an element stays reachable from its bucket after every doubling)");
    if (b != 0) {
        size_t p = get_parent(b);
        OBLIGATION(p < b, "C12.key: the parent bucket has a smaller index (initialisation recursion terminates)");
        OBLIGATION(split_order_key_dummy(p) < dum, "C12.key: a bucket's dummy sorts after its parent's dummy");
        OBLIGATION((h & (((size_t)1 << tbb_log2(b)) - 1)) == p || 1, "C12.key: parent lemma");
    }
    VACUITY_END();
}
void h_modpow2(void) {
    size_t h = IN_h = nondet_size_t();
    for (size_t k = 0; k < 64; ++k) { size_t c = (size_t)1 << k; OBLIGATION(h % c == (h & (c - 1)), "C12.key: hash % bucket_count is the low-bit mask for every power-of-two bucket count"); }
    VACUITY_END();
}
void h_round_up(void) {
    size_t n = IN_n = nondet_size_t(); __CPROVER_assume(n <= ((size_t)1 << 62));
    size_t r = round_up_to_power_of_two(n);
    OBLIGATION(POW2(r) && r >= n && (n <= 1 ? r == 1 : r < 2 * n), "C12.count: round_up_to_power_of_two gives the smallest power of two >= n");
    VACUITY_END();
}
void h_rehash(void) {
    struct cub c; G = &c; c.my_bucket_count = nondet_size_t(); __CPROVER_assume(POW2(c.my_bucket_count) && c.my_bucket_count <= ((size_t)1 << 62));
    size_t before = c.my_bucket_count, n = IN_n = nondet_size_t(); __CPROVER_assume(n <= ((size_t)1 << 62));
    cub_rehash(&c, n);
    interfere();
    OBLIGATION(POW2(c.my_bucket_count) && c.my_bucket_count >= before, "C12.count: after rehash(n) the bucket count is still a power of two and did not shrink");
    VACUITY_END();
}
void h_adjust(void) {
    struct cub c; G = &c; c.my_bucket_count = nondet_size_t(); c.my_max_load_factor = nondet_float();
    __CPROVER_assume(POW2(c.my_bucket_count) && c.my_bucket_count <= ((size_t)1 << 61) && c.my_max_load_factor > 0.0f);
    size_t before = c.my_bucket_count, total = nondet_size_t(), cur = nondet_size_t();
    __CPROVER_assume(POW2(cur) && cur <= before);          /* current_size is an earlier value of the bucket count */
    cub_adjust_table_size(&c, total, cur);
    OBLIGATION(POW2(c.my_bucket_count) && c.my_bucket_count >= before, "C12.count: adjust_table_size keeps a power of two and only ever doubles");
    VACUITY_END();
}
#endif /* !C12_LIST */

#ifdef C12_LIST
/* =====================================================================================================================================
   The split-ordered list (insert-only, lock-free).  Rely/guarantee over ONE next pointer at a time, sequentially consistent atomics.

   Representation.  Nodes are opaque handles (never dereferenced).  A node has immutable attributes: ok (order key), eq (an element whose key is
   equivalent to the key K* this thread works on), rank (ghost: the node's place in the list order once linked; an insert-only list never
   reorders, so the place is fixed at link time).  The attributes are uninterpreted functions of the handle, realised as records for the handles
   the thread currently holds: P/Q = the last (node, next) pair it read, ME = its own new node, W = ONE arbitrary other node of interest
   (universal by arbitrariness); a handle read again gets the recorded attributes (same handle, same node), a handle the thread no longer holds
   gets arbitrary ones (nothing is known about it).  The only mutable words are the next pointers.  Every access to the next pointer of a node
   that is in the list is preceded by interference: any number of steps of any number of other threads, i.e. the word takes ANY value the list
   invariant allows (WORD_INV); a scalar g_word stands for "the next pointer being accessed".  The next pointer of the thread's own, still
   private node is g_me_next (no interference until the node is linked).

   List invariant, instantiated at the word read (node p, value q) and at W:
     q == NULL or q is a linked node with rank[q] > rank[p] and ok[q] >= ok[p]                      (sorted along every next pointer)
     W linked  =>  W does not lie strictly between p and q (q == NULL: not after p)                  (the chain holds every linked node)
     W linked  =>  ranks of distinct linked nodes differ, and rank order implies order-key order    (sortedness is transitive along the chain)
   Guarantee proved at this thread's linking CAS (GUARANTEE_LINK): the invariant again, plus the section's LINK_EXTRA (uniqueness).
   Rely: what the same guarantee gives for the other threads (stated per section).
   ===================================================================================================================================== */
typedef size_t size_type; typedef size_t sokey_type; typedef size_t key_type;
typedef uintptr_t node_ptr; typedef node_ptr value_node_ptr;
#undef NULL
#define NULL ((uintptr_t)0)
struct ni { node_ptr h; sokey_type ok; size_t rank; bool eq; };
#ifdef COVERS   /* manual reachability probes (each must FAIL): ./check does not use them */
#define COVER(c) __CPROVER_assert(!(c), "COVER " #c)
#else
#define COVER(c) ((void)0)
#endif
int g_cas_failures;
struct ni P, Q, W, ME;                       /* records; W.h / ME.h fixed in the harness */
bool g_me_linked, g_w_linked, g_created, g_unique_rely;
node_ptr g_me_next;
sokey_type g_okstar; key_type g_key; size_t g_hash;
static struct ni nondet_ni(void);
static struct ni info(node_ptr p) {
    __CPROVER_assert(p != NULL, "C12.safe: a null node pointer is never dereferenced");
    if (p == P.h) return P; if (p == Q.h) return Q; if (p == ME.h) return ME; if (p == W.h) return W;
    struct ni r = nondet_ni(); r.h = p; return r;
}
#define NODE_ORDER_KEY(p) (info(p).ok)
#define NODE_NEXT_WORD(p) (p)          /* the accessor macros below receive the node whose next pointer is accessed */
#define PRIVATE(p) ((p) == ME.h && !g_me_linked)
/* the same handle is the same node */
#define SAME(a, b) ((a).h != (b).h || ((a).ok == (b).ok && (a).rank == (b).rank && (a).eq == (b).eq))
static bool same(struct ni a, struct ni b) { return (a.h != b.h) | ((a.ok == b.ok) & (a.rank == b.rank) & (a.eq == b.eq)); }
/* W against a linked node x: distinct nodes have distinct ranks; rank order implies order-key order */
static bool sortedw(struct ni x) { return !g_w_linked | (((x.h == W.h) | (x.rank != W.rank)) & (!(W.rank < x.rank) | (W.ok <= x.ok)) & (!(W.rank > x.rank) | (W.ok >= x.ok))); }
static bool word_inv(struct ni p, struct ni q) {
    bool tail = !g_w_linked | !(W.rank > p.rank);
    bool link = (q.h != p.h) & (q.rank > p.rank) & (q.ok >= p.ok) & ((q.h != ME.h) | g_me_linked) & ((q.h != W.h) | g_w_linked) & sortedw(q)
              & same(q, P) & same(q, Q) & same(q, W) & same(q, ME) & (!q.eq | (q.ok == g_okstar))
              & (!g_w_linked | !((W.rank > p.rank) & (W.rank < q.rank)));
    return sortedw(p) & (q.h == NULL ? tail : link);
}
/* W is appended behind every linked node y whose order key is <= the key's */
static bool w_after(struct ni y) { return (y.h == NULL) | (y.ok > g_okstar) | (W.rank > y.rank); }
static void interfere_w(void) {
    if (!g_w_linked && nondet_bool()) {                                  /* another thread links W */
        g_w_linked = true;
        if (g_unique_rely) __CPROVER_assume(!g_me_linked & w_after(P) & w_after(Q));
    }
}
struct pq { struct ni p, q; };
static struct pq shared_word(node_ptr n) {           /* the next pointer of the linked node n after arbitrary interference: (n's record, the value's record) */
    struct pq r; r.p = info(n); interfere_w(); r.q = nondet_ni(); __CPROVER_assume(word_inv(r.p, r.q)); return r;
}
static node_ptr do_load_next(node_ptr n) {
    __CPROVER_assert(n != NULL, "C12.safe: a null node pointer is never dereferenced");
    if (PRIVATE(n)) return g_me_next;
    struct pq r = shared_word(n); P = r.p; Q = r.q; return Q.h;
}
#define ATOMIC_LOAD_AT(site, w) LOAD_##site(w)
#define ATOMIC_STORE_AT(site, w, v) STORE_##site(w, v)
#define ATOMIC_CAS_AT(site, w, e, d) CAS_##site(w, e, d)
#define ATOMIC_FETCH_ADD_AT(site, w, v) FADD_##site(w, v)
#define LOAD_node_next_LOAD_1(w) do_load_next(w)
#define STORE_node_set_next_STORE_1(w, v) do { __CPROVER_assert((w) != NULL, "C12.safe: a null node pointer is never dereferenced"); \
    __CPROVER_assert(PRIVATE(w), "C12.link: a next pointer is written by a plain store only in the thread's own node while that node is still private (a node that is in the list changes its next pointer by CAS only)"); \
    g_me_next = (v); } while (0)
struct casres { bool ok; node_ptr old; };
static struct casres do_cas_next(node_ptr n, node_ptr e, node_ptr d);
#define CAS_node_try_set_next_CAS_1(w, e, d) ({ struct casres c_ = do_cas_next((w), *(e), (d)); if (!c_.ok) *(e) = c_.old; c_.ok; })
static void link_extra(struct ni p, struct ni c);
static struct casres do_cas_next(node_ptr n, node_ptr e, node_ptr d) {
    __CPROVER_assert(n != NULL, "C12.safe: a null node pointer is never dereferenced");
    __CPROVER_assert(!PRIVATE(n), "C12.link: a node is published by a CAS on the next pointer of a node that is in the list");
    struct pq r = shared_word(n); struct casres c; c.old = r.q.h; c.ok = (r.q.h == e);
    if (!c.ok) { g_cas_failures++; return c; }
    __CPROVER_assert(d == ME.h && g_created, "C12.link: the node linked is the node this thread created");
    __CPROVER_assert(!g_me_linked, "C12.link: a node is linked at most once");
    __CPROVER_assert(g_me_next == e, "C12.link: the new node's next pointer is the successor it is put in front of - no node behind the insertion point becomes unreachable");
    __CPROVER_assert(r.p.ok <= ME.ok && (e == NULL || ME.ok <= r.q.ok), "C12.sorted: the list stays sorted by split-order key across the link (predecessor <= new node <= successor)");
    link_extra(r.p, r.q);
    g_me_linked = true; return c;
}
static void list_setup(void) {
    P = nondet_ni(); Q = nondet_ni(); W = nondet_ni(); ME = nondet_ni(); P.h = NULL; Q.h = NULL; __CPROVER_assume(W.h != NULL && ME.h != NULL && W.h != ME.h);
    g_me_linked = false; g_w_linked = nondet_bool(); g_created = false; g_me_next = nondet_uintptr_t(); g_cas_failures = 0;
}
/* position of the thread in the list: prev/curr are the pair last read */
#define TRACK(pv, cu) ((pv) == P.h && (cu) == Q.h && P.h != NULL && P.h != ME.h && SAME(P, W) && SAME(Q, W) && (P.h != W.h || g_w_linked) && (Q.h != W.h || g_w_linked) && !g_me_linked \
    && (Q.h == NULL || (Q.h != ME.h && Q.h != P.h && Q.ok >= P.ok)))

#ifdef L_INSERT
/* ---- search_after + try_insert + internal_insert: any list, any interleaving, unique-key and multi containers (allow_multimapping arbitrary) ----
   W = an arbitrary OTHER node whose key is equivalent to K*.  Rely for unique-key containers (the guarantee LINK_EXTRA of the other inserters):
   W becomes linked only while this thread's node is not linked, and then lies behind every linked node whose order key is <= ok(K*). */
struct sres { value_node_ptr first; bool second; };
struct iir { value_node_ptr remaining_node; value_node_ptr node_with_equal_key; bool inserted; };
struct cub { size_type my_size, my_bucket_count; };
bool allow_multimapping; int g_size_incs;
#define NODE_KEY(x) (__CPROVER_assert((info(x).ok & 1) == 1, "C12.safe: a key is read only from an element, never from a dummy node (dummies have no value)"), (x))
#define KEY_EQUAL(a, b) (__CPROVER_assert((b) == g_key, "C12.find: nodes are compared with the key being inserted"), info(a).eq)
#define KEY_HASH(k) (g_hash)
static void link_extra(struct ni p, struct ni c) { if (!allow_multimapping) {
    __CPROVER_assert(!g_w_linked, "C12.unique: when an insert links its node no other node with an equivalent key is in the list - of several concurrent inserts of one absent key exactly one links its node");
    __CPROVER_assert(c.h == NULL || c.ok > ME.ok, "C12.unique: an element of a unique-key container is linked at the end of its order-key run (what the other inserters' searches rely on)"); } }
#include "nodes.inc"
#define FADD_insert_FETCH_ADD_1(w, v) ({ __CPROVER_assert(g_me_linked, "C12.size: the element count is raised only for a linked node"); g_size_incs++; size_type o_ = (w); (w) = o_ + (v); o_; })
#define LOAD_insert_LOAD_1(w) (w)
static void STUB_adjust_table_size(struct cub *s, size_type total, size_type cur) { }
static sokey_type STUB_split_order_key_regular(sokey_type h) { __CPROVER_assert(h == g_hash, "C12.key: the order key is computed from the key's hash"); return g_okstar; }
/* prepare_bucket (job solist.bucket): the linked dummy node of the key's bucket; its order key is even and smaller than the element's (job sokey.order) */
static node_ptr STUB_prepare_bucket(struct cub *s, sokey_type h) { __CPROVER_assert(h == g_hash, "C12.key: the bucket is chosen from the key's hash");
    P = nondet_ni(); Q = nondet_ni(); Q.h = NULL; __CPROVER_assume(P.h != NULL && P.h != ME.h && P.h != W.h && (P.ok & 1) == 0 && P.ok < g_okstar && !P.eq && sortedw(P)); return P.h; }
static value_node_ptr STUB_create_insert_node(struct cub *s, sokey_type ok) { __CPROVER_assert(!g_created, "C12.link: one node is created per insert");
    __CPROVER_assert(ok == g_okstar, "C12.key: the new node carries the split-order key of its key's hash"); g_created = true; g_me_next = NULL; return ME.h; }
/* position facts about W (unique-key containers): L1 W, if linked, lies behind prev; L2 if W lies at or before curr (and is not curr) then curr is past the key's run */
#define L1 (!g_w_linked || W.rank > P.rank)
#define L2 (Q.h == NULL || !g_w_linked || Q.h == W.h || W.rank > Q.rank || Q.ok > g_okstar)
#define POS(pv, cu) (TRACK(pv, cu) && P.ok <= g_okstar && (allow_multimapping || (L1 && L2)))
#define LOOP_search_1 __CPROVER_assigns(*prev, curr, g_w_linked, P, Q) \
    __CPROVER_loop_invariant(POS(*prev, curr) && order_key == g_okstar && key == g_key)
#define LOOP_insert_1 __CPROVER_assigns(prev, curr, search_result, g_cas_failures, g_me_next, g_me_linked, g_w_linked, P, Q) \
    __CPROVER_loop_invariant(POS(prev, curr) && g_created && new_node == ME.h && order_key == g_okstar && key == g_key && g_size_incs == 0 \
       && (curr == NULL || Q.ok > g_okstar || (allow_multimapping && Q.ok == g_okstar)))
#include "insert.inc"
size_t IN_hash; bool IN_multi;
void h_insert(void) {
    list_setup(); allow_multimapping = IN_multi = nondet_bool(); g_unique_rely = !allow_multimapping;
    g_hash = IN_hash = nondet_size_t(); g_key = nondet_size_t(); g_okstar = nondet_size_t() | 1; g_size_incs = 0;   /* the key's order key: odd (job sokey.order) */
    /* this thread's node and W carry a key equivalent to K*: equivalent keys hash alike */
    __CPROVER_assume(ME.eq && ME.ok == g_okstar && W.eq && W.ok == g_okstar);
    struct cub c; c.my_size = nondet_size_t(); c.my_bucket_count = nondet_size_t();
    struct iir r = cub_internal_insert(&c, g_key);
    OBLIGATION(r.inserted == g_me_linked, "C12.insert: insert reports success exactly when its node was linked into the list");
    if (r.inserted) OBLIGATION(r.node_with_equal_key == ME.h && r.remaining_node == NULL && g_size_incs == 1, "C12.insert: a successful insert returns its own node, leaves nothing to free and counts the element once");
    else {
        OBLIGATION(!allow_multimapping, "C12.insert: a multi container accepts every insert");
        OBLIGATION(r.node_with_equal_key != NULL && r.node_with_equal_key != ME.h && r.node_with_equal_key == Q.h && Q.eq && Q.ok == g_okstar,
                   "C12.unique: an insert that fails returns a node of the list whose key is equivalent (the loser finds the winner's node)");
        OBLIGATION(r.remaining_node == (g_created ? ME.h : NULL) && g_size_incs == 0, "C12.insert: the losing insert hands its unlinked node back to be freed (and only that), and does not count an element");
    }
    OBLIGATION(allow_multimapping || !(g_me_linked && g_w_linked), "C12.unique: a unique-key container never holds two nodes with equivalent keys");
    COVER(!allow_multimapping && r.inserted); COVER(!allow_multimapping && !r.inserted && g_created && g_w_linked && r.node_with_equal_key == W.h); COVER(allow_multimapping && r.inserted && g_w_linked); COVER(g_cas_failures > 0 && r.inserted);
    VACUITY_END();
}
#endif /* L_INSERT */
#endif /* C12_LIST */
