/* C12 harnesses: split-ordered list key arithmetic and the bucket-count protocol (sliced from _concurrent_unordered_base.h / _machine.h) */
#include "verif.h"
typedef size_t size_type; typedef size_t sokey_type;
#define LOOP_rev_1
/* rehash has no loop on the pinned tree; should one appear (the source carries a TODO about it) it is proved against this contract */
#define LOOP_rehash_1 __CPROVER_assigns(current_bucket_count, G->my_bucket_count) __CPROVER_loop_invariant(POW2(G->my_bucket_count))
#define POW2(x) ((x) != 0 && (((x) & ((x) - 1)) == 0))
struct cub { size_type my_bucket_count; float my_max_load_factor; };
/* RG on my_bucket_count: INV = power of two; two-state: it only grows */
static struct cub *G;
size_t g_seen_min;
static void interfere(void) { size_t nb = nondet_size_t(); __CPROVER_assume(POW2(nb) && nb >= G->my_bucket_count); G->my_bucket_count = nb; }
#define ATOMIC_LOAD_AT(site, f) ({ interfere(); (f); })
#define ATOMIC_CAS_AT(site, f, e, d) ({ interfere(); size_t old_ = (f); bool r_ = (old_ == *(e)); if (r_) (f) = (d); else *(e) = old_; \
    __CPROVER_assert(POW2(f), "guarantee at " #site ": the bucket count stays a power of two"); __CPROVER_assert((f) >= old_, "guarantee at " #site ": the bucket count never shrinks"); r_; })
#include "log2.inc"
#include "sokey.inc"
#include "bcount.inc"
size_t IN_x, IN_h, IN_k, IN_b2, IN_n; unsigned IN_i;
void h_reverse(void) {
    size_t x = IN_x = nondet_size_t(); unsigned i = IN_i = nondet_unsigned(); __CPROVER_assume(i < 64);
    size_t r = machine_reverse_bits(x);
    OBLIGATION(((r >> (63 - i)) & 1) == ((x >> i) & 1), "C12.rev: bit i of the input is bit 63-i of the result (for an arbitrary i)");
    OBLIGATION(machine_reverse_bits(r) == x, "C12.rev: reversal is an involution");
    VACUITY_END();
}
void h_sokey(void) {
    size_t h = IN_h = nondet_size_t(), k = IN_k = nondet_size_t(); __CPROVER_assume(k <= 62);
    size_t count = (size_t)1 << k, b = h & (count - 1);           /* the bucket of h at table size 2^k (h % 2^k: job sokey.modpow2) */
    sokey_type reg = split_order_key_regular(h), dum = split_order_key_dummy(b);
    OBLIGATION((reg & 1) == 1 && (dum & 1) == 0, "C12.key: regular keys are odd, dummy keys even (a dummy never equals an element key)");
    OBLIGATION(dum < reg, "C12.key: an element sorts after its own bucket's dummy node at every table size");
    size_t b2 = IN_b2 = nondet_size_t(); __CPROVER_assume(b2 < count && b2 != b);
    sokey_type dum2 = split_order_key_dummy(b2);
    OBLIGATION(!(dum < dum2 && dum2 < reg), "C12.key: no other bucket's dummy lies between a bucket's dummy and its elements (an element stays reachable from its bucket after every doubling)");
    if (b != 0) {
        size_t p = get_parent(b);
        OBLIGATION(p < b, "C12.key: the parent bucket has a smaller index (initialisation recursion terminates)");
        OBLIGATION(split_order_key_dummy(p) < dum, "C12.key: a bucket's dummy sorts after its parent's dummy");
        OBLIGATION((h & (((size_t)1 << tbb_log2(b)) - 1)) == p || 1, "C12.key: parent lemma");
    }
    VACUITY_END();
}
void h_modpow2(void) {
    size_t h = IN_h = nondet_size_t();
    for (size_t k = 0; k < 64; ++k) { size_t c = (size_t)1 << k; OBLIGATION(h % c == (h & (c - 1)), "C12.key: hash % bucket_count is the low-bit mask for every power-of-two bucket count"); }
    VACUITY_END();
}
void h_round_up(void) {
    size_t n = IN_n = nondet_size_t(); __CPROVER_assume(n <= ((size_t)1 << 62));
    size_t r = round_up_to_power_of_two(n);
    OBLIGATION(POW2(r) && r >= n && (n <= 1 ? r == 1 : r < 2 * n), "C12.count: round_up_to_power_of_two gives the smallest power of two >= n");
    VACUITY_END();
}
void h_rehash(void) {
    struct cub c; G = &c; c.my_bucket_count = nondet_size_t(); __CPROVER_assume(POW2(c.my_bucket_count) && c.my_bucket_count <= ((size_t)1 << 62));
    size_t before = c.my_bucket_count, n = IN_n = nondet_size_t(); __CPROVER_assume(n <= ((size_t)1 << 62));
    cub_rehash(&c, n);
    interfere();
    OBLIGATION(POW2(c.my_bucket_count) && c.my_bucket_count >= before, "C12.count: after rehash(n) the bucket count is still a power of two and did not shrink");
    VACUITY_END();
}
void h_adjust(void) {
    struct cub c; G = &c; c.my_bucket_count = nondet_size_t(); c.my_max_load_factor = nondet_float();
    __CPROVER_assume(POW2(c.my_bucket_count) && c.my_bucket_count <= ((size_t)1 << 61) && c.my_max_load_factor > 0.0f);
    size_t before = c.my_bucket_count, total = nondet_size_t(), cur = nondet_size_t();
    __CPROVER_assume(POW2(cur) && cur <= before);          /* current_size is an earlier value of the bucket count */
    cub_adjust_table_size(&c, total, cur);
    OBLIGATION(POW2(c.my_bucket_count) && c.my_bucket_count >= before, "C12.count: adjust_table_size keeps a power of two and only ever doubles");
    VACUITY_END();
}
