/* C12 harnesses: split-ordered list key arithmetic and the bucket-count protocol (sliced from _concurrent_unordered_base.h / _machine.h) */
#include "verif.h"
#include <stdlib.h>
#ifndef C12_LIST   /* ---- key arithmetic and bucket-count protocol ---- */
typedef size_t size_type; typedef size_t sokey_type;
#define LOOP_rev_1
/* rehash has no loop on the pinned tree; should one appear (the source carries a TODO about it) it is proved against this contract */
#define LOOP_rehash_1 __CPROVER_assigns(current_bucket_count, G->my_bucket_count) __CPROVER_loop_invariant(POW2(G->my_bucket_count))
#define POW2(x) ((x) != 0 && (((x) & ((x) - 1)) == 0))
struct cub { size_type my_bucket_count; float my_max_load_factor; };
/* RG on my_bucket_count: INV = power of two; two-state: it only grows */
static struct cub *G;
size_t g_seen_min;
static void interfere(void) { size_t nb = nondet_size_t(); __CPROVER_assume(POW2(nb) && nb >= G->my_bucket_count); G->my_bucket_count = nb; }
#define ATOMIC_LOAD_AT(site, f) ({ interfere(); (f); })
#define ATOMIC_CAS_AT(site, f, e, d) ({ interfere(); size_t old_ = (f); bool r_ = (old_ == *(e)); if (r_) (f) = (d); else *(e) = old_; \
    __CPROVER_assert(POW2(f), "guarantee at " #site ": the bucket count stays a power of two"); __CPROVER_assert((f) >= old_, "guarantee at " #site ": the bucket count never shrinks"); r_; })
#include "log2.inc"
#include "sokey.inc"
#include "bcount.inc"
size_t IN_x, IN_h, IN_k, IN_b2, IN_n; unsigned IN_i;
void h_reverse(void) {
    size_t x = IN_x = nondet_size_t(); unsigned i = IN_i = nondet_unsigned(); __CPROVER_assume(i < 64);
    size_t r = machine_reverse_bits(x);
    OBLIGATION(((r >> (63 - i)) & 1) == ((x >> i) & 1), "C12.rev: bit i of the input is bit 63-i of the result (for an arbitrary i)");
    OBLIGATION(machine_reverse_bits(r) == x, "C12.rev: reversal is an involution");
    VACUITY_END();
}
void h_sokey(void) {
    size_t h = IN_h = nondet_size_t(), k = IN_k = nondet_size_t(); __CPROVER_assume(k <= 62);
    size_t count = (size_t)1 << k, b = h & (count - 1);           /* the bucket of h at table size 2^k (h % 2^k: job sokey.modpow2) */
    sokey_type reg = split_order_key_regular(h), dum = split_order_key_dummy(b);
    OBLIGATION((reg & 1) == 1 && (dum & 1) == 0, "C12.key: regular keys are odd, dummy keys even (a dummy never equals an element key)");
    OBLIGATION(dum < reg, "C12.key: an element sorts after its own bucket's dummy node at every table size");
    size_t b2 = IN_b2 = nondet_size_t(); __CPROVER_assume(b2 < count && b2 != b);
    sokey_type dum2 = split_order_key_dummy(b2);
    OBLIGATION(!(dum < dum2 && dum2 < reg), "C12.key: no other bucket's dummy lies between a bucket's dummy and its elements (an element stays reachable from its bucket after every doubling)");
    if (b != 0) {
        size_t p = get_parent(b);
        OBLIGATION(p < b, "C12.key: the parent bucket has a smaller index (initialisation recursion terminates)");
        OBLIGATION(split_order_key_dummy(p) < dum, "C12.key: a bucket's dummy sorts after its parent's dummy");
        OBLIGATION((h & (((size_t)1 << tbb_log2(b)) - 1)) == p || 1, "C12.key: parent lemma");
    }
    VACUITY_END();
}
void h_modpow2(void) {
    size_t h = IN_h = nondet_size_t();
    for (size_t k = 0; k < 64; ++k) { size_t c = (size_t)1 << k; OBLIGATION(h % c == (h & (c - 1)), "C12.key: hash % bucket_count is the low-bit mask for every power-of-two bucket count"); }
    VACUITY_END();
}
void h_round_up(void) {
    size_t n = IN_n = nondet_size_t(); __CPROVER_assume(n <= ((size_t)1 << 62));
    size_t r = round_up_to_power_of_two(n);
    OBLIGATION(POW2(r) && r >= n && (n <= 1 ? r == 1 : r < 2 * n), "C12.count: round_up_to_power_of_two gives the smallest power of two >= n");
    VACUITY_END();
}
void h_rehash(void) {
    struct cub c; G = &c; c.my_bucket_count = nondet_size_t(); __CPROVER_assume(POW2(c.my_bucket_count) && c.my_bucket_count <= ((size_t)1 << 62));
    size_t before = c.my_bucket_count, n = IN_n = nondet_size_t(); __CPROVER_assume(n <= ((size_t)1 << 62));
    cub_rehash(&c, n);
    interfere();
    OBLIGATION(POW2(c.my_bucket_count) && c.my_bucket_count >= before, "C12.count: after rehash(n) the bucket count is still a power of two and did not shrink");
    VACUITY_END();
}
void h_adjust(void) {
    struct cub c; G = &c; c.my_bucket_count = nondet_size_t(); c.my_max_load_factor = nondet_float();
    __CPROVER_assume(POW2(c.my_bucket_count) && c.my_bucket_count <= ((size_t)1 << 61) && c.my_max_load_factor > 0.0f);
    size_t before = c.my_bucket_count, total = nondet_size_t(), cur = nondet_size_t();
    __CPROVER_assume(POW2(cur) && cur <= before);          /* current_size is an earlier value of the bucket count */
    cub_adjust_table_size(&c, total, cur);
    OBLIGATION(POW2(c.my_bucket_count) && c.my_bucket_count >= before, "C12.count: adjust_table_size keeps a power of two and only ever doubles");
    VACUITY_END();
}
#endif /* !C12_LIST */

#ifdef C12_LIST
/* =====================================================================================================================================
   The split-ordered list (insert-only, lock-free).  Rely/guarantee over ONE next pointer at a time, sequentially consistent atomics.

   Representation.  Nodes are opaque tokens NODEPTR(i), i < g_n (g_n symbolic, <= 2^12); their immutable attributes are per-index arrays of
   arbitrary content: g_ok[i] (order key), g_eq[i] (element whose key is equivalent to the key K* this thread works on), g_rank[i] (ghost: the
   node's place in the list order once it is linked; an insert-only list never reorders, so the place is fixed at link time).  The only mutable
   words are the next pointers.  Every access to a next pointer of a node that is in the list is preceded by interfere(): any number of steps of
   any number of other threads, i.e. the word takes ANY value the list invariant allows (WORD_INV).  Hence a single scalar g_word stands for
   "the next pointer being accessed"; the next pointer of this thread's own, still private node is g_me_next (no interference until it is linked).

   List invariant, instantiated at the word read (node p, value q) and at ONE arbitrary other node W (ghost index g_w; universal by arbitrariness):
     q == NULL or q is a linked node with rank[q] > rank[p] and ok[q] >= ok[p]                      (sorted along every next pointer)
     W linked  =>  W does not lie strictly between p and q (q == NULL: not after p)                  (the chain holds every linked node)
     W linked  =>  ranks of distinct linked nodes differ, and rank order implies order-key order    (sortedness is transitive along the chain)
   Guarantee proved at this thread's linking CAS (GUARANTEE_LINK): the invariant again, plus for unique-key containers: no equivalent node is
   linked at that moment, and the successor's order key is strictly greater (an element is appended to the END of its order-key run).
   Rely (what the same guarantee gives for the other threads): an equivalent node W of a unique-key container becomes linked only while this
   thread's node is not linked, and then lies after every linked node whose order key is <= ok(K*).
   ===================================================================================================================================== */
typedef size_t size_type; typedef size_t sokey_type; typedef size_t key_type;
typedef struct list_node *node_ptr; typedef node_ptr value_node_ptr;
#define LOOP_rev_1
#include "log2.inc"
#include "sokey.inc"
#define NMAX ((size_t)1 << 12)
static size_t g_n; static sokey_type *g_ok; static bool *g_eq; static size_t *g_rank;
#define NODEPTR(i) ((node_ptr)(((uintptr_t)(i) + 1) << 4))
#define TIDX(p) ((size_t)(((uintptr_t)(p)) >> 4) - 1)
#define VALID(p) ((p) != NULL && (((uintptr_t)(p)) & 15) == 0 && TIDX(p) < g_n)
#define OK(p) (g_ok[TIDX(p)])
#define RANK(p) (g_rank[TIDX(p)])
#define EQ(p) (g_eq[TIDX(p)])
size_t g_me, g_w;                       /* this thread's new node; ONE arbitrary other node of interest (equivalent element / same-key dummy / element present before) */
#define MEPTR NODEPTR(g_me)
#define WPTR NODEPTR(g_w)
bool g_me_linked, g_w_linked, g_created, g_unique_rely;
node_ptr g_word, g_me_next, g_acc, g_obs_p, g_obs_q;   /* g_acc: node whose next pointer is being accessed; g_obs_p/g_obs_q: the last (node, next) pair this thread read */
sokey_type g_okstar; key_type g_key; size_t g_hash;
static size_t nidx(node_ptr p) { __CPROVER_assert(VALID(p), "C12.safe: only a node that was obtained from the list (or the thread's own node) is dereferenced"); return TIDX(p); }
#define NODE_ORDER_KEY(p) (g_ok[nidx(p)])
static node_ptr *next_word(node_ptr p) { size_t i = nidx(p); g_acc = p; return (i == g_me && !g_me_linked) ? &g_me_next : &g_word; }
#define NODE_NEXT_WORD(p) (*next_word(p))
/* facts about W relative to a linked node x */
#define SORTEDW(x) (!g_w_linked || (((x) == WPTR || RANK(x) != g_rank[g_w]) && (!(g_rank[g_w] < RANK(x)) || g_ok[g_w] <= OK(x)) && (!(g_rank[g_w] > RANK(x)) || g_ok[g_w] >= OK(x))))
#define WORD_INV(p, q) (SORTEDW(p) && ((q) == NULL ? (!g_w_linked || !(g_rank[g_w] > RANK(p))) \
    : (VALID(q) && (q) != (p) && RANK(q) > RANK(p) && OK(q) >= OK(p) && ((q) != MEPTR || g_me_linked) && ((q) != WPTR || g_w_linked) && SORTEDW(q) \
       && (!g_w_linked || !(g_rank[g_w] > RANK(p) && g_rank[g_w] < RANK(q))))))
/* W is appended behind every linked node Y whose order key is <= the key's */
#define W_AFTER(y) (!VALID(y) || OK(y) > g_okstar || g_rank[g_w] > RANK(y))
static void interfere(node_ptr *w) {
    if (!g_w_linked && nondet_bool()) {                                  /* another thread links W */
        g_w_linked = true;
        if (g_unique_rely) __CPROVER_assume(!g_me_linked && W_AFTER(g_obs_p) && W_AFTER(g_obs_q));
    }
    if (w == &g_word) { g_word = (node_ptr)nondet_uintptr_t(); __CPROVER_assume(WORD_INV(g_acc, g_word)); }
}
#define ATOMIC_LOAD_AT(site, w) LOAD_##site(w)
#define ATOMIC_STORE_AT(site, w, v) STORE_##site(w, v)
#define ATOMIC_CAS_AT(site, w, e, d) CAS_##site(w, e, d)
#define ATOMIC_FETCH_ADD_AT(site, w, v) FADD_##site(w, v)
#define LOAD_node_next_LOAD_1(w) ({ node_ptr *w_ = &(w); interfere(w_); node_ptr r_ = *w_; g_obs_p = g_acc; g_obs_q = r_; r_; })
#define STORE_node_set_next_STORE_1(w, v) do { node_ptr *w_ = &(w); \
    __CPROVER_assert(w_ == &g_me_next, "C12.link: a next pointer is written by a plain store only in the thread's own node while that node is still private (a node that is in the list changes its next pointer by CAS only)"); \
    *w_ = (v); } while (0)
#define CAS_node_try_set_next_CAS_1(w, e, d) ({ node_ptr *w_ = &(w); node_ptr p_ = g_acc; interfere(w_); node_ptr o_ = *w_; bool r_ = (o_ == *(e)); \
    if (r_) { GUARANTEE_LINK(w_, p_, o_, (d)); *w_ = (d); g_me_linked = true; } else *(e) = o_; r_; })
#define GUARANTEE_LINK(w_, p, c, n) do { \
    __CPROVER_assert((w_) == &g_word, "C12.link: a node is published by a CAS on the next pointer of a node that is in the list"); \
    __CPROVER_assert((n) == MEPTR && g_created, "C12.link: the node linked is the node this insert created"); \
    __CPROVER_assert(!g_me_linked, "C12.link: a node is linked at most once"); \
    __CPROVER_assert(g_me_next == (c), "C12.link: the new node's next pointer is the successor it is put in front of - no node behind the insertion point becomes unreachable"); \
    __CPROVER_assert(OK(p) <= g_ok[g_me] && ((c) == NULL || g_ok[g_me] <= OK(c)), "C12.sorted: the list stays sorted by split-order key across the link (predecessor <= new node <= successor)"); \
    LINK_EXTRA(p, c); } while (0)
static void list_setup(void) {
    g_n = nondet_size_t(); __CPROVER_assume(g_n >= 3 && g_n <= NMAX);
    g_ok = malloc(g_n * sizeof(sokey_type)); g_eq = malloc(g_n * sizeof(bool)); g_rank = malloc(g_n * sizeof(size_t)); __CPROVER_assume(g_ok && g_eq && g_rank);
    g_me = nondet_size_t(); g_w = nondet_size_t(); __CPROVER_assume(g_me < g_n && g_w < g_n && g_w != g_me);
    g_me_linked = false; g_w_linked = nondet_bool(); g_created = false; g_me_next = (node_ptr)nondet_uintptr_t(); g_word = NULL; g_acc = NULL; g_obs_q = NULL;
}

#ifdef L_INSERT
/* ---- search_after + try_insert + internal_insert: any list, any interleaving, unique-key and multi containers (allow_multimapping arbitrary) ---- */
struct sres { value_node_ptr first; bool second; };
struct iir { value_node_ptr remaining_node; value_node_ptr node_with_equal_key; bool inserted; };
struct cub { size_type my_size, my_bucket_count; };
bool allow_multimapping; int g_size_incs;
#define NODE_KEY(x) (__CPROVER_assert((g_ok[nidx(x)] & 1) == 1, "C12.safe: a key is read only from an element, never from a dummy node (dummies have no value)"), (x))
#define KEY_EQUAL(a, b) (__CPROVER_assert((b) == g_key, "C12.find: nodes are compared with the key being inserted"), g_eq[TIDX(a)])
#define KEY_HASH(k) (g_hash)
#define LINK_EXTRA(p, c) do { if (!allow_multimapping) { \
    __CPROVER_assert(!g_w_linked, "C12.unique: when an insert links its node no other node with an equivalent key is in the list - of several concurrent inserts of one absent key exactly one links its node"); \
    __CPROVER_assert((c) == NULL || OK(c) > g_ok[g_me], "C12.unique: an element of a unique-key container is linked at the end of its order-key run (what the other inserters' searches rely on)"); } } while (0)
#include "nodes.inc"
#define FADD_insert_FETCH_ADD_1(w, v) ({ __CPROVER_assert(g_me_linked, "C12.size: the element count is raised only for a linked node"); g_size_incs++; size_type o_ = (w); (w) = o_ + (v); o_; })
#define LOAD_insert_LOAD_1(w) (w)
static void STUB_adjust_table_size(struct cub *s, size_type total, size_type cur) { }
/* prepare_bucket (job solist.bucket): the linked dummy node of the key's bucket; its order key is even and smaller than the element's (job sokey.order) */
static node_ptr STUB_prepare_bucket(struct cub *s, sokey_type h) { __CPROVER_assert(h == g_hash, "C12.key: the bucket is chosen from the key's hash");
    node_ptr d = (node_ptr)nondet_uintptr_t(); __CPROVER_assume(VALID(d) && d != MEPTR && (OK(d) & 1) == 0 && OK(d) < g_okstar && SORTEDW(d)); g_obs_p = d; g_obs_q = NULL; return d; }
static value_node_ptr STUB_create_insert_node(struct cub *s, sokey_type ok) { __CPROVER_assert(!g_created, "C12.link: one node is created per insert");
    __CPROVER_assert(ok == g_okstar, "C12.key: the new node carries the split-order key of its key's hash"); g_created = true; g_me_next = NULL; return MEPTR; }
/* position facts about the arbitrary equivalent node W (unique-key containers): L1 W, if linked, lies behind prev; L2 if W lies at or before curr (and is not curr) then curr is past the key's run */
#define L1(pv) (!g_w_linked || g_rank[g_w] > RANK(pv))
#define L2(cu) ((cu) == NULL || !g_w_linked || (cu) == WPTR || g_rank[g_w] > RANK(cu) || OK(cu) > g_okstar)
#define POS(pv, cu) (VALID(pv) && (pv) != MEPTR && g_obs_p == (pv) && g_obs_q == (cu) && OK(pv) <= g_okstar && !g_me_linked \
    && ((cu) == NULL || (VALID(cu) && (cu) != MEPTR && OK(cu) >= OK(pv))) && (allow_multimapping || (L1(pv) && L2(cu))))
#define LOOP_search_1 __CPROVER_assigns(*prev, curr, g_word, g_w_linked, g_obs_p, g_obs_q, g_acc) \
    __CPROVER_loop_invariant(POS(*prev, curr) && order_key == g_okstar && key == g_key)
#define LOOP_insert_1 __CPROVER_assigns(prev, curr, search_result, g_word, g_me_next, g_me_linked, g_w_linked, g_obs_p, g_obs_q, g_acc) \
    __CPROVER_loop_invariant(POS(prev, curr) && g_created && new_node == MEPTR && order_key == g_okstar && key == g_key && g_size_incs == 0 \
       && (curr == NULL || OK(curr) > g_okstar || (allow_multimapping && OK(curr) == g_okstar)))
#include "insert.inc"
size_t IN_hash; bool IN_multi;
void h_insert(void) {
    list_setup(); allow_multimapping = IN_multi = nondet_bool(); g_unique_rely = !allow_multimapping;
    g_hash = IN_hash = nondet_size_t(); g_key = nondet_size_t(); g_okstar = split_order_key_regular(g_hash); g_size_incs = 0;
    /* this thread's node and W carry a key equivalent to K*: equivalent keys hash alike */
    __CPROVER_assume(g_eq[g_me] && g_ok[g_me] == g_okstar && g_eq[g_w] && g_ok[g_w] == g_okstar);
    struct cub c; c.my_size = nondet_size_t(); c.my_bucket_count = nondet_size_t();
    struct iir r = cub_internal_insert(&c, g_key);
    OBLIGATION(r.inserted == g_me_linked, "C12.insert: insert reports success exactly when its node was linked into the list");
    if (r.inserted) OBLIGATION(r.node_with_equal_key == MEPTR && r.remaining_node == NULL && g_size_incs == 1, "C12.insert: a successful insert returns its own node, leaves nothing to free and counts the element once");
    else {
        OBLIGATION(!allow_multimapping, "C12.insert: a multi container accepts every insert");
        OBLIGATION(VALID(r.node_with_equal_key) && r.node_with_equal_key != MEPTR && EQ(r.node_with_equal_key) && OK(r.node_with_equal_key) == g_okstar,
                   "C12.unique: an insert that fails returns a node of the list whose key is equivalent (the loser finds the winner's node)");
        OBLIGATION(r.remaining_node == (g_created ? MEPTR : NULL) && g_size_incs == 0, "C12.insert: the losing insert hands its unlinked node back to be freed (and only that), and does not count an element");
    }
    OBLIGATION(allow_multimapping || !(g_me_linked && g_w_linked), "C12.unique: a unique-key container never holds two nodes with equivalent keys");
    VACUITY_END();
}
#endif /* L_INSERT */
#endif /* C12_LIST */
