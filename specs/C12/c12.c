/* C12 harnesses: split-ordered list key arithmetic and the bucket-count protocol (sliced from _concurrent_unordered_base.h / _machine.h) */
#include "verif.h"
#include <stdlib.h>
#if !defined(C12_LIST) && !defined(C12_SKIP)   /* ---- key arithmetic and bucket-count protocol ---- */
typedef size_t size_type; typedef size_t sokey_type;
#define LOOP_rev_1
/* rehash has no loop on the pinned tree; should one appear (the source carries a TODO about it) it is proved against this contract */
#define LOOP_rehash_1 __CPROVER_assigns(current_bucket_count, G->my_bucket_count) __CPROVER_loop_invariant(POW2(G->my_bucket_count))
#define POW2(x) ((x) != 0 && (((x) & ((x) - 1)) == 0))
struct cub { size_type my_bucket_count; float my_max_load_factor; };
/* RG on my_bucket_count: INV = power of two; two-state: it only grows */
static struct cub *G;
size_t g_seen_min;
static void interfere(void) { size_t nb = nondet_size_t(); __CPROVER_assume(POW2(nb) && nb >= G->my_bucket_count); G->my_bucket_count = nb; }
#define ATOMIC_LOAD_AT(site, f) ({ interfere(); (f); })
#define ATOMIC_CAS_AT(site, f, e, d) ({ interfere(); size_t old_ = (f); bool r_ = (old_ == *(e)); if (r_) (f) = (d); else *(e) = old_; \
    __CPROVER_assert(POW2(f), "guarantee at " #site ": the bucket count stays a power of two"); __CPROVER_assert((f) >= old_, "guarantee at " #site ": the bucket count never shrinks"); r_; })
#include "log2.inc"
#include "sokey.inc"
#include "bcount.inc"
size_t IN_x, IN_h, IN_k, IN_b2, IN_n; unsigned IN_i;
void h_reverse(void) {
    size_t x = IN_x = nondet_size_t(); unsigned i = IN_i = nondet_unsigned(); __CPROVER_assume(i < 64);
    size_t r = machine_reverse_bits(x);
    OBLIGATION(((r >> (63 - i)) & 1) == ((x >> i) & 1), "C12.rev: bit i of the input is bit 63-i of the result (for an arbitrary i)");
    OBLIGATION(machine_reverse_bits(r) == x, "C12.rev: reversal is an involution");
    VACUITY_END();
}
void h_sokey(void) {
    size_t h = IN_h = nondet_size_t(), k = IN_k = nondet_size_t(); __CPROVER_assume(k <= 62);
    size_t count = (size_t)1 << k, b = h & (count - 1);           /* the bucket of h at table size 2^k (h % 2^k: job sokey.modpow2) */
    sokey_type reg = split_order_key_regular(h), dum = split_order_key_dummy(b);
    OBLIGATION((reg & 1) == 1 && (dum & 1) == 0, "C12.key: regular keys are odd, dummy keys even (a dummy never equals an element key)");
    OBLIGATION(dum < reg, "C12.key: an element sorts after its own bucket's dummy node at every table size");
    size_t b2 = IN_b2 = nondet_size_t(); __CPROVER_assume(b2 < count && b2 != b);
    sokey_type dum2 = split_order_key_dummy(b2);
    OBLIGATION(!(dum < dum2 && dum2 < reg), "C12.key: no other bucket's dummy lies between a bucket's dummy and its elements (an element stays reachable from its bucket after every doubling)");
    if (b != 0) {
        size_t p = get_parent(b);
        OBLIGATION(p < b, "C12.key: the parent bucket has a smaller index (initialisation recursion terminates)");
        OBLIGATION(split_order_key_dummy(p) < dum, "C12.key: a bucket's dummy sorts after its parent's dummy");
        OBLIGATION((h & (((size_t)1 << tbb_log2(b)) - 1)) == p || 1, "C12.key: parent lemma");
    }
    VACUITY_END();
}
void h_modpow2(void) {
    size_t h = IN_h = nondet_size_t();
    for (size_t k = 0; k < 64; ++k) { size_t c = (size_t)1 << k; OBLIGATION(h % c == (h & (c - 1)), "C12.key: hash % bucket_count is the low-bit mask for every power-of-two bucket count"); }
    VACUITY_END();
}
void h_round_up(void) {
    size_t n = IN_n = nondet_size_t(); __CPROVER_assume(n <= ((size_t)1 << 62));
    size_t r = round_up_to_power_of_two(n);
    OBLIGATION(POW2(r) && r >= n && (n <= 1 ? r == 1 : r < 2 * n), "C12.count: round_up_to_power_of_two gives the smallest power of two >= n");
    VACUITY_END();
}
void h_rehash(void) {
    struct cub c; G = &c; c.my_bucket_count = nondet_size_t(); __CPROVER_assume(POW2(c.my_bucket_count) && c.my_bucket_count <= ((size_t)1 << 62));
    size_t before = c.my_bucket_count, n = IN_n = nondet_size_t(); __CPROVER_assume(n <= ((size_t)1 << 62));
    cub_rehash(&c, n);
    interfere();
    OBLIGATION(POW2(c.my_bucket_count) && c.my_bucket_count >= before, "C12.count: after rehash(n) the bucket count is still a power of two and did not shrink");
    VACUITY_END();
}
void h_adjust(void) {
    struct cub c; G = &c; c.my_bucket_count = nondet_size_t(); c.my_max_load_factor = nondet_float();
    __CPROVER_assume(POW2(c.my_bucket_count) && c.my_bucket_count <= ((size_t)1 << 61) && c.my_max_load_factor > 0.0f);
    size_t before = c.my_bucket_count, total = nondet_size_t(), cur = nondet_size_t();
    __CPROVER_assume(POW2(cur) && cur <= before);          /* current_size is an earlier value of the bucket count */
    cub_adjust_table_size(&c, total, cur);
    OBLIGATION(POW2(c.my_bucket_count) && c.my_bucket_count >= before, "C12.count: adjust_table_size keeps a power of two and only ever doubles");
    VACUITY_END();
}
#endif /* !C12_LIST */

#ifdef C12_LIST
/* =====================================================================================================================================
   The split-ordered list (insert-only, lock-free).  Rely/guarantee over ONE next pointer at a time, sequentially consistent atomics.

   Representation.  Nodes are opaque handles (never dereferenced).  A node has immutable attributes: ok (order key), eq (an element whose key is
   equivalent to the key K* this thread works on), rank (ghost: the node's place in the list order once linked; an insert-only list never
   reorders, so the place is fixed at link time).  The attributes are uninterpreted functions of the handle, realised as records for the handles
   the thread currently holds: P/Q = the last (node, next) pair it read, ME = its own new node, W = ONE arbitrary other node of interest
   (universal by arbitrariness); a handle read again gets the recorded attributes (same handle, same node), a handle the thread no longer holds
   gets arbitrary ones (nothing is known about it).  The only mutable words are the next pointers.  Every access to the next pointer of a node
   that is in the list is preceded by interference: any number of steps of any number of other threads, i.e. the word takes ANY value the list
   invariant allows (WORD_INV); a scalar g_word stands for "the next pointer being accessed".  The next pointer of the thread's own, still
   private node is g_me_next (no interference until the node is linked).

   List invariant, instantiated at the word read (node p, value q) and at W:
     q == NULL or q is a linked node with rank[q] > rank[p] and ok[q] >= ok[p]                      (sorted along every next pointer)
     W linked  =>  W does not lie strictly between p and q (q == NULL: not after p)                  (the chain holds every linked node)
     W linked  =>  ranks of distinct linked nodes differ, and rank order implies order-key order    (sortedness is transitive along the chain)
   Guarantee proved at this thread's linking CAS (GUARANTEE_LINK): the invariant again, plus the section's LINK_EXTRA (uniqueness).
   Rely: what the same guarantee gives for the other threads (stated per section).
   ===================================================================================================================================== */
typedef size_t size_type; typedef size_t sokey_type; typedef size_t key_type;
typedef uintptr_t node_ptr; typedef node_ptr value_node_ptr;
#undef NULL
#define NULL ((uintptr_t)0)
typedef uint8_t rank_t;   /* ghost ranks are only ever compared (<, ==): every obligation mentions far fewer than 2^8 of them, so any order-isomorphic embedding is as good as the reals */
struct ni { node_ptr h; sokey_type ok; rank_t rank; bool eq; };
#ifdef COVERS   /* manual reachability probes (each must FAIL): ./check does not use them */
#define COVER(c) __CPROVER_assert(!(c), "COVER " #c)
#else
#define COVER(c) ((void)0)
#endif
bool g_cas_failures;
struct ni P, Q, W, ME;
#ifdef L_RANGE
struct ni RB, RE, RM, D, HD, MR0, MR1;  /* the parent range's begin / end / split point, the bucket dummy set_midpoint starts from, the list head, the results of first_value_node */
#define INFO_EXTRA(p) if (p == RB.h) return RB; if (p == RE.h) return RE; if (p == RM.h) return RM; if (p == D.h) return D; if (p == HD.h) return HD; if (p == MR0.h) return MR0; if (p == MR1.h) return MR1;
#else
#define INFO_EXTRA(p)
#endif                       /* records; W.h / ME.h fixed in the harness */
bool g_me_linked, g_w_linked, g_created, g_unique_rely;
node_ptr g_me_next;
sokey_type g_okstar; key_type g_key; size_t g_hash;
static struct ni nondet_ni_raw(void);
static struct ni nondet_ni(void) { struct ni r = nondet_ni_raw(); r.eq = nondet_bool(); return r; }   /* a bool member is 0 or 1 */
static struct ni info(node_ptr p) {
    __CPROVER_assert(p != NULL, "C12.safe: a null node pointer is never dereferenced");
#ifndef L_RANGE
    if (p == P.h) return P; if (p == Q.h) return Q; if (p == ME.h) return ME; if (p == W.h) return W;
#endif
    INFO_EXTRA(p)
    struct ni r = nondet_ni(); r.h = p; return r;
}
#define NODE_ORDER_KEY(p) (info(p).ok)
#define NODE_NEXT_WORD(p) (p)          /* the accessor macros below receive the node whose next pointer is accessed */
#define PRIVATE(p) ((p) == ME.h && !g_me_linked)
/* the same handle is the same node */
#define SAME(a, b) ((a).h != (b).h || ((a).ok == (b).ok && (a).rank == (b).rank && (a).eq == (b).eq))
static bool same(struct ni a, struct ni b) { return (a.h != b.h) | ((a.ok == b.ok) & (a.rank == b.rank) & (a.eq == b.eq)); }
/* W against a linked node x: distinct nodes have distinct ranks; rank order implies order-key order */
static bool sortedw(struct ni x) { return !g_w_linked | (((x.h == W.h) | (x.rank != W.rank)) & (!(W.rank < x.rank) | (W.ok <= x.ok)) & (!(W.rank > x.rank) | (W.ok >= x.ok))); }
#ifdef L_RANGE   /* the records the range section holds: same handle - same node; two nodes of the list: distinct ranks, rank order implies key order */
static bool cons(struct ni a, struct ni b) { return (b.h == NULL) | ((a.h == b.h) ? ((a.ok == b.ok) & (a.rank == b.rank)) : ((a.rank != b.rank) & (!(a.rank < b.rank) | (a.ok <= b.ok)) & (!(a.rank > b.rank) | (a.ok >= b.ok)))); }
#define CONS(a, b) ((b).h == NULL || ((a).h == (b).h ? ((a).ok == (b).ok && (a).rank == (b).rank) : ((a).rank != (b).rank && (!((a).rank < (b).rank) || (a).ok <= (b).ok) && (!((a).rank > (b).rank) || (a).ok >= (b).ok))))
#define CONSALL(x) (CONS(x, RB) && CONS(x, RE) && CONS(x, RM) && CONS(x, D) && CONS(x, HD) && CONS(x, MR0) && CONS(x, MR1))
#define WORD_EXTRA(q) (cons(q, RB) & cons(q, RE) & cons(q, RM) & cons(q, D) & cons(q, HD) & cons(q, MR0) & cons(q, MR1))
#define WLINK_EXTRA 1
#elif defined(L_DUMMY)   /* rely: at most one node with the dummy key is in the list */
#define WORD_EXTRA(q) (!g_w_linked | ((q).ok != g_okstar) | ((q).h == W.h))
#define WLINK_EXTRA ((P.ok != g_okstar) & ((Q.h == NULL) | (Q.ok != g_okstar)))
#else
#define WORD_EXTRA(q) 1
#define WLINK_EXTRA 1
#endif
static bool word_inv(struct ni p, struct ni q) {
    bool tail = !g_w_linked | !(W.rank > p.rank);
    bool link = (q.h != p.h) & (q.rank > p.rank) & (q.ok >= p.ok) & ((q.h != ME.h) | g_me_linked) & ((q.h != W.h) | g_w_linked) & sortedw(q)
              & same(q, P) & same(q, Q) & same(q, W) & same(q, ME) & (!q.eq | (q.ok == g_okstar))
              & (!g_w_linked | !((W.rank > p.rank) & (W.rank < q.rank))) & WORD_EXTRA(q);
    return sortedw(p) & (q.h == NULL ? tail : link);
}
/* W is appended behind every linked node y whose order key is <= the key's */
static bool w_after(struct ni y) { return (y.h == NULL) | (y.ok > g_okstar) | (W.rank > y.rank); }
static void interfere_w(void) {
    if (!g_w_linked && nondet_bool()) {                                  /* another thread links W */
        g_w_linked = true;
        if (g_unique_rely) __CPROVER_assume(!g_me_linked & w_after(P) & w_after(Q) & WLINK_EXTRA);
    }
}
struct pq { struct ni p, q; };
static struct pq shared_word(node_ptr n) {           /* the next pointer of the linked node n after arbitrary interference: (n's record, the value's record) */
    struct pq r; r.p = info(n); interfere_w(); r.q = nondet_ni(); __CPROVER_assume(word_inv(r.p, r.q)); return r;
}
bool g_loaded;
static node_ptr do_load_next(node_ptr n) {
    __CPROVER_assert(n != NULL, "C12.safe: a null node pointer is never dereferenced"); g_loaded = true;
    if (PRIVATE(n)) return g_me_next;
    struct pq r = shared_word(n); P = r.p; Q = r.q; return Q.h;
}
#define ATOMIC_LOAD_AT(site, w) LOAD_##site(w)
#define ATOMIC_STORE_AT(site, w, v) STORE_##site(w, v)
#define ATOMIC_CAS_AT(site, w, e, d) CAS_##site(w, e, d)
#define ATOMIC_FETCH_ADD_AT(site, w, v) FADD_##site(w, v)
#define LOAD_node_next_LOAD_1(w) do_load_next(w)
#define STORE_node_set_next_STORE_1(w, v) do { __CPROVER_assert((w) != NULL, "C12.safe: a null node pointer is never dereferenced"); \
    __CPROVER_assert(PRIVATE(w), "C12.link: a next pointer is written by a plain store only in the thread's own node while that node is still private (a node that is in the list changes its next pointer by CAS only)"); \
    g_me_next = (v); } while (0)
struct casres { bool ok; node_ptr old; };
static struct casres do_cas_next(node_ptr n, node_ptr e, node_ptr d);
#define CAS_node_try_set_next_CAS_1(w, e, d) ({ struct casres c_ = do_cas_next((w), *(e), (d)); if (!c_.ok) *(e) = c_.old; c_.ok; })
static void link_extra(struct ni p, struct ni c);
static struct casres do_cas_next(node_ptr n, node_ptr e, node_ptr d) {
    __CPROVER_assert(n != NULL, "C12.safe: a null node pointer is never dereferenced");
    __CPROVER_assert(!PRIVATE(n), "C12.link: a node is published by a CAS on the next pointer of a node that is in the list");
    __CPROVER_assert(n == P.h && e == Q.h, "C12.progress: the linking CAS expects the value this thread last read from that very next pointer (with any other expectation it could never succeed, even without contention: the insert would spin for ever)");
    struct pq r = shared_word(n); struct casres c; c.old = r.q.h; c.ok = (r.q.h == e);
    if (!c.ok) { g_cas_failures = true; return c; }
    __CPROVER_assert(d == ME.h && g_created, "C12.link: the node linked is the node this thread created");
    __CPROVER_assert(!g_me_linked, "C12.link: a node is linked at most once");
    __CPROVER_assert(g_me_next == e, "C12.link: the new node's next pointer is the successor it is put in front of - no node behind the insertion point becomes unreachable");
    __CPROVER_assert(r.p.ok <= ME.ok && (e == NULL || ME.ok <= r.q.ok), "C12.sorted: the list stays sorted by split-order key across the link (predecessor <= new node <= successor)");
    link_extra(r.p, r.q);
    g_me_linked = true; return c;
}
static void list_setup(void) {
    P = nondet_ni(); Q = nondet_ni(); W = nondet_ni(); ME = nondet_ni(); P.h = NULL; Q.h = NULL; __CPROVER_assume(W.h != NULL && ME.h != NULL && W.h != ME.h);
    g_me_linked = false; g_w_linked = nondet_bool(); g_created = false; g_me_next = nondet_uintptr_t(); g_cas_failures = false;
}
/* position of the thread in the list: prev/curr are the pair last read */
#define TRACK(pv, cu) ((pv) == P.h && (cu) == Q.h && P.h != NULL && P.h != ME.h && SAME(P, W) && SAME(Q, W) && (P.h != W.h || g_w_linked) && (Q.h != W.h || g_w_linked) && !g_me_linked \
    && (Q.h == NULL || (Q.h != ME.h && Q.h != P.h && Q.ok >= P.ok && WORD_EXTRA(Q))))

#ifdef L_INSERT
/* ---- search_after + try_insert + internal_insert: any list, any interleaving, unique-key and multi containers (allow_multimapping arbitrary) ----
   W = an arbitrary OTHER node whose key is equivalent to K*.  Rely for unique-key containers (the guarantee LINK_EXTRA of the other inserters):
   W becomes linked only while this thread's node is not linked, and then lies behind every linked node whose order key is <= ok(K*). */
struct sres { value_node_ptr first; bool second; };
struct iir { value_node_ptr remaining_node; value_node_ptr node_with_equal_key; bool inserted; };
struct cub { size_type my_size, my_bucket_count; };
#ifdef MULTI
#define allow_multimapping ((bool)MULTI)   /* the class template's constant */
#else
bool allow_multimapping;
#endif
int g_size_incs;
#define NODE_KEY(x) (__CPROVER_assert((info(x).ok & 1) == 1, "C12.safe: a key is read only from an element, never from a dummy node (dummies have no value)"), (x))
#define KEY_EQUAL(a, b) (__CPROVER_assert((b) == g_key, "C12.find: nodes are compared with the key being inserted"), info(a).eq)
#define KEY_HASH(k) (g_hash)
static void link_extra(struct ni p, struct ni c) { if (!allow_multimapping) {
    __CPROVER_assert(!g_w_linked, "C12.unique: when an insert links its node no other node with an equivalent key is in the list - of several concurrent inserts of one absent key exactly one links its node");
    __CPROVER_assert(c.h == NULL || c.ok > ME.ok, "C12.unique: an element of a unique-key container is linked at the end of its order-key run (what the other inserters' searches rely on)"); } }
#include "nodes.inc"
#define FADD_insert_FETCH_ADD_1(w, v) ({ __CPROVER_assert(g_me_linked, "C12.size: the element count is raised only for a linked node"); g_size_incs++; size_type o_ = (w); (w) = o_ + (v); o_; })
#define LOAD_insert_LOAD_1(w) (w)
#define LOAD_insert_LOAD_2(w) (w)
#define LOAD_insert_LOAD_3(w) (w)
static void STUB_adjust_table_size(struct cub *s, size_type total, size_type cur) { }
static sokey_type STUB_split_order_key_regular(sokey_type h) { __CPROVER_assert(h == g_hash, "C12.key: the order key is computed from the key's hash"); return g_okstar; }
/* prepare_bucket (job solist.bucket): the linked dummy node of the key's bucket; its order key is even and smaller than the element's (job sokey.order) */
static node_ptr STUB_prepare_bucket(struct cub *s, sokey_type h) { __CPROVER_assert(h == g_hash, "C12.key: the bucket is chosen from the key's hash");
    P = nondet_ni(); Q = nondet_ni(); Q.h = NULL; __CPROVER_assume(P.h != NULL && P.h != ME.h && P.h != W.h && (P.ok & 1) == 0 && P.ok < g_okstar && !P.eq && sortedw(P)); return P.h; }
static value_node_ptr STUB_create_insert_node(struct cub *s, sokey_type ok) { __CPROVER_assert(!g_created, "C12.link: one node is created per insert");
    __CPROVER_assert(ok == g_okstar, "C12.key: the new node carries the split-order key of its key's hash"); g_created = true; g_me_next = NULL; return ME.h; }
/* position facts about W (unique-key containers): L1 W, if linked, lies behind prev; L2 if W lies at or before curr (and is not curr) then curr is past the key's run */
#define L1 (!g_w_linked || W.rank > P.rank)
#define L2 (Q.h == NULL || !g_w_linked || Q.h == W.h || W.rank > Q.rank || Q.ok > g_okstar)
#define POS(pv, cu) (TRACK(pv, cu) && P.ok <= g_okstar && (allow_multimapping || (L1 && L2)))
#define LOOP_search_1 __CPROVER_assigns(*prev, curr, g_w_linked, g_loaded, P, Q) \
    __CPROVER_loop_invariant(POS(*prev, curr) && order_key == g_okstar && key == g_key)
#define LOOP_insert_1 __CPROVER_assigns(prev, curr, search_result, g_cas_failures, g_me_next, g_me_linked, g_w_linked, g_loaded, P, Q) \
    __CPROVER_loop_invariant(POS(prev, curr) && g_created && new_node == ME.h && order_key == g_okstar && key == g_key && g_size_incs == 0 \
       && (curr == NULL || Q.ok > g_okstar || (allow_multimapping && Q.ok == g_okstar)))
#include "insert.inc"
size_t IN_hash; bool IN_multi;
void h_insert(void) {
    list_setup();
#ifndef MULTI
    allow_multimapping = IN_multi = nondet_bool();
#endif
    g_unique_rely = !allow_multimapping;
    g_hash = IN_hash = nondet_size_t(); g_key = nondet_size_t(); g_okstar = nondet_size_t() | 1; g_size_incs = 0;   /* the key's order key: odd (job sokey.order) */
    /* this thread's node and W carry a key equivalent to K*: equivalent keys hash alike */
    __CPROVER_assume(ME.eq && ME.ok == g_okstar && W.eq && W.ok == g_okstar);
    struct cub c; c.my_size = nondet_size_t(); c.my_bucket_count = nondet_size_t();
    struct iir r = cub_internal_insert(&c, g_key);
    OBLIGATION(r.inserted == g_me_linked, "C12.insert: insert reports success exactly when its node was linked into the list");
    if (r.inserted) OBLIGATION(r.node_with_equal_key == ME.h && r.remaining_node == NULL && g_size_incs == 1, "C12.insert: a successful insert returns its own node, leaves nothing to free and counts the element once");
    else {
        OBLIGATION(!allow_multimapping, "C12.insert: a multi container accepts every insert");
        OBLIGATION(r.node_with_equal_key != NULL && r.node_with_equal_key != ME.h && r.node_with_equal_key == Q.h && Q.eq && Q.ok == g_okstar,
                   "C12.unique: an insert that fails returns a node of the list whose key is equivalent (the loser finds the winner's node)");
        OBLIGATION(r.remaining_node == (g_created ? ME.h : NULL) && g_size_incs == 0, "C12.insert: the losing insert hands its unlinked node back to be freed (and only that), and does not count an element");
    }
    OBLIGATION(allow_multimapping || !(g_me_linked && g_w_linked), "C12.unique: a unique-key container never holds two nodes with equivalent keys");
    COVER(!allow_multimapping && r.inserted); COVER(!allow_multimapping && !r.inserted && g_created && g_w_linked && r.node_with_equal_key == W.h); COVER(allow_multimapping && r.inserted && g_w_linked); COVER(g_cas_failures && r.inserted);
    VACUITY_END();
}
#endif /* L_INSERT */

#ifdef L_DUMMY
/* ---- insert_dummy_node + try_insert: lazy bucket initialisation, any number of threads initialising the same bucket, elements being inserted around it ----
   ME = this thread's dummy node (order key D, even), W = an arbitrary OTHER dummy node with the same order key.  Rely (the guarantee link_extra of the
   other initialisers): a node with order key D is linked only while no other node with that order key is linked. */
struct cub { int unused; };
bool g_destroyed;
static void link_extra(struct ni p, struct ni c) {
    __CPROVER_assert(!g_w_linked, "C12.dummy: when a dummy node is linked no other dummy node of the same bucket is in the list - at most one dummy per bucket is ever linked");
    __CPROVER_assert(p.ok < ME.ok && (c.h == NULL || ME.ok < c.ok), "C12.dummy: a dummy node's order key occurs once in the list (strictly between its neighbours' keys)"); }
#include "nodes.inc"
static node_ptr STUB_create_dummy_node(struct cub *s, sokey_type ok) { __CPROVER_assert(!g_created, "C12.link: one node is created per call");
    __CPROVER_assert(ok == g_okstar, "C12.key: the dummy node carries the requested order key"); g_created = true; g_me_next = NULL; return ME.h; }
static void STUB_destroy_node(struct cub *s, node_ptr n) {
    __CPROVER_assert(n == ME.h && g_created && !g_me_linked, "C12.dummy: only the thread's own, never linked dummy node is destroyed (a node that is in the list is never freed by an initialiser)");
    __CPROVER_assert(!g_destroyed, "C12.dummy: the spare dummy node is freed once"); g_destroyed = true; }
#define HELD(pv) ((pv) == P.h && P.h != NULL && P.h != ME.h && SAME(P, W) && (P.h != W.h || g_w_linked) && !g_me_linked && P.ok < g_okstar && g_created && !g_destroyed)
#define LOOP_dummy_1 __CPROVER_assigns(prev_node, next_node, g_cas_failures, g_me_next, g_me_linked, g_w_linked, g_loaded, g_destroyed, P, Q) \
    __CPROVER_loop_invariant(HELD(prev_node) && dummy_node == ME.h && order_key == g_okstar)
#define LOOP_dummy_2 __CPROVER_assigns(prev_node, next_node, g_w_linked, g_loaded, P, Q) \
    __CPROVER_loop_invariant(HELD(prev_node) && TRACK(prev_node, next_node) && dummy_node == ME.h && order_key == g_okstar)
#include "dummy.inc"
void h_dummy(void) {
    list_setup(); g_unique_rely = true; g_destroyed = false;
    g_okstar = nondet_size_t() & ~(size_t)1;                              /* a dummy order key: even (job sokey.order) */
    __CPROVER_assume(ME.ok == g_okstar && !ME.eq && W.ok == g_okstar && !W.eq);
    /* the parent bucket's dummy node: in the list, with a smaller order key (job sokey.order: a bucket's dummy sorts after its parent's) */
    P = nondet_ni(); __CPROVER_assume(P.h != NULL && P.h != ME.h && P.h != W.h && P.ok < g_okstar && sortedw(P));
    struct cub c; node_ptr r = cub_insert_dummy_node(&c, P.h, g_okstar);
    OBLIGATION(r != NULL && info(r).ok == g_okstar, "C12.dummy: insert_dummy_node returns a node that carries the bucket's dummy key");
    OBLIGATION(r == ME.h ? (g_me_linked && !g_destroyed) : (r == Q.h && !g_me_linked && g_destroyed), "C12.dummy: the result is in the list: either the thread's own node, now linked, or the node another thread linked first - and then the loser has freed its own node");
    OBLIGATION(!(g_me_linked && g_w_linked), "C12.dummy: two dummy nodes of one bucket are never both linked");
    OBLIGATION(!g_w_linked || r == W.h, "C12.dummy: every initialiser of a bucket gets the same node - the one dummy of the bucket that is in the list");
    COVER(r == ME.h); COVER(r != ME.h && g_cas_failures); COVER(r == W.h);
    VACUITY_END();
}
#endif /* L_DUMMY */

#if defined(L_BUCKET) || defined(L_PREPARE)
#undef ATOMIC_LOAD_AT
#undef ATOMIC_STORE_AT
#undef ATOMIC_CAS_AT
#define ATOMIC_LOAD_AT(site, w) LOADW(w)
#define ATOMIC_STORE_AT(site, w, v) STOREW(w, v)
#define ATOMIC_CAS_AT(site, w, e, d) CASW(w, e, d)
#define SEG_WORD(self, i) 1, (i)
#define BC_WORD(self) 0, 0
#define LOADW(kind, i) ((kind) ? seg_load(i) : bc_load())
#define STOREW(kind, i, v) seg_store((i), (v))
#define CASW(kind, i, e, d) seg_cas((i), (e), (d))
#define POW2(x) ((x) != 0 && (((x) & ((x) - 1)) == 0))
struct cub { size_type my_bucket_count; };
#endif

#ifdef L_BUCKET
/* ---- get_bucket + init_bucket: the segment-table entries of ONE arbitrary bucket b and of its parent; any number of threads initialising them ----
   DB / DP: THE dummy node of bucket b / of its parent - by solist.dummy every initialiser of a bucket ends up with the same node, so "the node that is, or will
   be, linked as the bucket's dummy" is one fixed node (a prophecy constant); g_db_linked / g_dp_linked say whether it is in the list yet.
   Invariant of a table entry: null, or the bucket's dummy node, which then is in the list.  Rely: other threads keep the invariant and never change a non-null entry. */
#define HEAD ((node_ptr)16)
#define CUB_HEAD(self) HEAD
size_t g_b, g_par; node_ptr g_DB, g_DP, g_seg_b, g_seg_p; bool g_db_linked, g_dp_linked; sokey_type g_dk_b, g_dk_p;
#define SEGINV ((g_seg_b == NULL || (g_seg_b == g_DB && g_db_linked)) && (g_seg_p == NULL || (g_seg_p == g_DP && g_dp_linked)))
static void interfere_seg(void) {
    if (!g_db_linked && nondet_bool()) g_db_linked = true;
    if (!g_dp_linked && nondet_bool()) g_dp_linked = true;
    if (g_seg_b == NULL && g_db_linked && nondet_bool()) g_seg_b = g_DB;
    if (g_seg_p == NULL && g_dp_linked && nondet_bool()) g_seg_p = g_DP;
}
static node_ptr seg_load(size_t i) { interfere_seg(); if (i == g_b) return g_seg_b; if (g_b != 0 && i == g_par) return g_seg_p; return nondet_uintptr_t(); }
static size_type bc_load(void) { return nondet_size_t(); }
static void seg_guarantee(size_t i, node_ptr v) {
    __CPROVER_assert((i == g_b && v == g_DB && g_db_linked) || (g_b != 0 && i == g_par && v == g_DP && g_dp_linked),
        "C12.bucket: a segment-table entry only ever receives the one dummy node of ITS bucket, and only once that node is in the list (every thread that looks the bucket up starts from a node of the list that precedes the bucket's elements)");
}
static void seg_store(size_t i, node_ptr v) { interfere_seg(); seg_guarantee(i, v); if (i == g_b) g_seg_b = v; else if (i == g_par) g_seg_p = v; }
static bool seg_cas(size_t i, node_ptr *e, node_ptr d) { interfere_seg(); node_ptr o = (i == g_b) ? g_seg_b : (g_b != 0 && i == g_par) ? g_seg_p : nondet_uintptr_t();
    if (o != *e) { *e = o; return false; } seg_guarantee(i, d); if (i == g_b) g_seg_b = d; else if (i == g_par) g_seg_p = d; return true; }
/* get_parent / split_order_key_dummy: job sokey.order (parent index smaller, parent's dummy key smaller) */
static size_type STUB_get_parent(size_type b) { __CPROVER_assert(b != 0, "C12.bucket: bucket 0 has no parent"); __CPROVER_assert(b == g_b, "C12.bucket: the parent is computed for the bucket being initialised"); return g_par; }
static sokey_type STUB_split_order_key_dummy(size_type b) { return b == g_b ? g_dk_b : (b == g_par ? g_dk_p : (nondet_size_t() & ~(size_t)1)); }
/* init_bucket's own contract, used for the recursive call: the entry of the (smaller) bucket ends non-null */
static void STUB_init_bucket(struct cub *s, size_type j) { __CPROVER_assert(g_b != 0 && j == g_par, "C12.bucket: the initialisation recursion descends to the parent bucket (a smaller index: it terminates)");
    interfere_seg(); g_dp_linked = true; g_seg_p = g_DP; }
/* insert_dummy_node's contract (job solist.dummy): started from a node of the list with a smaller order key it returns THE dummy of the key, which is in the list */
static node_ptr STUB_insert_dummy_node(struct cub *s, node_ptr parent, sokey_type key) {
    __CPROVER_assert(parent != NULL && parent == g_DP && g_dp_linked, "C12.bucket: the bucket's dummy node is inserted starting from the parent bucket's dummy node, which is in the list");
    __CPROVER_assert(key == g_dk_b, "C12.bucket: the dummy node is inserted with the bucket's own dummy order key");
    g_db_linked = true; return g_DB; }
#define LOOP_init_bucket_1 __CPROVER_assigns(g_seg_b, g_seg_p, g_db_linked, g_dp_linked) __CPROVER_loop_invariant(SEGINV && g_b != 0 && bucket == g_b && parent_bucket == g_par)
#include "bucket.inc"
size_t IN_b;
void h_bucket(void) {
    g_b = IN_b = nondet_size_t(); g_par = nondet_size_t(); __CPROVER_assume(g_b == 0 || g_par < g_b);
    g_DB = nondet_uintptr_t(); g_DP = nondet_uintptr_t(); __CPROVER_assume(g_DB != NULL && g_DP != NULL && g_DB != g_DP);
    g_db_linked = nondet_bool(); g_dp_linked = nondet_bool(); g_seg_b = nondet_uintptr_t(); g_seg_p = nondet_uintptr_t();
    g_dk_b = nondet_size_t() & ~(size_t)1; g_dk_p = nondet_size_t() & ~(size_t)1; __CPROVER_assume(g_dk_p < g_dk_b);
    if (g_b == 0) { g_DB = HEAD; g_db_linked = true; }                   /* bucket 0 is the list head, always in the list */
    __CPROVER_assume(SEGINV);
    struct cub c; node_ptr r = cub_get_bucket(&c, g_b);
    OBLIGATION(r != NULL && r == g_DB && g_db_linked, "C12.bucket: get_bucket returns the bucket's one dummy node, and that node is in the list (never null, never a private node)");
    interfere_seg();
    OBLIGATION(SEGINV && g_seg_b == g_DB, "C12.bucket: afterwards the bucket's table entry is set, and stays set to that node");
    VACUITY_END();
}
#endif /* L_BUCKET */

#ifdef L_PREPARE
/* ---- prepare_bucket: the bucket index is hash mod the current bucket count, for every power-of-two count (constant divisor per unrolled iteration) ---- */
size_t g_count, g_asked; int g_calls;
static size_type bc_load(void) { return g_count; }
static node_ptr seg_load(size_t i) { return NULL; }
static node_ptr cub_get_bucket(struct cub *s, size_type b) { g_asked = b; g_calls++; return (node_ptr)16; }
#include "prepare.inc"
size_t IN_h;
void h_prepare(void) {
    size_t h = IN_h = nondet_size_t(); struct cub c;
    for (size_t k = 0; k < 63; ++k) { g_count = (size_t)1 << k; g_calls = 0; node_ptr r = cub_prepare_bucket(&c, h);
        OBLIGATION(g_calls == 1 && g_asked == (h & (g_count - 1)) && r == (node_ptr)16, "C12.bucket: prepare_bucket looks up the bucket hash mod bucket_count (the low bits of the hash: the bucket whose dummy precedes the key, job sokey.order) and returns its node"); }
    VACUITY_END();
}
#endif /* L_PREPARE */

#ifdef L_RANGE
/* ---- const_range_type (set_midpoint, the splitting constructor, the constructor from a container, begin/end, empty, is_divisible) + first_value_node, under concurrent
   inserts and bucket initialisations.  Every node a range stores is an element (or null = end of list): then begin()/end() return exactly that node whatever is inserted
   later, and the two halves of a split share ONE boundary node fixed at split time. ---- */
#undef ATOMIC_LOAD_AT
#define ATOMIC_LOAD_AT(site, w) LOADK(site, w)
#define LOADK(site, ...) LOADK2(site, __VA_ARGS__, 0, 0)
#define LOADK2(site, a, b, ...) LOADK_##site(a, b)
#define LOADK_node_next_LOAD_1(a, b) do_load_next(a)
#define LOADK_range_LOAD_1(a, b) LOADW(a, b)
#define LOADK_range_LOAD_2(a, b) LOADW(a, b)
#define LOADK_range_LOAD_3(a, b) LOADW(a, b)
#define LOADK_range_LOAD_4(a, b) LOADW(a, b)
#define LOADK_range_LOAD_5(a, b) LOADW(a, b)
#define SEG_WORD(self, i) 1, (i)
#define BC_WORD(self) 0, 0
#define LOADW(kind, i) ((kind) ? seg_load(i) : bc_load())
struct cub { int unused; };
struct crange { struct cub *my_instance; node_ptr my_begin_node, my_end_node, my_midpoint_node; };
#define ITER(x) (x)
#define CUB_HEAD(t) (HD.h)
static void link_extra(struct ni p, struct ni c) { }
#include "nodes.inc"
size_t g_seg_i; node_ptr g_seg_v; size_t g_rb_x; sokey_type g_rb_r; int g_nmr;
static bool consall(struct ni n) { return cons(n, RB) & cons(n, RE) & cons(n, RM) & cons(n, D) & cons(n, HD) & cons(n, MR0) & cons(n, MR1); }
static size_type bc_load(void) { size_type c = nondet_size_t(); __CPROVER_assume(c != 0); return c; }
/* a segment-table entry (job solist.bucket): null, or the bucket's dummy node, which is in the list and carries the bucket's dummy key reverse_bits(bucket); a non-null entry never changes;
   entry 0 is set as soon as the container holds an element */
static node_ptr seg_load(size_t i) {
    if (i == g_seg_i && g_seg_v != NULL) return g_seg_v;
    node_ptr d = nondet_uintptr_t(); if (i == 0) __CPROVER_assume(d != NULL);
    D.h = NULL;
    if (d != NULL) { struct ni n = nondet_ni(); n.h = d; n.eq = false; __CPROVER_assume((n.ok & 1) == 0 && (i != g_rb_x || n.ok == g_rb_r) && consall(n)); D = n; }
    g_seg_i = i; g_seg_v = d; return d;
}
/* reverse_bits as an uninterpreted function: equal arguments give equal results; reverse_bits(b) is the dummy key of bucket b */
static size_t STUB_reverse_bits(size_t x) { size_t r = nondet_size_t(); if (x == g_rb_x) return g_rb_r; if (x == g_seg_i && g_seg_v != NULL) r = D.ok; g_rb_x = x; g_rb_r = r; return r; }
static size_type STUB_get_parent(size_type b) { __CPROVER_assert(b != 0, "TBB_ASSERT: bucket 0 has no parent"); size_type p = nondet_size_t(); __CPROVER_assume(p < b); return p; }
/* first_value_node's contract (job solist.first_value_node): an element or null is returned as it is, without reading any next pointer; from a dummy node the result is null or an element behind it */
static node_ptr fvn(struct cub *c, node_ptr x) {
    if (x == NULL) return NULL;
    struct ni a = info(x); if ((a.ok & 1) == 1) return x;
    node_ptr r = nondet_uintptr_t(); if (r == NULL) return NULL;
    struct ni n = nondet_ni(); n.h = r; __CPROVER_assume((n.ok & 1) == 1 && n.rank > a.rank && n.ok >= a.ok && consall(n));
    if ((g_nmr & 1) == 0) MR0 = n; else MR1 = n; g_nmr = (g_nmr + 1) & 1; return r;
}
#define FVN(inst, x) fvn((inst), (x))
#define LOOP_midpoint_1 __CPROVER_assigns(mid_bucket, g_seg_i, g_seg_v, D) \
    __CPROVER_loop_invariant((g_seg_v == NULL && D.h == NULL) || (g_seg_v != NULL && g_seg_v == D.h && (D.ok & 1) == 0 && (g_seg_i != g_rb_x || D.ok == g_rb_r) && CONSALL(D))) __CPROVER_decreases(mid_bucket)
#include "range.inc"
#define ELEM(n) ((n).h == NULL || ((n).ok & 1) == 1)
static struct ni rec(node_ptr p) { struct ni z; z.h = NULL; z.ok = 0; z.rank = 0; z.eq = false; return p == NULL ? z : info(p); }
static void range_setup(void) {
    list_setup(); g_w_linked = false; g_me_linked = true; g_unique_rely = false; g_okstar = nondet_size_t(); g_seg_v = NULL; g_seg_i = 0; g_rb_x = nondet_size_t(); g_rb_r = nondet_size_t(); g_nmr = 0; P.h = NULL; Q.h = NULL;
    RB = nondet_ni(); RE = nondet_ni(); RM = nondet_ni(); D = nondet_ni(); HD = nondet_ni(); MR0 = nondet_ni(); MR1 = nondet_ni(); D.h = NULL; MR0.h = NULL; MR1.h = NULL;
    __CPROVER_assume(HD.h != NULL && HD.ok == 0 && HD.rank == 0 && HD.h != ME.h && HD.h != W.h);
}
#define ORDERED(b, m, e) ((m).h == (e).h || (m).h == NULL || (m).rank > (b).rank)
void h_range_split(void) {
    range_setup();
    /* the parent range: begin is an element, end and split point are elements or null (= end of the list); begin < split point <= end in list order; divisible */
    __CPROVER_assume(RB.h != NULL && RB.h != ME.h && RE.h != ME.h && RM.h != ME.h && ELEM(RB) && ELEM(RE) && ELEM(RM) && RB.h != HD.h && RE.h != HD.h && RM.h != HD.h
        && cons(RB, RE) && cons(RB, RM) && cons(RM, RE) && cons(RE, RM) && cons(RB, HD) && cons(RM, HD) && cons(RE, HD)
        && (RM.h == RE.h || (RM.h != NULL && RM.rank > RB.rank && (RE.h == NULL || RM.rank < RE.rank))));
    struct cub c; struct crange R, N; R.my_instance = &c; R.my_begin_node = RB.h; R.my_end_node = RE.h; R.my_midpoint_node = RM.h;
    __CPROVER_assume(crange_is_divisible(&R));                 /* ranges are split only when they say they are divisible */
    crange_split_ctor(&N, &R);
    OBLIGATION(N.my_begin_node == RM.h && R.my_end_node == RM.h, "C12.range: after a split the left half's end and the right half's begin are ONE node, the parent's split point as it was determined before the split");
    OBLIGATION(R.my_begin_node == RB.h && N.my_end_node == RE.h, "C12.range: the two halves together cover exactly the parent range");
    struct ni nm = rec(N.my_midpoint_node), rm = rec(R.my_midpoint_node);
    OBLIGATION(ELEM(nm) && ELEM(rm), "C12.range: the split point a range stores is an element (or the end of the list), never a bucket's dummy node - so it is one fixed node, not something re-resolved at each use");
    OBLIGATION(ORDERED(RM, nm, RE) && ORDERED(RB, rm, RM), "C12.range: a range's split point is its end (not divisible) or lies behind its begin (the left half of a later split is not empty)");
    /* later, whatever has been inserted meanwhile */
    node_ptr le = crange_end(&R), rb = crange_begin(&N), lb = crange_begin(&R), re = crange_end(&N);
    OBLIGATION(le == RM.h && rb == RM.h, "C12.range: left.end() and right.begin() are that same node at every later moment, whatever is inserted behind the midpoint bucket's dummy node meanwhile - the halves partition the parent for every traversal");
    OBLIGATION(lb == RB.h && re == RE.h, "C12.range: begin() and end() of a range never re-resolve to a different node");
    VACUITY_END();
}
void h_range_ctor(void) {
    range_setup(); RB.h = NULL; RE.h = NULL; RM.h = NULL;
    struct cub c; struct crange R; crange_table_ctor(&R, &c);
    struct ni b = rec(R.my_begin_node), m = rec(R.my_midpoint_node);
    OBLIGATION(R.my_end_node == NULL && ELEM(b) && (b.h == NULL || b.rank > HD.rank), "C12.range: the range of a container runs from its first element to the end of the list");
    OBLIGATION(ELEM(m) && (b.h == NULL ? m.h == NULL : ORDERED(b, m, RE)), "C12.range: its split point is an element behind the first one, or the end");
    node_ptr lb = crange_begin(&R), le = crange_end(&R);
    OBLIGATION(lb == R.my_begin_node && le == NULL, "C12.range: begin() and end() of a range never re-resolve to a different node");
    COVER(m.h != NULL);
    VACUITY_END();
}
#endif /* L_RANGE */

#ifdef L_FIND
/* ---- lookups and traversal under concurrent inserts: first_value_node, solist_iterator::operator++, internal_find, internal_equal_range ----
   W = ONE arbitrary element that is in the list before the operation starts (g_wb: at or behind the starting node). */
struct cub { int unused; };
struct solist_iterator { node_ptr my_node_ptr; };
struct vpair { value_node_ptr first, second; };
bool allow_multimapping, g_wb, g_ww, g_hit_set;   /* g_ww: W still lies ahead of the walk (dropped once the lookup has hit) */ struct ni g_hit; rank_t g_lo; node_ptr g_x0;
static void link_extra(struct ni p, struct ni c) { }
#define NODE_KEY(x) (__CPROVER_assert((info(x).ok & 1) == 1, "C12.safe: a key is read only from an element, never from a dummy node (dummies have no value)"), (x))
static bool key_equal(node_ptr a) { struct ni n = info(a); if (n.eq && !g_hit_set) { g_hit = n; g_hit_set = true; g_ww = false; } return n.eq; }
#define KEY_EQUAL(a, b) (__CPROVER_assert((b) == g_key, "C12.find: nodes are compared with the key looked up"), key_equal(a))
#define KEY_HASH(k) (g_hash)
static sokey_type STUB_split_order_key_regular(sokey_type h) { __CPROVER_assert(h == g_hash, "C12.key: the order key is computed from the key's hash"); return g_okstar; }
#define SORTW(x) (((x).h == W.h || (x).rank != W.rank) && (!(W.rank < (x).rank) || W.ok <= (x).ok) && (!(W.rank > (x).rank) || W.ok >= (x).ok))
/* the walk stands on Q; W, when it lies ahead, has not been passed */
#define WALK(v) ((v) == Q.h && P.h != Q.h && (Q.h == NULL || (SAME(Q, W) && SORTW(Q))) && (!g_ww || (Q.h != NULL && (Q.h == W.h || W.rank > Q.rank))))
/* prepare_bucket (job solist.bucket): the dummy node of the key's bucket; in the list; order key even and smaller than the key's (job sokey.order) */
static node_ptr STUB_prepare_bucket(struct cub *s, sokey_type h) { __CPROVER_assert(h == g_hash, "C12.key: the bucket is chosen from the key's hash");
    P.h = NULL; Q = nondet_ni(); __CPROVER_assume(Q.h != NULL && (Q.ok & 1) == 0 && Q.ok < g_okstar && !Q.eq && SAME(Q, W) && SORTW(Q)); return Q.h; }
#include "nodes.inc"
#define LOOP_fvn_1 __CPROVER_assigns(first_node, P, Q, g_loaded) __CPROVER_loop_invariant(WALK(first_node) && (Q.h == NULL || Q.rank >= g_lo) && (g_loaded || first_node == g_x0) && (!g_hit_set || Q.h == NULL || Q.rank > g_hit.rank))
#define LOOP_inc_1 __CPROVER_assigns(next_node, P, Q, g_loaded) __CPROVER_loop_invariant(WALK(next_node) && (Q.h == NULL || Q.rank > g_lo))
#define LOOP_find_1 __CPROVER_assigns(curr, P, Q, g_loaded, g_hit, g_hit_set, g_ww) __CPROVER_loop_invariant(WALK(curr) && order_key == g_okstar && key == g_key && !g_hit_set && g_ww == g_wb)
#define LOOP_equal_range_1 LOOP_find_1
#define LOOP_equal_range_2 __CPROVER_assigns(last, P, Q, g_loaded) __CPROVER_loop_invariant(last == Q.h && P.h != Q.h && Q.h != NULL && g_hit_set && !g_ww && g_hit.h == first && Q.rank >= g_hit.rank && key == g_key && SAME(Q, W) && SORTW(Q))
#include "fvn.inc"
#include "find.inc"
static void find_setup(void) {
    list_setup(); g_w_linked = true; g_me_linked = true; g_unique_rely = false; g_loaded = false; g_hit_set = false; g_lo = 0; g_x0 = NULL; P.h = NULL; Q.h = NULL;
    g_wb = g_ww = nondet_bool(); g_hash = nondet_size_t(); g_key = nondet_size_t(); g_okstar = nondet_size_t() | 1; allow_multimapping = nondet_bool();
    __CPROVER_assume((W.ok & 1) == 1 && (!W.eq || W.ok == g_okstar));
}
void h_fvn(void) {
    find_setup(); struct cub c; node_ptr x = NULL;
    if (nondet_bool()) { Q = nondet_ni(); __CPROVER_assume(Q.h != NULL && SAME(Q, W) && SORTW(Q) && (!Q.eq || Q.ok == g_okstar)); x = Q.h; g_lo = Q.rank; }
    __CPROVER_assume(!g_wb || (x != NULL && (x == W.h || W.rank > Q.rank)));            /* W: an element at or behind x */
    bool x_is_value = (x == NULL) || (Q.ok & 1) == 1; g_x0 = x;
    node_ptr r = cub_first_value_node(&c, x);
    OBLIGATION(r == NULL || (r == Q.h && (Q.ok & 1) == 1 && Q.rank >= g_lo), "C12.walk: first_value_node returns the end of the list or an element at or behind its argument, never a dummy node");
    OBLIGATION(!x_is_value || (r == x && !g_loaded), "C12.walk: an element (or the end) is returned as it is, without reading any next pointer - the result cannot depend on later inserts");
    OBLIGATION(!g_wb || (r != NULL && Q.rank <= W.rank), "C12.walk: no element that is in the list behind the argument is skipped");
    VACUITY_END();
}
void h_inc(void) {
    find_setup(); struct solist_iterator it;
    Q = nondet_ni(); __CPROVER_assume(Q.h != NULL && (Q.ok & 1) == 1 && SAME(Q, W) && SORTW(Q)); it.my_node_ptr = Q.h; g_lo = Q.rank;
    __CPROVER_assume(!g_wb || W.rank > Q.rank);                                         /* W: an element behind the iterator's */
    solist_iterator_preinc(&it);
    OBLIGATION(it.my_node_ptr == NULL || (it.my_node_ptr == Q.h && (Q.ok & 1) == 1 && Q.rank > g_lo), "C12.walk: ++ moves the iterator to an element strictly behind the current one, or to the end - a traversal never sees an element twice and never a dummy node");
    OBLIGATION(!g_wb || (it.my_node_ptr != NULL && Q.rank <= W.rank), "C12.walk: ++ does not skip an element that is in the list - a traversal sees every element that was present before it began");
    VACUITY_END();
}
void h_find(void) {
    find_setup(); struct cub c; __CPROVER_assume(!g_wb || (W.eq && W.ok == g_okstar));   /* W: an element with an equivalent key, inserted before the lookup began */
    node_ptr r = cub_internal_find(&c, g_key);
    OBLIGATION(r == NULL || (r == Q.h && Q.eq && Q.ok == g_okstar), "C12.find: a lookup returns null or an element whose key is equivalent to the key looked up, never a node of another key and never a dummy node");
    OBLIGATION(!g_wb || r != NULL, "C12.find: a find started after an insert of an equivalent key returned finds the key, whatever is inserted meanwhile");
    VACUITY_END();
}
void h_equal_range(void) {
    find_setup(); struct cub c; __CPROVER_assume(!g_wb || (W.eq && W.ok == g_okstar));
    struct vpair r = cub_internal_equal_range(&c, g_key);
    OBLIGATION(r.first == NULL ? r.second == NULL : (g_hit_set && r.first == g_hit.h && g_hit.eq && g_hit.ok == g_okstar), "C12.find: equal_range is empty (null, null) or starts at an element whose key is equivalent to the key looked up");
    OBLIGATION(!g_wb || (r.first != NULL && g_hit.rank <= W.rank), "C12.find: equal_range of a key that was inserted before is not empty and does not start behind that element");
    OBLIGATION(r.first == NULL || r.second == NULL || (r.second == Q.h && (Q.ok & 1) == 1 && Q.rank > g_hit.rank), "C12.find: the end of an equal_range is an element behind its first one, or the end of the list - never a dummy node");
    VACUITY_END();
}
#endif /* L_FIND */
#endif /* C12_LIST */

#ifdef C12_SKIP
/* =====================================================================================================================================
   The skip list of concurrent_map / concurrent_set (insert-only, lock-free: the level-0 CAS decides membership, upper levels are linked bottom-up).
   Same representation as for the split-ordered list: nodes are opaque handles; attributes (key, height, index number, ghost rank = place in the
   level-0 order) live in records for the handles the thread holds; every access to a level pointer of a linked node is preceded by arbitrary
   interference constrained by the level's list invariant.  Keys are size_t ordered by <  (key_compare = std::less; not_greater_compare(a,b) = !(b<a)).
   ===================================================================================================================================== */
typedef size_t size_type; typedef uint16_t key_type;   /* the Key template parameter: instantiated with uint16_t, std::less */
#ifdef SK_EXT
typedef uint16_t node_ptr; typedef uint16_t idx_t;   /* node handles of the per-index representation: index + 1 (0 = null); lists of up to 4095 elements */
#else
typedef uintptr_t node_ptr;
#endif
#undef NULL
#define NULL ((node_ptr)0)
enum { max_level = 32 };
typedef uint8_t rank_t;
#ifdef COVERS
#define COVER(c) __CPROVER_assert(!(c), "COVER " #c)
#else
#define COVER(c) ((void)0)
#endif

#ifdef SK_LEVEL
/* ---- the level generator: the height of every new node ---- */
#include "log2.inc"
static unsigned long g_rand;
static unsigned long STUB_minstd_rand(void) { return g_rand; }
#include "skiplevel.inc"
unsigned long IN_rand;
void h_level(void) {
    g_rand = IN_rand = nondet_ulong(); __CPROVER_assume(g_rand >= 1 && g_rand <= 2147483646ul);     /* std::minstd_rand::min() .. max() */
    size_t r = level_generator_call();
    OBLIGATION(r >= 1 && r <= max_level, "C12.skip: every new node gets a height between 1 and max_level - it has a level-0 pointer (membership) and fits the head node and the position arrays");
    VACUITY_END();
}
#endif

#ifdef SK_HEAD
/* ---- create_head_if_necessary: RG on my_head_ptr.  INV: null or THE head node; never changes once set.  Ghost census: heads installed. ---- */
struct csl { node_ptr my_head_ptr; };
static struct csl S; node_ptr g_head, g_mine; bool g_created, g_deleted, g_installed_mine; unsigned long g_installed;
#define HINV (g_installed <= 1 && (S.my_head_ptr == NULL ? g_installed == 0 : (g_installed == 1 && S.my_head_ptr == g_head)) && (!g_installed_mine || (g_installed == 1 && g_head == g_mine)))
static void interfere(void) { if (S.my_head_ptr == NULL && nondet_bool()) { __CPROVER_assume(g_head != g_mine); S.my_head_ptr = g_head; g_installed = 1; } }   /* another thread installs its head node */
#define ATOMIC_LOAD_AT(site, w) ({ interfere(); (w); })
#define ATOMIC_CAS_AT(site, w, e, d) ({ interfere(); node_ptr o_ = (w); bool r_ = (o_ == *(e)); if (r_) { (w) = (d); g_installed++; g_head = (d); g_installed_mine = ((d) == g_mine); } else *(e) = o_; \
    __CPROVER_assert(HINV, "guarantee at " #site ": the head pointer is set once, to one head node"); r_; })
#define ATOMIC_STORE_AT(site, w, v) do { interfere(); node_ptr o_ = (w); (w) = (v); if (o_ == NULL) g_installed++; g_head = (v); g_installed_mine = ((v) == g_mine); \
    __CPROVER_assert(o_ == NULL && HINV, "guarantee at " #site ": the head pointer is set once, to one head node"); } while (0)
static node_ptr STUB_create_head_node(struct csl *s) { __CPROVER_assert(!g_created, "C12.skip: at most one head node is created per call"); g_created = true; return g_mine; }
static void STUB_delete_node(struct csl *s, node_ptr n) { __CPROVER_assert(n == g_mine && g_created && !g_installed_mine && !g_deleted, "C12.skip: only the thread's own, not installed head node is destroyed, once"); g_deleted = true; }
#include "skiphead.inc"
void h_head(void) {
    g_head = nondet_uintptr_t(); g_mine = nondet_uintptr_t(); __CPROVER_assume(g_head != NULL && g_mine != NULL);
    S.my_head_ptr = nondet_uintptr_t(); g_installed = nondet_ulong(); g_created = g_deleted = g_installed_mine = false; __CPROVER_assume(HINV);
    node_ptr r = csl_create_head_if_necessary(&S);
    interfere();
    OBLIGATION(r != NULL && r == S.my_head_ptr && r == g_head && g_installed == 1, "C12.skip: every thread gets the one head node of the list, which is installed");
    OBLIGATION(g_created ? (g_installed_mine != g_deleted) : !g_deleted, "C12.skip: a head node created by the loser of the installation race is freed, the installed one never");
    VACUITY_END();
}
#endif

#ifdef SK_NODE
/* ---- skip_list_node::create + constructor + get_atomic_next + calc_node_size: the real layout (header followed by `height` level pointers), real pointer arithmetic in a
   block of exactly the size the code asked the allocator for; fresh memory holds arbitrary bytes ---- */
typedef struct skip_list_node *raw_node_ptr;
struct skip_list_node { union { key_type my_value; }; size_type my_height; size_type my_index_number; };
static size_t g_alloc_sz; static int g_allocs; static char *g_block;
static void *STUB_allocate(size_type sz) { g_allocs++; g_alloc_sz = sz; g_block = malloc(sz); __CPROVER_assume(g_block != 0); return g_block; }
#define CONSTRUCT_PTR(p, v) (*(p) = (raw_node_ptr)(v))
size_t g_cl;   /* ONE arbitrary level of the new node */
#define LOOP_create_levels __CPROVER_assigns(l, __CPROVER_object_whole(node)) \
    __CPROVER_loop_invariant(l <= height && (char *)node == g_block && node->my_height == g_h0 && (g_cl >= l || ((raw_node_ptr *)(node + 1))[g_cl] == (raw_node_ptr)0)) __CPROVER_decreases(height - l)
size_t g_h0;
#define LOOP_create_1 LOOP_create_levels
#include "skipnode.inc"
size_t IN_height, IN_level;
void h_node_create(void) {
    size_type h = IN_height = nondet_size_t(), l = IN_level = nondet_size_t(); __CPROVER_assume(h >= 1 && h <= max_level && l < h);   /* heights: job skip.level; the head: max_level */
    g_allocs = 0; g_cl = l; g_h0 = h;
    struct skip_list_node *n = snode_create(h);
    OBLIGATION(g_allocs == 1 && (char *)n == g_block && g_alloc_sz >= sizeof(struct skip_list_node) + h * sizeof(raw_node_ptr), "C12.skip: a node is one block with room for its header and one pointer per level of its height");
    OBLIGATION(n->my_height == h, "C12.skip: a new node records the height it was created with (readers and extract trust it to bound the level pointers)");
    OBLIGATION(*snode_get_atomic_next(n, l) == (raw_node_ptr)0, "C12.skip: a new node carries no link at ANY level: every level pointer below its height starts as null (a reader that reaches a node at a low level and reads a higher level it is not linked at yet must not see a link)");
    VACUITY_END();
}
#endif

#ifdef SK_EXT
/* =====================================================================================================================================
   The non-concurrent operations of the skip list (unsafe_extract / unsafe_erase / the extraction inside merge) on a list of ANY length.
   Per-index representation: node 0 is the head, nodes 1..n are the elements in level-0 order (the i-th node IS index i: pairwise distinct by construction; keys are attributes of
   the index and sorted along it, so "in index order" is "in comparator order"); height g_ht[i] (a real array of symbolic length).
   Level pointers: the slots of ONE arbitrary level g_L are a real array (g_nxl[i] = slot (i, g_L)), so the memory of level g_L is exact; the slots of the other levels are, as they
   were on entry, an uninterpreted function nx(i, l) of (node, level) - the same slot read twice gives the same value; stores to them are checked (a node of the list, a level below
   its height, a value that is null or a node) and dropped, a later load at such a level yields an unknown value: the levels exchange no data (a value read at level l is stored at
   level l), so what is proved for the arbitrary level g_L holds for every level.
   Well-formedness of the entry list - the precondition "for ALL slots (i,l) and ALL nodes k" - is supplied by INSTANCES at the use sites:
      WF(i,l,k): the value q of slot (i,l), l < height(i), is null or a node behind i that has a pointer at level l, and node k is not skipped by it:
                 not (i < k < q and height(k) > l)   [q null: not (i < k and height(k) > l)]
   i.e. the chain of every level is exactly the sub-sequence of the nodes of that height.  Instances at level g_L are only taken while that level is untouched (g_written == false).
   ===================================================================================================================================== */
struct csl { size_type my_max_height, my_size; };
struct npair { node_ptr first, second; };
#define NMAX 4095
static idx_t g_n; static uint8_t *g_ht; static node_ptr *g_nxl; static bool g_written; static uint64_t g_wmask; static int g_size_decs;
node_ptr __CPROVER_uninterpreted_nx(idx_t i, uint8_t l);
idx_t g_E, g_W, g_K; uint8_t g_L;       /* the node operated on; ONE arbitrary level; ONE arbitrary other node (its slot at level g_L is watched); ONE arbitrary third node (well-formedness witness) */
#define NXL(i) g_nxl[i]
#define UNTOUCHED (!g_written)
#define NODE(i) ((node_ptr)((i) + 1))
#define IDX(p) ((idx_t)((p) - 1))
#define ISNODE(p) ((p) != NULL && IDX(p) <= g_n)
#define HT_OK(i) ((i) == 0 ? g_ht[0] == max_level : (g_ht[i] >= 1 && g_ht[i] <= max_level))
static bool wfq(idx_t i, uint8_t l, node_ptr q, idx_t k) {
    return HT_OK(i) & HT_OK(k) & (q == NULL ? !((k > i) & (g_ht[k] > l)) : (ISNODE(q) && IDX(q) > i && HT_OK(IDX(q)) && g_ht[IDX(q)] > l && !((i < k) & (k < IDX(q)) & (g_ht[k] > l)))); }
/* an instance of the precondition at slot (i, g_L) and node k - only while that level is untouched */
static void wf_inst(idx_t i, idx_t k) { if (!g_written && i <= g_n && k <= g_n && g_L < g_ht[i]) __CPROVER_assume(wfq(i, g_L, NXL(i), k)); }
static size_type node_height(node_ptr p) { __CPROVER_assert(ISNODE(p), "C12.safe: only nodes of the list are dereferenced (never null, never a stale pointer)"); __CPROVER_assume(HT_OK(IDX(p))); return g_ht[IDX(p)]; }
static node_ptr load_level(node_ptr p, size_type lv) {
    __CPROVER_assert(ISNODE(p), "C12.safe: only nodes of the list are dereferenced (never null, never a stale pointer)");
    __CPROVER_assert(lv < g_ht[IDX(p)], "C12.safe: a level pointer is read only below the node's height (the node has no pointer at that level)");
    idx_t i = IDX(p);
    if (lv == g_L) { wf_inst(i, g_E); return NXL(i); }
    node_ptr q = __CPROVER_uninterpreted_nx(i, (uint8_t)lv);
    if ((g_wmask >> lv) & 1) { q = nondet_ushort(); __CPROVER_assume(q == NULL || ISNODE(q)); }      /* a level that was written to meanwhile: nothing is known */
    else __CPROVER_assume(wfq(i, (uint8_t)lv, q, g_E));
    return q; }
static void store_level(node_ptr p, size_type lv, node_ptr v) {
    __CPROVER_assert(ISNODE(p), "C12.safe: only nodes of the list are dereferenced (never null, never a stale pointer)");
    __CPROVER_assert(lv < g_ht[IDX(p)], "C12.safe: a level pointer is written only below the node's height (the node has no pointer at that level)");
    __CPROVER_assert(v == NULL || ISNODE(v), "C12.safe: a level pointer receives null or a node of the list");
    idx_t i = IDX(p);
    if (lv != g_L) { if (lv < max_level) g_wmask |= (uint64_t)1 << lv; return; }
    g_written = true; NXL(i) = v; }
#define SNODE_HEIGHT(p) node_height(p)
#define SNODE_INDEX(p) ((size_type)0)
#define SNODE_SET_INDEX(p, v) ((void)0)
#define SNODE_NEXT_WORD(p, lv) (p), (lv)
#define ATOMIC_LOAD_AT(site, ...) XLOAD_(__VA_ARGS__)
#define XLOAD_(p, lv) load_level((p), (lv))
#define ATOMIC_STORE_AT(site, ...) XSTORE_(__VA_ARGS__)
#define XSTORE_(p, lv, v) store_level((p), (lv), (v))
#define ITER(x) (x)
#define IDX_OK(i) __CPROVER_assert((i) < max_level, "C12.safe: the position array is indexed below max_level")
#include "snodes.inc"
static void ext_setup(void) {
    g_n = nondet_ushort(); __CPROVER_assume(g_n >= 1 && g_n <= NMAX);
    g_ht = malloc(((size_t)g_n + 1) * sizeof(uint8_t)); g_nxl = malloc(((size_t)g_n + 1) * sizeof(node_ptr)); __CPROVER_assume(g_ht != 0 && g_nxl != 0);
    g_written = false; g_wmask = 0; g_size_decs = 0;
    g_E = nondet_ushort(); g_L = nondet_uchar(); g_W = nondet_ushort(); g_K = nondet_ushort();
    __CPROVER_assume(g_E >= 1 && g_E <= g_n && g_L < max_level && g_W <= g_n && g_W != g_E && g_K <= g_n && g_K != g_E && HT_OK(g_E) && HT_OK(g_W) && HT_OK(g_K) && HT_OK(0));
}
/* the predecessor of node E at the level g_L: a node in front of E whose pointer at that level is E */
#define PRED_OF_E(p) (ISNODE(p) && IDX(p) < g_E && g_ht[IDX(p)] > g_L && NXL(IDX(p)) == NODE(g_E))
/* the position array: only the entry of the level g_L is kept (ghost scalar g_pnL) */
static node_ptr g_pnL;
#define ARR_WR(a, i, v) { node_ptr v_ = (v); IDX_OK(i); if ((i) == g_L) g_pnL = v_; }
#define ARR_FILL(a, lo, hi, v) { node_ptr v_ = (v); __CPROVER_assert((lo) <= (hi) && (hi) <= max_level, "C12.safe: the position array is filled inside its bounds"); if ((lo) <= g_L && g_L < (hi)) g_pnL = v_; }

#ifdef SK_FPA
/* ---- fill_prev_array_for_existing_node: the descent that finds the node's predecessor at every level of its height ---- */
static node_ptr STUB_create_head_if_necessary(struct csl *s) { return NODE(0); }       /* job skip.head: the one head node (it exists: the list holds an element) */
#define ARR_RD(a, i) (IDX_OK(i), (i) == g_L ? g_pnL : nondet_ushort())
#define FPA_POS (node == NODE(g_E) && ISNODE(prev) && IDX(prev) < g_E && g_ht[IDX(prev)] >= level && level <= g_ht[g_E] && head == NODE(0) && UNTOUCHED && g_wmask == 0)
#define LOOP_fpa_levels __CPROVER_assigns(level, prev, g_pnL) __CPROVER_loop_invariant(FPA_POS && (g_L >= g_ht[g_E] || g_L < level || PRED_OF_E(g_pnL))) __CPROVER_decreases(level)
#define LOOP_fpa_walk __CPROVER_assigns(prev) __CPROVER_loop_invariant(FPA_POS && level >= 1) __CPROVER_decreases(g_E - IDX(prev))
#define LOOP_fpa_1 LOOP_fpa_levels
#define LOOP_fpa_2 LOOP_fpa_walk
#include "skipfpa.inc"
size_t IN_n, IN_E, IN_L;
void h_fpa(void) {
    ext_setup(); IN_n = g_n; IN_E = g_E; IN_L = g_L; g_pnL = nondet_ushort();
    node_ptr prev_nodes[max_level]; struct csl c;
    csl_fill_prev_array_for_existing_node(&c, prev_nodes, NODE(g_E));
    if (g_L < g_ht[g_E]) OBLIGATION(PRED_OF_E(g_pnL), "C12.extract: at every level of the node's height the position found is THE predecessor: a node of the list in front of it whose pointer at that level is the node");
    OBLIGATION(UNTOUCHED && g_wmask == 0, "C12.extract: the search for the predecessors changes no link");
    VACUITY_END();
}
#endif

#ifdef SK_UNLINK
/* ---- internal_extract: fill_prev_array_for_existing_node through its contract (job skip.extract.prev_array) ---- */
static node_ptr g_oE, g_oW;
void csl_fill_prev_array_for_existing_node(struct csl *s, node_ptr *pn, node_ptr node) {
    __CPROVER_assert(node == NODE(g_E), "C12.extract: the predecessors are searched for the node being extracted");
    g_pnL = nondet_ushort();
    if (g_L < g_ht[g_E]) { __CPROVER_assume(PRED_OF_E(g_pnL)); wf_inst(IDX(g_pnL), g_W); wf_inst(g_W, IDX(g_pnL)); wf_inst(IDX(g_pnL), g_K); }      /* above the node's height: nothing is promised */
}
static node_ptr pn_read(size_t i) { if (i == g_L) return g_pnL; node_ptr p = nondet_ushort(); if (i < g_ht[g_E]) __CPROVER_assume(ISNODE(p) && IDX(p) < g_E && g_ht[IDX(p)] > i); return p; }
#define ARR_RD(a, i) (IDX_OK(i), pn_read(i))
#define ATOMIC_FETCH_SUB_AT(site, w, v) (g_size_decs++, (w) -= (v))
#define EL (g_L < g_ht[g_E])
#define WL (g_L < g_ht[g_W])
#define LOOP_extract_unlink __CPROVER_assigns(level, g_written, g_wmask, __CPROVER_object_whole(g_nxl)) \
    __CPROVER_loop_invariant(level <= g_ht[g_E] && g_size_decs == 0 && (g_wmask >> level) == 0 \
        && (!EL ? !g_written : (g_L < level ? (NXL(g_E) == NULL && NXL(IDX(g_pnL)) == g_oE) : (NXL(g_E) == g_oE && NXL(IDX(g_pnL)) == NODE(g_E) && !g_written))) \
        && (!WL || (EL && g_W == IDX(g_pnL)) || NXL(g_W) == g_oW)) __CPROVER_decreases(g_ht[g_E] - level)
#define LOOP_extract_1 LOOP_extract_unlink
#include "skipextract.inc"
size_t IN_n, IN_E, IN_L, IN_W, IN_K; bool IN_end;
void h_extract(void) {
    ext_setup(); IN_n = g_n; IN_E = g_E; IN_L = g_L; IN_W = g_W; IN_K = g_K; g_pnL = nondet_ushort();
    bool at_end = IN_end = nondet_bool(); struct csl c; size_type size0 = c.my_size = nondet_size_t(); __CPROVER_assume(size0 >= 1);          /* the list holds the node: it is not empty */
    wf_inst(g_W, g_E); wf_inst(g_W, g_K); wf_inst(g_E, g_K); wf_inst(g_E, g_W);
    g_oW = WL ? NXL(g_W) : NULL; g_oE = EL ? NXL(g_E) : NULL;
    struct npair r = csl_internal_extract(&c, at_end ? NULL : NODE(g_E));
    if (at_end) OBLIGATION(r.first == NULL && r.second == NULL && c.my_size == size0 && UNTOUCHED && g_wmask == 0, "C12.extract: extracting end() takes nothing out and changes nothing");
    else {
        OBLIGATION(r.first == NODE(g_E) && (g_L != 0 || r.second == g_oE), "C12.extract: the node handed out is the one asked for, and the iterator returned is the element that followed it");
        OBLIGATION(g_size_decs == 1 && c.my_size == size0 - 1, "C12.extract: the element count drops by exactly one");
        if (EL) OBLIGATION(NXL(g_E) == NULL, "C12.extract: a node that is outside every container carries no link into a container, at ANY level of its height (insert(node_type&&) links bottom-up, and a reader that reaches the node at a low level and reads a higher level must see null, not a stale successor)");
        if (WL) { node_ptr now = NXL(g_W);
            OBLIGATION(g_oW == NODE(g_E) ? now == g_oE : now == g_oW, "C12.extract: at every level the link that led to the node now leads to the node's old successor at that level, and every other link is kept - nothing but the node leaves the list");
            OBLIGATION(now == NULL ? !(g_K > g_W && g_ht[g_K] > g_L) : (ISNODE(now) && IDX(now) > g_W && IDX(now) != g_E && g_ht[IDX(now)] > g_L && !(g_W < g_K && g_K < IDX(now) && g_ht[g_K] > g_L)),
                "C12.extract: the list minus the node is again a well-formed skip list: every level's chain is exactly the remaining nodes of that height in level-0 order (sorted, none skipped, none twice)"); }
    }
    VACUITY_END();
}
#endif

#ifdef SK_ERASE
/* ---- unsafe_erase(iterator): internal_extract through its contract (job skip.extract.unlink) ---- */
static node_ptr g_x, g_follow; static int g_extracts, g_deleted; static node_ptr g_deleted_node;
static struct npair ERASE_EXTRACT(struct csl *s, node_ptr pos) { g_extracts++; __CPROVER_assert(pos == g_x, "C12.erase: the node extracted is the one the iterator stands on");
    struct npair r; r.first = pos; r.second = (pos == NULL) ? NULL : g_follow; return r; }
static void STUB_delete_value_node(struct csl *s, node_ptr n) { g_deleted++; g_deleted_node = n; }
#include "skiperase.inc"
void h_erase(void) {
    g_x = nondet_ushort(); g_follow = nondet_ushort(); g_extracts = 0; g_deleted = 0; g_deleted_node = NULL; struct csl c;
    node_ptr r = csl_unsafe_erase(&c, g_x);
    OBLIGATION(g_extracts == 1, "C12.erase: the element is unlinked exactly once");
    if (g_x == NULL) OBLIGATION(g_deleted == 0 && r == NULL, "C12.erase: erasing end() frees nothing and returns end()");
    else OBLIGATION(g_deleted <= 1 && (g_deleted == 0 || g_deleted_node == g_x) && r == g_follow, "C12.erase: nothing but the unlinked node is freed, at most once, and the iterator returned is the element that followed it");
    VACUITY_END();
}
#endif
#endif /* SK_EXT */

#if defined(SK_FIND) || defined(SK_FILL) || defined(SK_INS)
/* ---- the list model ---- */
#ifdef SK_INS
struct sn;
#define SINFO_EXTRA(p) if (p == RP0.h) return RP0; if (p == RC0.h) return RC0; if (p == RPL.h) return RPL; if (p == RCL.h) return RCL;
#define SWORD_EXTRA(q) (ssame(q, RP0) & ssame(q, RC0) & ssame(q, RPL) & ssame(q, RCL))
#define SWLINK_EXTRA ((RP0.h == NULL | RP0.head | RP0.key != g_key) & (RC0.h == NULL | RC0.key != g_key) & (RPL.h == NULL | RPL.head | RPL.key != g_key) & (RCL.h == NULL | RCL.key != g_key))
#else
#define SINFO_EXTRA(p)
#define SWORD_EXTRA(q) 1
#define SWLINK_EXTRA 1
#endif
struct csl { size_type my_max_height, my_size; };
struct sn { node_ptr h; key_type key; size_type height, idx; rank_t rank; bool head; };
static struct sn nondet_sn_raw(void);
static struct sn nondet_sn(void) { struct sn r = nondet_sn_raw(); r.head = nondet_bool(); return r; }   /* a bool member is 0 or 1 */
/* all mutable ghost state in ONE object (few targets in the loop assigns clauses): the last (node, next) pair read; the thread's new node; (job skip.insert_node) the position held for
   level 0 and for ONE arbitrary upper level g_L: prev_nodes[l], curr_nodes[l]; whether W is linked; the new node is linked at levels [0, me_levels); its private level pointers */
struct skghost { struct sn sp, sq; bool w_linked; } GS;                      /* what a traversal changes */
struct skghost2 { struct sn sme, rp0, rc0, rpl, rcl; bool cas_failed; size_type me_levels; int size_incs; node_ptr me_next0, me_nextL, pn0, pnL, cn0, cnL, scratch; } GM;   /* what only an insert changes */
#define SP GS.sp
#define SQ GS.sq
#define SME GM.sme
#define RP0 GM.rp0
#define RC0 GM.rc0
#define RPL GM.rpl
#define RCL GM.rcl
#define g_w_linked GS.w_linked
#define g_cas_failed GM.cas_failed
#define g_me_levels GM.me_levels
#define g_size_incs GM.size_incs
struct sn SW, HD;                  /* ONE arbitrary other node with the key K* being inserted; the head node */
#ifdef MULTI
#define allow_multimapping ((bool)MULTI)   /* the class template's constant */
#else
bool allow_multimapping;
#endif
key_type g_key;
#define LESS(a, b) ((a) < (b))
#define CMP(c, a, b) ((c) ? !((b) < (a)) : ((a) < (b)))           /* tag 0: key_compare (unique containers); tag 1: not_greater_compare (multi containers) */
#define SELECT_COMPARATOR(multi) ((multi) ? 1 : 0)
static struct sn sinfo(node_ptr p) {
    __CPROVER_assert(p != NULL, "C12.safe: a null node pointer is never dereferenced");
    if (p == SME.h) return SME; if (p == HD.h) return HD;
    SINFO_EXTRA(p)
    if (p == SW.h) return SW; if (p == SP.h) return SP; if (p == SQ.h) return SQ;
    struct sn r = nondet_sn(); r.h = p; r.head = false; return r;
}
static key_type get_key(node_ptr p) { struct sn n = sinfo(p); __CPROVER_assert(!n.head, "C12.safe: a key is read only from an element, never from the head node (it has no value)"); return n.key; }
#define GET_KEY(p) get_key(p)
#define SNODE_HEIGHT(p) (sinfo(p).height)
#define SSAME(a, b) ((a).h == NULL || (a).h != (b).h || ((a).key == (b).key && (a).rank == (b).rank && (a).height == (b).height && (a).idx == (b).idx && (a).head == (b).head))
static bool ssame(struct sn a, struct sn b) { return (a.h == NULL) | (a.h != b.h) | ((a.key == b.key) & (a.rank == b.rank) & (a.height == b.height) & (a.idx == b.idx) & (a.head == b.head)); }
/* p before q in a level list: ranks grow, keys do not decrease (unique-key containers: strictly grow); the head precedes everything */
static bool keyord(struct sn p, struct sn q) { return p.head | (allow_multimapping ? (p.key <= q.key) : (p.key < q.key)); }
/* W against a linked node x: distinct nodes have distinct ranks, rank order implies key order */
static bool ssortedw(struct sn x) { return !g_w_linked | (x.head ? (SW.rank > x.rank) : 0) | (x.head ? 0 : 1) & (((x.h == SW.h) | (x.rank != SW.rank)) & (!(SW.rank < x.rank) | (allow_multimapping ? SW.key <= x.key : SW.key < x.key) | (x.h == SW.h)) & (!(SW.rank > x.rank) | (allow_multimapping ? SW.key >= x.key : SW.key > x.key) | (x.h == SW.h))); }
/* the level-`lv` pointer of the linked node p holds q */
static bool sword_inv(struct sn p, size_type lv, struct sn q) {
    bool tail = (lv != 0) | !g_w_linked | !(SW.rank > p.rank) | p.head & 0;
    bool link = (q.h != p.h) & !q.head & (q.rank > p.rank) & keyord(p, q) & (q.height > lv) & (q.height <= max_level) & ((q.h != SME.h) | (g_me_levels > lv)) & ((q.h != SW.h) | g_w_linked) & ssortedw(q)
              & ssame(q, SP) & ssame(q, SQ) & ssame(q, SW) & ssame(q, SME) & ssame(q, HD) & SWORD_EXTRA(q)
              & ((lv != 0) | !g_w_linked | !((SW.rank > p.rank) & (SW.rank < q.rank)));        /* level 0 holds every linked node: W is not strictly between p and q */
    return ssortedw(p) & (q.h == NULL ? tail : link);
}
/* rely (unique-key containers; the guarantee of the other inserters): a node with key K* is linked at level 0 only while no other node with that key is linked */
static void interfere_w(void) {
#if defined(SK_INS) && !defined(SK_L0)
    return;                                                              /* W matters for level 0 only */
#endif
    if (!g_w_linked && nondet_bool()) { g_w_linked = true; if (!allow_multimapping) __CPROVER_assume((g_me_levels == 0) & (SP.h == NULL | SP.head | SP.key != g_key) & (SQ.h == NULL | SQ.key != g_key) & SWLINK_EXTRA); } }
struct spq { struct sn p, q; };
static struct spq shared_level_word(node_ptr n, size_type lv) {
    struct spq r; r.p = sinfo(n); interfere_w(); r.q = nondet_sn(); __CPROVER_assume(sword_inv(r.p, lv, r.q));
    return r;
}
#define PRIVATE_LEVEL(n, lv) ((n) == SME.h && (lv) >= g_me_levels)
#ifndef SK_INS
#define ME_NEXT(lv) ((node_ptr)0)
#endif
static node_ptr do_load_level(node_ptr n, size_type lv) {
    __CPROVER_assert(n != NULL, "C12.safe: a null node pointer is never dereferenced");
    __CPROVER_assert(lv < sinfo(n).height, "C12.safe: a level pointer is read only below the node's height (the node has no pointer at that level)");
    if (PRIVATE_LEVEL(n, lv)) return ME_NEXT(lv);
    struct spq r = shared_level_word(n, lv); SP = r.p; SQ = r.q; return SQ.h;
}
#define SNODE_NEXT_WORD(p, lv) (p), (lv)
#define ATOMIC_LOAD_AT(site, ...) ALOAD_(site, __VA_ARGS__, 0)
#define ALOAD_(site, a, b, ...) ALOAD_##site(a, b)
#define ALOAD_snode_next_LOAD_1(a, b) do_load_level(a, b)
#endif

#ifdef SK_FIND
/* ---- internal_find_position (both overloads): one level of the descent, under concurrent inserts ---- */
size_type g_lv; rank_t g_lo;
#define SNODE_INDEX(p) (sinfo(p).idx)
#define SNODE_SET_INDEX(p, v) ((void)0)
#define ATOMIC_STORE_AT(site, ...) ASTORE_(site, __VA_ARGS__)
#define ASTORE_(site, p, lv, v) ((void)0)
#include "snodes.inc"
/* the walk stands on prev (= SP after the first read; SQ = the node read from it); prev precedes the key: it is the head or compares before it */
#define BEFORE(x, cmpv) ((x).head || CMP(cmpv, (x).key, g_key))
#define FPINV(cmpv) ((*prev) == SP.h && curr == SQ.h && SP.h != NULL && SP.h != SQ.h && SP.height > level && SP.height <= max_level && BEFORE(SP, cmpv) && SP.rank >= g_lo && level == g_lv \
    && (SQ.h == NULL || (!SQ.head && SQ.height > level && SQ.height <= max_level && SQ.rank > SP.rank)) && SP.h != SME.h && SQ.h != SME.h && SP.head == (SP.h == HD.h) && SSAME(SP, HD) && SSAME(SQ, HD) && SSAME(SP, SW) && SSAME(SQ, SW))
/* every step of the walk moves strictly forward in the level list (ranks grow) */
#define SK_FORWARD __CPROVER_decreases(SQ.h == NULL ? 0 : 256 - (int)SQ.rank)
#define LOOP_fpk_1 __CPROVER_assigns(*prev, curr, GS) __CPROVER_loop_invariant(FPINV(cmp) && key == g_key) SK_FORWARD
#define LOOP_fpn_1 __CPROVER_assigns(*prev, curr, GS) __CPROVER_loop_invariant(FPINV(cmp) && node == SME.h) SK_FORWARD
#include "skipfind.inc"
static void skip_setup(void) {
    SP = nondet_sn(); SQ = nondet_sn(); SW = nondet_sn(); SME = nondet_sn(); HD = nondet_sn(); SP.h = NULL; SQ.h = NULL;
#ifndef MULTI
    allow_multimapping = nondet_bool();
#endif
    g_w_linked = nondet_bool(); g_me_levels = 0; g_key = nondet_ushort();
    __CPROVER_assume(HD.h != NULL && HD.head && HD.height == max_level && HD.rank == 0 && SME.h != NULL && SME.h != HD.h && !SME.head && SME.key == g_key && SME.height >= 1 && SME.height <= max_level
        && SW.h != NULL && SW.h != HD.h && SW.h != SME.h && !SW.head && SW.key == g_key && SW.height >= 1 && SW.height <= max_level);
}
static struct sn start_node(void) {   /* prev on entry: the head, or a linked node that precedes the key, with a pointer at this level */
    struct sn x = nondet_sn(); if (nondet_bool()) x = HD; __CPROVER_assume(x.h != NULL && x.h != SME.h && (x.h == HD.h ? x.head : (!x.head && x.h != SW.h)) && x.height > g_lv && x.height <= max_level && ssame(x, HD) && ssame(x, SW));
    return x;
}
void h_find_position_key(void) {
    skip_setup(); struct csl c; g_lv = nondet_size_t(); __CPROVER_assume(g_lv < max_level); int cmp = SELECT_COMPARATOR(allow_multimapping);
    struct sn x = start_node(); __CPROVER_assume(BEFORE(x, cmp)); SQ = x; g_lo = x.rank; node_ptr prev = x.h;
    node_ptr curr = csl_find_position_key(&c, g_lv, &prev, g_key, cmp);
    OBLIGATION(prev == SP.h && curr == SQ.h && SP.rank >= g_lo && SP.height > g_lv && BEFORE(SP, cmp), "C12.skip: find_position leaves prev on a node of this level's list that still precedes the key (the head, or a key that compares before it), at or behind where it started");
    OBLIGATION(curr == NULL || (!SQ.head && !CMP(cmp, SQ.key, g_key) && SQ.height > g_lv && SQ.rank > SP.rank), "C12.skip: the node returned is the successor it read from prev at this level and does not compare before the key: the key's place at this level is between prev and it");
    VACUITY_END();
}
void h_find_position_node(void) {
    skip_setup(); struct csl c; g_lv = nondet_size_t(); __CPROVER_assume(g_lv < max_level); int cmp = SELECT_COMPARATOR(allow_multimapping);
    struct sn x = start_node(); __CPROVER_assume(BEFORE(x, cmp)); SQ = x; g_lo = x.rank; node_ptr prev = x.h;
    node_ptr curr = csl_find_position_node(&c, g_lv, &prev, SME.h, cmp);
    OBLIGATION(prev == SP.h && curr == SQ.h && SP.rank >= g_lo && SP.height > g_lv && BEFORE(SP, cmp), "C12.skip: find_position leaves prev on a node of this level's list that still precedes the new node's key, at or behind where it started");
    OBLIGATION(curr == NULL || (!SQ.head && SQ.height > g_lv && SQ.rank > SP.rank && (allow_multimapping ? SQ.key >= g_key : !(SQ.key < g_key))), "C12.skip: the node returned is the successor read from prev at this level and its key is not smaller than the new node's");
    VACUITY_END();
}
#endif

#ifdef SK_INS
/* ---- internal_insert_node: the level-0 CAS decides membership; upper levels are linked bottom-up; any number of threads; unique and multi ----
   fill_prev_curr_arrays and internal_find_position are used through their contracts (jobs skip.fill, skip.find_position).  Facts are kept about level 0 and about
   ONE arbitrary upper level g_L (universal by arbitrariness); the other entries of the position arrays are arbitrary. */
size_type g_L;
/* The position arrays prev_nodes[] / curr_nodes[] and the new node's level pointers are kept for level 0 and for level g_L only (ghost scalars); entries at the other levels read as
   (head, null) - an instance of fill_prev_curr_arrays' contract - and writes to them are dropped: levels exchange no data, so what is proved about level 0 and level g_L does not depend on them. */
#ifdef SK_L0   /* this job keeps the facts about level 0 (g_L == 0); the twin job keeps those about one arbitrary upper level g_L >= 1 */
#define TRACKED_LEVEL(i) ((i) == 0)
#else
#define TRACKED_LEVEL(i) ((i) == g_L)
#endif
#define IDX_OK(i) __CPROVER_assert((i) < max_level, "C12.safe: the position arrays are indexed below max_level")
#define ARR_RD(a, i) ARR_RD_##a(i)
#define ARR_RD_prev_nodes(i) (IDX_OK(i), !TRACKED_LEVEL(i) ? HD.h : (i) == 0 ? GM.pn0 : GM.pnL)
#define ARR_RD_curr_nodes(i) (IDX_OK(i), !TRACKED_LEVEL(i) ? NULL : (i) == 0 ? GM.cn0 : GM.cnL)
#define ARR_WR(a, i, v) ARR_WR_##a((i), (v))
#define ARR_WR_prev_nodes(i, v) do { node_ptr v_ = (v); IDX_OK(i); if (TRACKED_LEVEL(i)) { if ((i) == 0) GM.pn0 = v_; else GM.pnL = v_; } } while (0)
#define ARR_WR_curr_nodes(i, v) do { node_ptr v_ = (v); IDX_OK(i); if (TRACKED_LEVEL(i)) { if ((i) == 0) GM.cn0 = v_; else GM.cnL = v_; } } while (0)
#define ARR_REF(a, i) (IDX_OK(i), !TRACKED_LEVEL(i) ? &GM.scratch : (i) == 0 ? &GM.pn0 : &GM.pnL)
#define ME_NEXT(lv) (!TRACKED_LEVEL(lv) ? (node_ptr)0 : (lv) == 0 ? GM.me_next0 : GM.me_nextL)
#define SNODE_INDEX(p) (sinfo(p).idx)
#define SNODE_SET_INDEX(p, v) do { __CPROVER_assert((p) == SME.h && g_me_levels == 0, "C12.skip: an index number is written only in the thread's own node before it is linked"); SME.idx = (v); } while (0)
#define ATOMIC_STORE_AT(site, ...) ASTORE_(site, __VA_ARGS__)
#define ASTORE_(site, p, lv, v) do { __CPROVER_assert(PRIVATE_LEVEL(p, lv) && (lv) < SME.height, "C12.skip: a level pointer is written by a plain store only in the thread's own node, at a level where it is not linked yet (linked pointers change by CAS only)"); if (TRACKED_LEVEL(lv)) { if ((lv) == 0) GM.me_next0 = (v); else GM.me_nextL = (v); } } while (0)
#include "snodes.inc"
#define BEFOREK(x) ((x).head || CMP(SELECT_COMPARATOR(allow_multimapping), (x).key, g_key))
static struct sn pos_prev(size_type l) {   /* a node of the level-l list that precedes the key */
    struct sn p = nondet_sn(); if (nondet_bool()) p = HD;
    __CPROVER_assume(p.h != NULL && p.h != SME.h && (p.head ? p.h == HD.h : p.h != HD.h) && ssame(p, HD) && ssame(p, SW) && ssame(p, RP0) && ssame(p, RC0) && ssame(p, RPL) && ssame(p, RCL)
        && (p.h != SW.h || g_w_linked) && p.height > l && p.height <= max_level && BEFOREK(p) && ssortedw(p));
    return p;
}
static struct sn pos_curr(struct sn p, size_type l) {   /* null, or a node of the level-l list behind p that does not compare before the key */
    struct sn c = nondet_sn(); if (nondet_bool()) { c.h = NULL; return c; }
    __CPROVER_assume(c.h != NULL && c.h != SME.h && !c.head && c.h != HD.h && c.h != p.h && ssame(c, SW) && ssame(c, RP0) && ssame(c, RC0) && ssame(c, RPL) && ssame(c, RCL) && ssame(c, p)
        && (c.h != SW.h || g_w_linked) && c.height > l && c.height <= max_level && !CMP(SELECT_COMPARATOR(allow_multimapping), c.key, g_key) && c.rank > p.rank && ssortedw(c));
    return c;
}
static node_ptr STUB_create_head_if_necessary(struct csl *s) { return HD.h; }
/* contract of fill_prev_curr_arrays (job skip.fill): for every level below max(height of the list, height of the node): prev_nodes[l] is the head or a node of level l that compares before the key,
   curr_nodes[l] is null or a node of level l behind it that does not compare before the key */
static void STUB_fill_prev_curr_arrays(struct csl *s, node_ptr *pn, node_ptr *cn, node_ptr node, key_type key, int cmp, node_ptr head) {
    __CPROVER_assert(node == SME.h && key == g_key && head == HD.h && cmp == SELECT_COMPARATOR(allow_multimapping), "C12.skip: the position is searched for the new node's key, from the head, with the container's comparator");
    interfere_w();
    RP0.h = NULL; RC0.h = NULL; RPL.h = NULL; RCL.h = NULL;
    if (TRACKED_LEVEL(0)) { RP0 = pos_prev(0); RC0 = pos_curr(RP0, 0); GM.pn0 = RP0.h; GM.cn0 = RC0.h; }
    else { RPL = pos_prev(g_L); RCL = pos_curr(RPL, g_L); GM.pnL = RPL.h; GM.cnL = RCL.h; }
}
/* contract of internal_find_position, node overload (job skip.find_position.node) */
static node_ptr STUB_find_position_node(struct csl *s, size_type lev, node_ptr *prev, node_ptr node, int cmp) {
    __CPROVER_assert(node == SME.h && cmp == SELECT_COMPARATOR(allow_multimapping), "C12.skip: the position is searched again for the new node, with the container's comparator");
    interfere_w();
    if (lev == 0 || !TRACKED_LEVEL(lev)) { *prev = HD.h; return NULL; }
    __CPROVER_assert(*prev == RPL.h && RPL.h != NULL && RPL.height > lev && BEFOREK(RPL), "C12.skip: the search at a level resumes from a node of that level's list that precedes the new node (the position found before)");
    struct sn old = RPL; struct sn np = pos_prev(lev); if (nondet_bool()) np = old; __CPROVER_assume(np.rank >= old.rank);
    RCL.h = NULL; RPL = np; RCL = pos_curr(RPL, lev); *prev = RPL.h; return RCL.h;
}
struct scas { bool ok; node_ptr old; };
static struct scas do_cas_level(node_ptr n, size_type lv, node_ptr e, node_ptr d) {
    struct scas c; bool tracked = TRACKED_LEVEL(lv); struct spq r;                 /* facts are kept for level 0 and level g_L; at the other levels the arrays hold arbitrary values */
    if (tracked) { __CPROVER_assert(n != NULL, "C12.safe: a null node pointer is never dereferenced");
        __CPROVER_assert(!PRIVATE_LEVEL(n, lv), "C12.skip: a node is published by a CAS on a level pointer of a node that is in the list"); }
    if (tracked) { r = shared_level_word(n, lv); c.old = r.q.h; c.ok = (r.q.h == e); } else { interfere_w(); c.old = nondet_uintptr_t(); c.ok = (c.old == e); }
    if (!c.ok) { g_cas_failed = true; return c; }
    __CPROVER_assert(d == SME.h, "C12.skip: the node linked is the node being inserted");
    __CPROVER_assert(g_me_levels == lv, "C12.skip: levels are linked bottom-up, each exactly once: level 0 (membership) first, level l only after level l-1");
    __CPROVER_assert(lv < SME.height, "C12.skip: a node is linked only at levels below its height");
    __CPROVER_assert(!tracked || ME_NEXT(lv) == e, "C12.skip: the new node's pointer at the level is the successor it is put in front of - nothing behind the insertion point becomes unreachable at that level");
    if (tracked) {
        __CPROVER_assert(r.p.height > lv, "C12.skip: the predecessor is a node of that level's list");
        if (lv == 0 && !allow_multimapping) {
            __CPROVER_assert((r.p.head || r.p.key < SME.key) && (e == NULL || SME.key < r.q.key), "C12.sorted: a unique-key list stays strictly sorted by the comparator across the level-0 link");
            __CPROVER_assert(!g_w_linked, "C12.unique: when an insert links its node at level 0 no other node with an equivalent key is in the list - of several concurrent inserts of one absent key exactly one succeeds");
        } else
            __CPROVER_assert((r.p.head || r.p.key <= SME.key) && (e == NULL || SME.key <= r.q.key), "C12.sorted: every level stays sorted by the comparator across the link (predecessor <= new node <= successor)");
    }
    g_me_levels = lv + 1; return c;
}
#define ATOMIC_CAS_AT(site, ...) ACAS_##site(__VA_ARGS__)
#define ACAS_LEVEL(p, lv, e, d) ({ struct scas c_ = do_cas_level((p), (lv), *(e), (d)); if (!c_.ok) *(e) = c_.old; c_.ok; })
#define ACAS_ins_CAS_1(p, lv, e, d) ACAS_LEVEL(p, lv, e, d)
#define ACAS_ins_CAS_3(p, lv, e, d) ACAS_LEVEL(p, lv, e, d)
#define ACAS_ins_CAS_4(p, lv, e, d) ACAS_LEVEL(p, lv, e, d)
/* my_max_height: rely/guarantee: never above max_level, never lowered */
static void interfere_mh(struct csl *s) { size_type v = nondet_size_t(); __CPROVER_assume(v >= s->my_max_height && v <= max_level); s->my_max_height = v; }
#define ACAS_ins_CAS_2(w, e, d) ({ interfere_mh(self); size_type o_ = (w); bool r_ = (o_ == *(e)); if (r_) { \
    __CPROVER_assert((d) >= o_ && (d) <= max_level, "guarantee: the height of the list is never lowered and never exceeds max_level"); (w) = (d); } else *(e) = o_; r_; })
#undef ALOAD_
#define ALOAD_(site, a, b, ...) ALOAD_##site(a, b)
#define ALOAD_ins_LOAD_1(a, b) (interfere_mh(self), (a))
#define ALOAD_ins_LOAD_2(a, b) (interfere_mh(self), (a))
#define ATOMIC_PREINC_AT(site, w) (g_size_incs++, ++(w))
#define COMMON (new_node == SME.h && new_height == SME.height && head_node == HD.h && compare == SELECT_COMPARATOR(allow_multimapping) && self->my_max_height <= max_level && g_size_incs == 0 \
    && SME.height >= 1 && SME.height <= max_level && SME.key == g_key && !SME.head && g_me_levels <= SME.height && NO_TWIN)
#ifdef SK_L0
#define NO_TWIN (allow_multimapping || g_me_levels == 0 || !g_w_linked)
#else
#define NO_TWIN 1
#endif
#define FACTSL (g_L >= 1 && g_L < max_level && GM.pnL == RPL.h && GM.cnL == RCL.h && RPL.h != NULL && RPL.h != SME.h && RPL.height > g_L && RPL.height <= max_level \
    && (RPL.head ? RPL.h == HD.h : RPL.h != HD.h) && BEFOREK(RPL) && SSAME(RPL, HD) && SSAME(RCL, HD) && SSAME(RPL, SW) && SSAME(RCL, SW) && SSAME(RPL, RP0) && SSAME(RPL, RC0) && SSAME(RCL, RP0) && SSAME(RCL, RC0) \
    && (RCL.h == NULL || (!RCL.head && RCL.h != SME.h && RCL.h != RPL.h && RCL.height > g_L && RCL.height <= max_level && RCL.key >= g_key)))
#define INS_ASSIGNS GS, GM, *self
#define LOOP_ins_1 __CPROVER_assigns(INS_ASSIGNS) __CPROVER_loop_invariant(COMMON && g_me_levels == 0)
#define LOOP_ins_2 __CPROVER_assigns(max_height, *self) __CPROVER_loop_invariant(COMMON && g_me_levels == 1 && max_height <= self->my_max_height)
#define LOOP_ins_3 __CPROVER_assigns(level, prev, next, INS_ASSIGNS) __CPROVER_loop_invariant(COMMON && level >= 1 && level <= new_height && g_me_levels == level && self->my_max_height >= new_height && (g_L < level || g_L >= new_height || FACTSL)) \
    __CPROVER_decreases(new_height - level)
#define LOOP_ins_4 __CPROVER_assigns(prev, next, INS_ASSIGNS) __CPROVER_loop_invariant(COMMON && level >= 1 && level < new_height && g_me_levels == level && self->my_max_height >= new_height && (g_L < level || g_L >= new_height || FACTSL))
#define LOOP_ins_5 __CPROVER_assigns(lev, GS, GM) \
    __CPROVER_loop_invariant(COMMON && level >= 1 && level < new_height && lev >= level && lev <= new_height && g_me_levels == level && self->my_max_height >= new_height && (g_L < level || g_L >= new_height || FACTSL)) __CPROVER_decreases(new_height - lev)
struct ires { node_ptr first; bool second; };
#include "skipfound.inc"
#include "skipins.inc"
size_t IN_key; bool IN_multi;
void h_skip_insert(void) {
    SP = nondet_sn(); SQ = nondet_sn(); SW = nondet_sn(); SME = nondet_sn(); HD = nondet_sn(); SP.h = NULL; SQ.h = NULL; RP0 = nondet_sn(); RC0 = nondet_sn(); RPL = nondet_sn(); RCL = nondet_sn(); RP0.h = RC0.h = RPL.h = RCL.h = NULL;
#ifndef MULTI
    allow_multimapping = IN_multi = nondet_bool();
#endif
    g_w_linked = nondet_bool(); g_me_levels = 0; g_key = IN_key = nondet_ushort(); g_size_incs = 0; g_cas_failed = false;
    g_L = nondet_size_t(); __CPROVER_assume(g_L < max_level);
#ifdef SK_L0
    __CPROVER_assume(g_L == 0);
#else
    __CPROVER_assume(g_L >= 1); g_w_linked = false;
#endif

    __CPROVER_assume(HD.h != NULL && HD.head && HD.height == max_level && HD.rank == 0 && SME.h != NULL && SME.h != HD.h && !SME.head && SME.key == g_key && SME.height >= 1 && SME.height <= max_level
        && SW.h != NULL && SW.h != HD.h && SW.h != SME.h && !SW.head && SW.key == g_key && SW.height >= 1 && SW.height <= max_level);
    struct csl c; c.my_max_height = nondet_size_t(); c.my_size = nondet_size_t(); __CPROVER_assume(c.my_max_height <= max_level);
    struct ires r = csl_internal_insert_node(&c, SME.h);
    OBLIGATION(r.second == (g_me_levels >= 1), "C12.insert: insert reports success exactly when its node was linked at level 0 (membership)");
    if (r.second) {
        OBLIGATION(r.first == SME.h && g_size_incs == 1, "C12.insert: a successful insert returns its own node and counts the element once");
        OBLIGATION(g_me_levels == SME.height, "C12.skip: when insert returns the node is linked at every level of its height");
        interfere_mh(&c); OBLIGATION(c.my_max_height >= SME.height, "C12.skip: the height of the list covers every level the node is linked at - lookups starting at the head's top level can reach it through all its levels");
    } else {
        OBLIGATION(!allow_multimapping, "C12.insert: a multi container accepts every insert");
#ifdef SK_L0
        OBLIGATION(r.first != NULL && r.first != SME.h && r.first == RC0.h && RC0.key == g_key && g_size_incs == 0, "C12.unique: an insert that fails returns a node of the list whose key is equivalent (the loser finds the winner's node); nothing is counted");
#endif
    }
#ifdef SK_L0
    OBLIGATION(allow_multimapping || !(g_me_levels >= 1 && g_w_linked), "C12.unique: a unique-key container never holds two nodes with equivalent keys");
#endif
    COVER(r.second && !allow_multimapping && SME.height > 3 && g_L == 2); COVER(!r.second); COVER(r.second && allow_multimapping && g_cas_failed && SME.height > 2);
    VACUITY_END();
}
#endif
#endif /* C12_SKIP */
