// Native recipes for C14 on the REAL flow graph headers.
#include <oneapi/tbb/flow_graph.h>
#include <cstdio>
#include <atomic>
#include <string>
namespace flow = oneapi::tbb::flow;
int main(int argc, char** argv) {
    std::string job = argc > 1 ? argv[1] : "";
    if (job.find("pop_reserved") != std::string::npos) {
        // F10: plain buffer_node, ONE item, try_reserve then try_get: buffer_node::internal_pop -> pop_back ignores the reservation
        flow::graph g; flow::buffer_node<int> b(g); b.try_put(1); g.wait_for_all();
        int v = 0, w = 0; bool r = b.try_reserve(v), got = b.try_get(w);
        if (r) b.try_consume();
        g.wait_for_all();
        b.try_put(2); g.wait_for_all();
        int x = 0; bool got2 = b.try_get(x);
        if (r && got) { std::printf("REPRODUCED class=reserved-item-popped buffer_node<int> holding {1}: try_reserve granted %d, then try_get ALSO returned %d (message handed out twice); after try_consume the buffer has head > tail: try_put(2) was accepted but try_get then %s\n", v, w, got2 ? "succeeded" : "FAILED (message 2 lost)"); return 0; }
        std::printf("NOT-REPRODUCED\n"); return 0;
    }
    if (job.find("handle.") != std::string::npos) {
        // a buffering node must offer the remaining items again after a reservation is consumed / released, a successor is added, or an item is put
        for (int how = 0; how < 2; ++how) {
            flow::graph g; flow::queue_node<int> q(g); std::atomic<int> got{0}, last{-1};
            flow::function_node<int, int> f(g, flow::unlimited, [&](int v) { ++got; last = v; return v; });
            q.try_put(1); q.try_put(2); g.wait_for_all();
            int v = 0; bool r = q.try_reserve(v);
            flow::make_edge(q, f); g.wait_for_all();
            if (how == 0) q.try_consume(); else q.try_release();
            g.wait_for_all();
            int want = how == 0 ? 1 : 2;
            if (r && got > want) { std::printf("REPRODUCED class=duplicate-delivery queue_node {1,2}: item 1 reserved by a consumer, successor f attached, reservation %s: f received %d messages although only %d remained for it\n", how == 0 ? "consumed" : "released", got.load(), want); return 0; }
            if (r && got != want) { std::printf("REPRODUCED class=stuck-after-%s queue_node {1,2}: item 1 reserved, successor f attached, reservation %s: f received %d of %d remaining items; wait_for_all returned with an accepted message stuck in the queue\n", how == 0 ? "consume" : "release", how == 0 ? "consumed" : "released", got.load(), want); return 0; }
        }
        {   flow::graph g; flow::queue_node<int> q(g); std::atomic<int> got{0};
            q.try_put(1); q.try_put(2); g.wait_for_all();
            flow::function_node<int, int> f(g, flow::unlimited, [&](int v) { ++got; return v; });
            flow::make_edge(q, f); g.wait_for_all();
            if (got != 2) { std::printf("REPRODUCED class=stuck-after-register queue_node {1,2}: successor attached, %d of 2 items delivered\n", got.load()); return 0; }
            q.try_put(3); g.wait_for_all();
            if (got != 3) { std::printf("REPRODUCED class=stuck-after-put queue_node with a push successor: put 3, delivered %d of 3\n", got.load()); return 0; }
        }
        std::printf("NOT-REPRODUCED\n"); return 0;
    }
    {   // two reservations on the same buffer_node must not both be granted
        flow::graph g; flow::buffer_node<int> b(g); b.try_put(100); b.try_put(200); g.wait_for_all();
        int v1 = 0, v2 = 0; bool r1 = b.try_reserve(v1), r2 = b.try_reserve(v2);
        if (r1 && r2) { std::printf("REPRODUCED class=double-reservation buffer_node<int> holding 100,200: two try_reserve calls were both granted (%d and %d) while the first reservation was still open; the second consume then destroys an item that was never delivered\n", v1, v2); return 0; }
        if (r1) b.try_consume();
        g.wait_for_all();
    }
    {   // function_node concurrency limit and conservation
        for (size_t limit : {1u, 2u, 3u}) {
            flow::graph g; std::atomic<int> running{0}, maxrun{0}, done{0};
            flow::function_node<int, int> f(g, limit, [&](int v) { int r = ++running; int m = maxrun.load(); while (r > m && !maxrun.compare_exchange_weak(m, r)) {} for (volatile int i = 0; i < 20000; ++i) {} --running; ++done; return v; });
            for (int i = 0; i < 500; ++i) f.try_put(i);
            g.wait_for_all();
            if (maxrun > (int)limit || done != 500) { std::printf("REPRODUCED class=node-limit function_node with concurrency %zu: %d bodies ran at once, %d of 500 messages processed\n", limit, maxrun.load(), done.load()); return 0; }
        }
    }
    std::printf("NOT-REPRODUCED\n"); return 0;
}
