// Native recipes for C14 on the REAL flow graph headers.
#include <oneapi/tbb/flow_graph.h>
#include <cstdio>
#include <atomic>
#include <string>
namespace flow = oneapi::tbb::flow;
int main(int argc, char** argv) {
    {   // two reservations on the same buffer_node must not both be granted
        flow::graph g; flow::buffer_node<int> b(g); b.try_put(100); b.try_put(200); g.wait_for_all();
        int v1 = 0, v2 = 0; bool r1 = b.try_reserve(v1), r2 = b.try_reserve(v2);
        if (r1 && r2) { std::printf("REPRODUCED class=double-reservation buffer_node<int> holding 100,200: two try_reserve calls were both granted (%d and %d) while the first reservation was still open; the second consume then destroys an item that was never delivered\n", v1, v2); return 0; }
        if (r1) b.try_consume();
        g.wait_for_all();
    }
    {   // function_node concurrency limit and conservation
        for (size_t limit : {1u, 2u, 3u}) {
            flow::graph g; std::atomic<int> running{0}, maxrun{0}, done{0};
            flow::function_node<int, int> f(g, limit, [&](int v) { int r = ++running; int m = maxrun.load(); while (r > m && !maxrun.compare_exchange_weak(m, r)) {} for (volatile int i = 0; i < 20000; ++i) {} --running; ++done; return v; });
            for (int i = 0; i < 500; ++i) f.try_put(i);
            g.wait_for_all();
            if (maxrun > (int)limit || done != 500) { std::printf("REPRODUCED class=node-limit function_node with concurrency %zu: %d bodies ran at once, %d of 500 messages processed\n", limit, maxrun.load(), done.load()); return 0; }
        }
    }
    std::printf("NOT-REPRODUCED\n"); return 0;
}
