// Native recipes for C14 on the REAL flow graph headers.
#include <oneapi/tbb/flow_graph.h>
#include <cstdio>
#include <atomic>
#include <string>
namespace flow = oneapi::tbb::flow;
int main(int argc, char** argv) {
    std::string job = argc > 1 ? argv[1] : "";
    if (job.find("pop_reserved") != std::string::npos) {
        // F10: plain buffer_node, ONE item, try_reserve then try_get: buffer_node::internal_pop -> pop_back ignores the reservation
        flow::graph g; flow::buffer_node<int> b(g); b.try_put(1); g.wait_for_all();
        int v = 0, w = 0; bool r = b.try_reserve(v), got = b.try_get(w);
        if (r) b.try_consume();
        g.wait_for_all();
        b.try_put(2); g.wait_for_all();
        int x = 0; bool got2 = b.try_get(x);
        if (r && got) { std::printf("REPRODUCED class=reserved-item-popped buffer_node<int> holding {1}: try_reserve granted %d, then try_get ALSO returned %d (message handed out twice); after try_consume the buffer has head > tail: try_put(2) was accepted but try_get then %s\n", v, w, got2 ? "succeeded" : "FAILED (message 2 lost)"); return 0; }
        std::printf("NOT-REPRODUCED\n"); return 0;
    }
    if (job.find("async.") != std::string::npos) {
        // async_node: what the activity of a node submits through the gateway must reach THIS node's successors - for a constructed node, for a copy, and after reset(rf_reset_bodies)
        typedef flow::async_node<int, int> an_t;
        flow::graph g;
        std::atomic<int> got_a{0}, got_b{0}, reserved{0};
        an_t a(g, flow::unlimited, [&](int v, an_t::gateway_type& gw) { gw.reserve_wait(); ++reserved; gw.try_put(v); gw.release_wait(); });
        an_t b(a);
        flow::function_node<int, int> sa(g, flow::unlimited, [&](int v) { ++got_a; return v; }), sb(g, flow::unlimited, [&](int v) { ++got_b; return v; });
        flow::make_edge(flow::output_port<0>(a), sa); flow::make_edge(flow::output_port<0>(b), sb);
        // white box (compiled with -fno-access-control): the gateway pointers of both bodies of both nodes
        auto gwp = [](an_t& n, bool init) { return static_cast<an_t::async_body_base_type*>((init ? n.my_init_body : n.my_body)->get_body_ptr())->my_gateway; };
        const char* who = nullptr;
        if (gwp(a, false) != &a.my_gateway) who = "the running body of the constructed node"; else if (gwp(a, true) != &a.my_gateway) who = "the initial body of the constructed node";
        else if (gwp(b, false) != &b.my_gateway) who = "the running body of the copy"; else if (gwp(b, true) != &b.my_gateway) who = "the initial body of the copy";
        for (int round = 0; round < 3; ++round) {
            int a0 = got_a, b0 = got_b;
            b.try_put(10 + round); g.wait_for_all();
            if (got_b != b0 + 1 || got_a != a0) {
                std::printf("REPRODUCED class=async-gateway-of-other-node async_node<int,int> b(a) copied from a%s: a message put to the COPY b was submitted by b's body through a gateway that delivered it to %s (successor of a got %d, successor of b got %d)%s%s\n",
                            round ? ", after g.reset(rf_reset_bodies)" : "", got_a != a0 ? "a's successor" : "nobody", got_a - a0, got_b - b0, who ? "; gateway pointer not of this node in " : "", who ? who : "");
                return 0;
            }
            a.try_put(20 + round); g.wait_for_all();
            if (got_a != a0 + 1 || got_b != b0 + 1) { std::printf("REPRODUCED class=async-gateway-of-other-node message put to the source node a reached a's successor %d times, b's successor %d times\n", got_a - a0, got_b - b0 - 1); return 0; }
            g.reset(flow::rf_reset_bodies);
        }
        if (who) { std::printf("REPRODUCED class=async-gateway-pointer %s carries the gateway of another node\n", who); return 0; }
        std::printf("NOT-REPRODUCED\n"); return 0;
    }
    if (job.find("join.") != std::string::npos) {
        // join_node: messages put to the ports of a constructed node / of a COPY must build tuples of that node only (queueing and reserving policies, 1..3 ports)
        bool reserving_policy = job.find("reserving") != std::string::npos;
        auto run = [&](auto tag, const char* pol) -> bool {
            typedef flow::join_node<std::tuple<int, int, int>, decltype(tag)> jn_t;
            flow::graph g; std::atomic<int> got_a{0}, got_b{0};
            flow::buffer_node<int> s0(g), s1(g), s2(g), t0(g), t1(g), t2(g);      // sources (buffering, so that a reserving join can pull)
            jn_t a(g); jn_t b(a);
            flow::function_node<std::tuple<int, int, int>, int> fa(g, flow::unlimited, [&](const std::tuple<int, int, int>&) { ++got_a; return 0; }), fb(g, flow::unlimited, [&](const std::tuple<int, int, int>&) { ++got_b; return 0; });
            flow::make_edge(a, fa); flow::make_edge(b, fb);
            flow::make_edge(s0, flow::input_port<0>(a)); flow::make_edge(s1, flow::input_port<1>(a)); flow::make_edge(s2, flow::input_port<2>(a));
            flow::make_edge(t0, flow::input_port<0>(b)); flow::make_edge(t1, flow::input_port<1>(b)); flow::make_edge(t2, flow::input_port<2>(b));
            t0.try_put(1); t1.try_put(2); t2.try_put(3); g.wait_for_all();
            if (got_b != 1 || got_a != 0) { std::printf("REPRODUCED class=join-port-owner %s join_node b(a): one message put to each port of the COPY b: b produced %d tuples, the source a produced %d (expected 1 and 0)\n", pol, got_b.load(), got_a.load()); return true; }
            s0.try_put(1); s1.try_put(2); s2.try_put(3); g.wait_for_all();
            if (got_a != 1 || got_b != 1) { std::printf("REPRODUCED class=join-port-owner %s join_node: one message put to each port of the source a: a produced %d tuples, b %d (expected 1 and 1)\n", pol, got_a.load(), got_b.load()); return true; }
            return false;
        };
        if (reserving_policy ? run(flow::reserving(), "reserving") : run(flow::queueing(), "queueing")) return 0;
        std::printf("NOT-REPRODUCED\n"); return 0;
    }
    if (job.find("indexer.") != std::string::npos) {
        typedef flow::indexer_node<int, float, int> ix_t;
        flow::graph g; std::atomic<int> got_a{0}, got_b{0}, bad_tag{0};
        ix_t a(g); ix_t b(a);
        auto chk = [&](std::atomic<int>& cnt) { return [&](const ix_t::output_type& m) { ++cnt; if (!((m.tag() == 0 && flow::cast_to<int>(m) == 7) || (m.tag() == 1 && flow::cast_to<float>(m) == 2.5f) || (m.tag() == 2 && flow::cast_to<int>(m) == 9))) ++bad_tag; return 0; }; };
        flow::function_node<ix_t::output_type, int> fa(g, flow::serial, chk(got_a)), fb(g, flow::serial, chk(got_b));
        flow::make_edge(a, fa); flow::make_edge(b, fb);
        flow::input_port<0>(b).try_put(7); flow::input_port<1>(b).try_put(2.5f); flow::input_port<2>(b).try_put(9); g.wait_for_all();
        if (got_b != 3 || got_a != 0 || bad_tag) { std::printf("REPRODUCED class=indexer-port-owner indexer_node b(a): 3 messages put to the ports of the COPY b: b's successor got %d, a's successor got %d, %d with a wrong tag/value\n", got_b.load(), got_a.load(), bad_tag.load()); return 0; }
        flow::input_port<0>(a).try_put(7); flow::input_port<2>(a).try_put(9); g.wait_for_all();
        if (got_a != 2 || got_b != 3 || bad_tag) { std::printf("REPRODUCED class=indexer-port-owner indexer_node a: 2 messages put to its ports: a's successor got %d, b's %d (expected 2, 3), %d with a wrong tag\n", got_a.load(), got_b.load(), bad_tag.load()); return 0; }
        std::printf("NOT-REPRODUCED\n"); return 0;
    }
    if (job.find("handle.") != std::string::npos) {
        // a buffering node must offer the remaining items again after a reservation is consumed / released, a successor is added, or an item is put
        for (int how = 0; how < 2; ++how) {
            flow::graph g; flow::queue_node<int> q(g); std::atomic<int> got{0}, last{-1};
            flow::function_node<int, int> f(g, flow::unlimited, [&](int v) { ++got; last = v; return v; });
            q.try_put(1); q.try_put(2); g.wait_for_all();
            int v = 0; bool r = q.try_reserve(v);
            flow::make_edge(q, f); g.wait_for_all();
            if (how == 0) q.try_consume(); else q.try_release();
            g.wait_for_all();
            int want = how == 0 ? 1 : 2;
            if (r && got > want) { std::printf("REPRODUCED class=duplicate-delivery queue_node {1,2}: item 1 reserved by a consumer, successor f attached, reservation %s: f received %d messages although only %d remained for it\n", how == 0 ? "consumed" : "released", got.load(), want); return 0; }
            if (r && got != want) { std::printf("REPRODUCED class=stuck-after-%s queue_node {1,2}: item 1 reserved, successor f attached, reservation %s: f received %d of %d remaining items; wait_for_all returned with an accepted message stuck in the queue\n", how == 0 ? "consume" : "release", how == 0 ? "consumed" : "released", got.load(), want); return 0; }
        }
        {   flow::graph g; flow::queue_node<int> q(g); std::atomic<int> got{0};
            q.try_put(1); q.try_put(2); g.wait_for_all();
            flow::function_node<int, int> f(g, flow::unlimited, [&](int v) { ++got; return v; });
            flow::make_edge(q, f); g.wait_for_all();
            if (got != 2) { std::printf("REPRODUCED class=stuck-after-register queue_node {1,2}: successor attached, %d of 2 items delivered\n", got.load()); return 0; }
            q.try_put(3); g.wait_for_all();
            if (got != 3) { std::printf("REPRODUCED class=stuck-after-put queue_node with a push successor: put 3, delivered %d of 3\n", got.load()); return 0; }
        }
        std::printf("NOT-REPRODUCED\n"); return 0;
    }
    {   // two reservations on the same buffer_node must not both be granted
        flow::graph g; flow::buffer_node<int> b(g); b.try_put(100); b.try_put(200); g.wait_for_all();
        int v1 = 0, v2 = 0; bool r1 = b.try_reserve(v1), r2 = b.try_reserve(v2);
        if (r1 && r2) { std::printf("REPRODUCED class=double-reservation buffer_node<int> holding 100,200: two try_reserve calls were both granted (%d and %d) while the first reservation was still open; the second consume then destroys an item that was never delivered\n", v1, v2); return 0; }
        if (r1) b.try_consume();
        g.wait_for_all();
    }
    {   // function_node concurrency limit and conservation
        for (size_t limit : {1u, 2u, 3u}) {
            flow::graph g; std::atomic<int> running{0}, maxrun{0}, done{0};
            flow::function_node<int, int> f(g, limit, [&](int v) { int r = ++running; int m = maxrun.load(); while (r > m && !maxrun.compare_exchange_weak(m, r)) {} for (volatile int i = 0; i < 20000; ++i) {} --running; ++done; return v; });
            for (int i = 0; i < 500; ++i) f.try_put(i);
            g.wait_for_all();
            if (maxrun > (int)limit || done != 500) { std::printf("REPRODUCED class=node-limit function_node with concurrency %zu: %d bodies ran at once, %d of 500 messages processed\n", limit, maxrun.load(), done.load()); return 0; }
        }
    }
    std::printf("NOT-REPRODUCED\n"); return 0;
}
