/* C14 harnesses: function-node concurrency accounting inside the aggregator handler, and the single open reservation of reservable buffers */
#include "verif.h"
#include <stdlib.h>
#ifdef FIB
typedef struct graph_task { int d; } graph_task;
static graph_task T_body, T_enq;
#define SUCCESSFULLY_ENQUEUED (&T_enq)
enum { reg_pred, rem_pred, try_fwd, tryput_bypass, app_body_bypass, occupy_concurrency };
enum { WAIT = 0, SUCCEEDED = 1, FAILED = 2 };
typedef struct operation_type { int type; int *elem; void *r; graph_task *bypass_t; int status; struct operation_type *next; } operation_type;
unsigned g_status_sets, g_created, g_pushed, g_popped; size_t g_bodies;   /* ghost: bodies that were created and have not reported back */
#define SET_STATUS(op, st) do { __CPROVER_assert((op)->status == WAIT, "C14.node: an operation gets exactly one final status"); (op)->status = (st); g_status_sets++; } while (0)
struct fib { size_t my_max_concurrency; size_t my_concurrency; bool forwarder_busy; bool my_queue; };
static bool STUB_queue_empty(void) { return nondet_bool(); }
static void STUB_queue_pop(void) { g_popped++; }
static bool STUB_queue_push(int *e) { bool ok = nondet_bool(); if (ok) g_pushed++; return ok; }
static bool STUB_pred_get_item(void) { return nondet_bool(); }
static void STUB_pred_add(void) {} static void STUB_pred_remove(void) {} static void STUB_spawn_forward_task(void) {}
static graph_task *STUB_create_body_task(struct fib *self, int site) {
    g_created++; g_bodies++;
    OBLIGATION(self->my_concurrency == g_bodies, "C14.node: a body task is created only together with ++my_concurrency");
    OBLIGATION(self->my_max_concurrency == 0 || self->my_concurrency <= self->my_max_concurrency, "C14.node: the number of running bodies never exceeds the node's concurrency limit");
    return &T_body;
}
#define LOOP_fho_1
#include "function_input.inc"
int IN_type;
void h_handle(void) {
    struct fib f; f.my_max_concurrency = nondet_size_t(); f.my_concurrency = nondet_size_t(); f.forwarder_busy = nondet_bool(); f.my_queue = nondet_bool();
    __CPROVER_assume(f.my_max_concurrency >= 1 && f.my_concurrency <= f.my_max_concurrency);       /* invariant before the operation (limited nodes) */
    g_bodies = f.my_concurrency; g_status_sets = g_created = g_pushed = g_popped = 0;
    int v = nondet_int(); operation_type op; op.type = IN_type = nondet_int(); op.elem = &v; op.r = NULL; op.bypass_t = NULL; op.status = WAIT; op.next = NULL;
    __CPROVER_assume(op.type >= reg_pred && op.type <= occupy_concurrency);
    if (op.type == app_body_bypass) { __CPROVER_assume(g_bodies >= 1); g_bodies--; }              /* this operation reports one finished body */
    if (op.type == occupy_concurrency) { /* occupies a slot for a body that runs without a task */ }
    size_t c0 = f.my_concurrency; bool fb0 = f.forwarder_busy;
    fib_handle_operations(&f, &op);
    if (op.type == occupy_concurrency && op.status == SUCCEEDED) g_bodies++;
    OBLIGATION(f.my_concurrency <= f.my_max_concurrency && f.my_concurrency == g_bodies, "C14.node: the concurrency counter equals the number of running bodies and stays within the limit (inductive step)");
    OBLIGATION(g_status_sets == 1 && op.status != WAIT, "C14.node: the operation gets exactly one status");
    if (op.type == tryput_bypass) {
        bool created = g_created == 1, queued = g_pushed == 1;
        OBLIGATION(g_created + g_pushed <= 1, "C14.node: a message is either run, queued or rejected - never two of them");
        OBLIGATION(created ? (op.bypass_t == &T_body && op.status == SUCCEEDED && f.my_concurrency == c0 + 1) : queued ? (op.bypass_t == SUCCESSFULLY_ENQUEUED && op.status == SUCCEEDED && f.my_concurrency == c0)
                   : (op.bypass_t == NULL && op.status == FAILED && f.my_concurrency == c0), "C14.node: the reported disposition matches what was done with the message");
        OBLIGATION(created == (c0 < f.my_max_concurrency), "C14.node: a body runs at once iff the node is below its limit");
    }
    if (op.type == try_fwd) {
        OBLIGATION((op.bypass_t != NULL) == (op.status == SUCCEEDED) && (op.bypass_t == NULL || g_created == 1), "C14.node: forwarding succeeds iff a body task was created");
        OBLIGATION(op.bypass_t != NULL ? f.forwarder_busy == fb0 : !f.forwarder_busy, "C14.node: forwarder_busy is cleared only when nothing was forwarded");
    }
    if (op.type == app_body_bypass) OBLIGATION(f.my_concurrency == c0 - 1 + g_created && g_created <= 1, "C14.node: a finished body frees one slot, which at most one queued message takes");
    OBLIGATION(g_popped <= g_created, "C14.node: a queued message is removed only when a body task was created for it");
    VACUITY_END();
}
#endif
#ifdef RIB
typedef int item_type;
#define DESTROY_ITEM(p) ((void)0)
#include "item_buffer.inc"
#include "reservable.inc"
#define POW2(x) ((x) != 0 && (((x) & ((x) - 1)) == 0))
static void mk(struct item_buffer *b) {
    b->my_array_size = nondet_size_t(); b->my_head = nondet_size_t(); b->my_tail = nondet_size_t(); b->my_reserved = nondet_bool();
    __CPROVER_assume(POW2(b->my_array_size) && b->my_array_size >= 4 && b->my_array_size <= ((size_t)1 << 16) && b->my_head <= b->my_tail && b->my_tail - b->my_head <= b->my_array_size);
    b->my_array = malloc(b->my_array_size * sizeof(aligned_space_item)); __CPROVER_assume(b->my_array != NULL);
    int st = b->my_array[b->my_head & (b->my_array_size - 1)].state; __CPROVER_assume(st >= no_item && st <= reserved_item);
    /* representation invariant: the reservation flag mirrors the state of the head item */
    __CPROVER_assume(b->my_reserved == (b->my_head < b->my_tail && st == reserved_item));
}
void h_reserve(void) {
    struct item_buffer b; mk(&b); item_type v = 0; bool res0 = b.my_reserved; size_t h0 = b.my_head;
    bool valid0 = item_buffer_my_item_valid(&b, b.my_head); item_type head_item = item_buffer_element(&b, b.my_head)->item;
    bool ok = rib_reserve_front(&b, &v);
    OBLIGATION(ok == (!res0 && valid0), "C14.reserve: a reservation is granted iff none is open and the front item exists (never two open reservations on one item)");
    OBLIGATION(!ok || (b.my_reserved && v == head_item && item_buffer_element(&b, h0)->state == reserved_item && b.my_head == h0), "C14.reserve: the reserver gets the front item, which stays in the buffer marked reserved");
    OBLIGATION(ok || (b.my_reserved == res0 && b.my_head == h0), "C14.reserve: a refused reservation changes nothing");
    VACUITY_END();
}
void h_consume_release(void) {
    struct item_buffer b; mk(&b); __CPROVER_assume(b.my_reserved);
    size_t h0 = b.my_head, t0 = b.my_tail; item_type it = item_buffer_element(&b, h0)->item;
    if (nondet_bool()) {
        rib_consume_front(&b);
        OBLIGATION(!b.my_reserved && b.my_head == h0 + 1 && b.my_tail == t0 && item_buffer_element(&b, h0)->state == no_item, "C14.reserve: consume removes exactly the reserved front item");
    } else {
        rib_release_front(&b);
        OBLIGATION(!b.my_reserved && b.my_head == h0 && item_buffer_element(&b, h0)->state == has_item && item_buffer_element(&b, h0)->item == it, "C14.reserve: release puts the same item back, unreserved");
    }
    VACUITY_END();
}
#endif
