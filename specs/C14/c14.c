/* C14 harnesses: function-node concurrency accounting inside the aggregator handler (FIB); single open reservation (RIB); buffer_node / queue_node handler, forwarding invariant and task hand-off (BN, BNAPI); successor caches (SC); predecessor caches (PC); graph task reference pairing (WT); reference_vertex rely/guarantee (RV) */
#include "verif.h"
#include <stdlib.h>
#ifdef FIB
typedef struct graph_task { int d; } graph_task;
static graph_task T_body, T_enq;
#define SUCCESSFULLY_ENQUEUED (&T_enq)
enum { reg_pred, rem_pred, try_fwd, tryput_bypass, app_body_bypass, occupy_concurrency };
enum { WAIT = 0, SUCCEEDED = 1, FAILED = 2 };
typedef struct operation_type { int type; int *elem; void *r; graph_task *bypass_t; int status; struct operation_type *next; } operation_type;
unsigned g_status_sets, g_created, g_pushed, g_popped; size_t g_bodies;   /* ghost: bodies that were created and have not reported back */
#define SET_STATUS(op, st) do { __CPROVER_assert((op)->status == WAIT, "C14.node: an operation gets exactly one final status"); (op)->status = (st); g_status_sets++; } while (0)
struct fib { size_t my_max_concurrency; size_t my_concurrency; bool forwarder_busy; bool my_queue; };
static bool STUB_queue_empty(void) { return nondet_bool(); }
static void STUB_queue_pop(void) { g_popped++; }
static bool STUB_queue_push(int *e) { bool ok = nondet_bool(); if (ok) g_pushed++; return ok; }
static bool STUB_pred_get_item(void) { return nondet_bool(); }
static void STUB_pred_add(void) {} static void STUB_pred_remove(void) {} static void STUB_spawn_forward_task(void) {}
static graph_task *STUB_create_body_task(struct fib *self, int site) {
    g_created++; g_bodies++;
    OBLIGATION(self->my_concurrency == g_bodies, "C14.node: a body task is created only together with ++my_concurrency");
    OBLIGATION(self->my_max_concurrency == 0 || self->my_concurrency <= self->my_max_concurrency, "C14.node: the number of running bodies never exceeds the node's concurrency limit");
    return &T_body;
}
#define LOOP_fho_1
#include "function_input.inc"
int IN_type;
void h_handle(void) {
    struct fib f; f.my_max_concurrency = nondet_size_t(); f.my_concurrency = nondet_size_t(); f.forwarder_busy = nondet_bool(); f.my_queue = nondet_bool();
    __CPROVER_assume(f.my_max_concurrency >= 1 && f.my_concurrency <= f.my_max_concurrency);       /* invariant before the operation (limited nodes) */
    g_bodies = f.my_concurrency; g_status_sets = g_created = g_pushed = g_popped = 0;
    int v = nondet_int(); operation_type op; op.type = IN_type = nondet_int(); op.elem = &v; op.r = NULL; op.bypass_t = NULL; op.status = WAIT; op.next = NULL;
    __CPROVER_assume(op.type >= reg_pred && op.type <= occupy_concurrency);
    if (op.type == app_body_bypass) { __CPROVER_assume(g_bodies >= 1); g_bodies--; }              /* this operation reports one finished body */
    if (op.type == occupy_concurrency) { /* occupies a slot for a body that runs without a task */ }
    size_t c0 = f.my_concurrency; bool fb0 = f.forwarder_busy;
    fib_handle_operations(&f, &op);
    if (op.type == occupy_concurrency && op.status == SUCCEEDED) g_bodies++;
    OBLIGATION(f.my_concurrency <= f.my_max_concurrency && f.my_concurrency == g_bodies, "C14.node: the concurrency counter equals the number of running bodies and stays within the limit (inductive step)");
    OBLIGATION(g_status_sets == 1 && op.status != WAIT, "C14.node: the operation gets exactly one status");
    if (op.type == tryput_bypass) {
        bool created = g_created == 1, queued = g_pushed == 1;
        OBLIGATION(g_created + g_pushed <= 1, "C14.node: a message is either run, queued or rejected - never two of them");
        OBLIGATION(created ? (op.bypass_t == &T_body && op.status == SUCCEEDED && f.my_concurrency == c0 + 1) : queued ? (op.bypass_t == SUCCESSFULLY_ENQUEUED && op.status == SUCCEEDED && f.my_concurrency == c0)
                   : (op.bypass_t == NULL && op.status == FAILED && f.my_concurrency == c0), "C14.node: the reported disposition matches what was done with the message");
        OBLIGATION(created == (c0 < f.my_max_concurrency), "C14.node: a body runs at once iff the node is below its limit");
    }
    if (op.type == try_fwd) {
        OBLIGATION((op.bypass_t != NULL) == (op.status == SUCCEEDED) && (op.bypass_t == NULL || g_created == 1), "C14.node: forwarding succeeds iff a body task was created");
        OBLIGATION(op.bypass_t != NULL ? f.forwarder_busy == fb0 : !f.forwarder_busy, "C14.node: forwarder_busy is cleared only when nothing was forwarded");
    }
    if (op.type == app_body_bypass) OBLIGATION(f.my_concurrency == c0 - 1 + g_created && g_created <= 1, "C14.node: a finished body frees one slot, which at most one queued message takes");
    OBLIGATION(g_popped <= g_created, "C14.node: a queued message is removed only when a body task was created for it");
    VACUITY_END();
}
#endif
#ifdef RIB
typedef int item_type;
#define DESTROY_ITEM(p) ((void)0)
#include "item_buffer.inc"
#include "reservable.inc"
#define POW2(x) ((x) != 0 && (((x) & ((x) - 1)) == 0))
static void mk(struct item_buffer *b) {
    b->my_array_size = nondet_size_t(); b->my_head = nondet_size_t(); b->my_tail = nondet_size_t(); b->my_reserved = nondet_bool();
    __CPROVER_assume(POW2(b->my_array_size) && b->my_array_size >= 4 && b->my_array_size <= ((size_t)1 << 16) && b->my_head <= b->my_tail && b->my_tail - b->my_head <= b->my_array_size);
    b->my_array = malloc(b->my_array_size * sizeof(aligned_space_item)); __CPROVER_assume(b->my_array != NULL);
    int st = b->my_array[b->my_head & (b->my_array_size - 1)].state; __CPROVER_assume(st >= no_item && st <= reserved_item);
    /* representation invariant: the reservation flag mirrors the state of the head item */
    __CPROVER_assume(b->my_reserved == (b->my_head < b->my_tail && st == reserved_item));
}
void h_reserve(void) {
    struct item_buffer b; mk(&b); item_type v = 0; bool res0 = b.my_reserved; size_t h0 = b.my_head;
    bool valid0 = item_buffer_my_item_valid(&b, b.my_head); item_type head_item = item_buffer_element(&b, b.my_head)->item;
    bool ok = rib_reserve_front(&b, &v);
    OBLIGATION(ok == (!res0 && valid0), "C14.reserve: a reservation is granted iff none is open and the front item exists (never two open reservations on one item)");
    OBLIGATION(!ok || (b.my_reserved && v == head_item && item_buffer_element(&b, h0)->state == reserved_item && b.my_head == h0), "C14.reserve: the reserver gets the front item, which stays in the buffer marked reserved");
    OBLIGATION(ok || (b.my_reserved == res0 && b.my_head == h0), "C14.reserve: a refused reservation changes nothing");
    VACUITY_END();
}
void h_consume_release(void) {
    struct item_buffer b; mk(&b); __CPROVER_assume(b.my_reserved);
    size_t h0 = b.my_head, t0 = b.my_tail; item_type it = item_buffer_element(&b, h0)->item;
    if (nondet_bool()) {
        rib_consume_front(&b);
        OBLIGATION(!b.my_reserved && b.my_head == h0 + 1 && b.my_tail == t0 && item_buffer_element(&b, h0)->state == no_item, "C14.reserve: consume removes exactly the reserved front item");
    } else {
        rib_release_front(&b);
        OBLIGATION(!b.my_reserved && b.my_head == h0 && item_buffer_element(&b, h0)->state == has_item && item_buffer_element(&b, h0)->item == it, "C14.reserve: release puts the same item back, unreserved");
    }
    VACUITY_END();
}
#endif
#ifdef BN
/* buffer_node / queue_node: ONE arbitrary operation through the aggregator handler in an arbitrary invariant state (inductive step of the batch loop).
   The object is the flattened C view item_buffer + reservable_item_buffer::my_reserved + buffer_node::forwarder_busy; every item_buffer function is the
   extracted one (grow_my_array under the contract that C15 job buffer.grow_my_array enforces - c15_prelude.inc is that text). */
#include "c15_prelude.inc"
typedef struct graph_task { int d; } graph_task;
typedef struct graph { int d; } graph;
static graph_task T_enq, T_real; static graph G;
#define SUCCESSFULLY_ENQUEUED (&T_enq)
enum { reg_succ, rem_succ, req_item, res_item, rel_res, con_res, put_item, try_fwd_task };
typedef struct buffer_operation { char type; item_type *elem; graph_task *ltask; void *r; int status; struct buffer_operation *next; } buffer_operation;
typedef buffer_operation queue_operation;
struct task_pair { graph_task *first, *second; };
struct item_buffer;
/* ---- ghost state ---- */
size_t g_nsucc;            /* my_successors.size(): push-mode successors */
bool g_active;             /* is_graph_active */
bool g_refused;            /* every registered successor has rejected the currently deliverable item and refused to be switched to pull mode */
unsigned g_status_sets; size_t g_made, g_spawned, g_accepts, g_newfwd, g_reg, g_rem, g_ns0; bool g_ref0, g_offered;
size_t g_h0, g_t0, g_cap0; /* snapshot of the buffer window before the operation */
bool g_gh_canon, g_gh_in0; item_type g_gh_item0; size_t g_gh_acc;   /* the arbitrary item GH: was buffered, its value, how often a successor accepted it */
#define SET_STATUS(op, st) do { __CPROVER_assert((op)->status == WAIT, "C14.buffer: an operation gets exactly one final status"); (op)->status = (st); g_status_sets++; } while (0)
static graph *STUB_graph(void) { return &G; }
static bool STUB_is_graph_active(void) { return g_active; }
static graph_task *STUB_new_forward_task(struct item_buffer *self) { g_newfwd++; g_made++; return &T_real; }
static struct task_pair STUB_order_tasks(graph_task *l, graph_task *r) { struct task_pair p; if (nondet_bool()) { p.first = l; p.second = r; } else { p.first = r; p.second = l; } return p; }
static void STUB_spawn(graph_task *t) { OBLIGATION(t == &T_real, "C14.buffer: only real tasks are spawned (never NULL or the SUCCESSFULLY_ENQUEUED sentinel)"); g_spawned++; }
static size_t STUB_succ_size(struct item_buffer *self) { return g_nsucc; }
static void STUB_succ_register(struct item_buffer *self, void *r) { g_nsucc++; g_reg++; }
static void STUB_succ_remove(struct item_buffer *self, void *r) { if (g_nsucc > 0 && nondet_bool()) g_nsucc--; g_rem++; }
static graph_task *STUB_succ_try_put_task(struct item_buffer *self, const item_type *it);
#ifdef DERIVED_QUEUE
#define DERIVED_is_item_valid qn_is_item_valid
#define DERIVED_try_put_and_add_task qn_try_put_and_add_task
#define VIRT_internal_forward_task qn_internal_forward_task
#define VIRT_internal_pop qn_internal_pop
#define VIRT_internal_reserve qn_internal_reserve
#define VIRT_internal_consume qn_internal_consume
#else
#define DERIVED_is_item_valid bn_is_item_valid
#define DERIVED_try_put_and_add_task bn_try_put_and_add_task
#define VIRT_internal_forward_task bn_internal_forward_task
#define VIRT_internal_pop bn_internal_pop
#define VIRT_internal_reserve bn_internal_reserve
#define VIRT_internal_consume bn_internal_consume
#endif
#define DERIVED_order bn_order
#define VIRT_internal_reg_succ bn_internal_reg_succ
#define VIRT_internal_rem_succ bn_internal_rem_succ
#define VIRT_internal_release bn_internal_release
#define VIRT_internal_push bn_internal_push
#define IN_WIN(b, j) ((j) >= (b)->my_head && (j) < (b)->my_tail)
/* representation invariant of buffer_node / queue_node at an arbitrary index j: every index of [head,tail) holds an item, the front one is marked reserved
   iff a reservation is open, every other slot of the window is empty */
#define RI(b, j) ((!(b)->my_reserved || (b)->my_head < (b)->my_tail) && \
    (IN_WIN(b, j) ? SLOTN(b, j).state == (((j) == (b)->my_head && (b)->my_reserved) ? reserved_item : has_item) \
                  : (!((j) - (b)->my_head < (b)->my_array_size) || SLOTN(b, j).state == no_item)))
/* IB_SHAPE without the size bound MAXCAP, which is a bound of the proof (grow_my_array contract), not of the code */
#define SHAPE_POST(b) (POW2((b)->my_array_size) && (b)->my_array_size >= 4 && (b)->my_head <= (b)->my_tail && (b)->my_tail - (b)->my_head <= (b)->my_array_size)
#define TASK3(t) ((t) == NULL || (t) == &T_enq || (t) == &T_real)
#define LOOP_bnho_1
/* forwarding loop: counter counts down; items leave only at the end that is offered; item GH is either still in place and was never accepted, or it is gone
   and was accepted exactly once; the tasks made are spawned or held in last_task; before the first offer nothing has changed; after an offer, as long as
   nothing was accepted, no successor is left or every remaining successor has refused */
#define LOOP_bnfwd_1 __CPROVER_assigns(counter, last_task, self->my_head, self->my_tail, __CPROVER_object_whole(self->my_array), g_nsucc, g_refused, g_made, g_spawned, g_offered, g_accepts, g_gh_acc) \
  __CPROVER_loop_invariant(g_h0 <= self->my_head && self->my_head <= self->my_tail && self->my_tail <= g_t0 \
     && (g_t0 - self->my_tail) + (self->my_head - g_h0) == g_accepts && TASK3(last_task) && ((last_task != NULL) == (g_accepts > 0)) \
     && g_made == g_spawned + (last_task == &T_real ? 1 : 0) && RI(self, GH) \
     && (g_gh_in0 ? (IN_WIN(self, GH) ? (SLOTN(self, GH).item == g_gh_item0 && g_gh_acc == 0) : g_gh_acc == 1) : g_gh_acc == 0) \
     && (!g_offered ? (g_nsucc == g_ns0 && g_refused == g_ref0 && g_accepts == 0 && counter == __CPROVER_loop_entry(counter)) : (g_accepts > 0 || g_nsucc == 0 || g_refused))) \
  __CPROVER_decreases(counter)
#include "item_buffer_bn.inc"
#include "reservable.inc"
#include "buffer_node.inc"
/* my_successors.try_put_task (round_robin_cache): the item is offered to the successors in turn until one accepts; a successor that rejects is dropped from
   the cache if it accepts being switched to pull mode.  Returns the acceptor's task (a real task or SUCCESSFULLY_ENQUEUED) or NULL when all rejected. */
static graph_task *STUB_succ_try_put_task(struct item_buffer *self, const item_type *it) {
    g_offered = true;
    bool is_gh = g_gh_canon && it == &SLOTN(self, GH).item;
    if (is_gh) {
        OBLIGATION(IN_WIN(self, GH) && SLOTN(self, GH).state == has_item, "C14.buffer: what is offered to a successor is a buffered item that is not under reservation");
        OBLIGATION(g_gh_acc == 0, "C14.buffer: an item that a successor has accepted is never offered again");
    }
    bool acc = nondet_bool(); size_t n1 = nondet_size_t();
    __CPROVER_assume(n1 <= g_nsucc && (!acc || n1 >= 1));
    g_nsucc = n1;
    if (acc) { g_accepts++; g_refused = false; if (is_gh) g_gh_acc++; if (nondet_bool()) return SUCCESSFULLY_ENQUEUED; g_made++; return &T_real; }
    g_refused = n1 > 0;
    return NULL;
}
#define DELIVERABLE(b) (DERIVED_is_item_valid(b) && !(b)->my_reserved && g_nsucc > 0 && !g_refused && g_active)
int IN_type;
static void bn_one_operation(int type, bool f10_domain) {
    struct item_buffer *b = malloc(sizeof(*b)); __CPROVER_assume(b != NULL);
    b->my_array_size = nondet_size_t(); b->my_head = nondet_size_t(); b->my_tail = nondet_size_t(); b->my_reserved = nondet_bool(); b->forwarder_busy = nondet_bool();
    __CPROVER_assume(IB_SHAPE(b));
    b->my_array = malloc(b->my_array_size * sizeof(aligned_space_item)); __CPROVER_assume(b->my_array != NULL);
    size_t h0 = g_h0 = b->my_head, t0 = g_t0 = b->my_tail, cap0 = g_cap0 = b->my_array_size;
    GH = nondet_size_t(); GH2 = t0;
    __CPROVER_assume(RI(b, GH) && RI(b, h0) && RI(b, t0) && RI(b, t0 - 1));               /* instances of the (universal) representation invariant */
    g_nsucc = nondet_size_t(); __CPROVER_assume(g_nsucc < ((size_t)1 << 32));
    g_active = nondet_bool(); g_refused = nondet_bool();
    g_status_sets = 0; g_offered = false; g_made = g_spawned = g_accepts = g_newfwd = g_reg = g_rem = g_gh_acc = 0;
    bool in0 = g_gh_in0 = IN_WIN(b, GH); g_gh_canon = GH >= h0 && GH - h0 < cap0;
    item_type x0 = g_gh_item0 = SLOTN(b, GH).item; int st0 = SLOTN(b, GH).state;
    bool res0 = b->my_reserved, fb0 = b->forwarder_busy;
    item_type v = nondet_int(), v0 = v; int dummy_succ;
    buffer_operation op; op.type = (char)type; op.elem = NULL; op.ltask = NULL; op.r = NULL; op.status = WAIT; op.next = NULL;
    IN_type = type;
    /* what the callers guarantee for each kind of operation */
    if (type == reg_succ || type == rem_succ) op.r = &dummy_succ;
    if (type == req_item || type == res_item || type == put_item) op.elem = &v;
    if (type == rel_res || type == con_res) __CPROVER_assume(res0);                       /* only the holder of the reservation releases / consumes */
    if (type == try_fwd_task) __CPROVER_assume(fb0);                                      /* issued by the forward task only, which exists only while forwarder_busy */
    if (type == put_item) __CPROVER_assume(t0 - h0 < MAXCAP && t0 + 1 < ((size_t)1 << 62));                             /* stated size bound of the grow_my_array contract */
    /* ops that can make forwarding possible again start a new round: nobody has refused the (new) situation yet */
    if (type == reg_succ || type == put_item || type == rel_res || type == con_res) g_refused = false;
#ifndef DERIVED_QUEUE
    { bool sole_reserved = type == req_item && res0 && t0 - h0 == 1; __CPROVER_assume(f10_domain ? sole_reserved : !sole_reserved); }
#endif
    g_ns0 = g_nsucc; g_ref0 = g_refused;
    /* the invariant under proof, assumed before the operation */
    __CPROVER_assume(!DELIVERABLE(b) || fb0);

    bn_handle_operations(b, &op);

    size_t h1 = b->my_head, t1 = b->my_tail; bool in1 = IN_WIN(b, GH); bool fb1 = b->forwarder_busy;
    OBLIGATION(g_status_sets == 1 && (op.status == SUCCEEDED || op.status == FAILED), "C14.buffer: the operation gets exactly one status (SUCCEEDED or FAILED)");
    if (f10_domain) {   /* try_get while the only item is reserved: this half of the domain carries the one obligation that finding F10 violates (everything else there is a consequence) */
        OBLIGATION(!(in0 && !in1) || st0 == has_item, "C14.buffer: an item under reservation is not handed to anyone else");
        return;
    }
    OBLIGATION(SHAPE_POST(b) && RI(b, GH), "C14.buffer: the buffer's representation invariant is re-established (at an arbitrary index)");
    OBLIGATION(!DELIVERABLE(b) || fb1, "C14.buffer: when the handler returns with a deliverable item (buffered, front not reserved, a push-mode successor that has not refused it, graph active) a forward task is outstanding (forwarder_busy)");
    OBLIGATION(TASK3(op.ltask) && g_made == g_spawned + (op.ltask == &T_real ? 1 : 0), "C14.buffer: every task produced inside the handler (by an accepting successor or the new forwarder) is spawned or handed back in the operation record - none dropped, none twice");
    OBLIGATION(!(fb1 && !fb0) || g_newfwd == 1, "C14.buffer: forwarder_busy is set only together with the creation of a forward task");
    OBLIGATION(g_newfwd <= 1 && (g_newfwd == 0 || fb1), "C14.buffer: a forward task is created at most once and leaves forwarder_busy set");
    if (type != try_fwd_task) {
        OBLIGATION(!fb0 || fb1, "C14.buffer: forwarder_busy is cleared only by the forward task");
        OBLIGATION(!g_offered && op.ltask != SUCCESSFULLY_ENQUEUED, "C14.buffer: only the forward task offers items to successors");
    } else {
        OBLIGATION((op.status == SUCCEEDED) == fb1, "C14.buffer: the forward task goes on iff it leaves forwarder_busy set (it clears the flag exactly when it stops)");
        OBLIGATION((t0 - h0) - (t1 - h1) == g_accepts && t1 - h1 <= t0 - h0, "C14.buffer: exactly the items a successor accepted leave the buffer");
    }
    /* conservation, at the arbitrary item GH */
    if (in0) {
        if (in1) {
            OBLIGATION(SLOTN(b, GH).item == x0 && SLOTN(b, GH).state != no_item, "C14.buffer: an item that stays buffered keeps its place and value");
            OBLIGATION(g_gh_acc == 0, "C14.buffer: an item that a successor accepted does not stay in the buffer (no duplicate)");
        } else {
            OBLIGATION(type == try_fwd_task || type == req_item || type == con_res, "C14.buffer: an item leaves the buffer only by forwarding, try_get or consumption of its reservation");
            OBLIGATION(g_gh_acc == (type == try_fwd_task ? 1 : 0), "C14.buffer: a forwarded item was accepted by exactly one successor");
            if (type == req_item) {
                OBLIGATION(op.status == SUCCEEDED && v == x0, "C14.buffer: the item removed by try_get is the one handed to the requester");
                OBLIGATION(st0 == has_item, "C14.buffer: an item under reservation is not handed to anyone else");
            }
            if (type == con_res) OBLIGATION(GH == h0 && st0 == reserved_item, "C14.buffer: consume removes exactly the reserved item");
        }
    } else {
        OBLIGATION(g_gh_acc == 0, "C14.buffer: nothing but buffered items is forwarded");
        if (g_gh_canon && in1) OBLIGATION(type == put_item && GH == t0 && SLOTN(b, GH).item == v0, "C14.buffer: the only new item is the one that was put");
    }
    /* count level */
    if (type == reg_succ || type == rem_succ || type == res_item || type == rel_res) OBLIGATION(h1 == h0 && t1 == t0, "C14.buffer: registration, reservation and release do not move items");
    if (type == reg_succ) OBLIGATION(g_reg == 1 && op.status == SUCCEEDED, "C14.buffer: the successor is registered");
    if (type == rem_succ) OBLIGATION(g_rem == 1 && op.status == SUCCEEDED, "C14.buffer: the successor is removed");
    if (type == req_item) OBLIGATION((t0 - h0) - (t1 - h1) == (op.status == SUCCEEDED ? 1 : 0) && t1 - h1 <= t0 - h0, "C14.buffer: a successful try_get removes exactly one item, a failed one none");
    if (type == res_item) OBLIGATION((op.status == SUCCEEDED) ? (!res0 && b->my_reserved && v == SLOTN(b, h0).item) : b->my_reserved == res0, "C14.buffer: a reservation is granted only when none is open, and hands out the front item");
    if (type == rel_res) OBLIGATION(!b->my_reserved && op.status == SUCCEEDED, "C14.buffer: release closes the reservation and keeps the item");
    if (type == con_res) OBLIGATION(!b->my_reserved && h1 == h0 + 1 && t1 == t0 && op.status == SUCCEEDED, "C14.buffer: consume closes the reservation and removes the reserved item only");
    if (type == put_item) OBLIGATION(op.status != SUCCEEDED || (h1 == h0 && t1 == t0 + 1 && SLOTN(b, t0).state == has_item && SLOTN(b, t0).item == v0), "C14.buffer: an accepted put stores the message in the buffer");
}
#ifdef BNAPI
/* the entry points around the aggregator.  AGG_execute stands for "the handler processed this record (possibly in a batch run by another thread)": per the
   handler jobs above the record gets exactly one status and its ltask is NULL or a real task (for the forward task's own record also SUCCESSFULLY_ENQUEUED). */
#define OP_INIT(op, e, t) do { (op)->type = (char)(t); (op)->elem = (item_type *)(e); (op)->ltask = NULL; (op)->r = NULL; (op)->status = WAIT; (op)->next = NULL; } while (0)
size_t g_execs; bool g_exec_any; int g_exec_type; void *g_exec_r; item_type *g_exec_elem; int g_exec_status; size_t g_rempred;
static void AGG_execute(struct item_buffer *self, buffer_operation *op) {
    OBLIGATION(op->status == WAIT && op->ltask == NULL, "C14.buffer: a record handed to the aggregator is fresh (status WAIT, no task)");
    g_execs++; g_exec_any = true; g_exec_type = op->type; g_exec_r = op->r; g_exec_elem = op->elem;
    op->status = nondet_bool() ? SUCCEEDED : FAILED; g_exec_status = op->status;
    int k = nondet_int();
    if (k == 1) { op->ltask = &T_real; g_made++; } else if (k == 2 && op->type == try_fwd_task) op->ltask = SUCCESSFULLY_ENQUEUED; else op->ltask = NULL;
}
static void STUB_remove_predecessor(struct item_buffer *self, void *r) { g_rempred++; }
#define LOOP_bnft_1 __CPROVER_assigns(op_data.status, op_data.ltask, last_task, g_made, g_spawned, g_execs, g_exec_any, g_exec_type, g_exec_r, g_exec_elem, g_exec_status) \
  __CPROVER_loop_invariant(TASK3(last_task) && g_made == g_spawned + (last_task == &T_real ? 1 : 0) && op_data.type == try_fwd_task && (!g_exec_any || g_exec_status == SUCCEEDED))
#include "buffer_node_api.inc"
int IN_api;
void h_bn_api(void) {
    struct item_buffer b; int dummy; item_type v = nondet_int(); g_made = g_spawned = g_execs = g_rempred = 0; g_exec_r = NULL; g_exec_elem = NULL; g_exec_type = -1;
    int api = IN_api = nondet_int(); __CPROVER_assume(api >= 0 && api <= 6);
    bool ret = true; graph_task *rt = NULL; int want;
    switch (api) {
    case 0: ret = bn_register_successor(&b, &dummy); want = reg_succ; break;
    case 1: ret = bn_remove_successor(&b, &dummy); want = rem_succ; break;
    case 2: ret = bn_try_get(&b, &v); want = req_item; break;
    case 3: ret = bn_try_reserve(&b, &v); want = res_item; break;
    case 4: ret = bn_try_release(&b); want = rel_res; break;
    case 5: ret = bn_try_consume(&b); want = con_res; break;
    default: rt = bn_try_put_task_impl(&b, &v); want = put_item; break;
    }
    OBLIGATION(g_execs == 1 && g_exec_type == want, "C14.buffer: each entry point issues exactly one operation of its own kind");
    OBLIGATION((api == 0 || api == 1) ? g_exec_r == &dummy : (api == 2 || api == 3 || api == 6) ? g_exec_elem == &v : true, "C14.buffer: the operation carries the caller's successor / item");
    OBLIGATION(TASK3(rt) && g_made == g_spawned + (rt == &T_real ? 1 : 0), "C14.buffer: the task the handler left in the operation record (a forwarder) is spawned or returned to the caller - never dropped, never both");
    if (api == 2 || api == 3) OBLIGATION(ret == (g_exec_status == SUCCEEDED), "C14.buffer: try_get / try_reserve report success iff the operation succeeded");
    else if (api != 6) OBLIGATION(ret, "C14.buffer: the call reports completion");
    if (api == 6) OBLIGATION((rt != NULL) == (g_exec_status == SUCCEEDED), "C14.buffer: try_put_task reports the message as accepted iff the node stored it (a message that was not stored is reported as rejected)");
    VACUITY_END();
}
void h_bn_forward_task(void) {
    struct item_buffer b; g_made = g_spawned = g_execs = 0; g_exec_any = false; g_exec_status = WAIT;
    graph_task *rt = bn_forward_task(&b);
    OBLIGATION(g_exec_any && g_exec_type == try_fwd_task && g_exec_status == FAILED, "C14.buffer: the forward task keeps issuing try_fwd_task operations until one fails (which is when the handler cleared forwarder_busy)");
    OBLIGATION(TASK3(rt) && g_made == g_spawned + (rt == &T_real ? 1 : 0), "C14.buffer: every task obtained while forwarding is spawned or returned - none dropped, none twice");
    VACUITY_END();
}
#endif
#ifndef OPK
#define OPK 0
#endif
void h_bn_op(void) { bn_one_operation(OPK, false); VACUITY_END(); }
void h_bn_pop_reserved(void) { bn_one_operation(req_item, true); VACUITY_END(); }
#endif
#ifdef SC
/* successor caches: broadcast_cache / round_robin_cache::try_put_task_impl.  The std::list of successors is viewed positionally: the n successors present on
   entry are 0..n-1 in list order, an iterator is a position, erase(i) yields i+1.  All facts are about ONE arbitrary successor g_k (ghost index). */
typedef int item_type;
typedef struct graph_task { int d; } graph_task;
typedef struct graph { int d; } graph;
static graph_task T_enq, T_real; static graph G;
#define SUCCESSFULLY_ENQUEUED (&T_enq)
struct task_pair { graph_task *first, *second; };
struct cache { int d; };
size_t g_n, g_k;                                   /* number of successors in the list on entry; the arbitrary successor */
size_t g_off_k, g_acc_k, g_rp_k; bool g_rp_res_k, g_erased_k;   /* how often g_k was offered the message / accepted it / was asked to become a pull edge, the answer, erased from the list */
size_t g_accepts, g_first_acc, g_made, g_spawned; const item_type *g_msg;
#define TASK3(t) ((t) == NULL || (t) == &T_enq || (t) == &T_real)
static graph *STUB_graph(void) { return &G; }
static struct task_pair STUB_order_tasks(graph_task *l, graph_task *r) { struct task_pair p; if (nondet_bool()) { p.first = l; p.second = r; } else { p.first = r; p.second = l; } return p; }
static void STUB_spawn(graph_task *t) { OBLIGATION(t == &T_real, "C14.cache: only real tasks are spawned (never NULL or the SUCCESSFULLY_ENQUEUED sentinel)"); g_spawned++; }
static size_t LIST_begin(struct cache *self) { return 0; }
static size_t LIST_end(struct cache *self) { return g_n; }
static graph_task *SUCC_try_put_task(struct cache *self, size_t i, const item_type *t) {
    OBLIGATION(i < g_n, "C14.cache: the iterator that is dereferenced points into the list");
    OBLIGATION(t == g_msg, "C14.cache: what is offered is the message that was put");
    if (i == g_k) { OBLIGATION(!g_erased_k, "C14.cache: a successor that was dropped from the list is not offered the message"); g_off_k++; }
    if (nondet_bool()) return NULL;
    if (g_accepts == 0) g_first_acc = i;
    g_accepts++; if (i == g_k) g_acc_k++;
    if (nondet_bool()) return SUCCESSFULLY_ENQUEUED;
    g_made++; return &T_real;
}
static bool SUCC_register_predecessor(struct cache *self, size_t i) {
    OBLIGATION(i < g_n, "C14.cache: the iterator that is dereferenced points into the list");
    bool r = nondet_bool();
    if (i == g_k) { OBLIGATION(g_off_k >= 1 && g_acc_k == 0, "C14.cache: an edge is switched to pull mode only after its successor rejected the message"); g_rp_k++; g_rp_res_k = r; }
    return r;
}
static size_t LIST_erase(struct cache *self, size_t i) {
    OBLIGATION(i < g_n, "C14.cache: the iterator that is erased points into the list");
    if (i == g_k) { OBLIGATION(!g_erased_k, "C14.cache: a successor is erased at most once"); g_erased_k = true; }
    return i + 1;
}
/* successor g_k after it has been passed: offered once; accepted -> stays a push successor, untouched; rejected -> asked once to become a pull edge, dropped iff it agreed */
#define K_DONE (g_off_k == 1 && g_acc_k <= 1 && (g_acc_k == 1 ? (g_rp_k == 0 && !g_erased_k) : (g_rp_k == 1 && g_erased_k == g_rp_res_k)))
#define K_REJECTED (g_off_k == 1 && g_acc_k == 0 && g_rp_k == 1 && g_erased_k == g_rp_res_k)
#define K_UNTOUCHED (g_off_k == 0 && g_acc_k == 0 && g_rp_k == 0 && !g_erased_k)
#define LOOP_bcput_1 __CPROVER_assigns(i, last_task, g_off_k, g_acc_k, g_rp_k, g_rp_res_k, g_erased_k, g_accepts, g_first_acc, g_made, g_spawned) \
  __CPROVER_loop_invariant(i <= g_n && g_accepts <= i && TASK3(last_task) && ((last_task != NULL) == (g_accepts > 0)) && g_made == g_spawned + (last_task == &T_real ? 1 : 0) \
     && (g_k < i ? K_DONE : K_UNTOUCHED)) __CPROVER_decreases(g_n - i)
#define LOOP_rrput_1 __CPROVER_assigns(i, g_off_k, g_acc_k, g_rp_k, g_rp_res_k, g_erased_k, g_accepts, g_first_acc, g_made, g_spawned) \
  __CPROVER_loop_invariant(i <= g_n && g_accepts == 0 && g_made == 0 && g_spawned == 0 && (g_k < i ? K_REJECTED : K_UNTOUCHED)) __CPROVER_decreases(g_n - i)
#include "succ_cache.inc"
static void sc_init(void) {
    g_n = nondet_size_t(); g_k = nondet_size_t(); __CPROVER_assume(g_n <= ((size_t)1 << 16) && g_k < g_n);
    g_off_k = g_acc_k = g_rp_k = 0; g_rp_res_k = false; g_erased_k = false; g_accepts = g_made = g_spawned = 0; g_first_acc = 0;
}
void h_bc_put(void) {
    struct cache c; item_type msg = nondet_int(); g_msg = &msg; sc_init();
    graph_task *ret = bc_try_put_task_impl(&c, &msg);
    OBLIGATION(g_off_k == 1, "C14.cache: a broadcast offers the message exactly once to every successor");
    OBLIGATION(g_acc_k == 1 ? (g_rp_k == 0 && !g_erased_k) : (g_rp_k == 1 && g_erased_k == g_rp_res_k), "C14.cache: a successor that accepted stays a push successor; one that rejected is asked exactly once to become a pull edge and is dropped from the list iff it agreed");
    OBLIGATION(TASK3(ret) && (ret != NULL) == (g_accepts > 0) && g_made == g_spawned + (ret == &T_real ? 1 : 0), "C14.cache: every task returned by an accepting successor is spawned or returned - none dropped, none twice; NULL is returned only when every successor rejected");
    VACUITY_END();
}
void h_rr_put(void) {
    struct cache c; item_type msg = nondet_int(); g_msg = &msg; sc_init();
    graph_task *ret = rr_try_put_task_impl(&c, &msg);
    OBLIGATION(g_accepts <= 1 && (ret != NULL) == (g_accepts == 1), "C14.cache: the message is handed to at most one successor, and the call reports acceptance iff one took it");
    OBLIGATION(g_spawned == 0 && (ret == &T_real ? g_made == 1 : (g_made == 0 && (ret == NULL || ret == SUCCESSFULLY_ENQUEUED))), "C14.cache: the acceptor's task is what is returned");
    if (ret != NULL) {
        OBLIGATION(g_first_acc < g_n, "C14.cache: the acceptor is a successor of the list");
        OBLIGATION(g_k < g_first_acc ? K_REJECTED : g_k == g_first_acc ? (g_off_k == 1 && g_acc_k == 1 && g_rp_k == 0 && !g_erased_k) : K_UNTOUCHED,
                   "C14.cache: successors are tried in turn until one accepts: everyone before the acceptor was offered once, rejected and was switched to pull mode iff it agreed; the acceptor stays; nobody after it is touched");
    } else
        OBLIGATION(K_REJECTED, "C14.cache: a put is reported as rejected only after every successor was offered the message once and rejected it");
    VACUITY_END();
}
#endif
#ifdef PC
/* pull side: predecessor_cache::get_item_impl, reservable_predecessor_cache::try_reserve_impl / try_release / try_consume.  The std::queue of predecessors
   is viewed positionally: the n predecessors queued on entry are 0..n-1 in queue order (handles &g_preds[i]); internal_pop takes position g_qh; add()
   appends behind.  All facts are about ONE arbitrary predecessor g_k.  One call in isolation (no concurrent add/remove on the same cache). */
typedef int item_type;
typedef struct pred { int d; } predecessor_type;
struct pcache { predecessor_type *reserved_src; };
#define ATOMIC_LOAD(x) (x)
#define ATOMIC_STORE(x, v) ((x) = (v))
predecessor_type *g_preds; size_t g_n, g_k, g_qh, g_adds; predecessor_type *g_last_added;
size_t g_pop_k, g_ask_k, g_gave_k, g_flip_k, g_add_k, g_succ, g_giver; item_type g_given; size_t g_rel_calls, g_con_calls; predecessor_type *g_rel_on;
#define IDX(p) ((size_t)((p) - g_preds))
static bool Q_empty(struct pcache *self) { return g_qh == g_n + g_adds; }
static predecessor_type *Q_pop(struct pcache *self) {
    OBLIGATION(g_qh < g_n + g_adds, "C14.pull: nothing is popped from an empty predecessor queue");
    size_t pos = g_qh++; if (pos >= g_n) return g_last_added;
    if (pos == g_k) g_pop_k++;
    return &g_preds[pos];
}
static void Q_add(struct pcache *self, predecessor_type *p) { OBLIGATION(p != NULL && IDX(p) < g_n, "C14.pull: what is put back is a predecessor"); g_adds++; g_last_added = p; if (IDX(p) == g_k) g_add_k++; }
static bool pred_ask(predecessor_type *p, item_type *v) {
    OBLIGATION(p != NULL && IDX(p) < g_n, "C14.pull: only predecessors taken from the cache are asked");
    if (IDX(p) == g_k) g_ask_k++;
    if (nondet_bool()) return false;
    g_given = nondet_int(); *v = g_given; g_succ++; g_giver = IDX(p); if (IDX(p) == g_k) g_gave_k++;
    return true;
}
static bool PRED_try_get(struct pcache *self, predecessor_type *p, item_type *v) { return pred_ask(p, v); }
static bool PRED_try_reserve(struct pcache *self, predecessor_type *p, item_type *v) {
    OBLIGATION(self->reserved_src == p, "C14.pull: while a predecessor is asked for a reservation it is recorded as the reserved source (no second reservation can start)");
    return pred_ask(p, v);
}
static void PRED_register_successor(struct pcache *self, predecessor_type *p) {
    OBLIGATION(p != NULL && IDX(p) < g_n, "C14.pull: the edge that is flipped belongs to a predecessor taken from the cache");
    if (IDX(p) == g_k) { OBLIGATION(g_ask_k >= 1 && g_gave_k == 0, "C14.pull: an edge is flipped back to push mode only after its predecessor had nothing"); g_flip_k++; }
}
static void PRED_try_release(struct pcache *self, predecessor_type *p) { g_rel_calls++; g_rel_on = p; }
static void PRED_try_consume(struct pcache *self, predecessor_type *p) { g_con_calls++; g_rel_on = p; }
#define K_FAILED (g_pop_k == 1 && g_ask_k == 1 && g_gave_k == 0 && g_flip_k == 1 && g_add_k == 0)
#define K_GAVE (g_pop_k == 1 && g_ask_k == 1 && g_gave_k == 1 && g_flip_k == 0 && g_add_k == 1)
#define K_UNTOUCHED (g_pop_k == 0 && g_ask_k == 0 && g_gave_k == 0 && g_flip_k == 0 && g_add_k == 0)
predecessor_type *g_rs0;
#define LOOP_pcget_1 __CPROVER_assigns(successful_get, *v, g_qh, g_adds, g_last_added, g_pop_k, g_ask_k, g_gave_k, g_flip_k, g_add_k, g_succ, g_giver, g_given) \
  __CPROVER_loop_invariant(g_qh <= g_n && g_adds == 0 && g_succ == 0 && successful_get == false && (g_k < g_qh ? K_FAILED : K_UNTOUCHED)) __CPROVER_decreases(g_n - g_qh)
#define LOOP_rcres_1 __CPROVER_assigns(successful_reserve, *v, self->reserved_src, g_qh, g_adds, g_last_added, g_pop_k, g_ask_k, g_gave_k, g_flip_k, g_add_k, g_succ, g_giver, g_given) \
  __CPROVER_loop_invariant(g_qh <= g_n && g_adds == 0 && g_succ == 0 && successful_reserve == false && (g_k < g_qh ? K_FAILED : K_UNTOUCHED) \
     && self->reserved_src == (g_qh == 0 ? g_rs0 : NULL)) __CPROVER_decreases(g_n - g_qh)
#include "pred_cache.inc"
static void pc_init(struct pcache *c) {
    g_n = nondet_size_t(); g_k = nondet_size_t(); __CPROVER_assume(g_n >= 1 && g_n <= ((size_t)1 << 12) && g_k < g_n);
    g_preds = malloc(g_n * sizeof(predecessor_type)); __CPROVER_assume(g_preds != NULL);
    g_qh = g_adds = 0; g_last_added = NULL; g_pop_k = g_ask_k = g_gave_k = g_flip_k = g_add_k = g_succ = g_giver = 0; g_rel_calls = g_con_calls = 0; g_rel_on = NULL;
    c->reserved_src = NULL;
}
static void pull_post(bool ok, item_type v) {
    OBLIGATION(g_succ <= 1 && ok == (g_succ == 1), "C14.pull: at most one predecessor hands over an item per request, and the request succeeds iff one did");
    OBLIGATION(!ok || v == g_given, "C14.pull: the item handed on is the one the predecessor gave (exactly once)");
    OBLIGATION(g_ask_k <= 1, "C14.pull: a predecessor is asked at most once per request");
    if (ok) OBLIGATION(g_giver < g_n && (g_k < g_giver ? K_FAILED : g_k == g_giver ? K_GAVE : K_UNTOUCHED),
                       "C14.pull: predecessors are asked in turn: each one that had nothing is dropped from the cache and its edge flipped back to push mode exactly once; the one that gave the item is kept (put back once); nobody behind it is touched");
    else OBLIGATION(K_FAILED, "C14.pull: the request fails only after every cached predecessor was asked, had nothing and was flipped back to push mode exactly once");
}
void h_pc_get(void) {
    struct pcache c; pc_init(&c); item_type v = 0;
    bool ok = pc_get_item_impl(&c, &v);
    pull_post(ok, v);
    VACUITY_END();
}
void h_rc_reserve(void) {
    struct pcache c; pc_init(&c); item_type v = 0;
    if (nondet_bool()) { size_t r = nondet_size_t(); __CPROVER_assume(r < g_n); c.reserved_src = &g_preds[r]; }
    g_rs0 = c.reserved_src;
    bool ok = rc_try_reserve_impl(&c, &v);
    if (g_rs0 != NULL) {
        OBLIGATION(!ok && c.reserved_src == g_rs0 && g_qh == 0 && K_UNTOUCHED && g_succ == 0, "C14.pull: while a reservation is open a second try_reserve fails and touches nothing");
    } else {
        pull_post(ok, v);
        OBLIGATION(ok ? (c.reserved_src == &g_preds[g_giver]) : c.reserved_src == NULL, "C14.pull: after a granted reservation the granting predecessor is the recorded source; after a failed one no source is recorded");
    }
    VACUITY_END();
}
void h_rc_release_consume(void) {
    struct pcache c; pc_init(&c); size_t r = nondet_size_t(); __CPROVER_assume(r < g_n); c.reserved_src = &g_preds[r];   /* the caller holds a reservation */
    bool rel = nondet_bool();
    if (rel) rc_try_release(&c); else rc_try_consume(&c);
    OBLIGATION(g_rel_calls == (rel ? 1 : 0) && g_con_calls == (rel ? 0 : 1) && g_rel_on == &g_preds[r], "C14.pull: release / consume is forwarded exactly once, to the predecessor that granted the reservation");
    OBLIGATION(c.reserved_src == NULL, "C14.pull: release / consume closes the reservation");
    VACUITY_END();
}
#endif
#ifdef WT
/* every graph task holds one reference on the graph's wait tree from construction until after it is destroyed; reserve_wait / release_wait are one reference each */
typedef struct vertex { int d; } vertex;
typedef struct graph { vertex my_wait_context_vertex; } graph;
typedef struct graph_task { graph *my_graph; int priority; vertex *my_reference_vertex; } graph_task;
static graph_task T_enq, T_next;
#define SUCCESSFULLY_ENQUEUED (&T_enq)
static vertex V_thread;                 /* the calling thread's reference vertex for this graph's wait context */
bool g_in_arena; size_t g_res, g_rel, g_destroyed, g_tlv_calls; vertex *g_res_on, *g_rel_on, *g_tlv_parent; bool g_rel_after_destroy;
static vertex *GRAPH_wait_vertex(graph *g) { return &g->my_wait_context_vertex; }
static bool STUB_is_this_thread_in_graph_arena(graph *g) { return g_in_arena; }
static vertex *STUB_get_thread_reference_vertex(vertex *top) { g_tlv_calls++; g_tlv_parent = top; return &V_thread; }
static void VERTEX_reserve(vertex *v) { g_res++; g_res_on = v; }
static void VERTEX_release(vertex *v) { g_rel++; g_rel_on = v; g_rel_after_destroy = g_destroyed == 1; }
static void STUB_destruct_and_deallocate(graph_task *t) { g_destroyed++; t->my_reference_vertex = NULL; t->my_graph = NULL; }   /* the object is gone: its fields are dead */
static graph_task *NODE_forward_task(graph_task *self) { OBLIGATION(g_destroyed == 0 && g_rel == 0, "C14.wait: the task's body runs while the task still holds its reference"); if (nondet_bool()) return NULL; return nondet_bool() ? SUCCESSFULLY_ENQUEUED : &T_next; }
static graph_task *STUB_prioritize_task(graph_task *t) { return t; }
#include "graph_wait.inc"
void h_task_life(void) {
    graph g; graph_task t; g_in_arena = nondet_bool(); g_res = g_rel = g_destroyed = g_tlv_calls = 0; g_res_on = g_rel_on = g_tlv_parent = NULL; g_rel_after_destroy = false;
    graph_task_ctor(&t, &g, nondet_int());
    OBLIGATION(g_res == 1 && g_rel == 0 && g_res_on == t.my_reference_vertex, "C14.wait: constructing a graph task takes exactly one reference, on the vertex the task remembers");
    OBLIGATION(g_res_on == &g.my_wait_context_vertex || (g_res_on == &V_thread && g_tlv_calls >= 1 && g_tlv_parent == &g.my_wait_context_vertex),
               "C14.wait: the reference is taken on this graph's wait vertex, directly or through the calling thread's reference vertex whose parent is this graph's wait vertex");
    vertex *held = g_res_on;
    graph_task *next;
    if (nondet_bool()) next = fwd_task_execute(&t); else { next = fwd_task_cancel(&t); OBLIGATION(next == NULL, "C14.wait: a cancelled forward task starts nothing"); }
    OBLIGATION(g_rel == 1 && g_rel_on == held && g_res == 1, "C14.wait: executing or cancelling the task gives back exactly the one reference it took, on the same vertex");
    OBLIGATION(g_destroyed == 1 && g_rel_after_destroy, "C14.wait: the reference is given back only after the task object is destroyed (nothing of the task is live once wait_for_all may return)");
    OBLIGATION(next != SUCCESSFULLY_ENQUEUED, "C14.wait: the SUCCESSFULLY_ENQUEUED sentinel is never handed to the scheduler as the next task");
    VACUITY_END();
}
void h_reserve_release_wait(void) {
    graph g; g_res = g_rel = 0; g_res_on = g_rel_on = NULL;
    if (nondet_bool()) { graph_reserve_wait(&g); OBLIGATION(g_res == 1 && g_rel == 0 && g_res_on == &g.my_wait_context_vertex, "C14.wait: reserve_wait takes exactly one reference on the graph's wait vertex"); }
    else { graph_release_wait(&g); OBLIGATION(g_rel == 1 && g_res == 0 && g_rel_on == &g.my_wait_context_vertex, "C14.wait: release_wait gives back exactly one reference on the graph's wait vertex"); }
    VACUITY_END();
}
#endif
#ifdef RV
/* reference_vertex (the per-thread child of the graph's wait vertex): rely/guarantee on m_ref_count.
   Ghost census: R = references (units) whose reserve() has completed and that are not yet released; UA = units added by a reserve() that saw 0 and has not
   yet reserved the parent (A = number of such calls); B = release() calls that brought the count to 0 and have not yet released the parent;
   P = references this vertex holds on its parent = completed PARENT_reserve - completed PARENT_release.
   INV: count == R + UA, A <= 1 (only the owning thread reserves), A == 1 => R == 0 and UA >= 1, A == 0 => UA == 0, P + A - B == (count > 0), and therefore
   R > 0 => P >= 1 : while a completed child reference is outstanding the parent (the graph's wait context) cannot drop to zero on this vertex's account. */
typedef struct wtv { int d; } wait_tree_vertex_interface;
#define LIM ((uint64_t)1 << 62)
uint64_t R, UA, A_o, B_o, P; int my_a, my_b; uint64_t my_ua, my_units; bool i_am_owner;
#define A_ (A_o + (uint64_t)my_a)
#define B_ (B_o + (uint64_t)my_b)
#define INV(c) ((c) == R + UA && (c) < LIM && R < LIM && UA < LIM && B_o < LIM && P < LIM && A_ <= 1 && (A_ == 1 ? (R == 0 && UA >= 1) : UA == 0) && P + A_ == B_ + ((c) > 0 ? 1 : 0) && (R == 0 || P >= 1))
#include "refvertex_struct.inc"
static struct refv *SELF;
static void interfere(void) {
    /* any number of steps of other threads: everything shared is havocked, constrained by the invariant and by what this thread still contributes */
    SELF->m_ref_count = nondet_u64(); R = nondet_u64(); UA = nondet_u64(); A_o = nondet_u64(); B_o = nondet_u64(); P = nondet_u64();
    __CPROVER_assume(INV(SELF->m_ref_count));
    __CPROVER_assume(R >= my_units);                          /* the units this thread holds are still counted */
    __CPROVER_assume(my_a == 0 || UA == my_ua);               /* my in-flight units are the in-flight units (A <= 1) */
    if (i_am_owner) __CPROVER_assume(A_o == 0);               /* rely: only the owning thread calls reserve() on its reference vertex */
}
#define ATOMIC_FETCH_ADD_AT(site, f, d) ({ interfere(); uint64_t old_ = (f); __CPROVER_assume(old_ + (d) < LIM && R + (d) < LIM && UA + (d) < LIM); /* stated bound: counters stay below 2^62 */ (f) = old_ + (d); GHOST_##site(old_, d); __CPROVER_assert(INV(f), "C14.wait guarantee: the census invariant of the reference vertex holds after " #site); old_; })
#define ATOMIC_FETCH_SUB_AT(site, f, d) ({ interfere(); uint64_t old_ = (f); (f) = old_ - (d); GHOST_##site(old_, d); __CPROVER_assert(INV(f), "C14.wait guarantee: the census invariant of the reference vertex holds after " #site); old_; })
#define GHOST_reserve_FETCH_ADD_1(old, d) do { if ((old) == 0) { my_a = 1; my_ua = (d); UA += (d); } else { R += (d); my_units += (d); } } while (0)
#define GHOST_release_FETCH_SUB_1(old, d) do { R -= (d); my_units -= (d); if ((old) - (d) == 0) my_b = 1; } while (0)
size_t g_pres, g_prel;
static void PARENT_reserve(wait_tree_vertex_interface *p) {
    interfere(); g_pres++;
    OBLIGATION(my_a == 1, "C14.wait: the parent is reserved only by the reserve() call that found the child count at zero");
    __CPROVER_assume(P + 1 < LIM && R + my_ua < LIM); P++; my_a = 0; UA -= my_ua; R += my_ua; my_units += my_ua; my_ua = 0;
    __CPROVER_assert(INV(SELF->m_ref_count), "C14.wait guarantee: the census invariant holds after the parent was reserved");
}
static void PARENT_release(wait_tree_vertex_interface *p) {
    interfere(); g_prel++;
    OBLIGATION(my_b == 1, "C14.wait: the parent is released only by the release() call that brought the child count to zero");
    OBLIGATION(P >= 1, "C14.wait: the parent is never released more often than it was reserved");
    P--; my_b = 0;
    __CPROVER_assert(INV(SELF->m_ref_count), "C14.wait guarantee: the census invariant holds after the parent was released");
}
#include "refvertex.inc"
static void rv_init(struct refv *v) { static wait_tree_vertex_interface parent; SELF = v; v->my_parent = &parent; my_a = my_b = 0; my_ua = 0; g_pres = g_prel = 0; my_units = nondet_u64(); __CPROVER_assume(my_units < LIM); }
void h_refv_reserve(void) {
    struct refv v; rv_init(&v); i_am_owner = true; uint32_t delta = nondet_u32(); __CPROVER_assume(delta >= 1);
    uint64_t u0 = my_units;
    refv_reserve(&v, delta);
    interfere();
    OBLIGATION(my_a == 0 && my_units == u0 + delta, "C14.wait: when reserve() returns the new references are fully counted");
    OBLIGATION(P >= 1, "C14.wait: once reserve() has returned, and for as long as the reference is held, the vertex holds a reference on its parent (the graph's wait context cannot reach zero)");
    OBLIGATION(g_pres <= 1 && g_prel == 0, "C14.wait: reserve() reserves the parent at most once and never releases it");
    VACUITY_END();
}
void h_refv_release(void) {
    struct refv v; rv_init(&v); i_am_owner = nondet_bool(); uint32_t delta = nondet_u32(); __CPROVER_assume(delta >= 1 && delta <= my_units);   /* the caller gives back references it holds */
    uint64_t u0 = my_units;
    refv_release(&v, delta);
    interfere();
    OBLIGATION(my_b == 0 && my_units == u0 - delta, "C14.wait: when release() returns exactly the given references are gone and a parent release it owed has been made");
    OBLIGATION(g_prel <= 1 && g_pres == 0, "C14.wait: release() releases the parent at most once and never reserves it");
    OBLIGATION(my_units == 0 || P >= 1, "C14.wait: while this thread still holds references of the vertex the parent stays reserved");
    VACUITY_END();
}
#endif
