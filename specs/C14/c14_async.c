/* C14 harnesses, part 2: async_node.  ONE flattened C object `struct async_node` stands for the whole inheritance chain
   graph_node + function_input_base + multifunction_input + multifunction_node + async_node; the two multifunction_body_leaf<.., async_body<..>> objects
   (my_body, my_init_body) are separate heap objects as in the library; every function is the extracted one (async_node.inc).
   Sections: ASYNC = constructors, copy constructor, reset path, body invocation, gateway reserve/release_wait;  ASYNCPUT = gateway try_put -> try_put_impl ->
   broadcast_cache::gather_successful_try_puts (loop contracts, ghost successor g_k). */
#include "verif.h"
#include <stdlib.h>
#if defined(ASYNC) || defined(ASYNCPUT)
typedef int input_type;
typedef int output_type;
typedef struct user_body { int id; } Body;                      /* the user's functor (copy constructible) */
typedef struct vertex { int d; } vertex;
typedef struct graph { vertex my_wait_context_vertex; } graph;
typedef struct graph_task { int d; } graph_task;
static graph_task T_enq, T_post, T_other;
#define SUCCESSFULLY_ENQUEUED (&T_enq)
struct async_node;
struct gateway_impl { struct async_node *my_node; };            /* async_node::receiver_gateway_impl */
struct abody { struct gateway_impl *my_gateway; Body my_body; }; /* async_body<..> : async_body_base<Gateway> */
typedef struct abody async_body_base_type;
struct mfleaf { struct abody body; };                           /* multifunction_body_leaf<Input, Ports, async_body<..>> */
struct port;
struct cache { struct port *my_owner; };                        /* broadcast_cache<Output> of an output port (successor_cache::my_owner) */
struct port { struct cache my_successors; graph *my_graph_ref; };
struct ports { struct port p0; };                               /* std::tuple<multifunction_output<Output>> */
typedef struct graph_task_list { size_t head, tail; } graph_task_list;   /* positional view: tasks pushed so far = tail, popped so far = head */
struct async_node {
    graph *my_graph;                                                                            /* graph_node (reference member) */
    graph *my_graph_ref; size_t my_max_concurrency; size_t my_concurrency; int my_priority; bool my_is_no_throw; void *my_queue; int my_predecessors; bool forwarder_busy;   /* function_input_base */
    struct mfleaf *my_body; struct mfleaf *my_init_body; struct ports my_output_ports;          /* multifunction_input */
    struct gateway_impl my_gateway;                                                             /* async_node */
};
#include "async_node_protos.inc"
/* ---- ghost state ---- */
size_t g_news, g_deletes, g_registered, g_user_calls, g_postponed_calls, g_res, g_rel, g_queue_resets, g_recv_resets, g_port_clears;
struct mfleaf *g_deleted; struct async_node *g_reg_node; graph *g_reg_graph; struct gateway_impl *g_user_gw; int g_user_in, g_user_body; vertex *g_res_on, *g_rel_on;
bool g_policy_queueing, g_post_after_body; static int g_queue_obj; struct async_node *g_free_on_release;
/* ---- constructor plumbing: base-class / member constructor calls of the init lists (INIT_<class>_<item>) ---- */
#define INIT_abody_base_type(self, gw) async_body_base_ctor(self, gw)
#define INIT_abody_my_body(self, b) ((self)->my_body = *(b))                 /* Body's copy constructor */
#define INIT_mfleaf_body(self, b) ((self)->body = *(b))                      /* async_body's implicit copy constructor: memberwise (gateway pointer + functor) */
#define POLICY_QUEUE_OR_NULL (g_policy_queueing ? (void *)&g_queue_obj : NULL)
#define INIT_fib_my_queue(self, q) ((self)->my_queue = (q))
#define INIT_fib_my_predecessors(self, owner) ((self)->my_predecessors = 0)
#define INIT_fib_copy_function_input_base(self, g, mc, pr, nt) fib_ctor(self, g, mc, pr, nt)
#define NOEXCEPT_OF_BODY g_policy_queueing                                   /* a compile-time constant of the instantiation; any value */
#define PORTS_INIT_CALL(g, typecarrier) (g)
#define INIT_port_my_successors(self, owner) broadcast_cache_ctor(&(self)->my_successors, owner)
#define INIT_bcache_base_type(self, owner) successor_cache_ctor(self, owner)
#define INIT_mfport_base_type(self, g) function_output_ctor(self, g)
#define INIT_mfport_copy_base_type(self, g) function_output_ctor(self, g)
/* init_output_ports::call = `OutputTuple(Args(g)...)`: std::tuple's element-wise constructor copy-constructs every element from a temporary Args(g), which then dies
   (the tuple itself is constructed in place in my_output_ports: guaranteed copy elision) */
static void ports_ctor(struct ports *p, graph *g) {
    struct port *tmp = malloc(sizeof(*tmp)); __CPROVER_assume(tmp != NULL);
    multifunction_output_ctor(tmp, g); multifunction_output_copy_ctor(&p->p0, tmp); free(tmp);
}
#define INIT_mfinput_base_type(self, g, mc, pr, nt) fib_ctor(self, g, mc, pr, nt)
#define INIT_mfinput_my_output_ports(self, g) ports_ctor(&(self)->my_output_ports, g)
#define INIT_mfinput_copy_base_type(self, src) fib_copy_ctor(self, src)
#define INIT_mfinput_copy_my_output_ports(self, g) ports_ctor(&(self)->my_output_ports, g)
#define INIT_mfnode_graph_node(self, g) graph_node_ctor(self, g)
#define INIT_mfnode_input_impl_type(self, g, c, b, p) mfinput_ctor(self, g, c, &(b), p)
#define INIT_mfnode_copy_graph_node(self, g) graph_node_ctor(self, g)
#define INIT_mfnode_copy_input_impl_type(self, other) mfinput_copy_ctor(self, other)
#define INIT_async_node_base_type(self, g, c, b, p) mfnode_ctor(self, g, c, b, p)
#define INIT_async_node_my_gateway(self, n) gateway_impl_ctor(&(self)->my_gateway, n)
#define INIT_async_node_copy_base_type(self, o) mfnode_copy_ctor(self, o)
#define INIT_async_node_copy_sender(self) RG_NOP()
#define INIT_async_node_copy_my_gateway(self, n) gateway_impl_ctor(&(self)->my_gateway, n)
/* ---- virtual calls on multifunction_body: the only implementer is multifunction_body_leaf ---- */
#define MFBODY_call(p, i, ports) mfleaf_call(p, i, ports)
#define MFBODY_clone(p) mfleaf_clone(p)
#define MFBODY_get_body_ptr(p) mfleaf_get_body_ptr(p)
#define INVOKE_leaf_body(b, in, os) async_body_call(b, in, os)               /* tbb::detail::invoke(B, input, ports) = B::operator() */
#define INVOKE_user_body(b, v, gw) USER_BODY_invoke(b, v, gw)
static struct mfleaf *NEW_mfleaf(struct abody *b) { struct mfleaf *p = malloc(sizeof(*p)); __CPROVER_assume(p != NULL); g_news++; mfleaf_ctor(p, b); return p; }
static void DELETE_mfbody(struct mfleaf *p) { g_deletes++; g_deleted = p; free(p); }
static void USER_BODY_invoke(Body *b, input_type *v, struct gateway_impl *gw) { g_user_calls++; g_user_body = b->id; g_user_in = *v; g_user_gw = gw; }
static void STUB_initialize_handler(struct async_node *n) {}
static void STUB_register_node(graph *g, struct async_node *n) { g_registered++; g_reg_graph = g; g_reg_node = n; }
static void STUB_queue_reset(void *q) { g_queue_resets++; }
static void STUB_reset_receiver(struct async_node *n, int f) { g_recv_resets++; }
static void STUB_clear_ports(struct ports *p) { g_port_clears++; }
static bool STUB_ports_empty(struct ports *p) { return true; }
static graph_task *STUB_try_get_postponed_task(struct async_node *n, input_type *i) { g_postponed_calls++; g_post_after_body = g_user_calls == 1; return nondet_bool() ? NULL : &T_post; }
static void VERTEX_reserve(vertex *v) { g_res++; g_res_on = v; }
/* once the reference is given back wait_for_all may return and the node may be destroyed by its owner */
static void VERTEX_release(vertex *v) { g_rel++; g_rel_on = v; if (g_free_on_release != NULL) { free(g_free_on_release->my_body); free(g_free_on_release->my_init_body); free(g_free_on_release); } }
#define OUTPUT_PORT_0(n) (&(n)->my_output_ports.p0)                          /* output_port<0>(*this) = std::get<0>(output_ports()) */
#define PORT_successors(p) (&(p)->my_successors)                             /* function_output::successors() */
static graph G;
#define BODY_OK(n, b) ((b) != NULL && (b)->body.my_gateway == &(n)->my_gateway)
/* the invariant under proof: both bodies of the node carry the gateway of THIS node, which names this node */
#define AINV(n) (BODY_OK(n, (n)->my_body) && BODY_OK(n, (n)->my_init_body) && (n)->my_gateway.my_node == (n))
#endif
#ifdef ASYNC
static void LIST_ctor(graph_task_list *l) {} static bool LIST_empty(graph_task_list *l) { return true; } static graph_task *LIST_pop_front(graph_task_list *l) { return &T_other; }
static void LIST_push_back(graph_task_list *l, graph_task *t) {}
static size_t LIST_begin(struct cache *c) { return 0; } static size_t LIST_end(struct cache *c) { return 0; } static size_t LIST_erase(struct cache *c, size_t i) { return i + 1; }
static graph_task *SUCC_try_put_task(struct cache *c, size_t i, output_type *t) { return NULL; } static bool SUCC_register_predecessor(struct cache *c, size_t i, struct port *owner) { return false; }
static void STUB_enqueue_in_graph_arena(graph *g, graph_task *t) {}
#define LOOP_bcgather_succ
#define LOOP_antp_drain
#include "async_node.inc"
static void ghost_reset(void) {
    g_news = g_deletes = g_registered = g_user_calls = g_postponed_calls = g_res = g_rel = g_queue_resets = g_recv_resets = g_port_clears = 0;
    g_deleted = NULL; g_reg_node = NULL; g_reg_graph = NULL; g_user_gw = NULL; g_res_on = g_rel_on = NULL; g_post_after_body = false; g_free_on_release = NULL;
    g_policy_queueing = nondet_bool();
}
/* an arbitrary async_node in a state that satisfies the invariant */
static struct async_node *mk_node(void) {
    struct async_node *n = malloc(sizeof(*n)); __CPROVER_assume(n != NULL);
    n->my_body = malloc(sizeof(struct mfleaf)); n->my_init_body = malloc(sizeof(struct mfleaf)); __CPROVER_assume(n->my_body != NULL && n->my_init_body != NULL);
    n->my_graph = n->my_graph_ref = &G; n->my_output_ports.p0.my_graph_ref = &G; n->my_output_ports.p0.my_successors.my_owner = &n->my_output_ports.p0;
    n->my_queue = nondet_bool() ? (void *)&g_queue_obj : NULL;
    n->my_body->body.my_gateway = &n->my_gateway; n->my_init_body->body.my_gateway = &n->my_gateway; n->my_gateway.my_node = n;
    return n;
}
void h_async_ctor(void) {
    ghost_reset();
    struct async_node *n = malloc(sizeof(*n)); __CPROVER_assume(n != NULL);
    Body ub; ub.id = nondet_int(); size_t conc = nondet_size_t(); int prio = nondet_int();
    async_node_ctor(n, &G, conc, ub, prio);
    OBLIGATION(n->my_gateway.my_node == n, "C14.async: the gateway of a constructed async_node names this node (what is submitted through it goes to THIS node's successors)");
    OBLIGATION(BODY_OK(n, n->my_body), "C14.async: the body that a constructed async_node runs carries this node's gateway");
    OBLIGATION(BODY_OK(n, n->my_init_body), "C14.async: the initial body of a constructed async_node (the source of the body after every reset(rf_reset_bodies)) carries this node's gateway");
    OBLIGATION(n->my_body != n->my_init_body, "C14.async: the running body and the initial body are two separate objects");
    OBLIGATION(n->my_body->body.my_body.id == ub.id && n->my_init_body->body.my_body.id == ub.id, "C14.async: both bodies wrap the user's functor");
    OBLIGATION(n->my_max_concurrency == conc && n->my_concurrency == 0 && !n->forwarder_busy, "C14.node: a node constructed with concurrency limit n has limit n, no body running and no forwarder outstanding");
    OBLIGATION(n->my_graph == &G && n->my_graph_ref == &G && n->my_output_ports.p0.my_graph_ref == &G,
               "C14.async: the node, its input side and its output port belong to the graph it was constructed in (the graph whose wait context reserve_wait / release_wait use)");
    OBLIGATION(n->my_output_ports.p0.my_successors.my_owner == &n->my_output_ports.p0, "C14.async: the successor cache of the node's output port names that port of THIS node as the sender a rejecting successor is told to pull from");
    VACUITY_END();
}
void h_async_copy_ctor(void) {
    ghost_reset();
    struct async_node *o = mk_node();
    struct mfleaf *ob = o->my_body, *oib = o->my_init_body; int init_id = oib->body.my_body.id, run_id = ob->body.my_body.id; size_t lim = o->my_max_concurrency = nondet_size_t(); o->my_concurrency = nondet_size_t();
    struct async_node *c = malloc(sizeof(*c)); __CPROVER_assume(c != NULL);
    async_node_copy_ctor(c, o);
    OBLIGATION(c->my_gateway.my_node == c, "C14.async: the gateway of a copied async_node names the COPY");
    OBLIGATION(BODY_OK(c, c->my_body), "C14.async: the body that a copied async_node runs carries the COPY's gateway (what its activity submits is offered to the copy's successors and to nobody else's)");
    OBLIGATION(BODY_OK(c, c->my_init_body), "C14.async: the initial body of a copied async_node - the source of its body after every reset(rf_reset_bodies) - carries the COPY's gateway");
    OBLIGATION(o->my_body == ob && o->my_init_body == oib && AINV(o), "C14.async: copying leaves the source node's bodies and their gateway untouched");
    OBLIGATION(c->my_body != c->my_init_body && c->my_body != ob && c->my_body != oib && c->my_init_body != ob && c->my_init_body != oib && g_deletes == 0,
               "C14.async: the copy owns two body objects of its own; none is shared with the source");
    OBLIGATION((c->my_body->body.my_body.id == init_id || c->my_body->body.my_body.id == run_id) && (c->my_init_body->body.my_body.id == init_id || c->my_init_body->body.my_body.id == run_id),
               "C14.async: both bodies of the copy wrap a copy of the user's functor held by the source");
    OBLIGATION(c->my_max_concurrency == lim && c->my_concurrency == 0 && !c->forwarder_busy, "C14.node: a copied node has the source's concurrency limit, no body running and no forwarder outstanding");
    OBLIGATION(c->my_graph == &G && c->my_graph_ref == &G && c->my_output_ports.p0.my_graph_ref == &G, "C14.async: the copy, its input side and its output port belong to the source's graph");
    OBLIGATION(c->my_output_ports.p0.my_successors.my_owner == &c->my_output_ports.p0 && o->my_output_ports.p0.my_successors.my_owner == &o->my_output_ports.p0,
               "C14.async: the successor cache of the copy's output port names the COPY's port as the sender a rejecting successor is told to pull from (the source's cache keeps naming the source's port)");
    VACUITY_END();
}
int IN_flags;
void h_async_reset(void) {
    ghost_reset();
    struct async_node *n = mk_node();
    __CPROVER_assume(n->my_body != n->my_init_body);      /* established by both constructors (jobs async.ctor / async.copy_ctor) and kept by this function */
    struct mfleaf *b0 = n->my_body, *ib0 = n->my_init_body; struct abody init0 = ib0->body; int run_id = b0->body.my_body.id; size_t lim = n->my_max_concurrency;
    int f = IN_flags = nondet_int(); __CPROVER_assume(f >= 0 && f <= (rf_reset_bodies | rf_clear_edges));
    async_node_reset_node(n, f);
    OBLIGATION(AINV(n), "C14.async: after reset_node (any flags) the running body and the initial body still carry this node's gateway");
    OBLIGATION(n->my_init_body == ib0 && ib0->body.my_gateway == init0.my_gateway && ib0->body.my_body.id == init0.my_body.id, "C14.async: reset never replaces or alters the initial body");
    OBLIGATION(n->my_body != n->my_init_body, "C14.async: the running body and the initial body stay two separate objects");
    OBLIGATION(g_deletes == 0 || (g_deletes == 1 && g_deleted == b0 && n->my_body != b0), "C14.async: reset deletes nothing but a running body that it has replaced, and that at most once (the body that runs next is a live object)");
    OBLIGATION(n->my_body->body.my_body.id == init0.my_body.id || n->my_body->body.my_body.id == run_id, "C14.async: after reset the running body still wraps the user's functor");
    OBLIGATION(n->my_max_concurrency == lim && n->my_concurrency == 0, "C14.node: reset keeps the concurrency limit and starts with no body running");
    /* the body that runs next (it must be a live object) gets this node's gateway */
    input_type v = nondet_int(); g_user_calls = 0;
    (void)mfinput_apply_body_impl_bypass(n, &v);
    OBLIGATION(g_user_calls == 1 && g_user_gw == &n->my_gateway, "C14.async: the first body invocation after a reset gets this node's gateway");
    VACUITY_END();
}
void h_async_body_call(void) {
    ghost_reset();
    struct async_node *n = mk_node(); n->my_max_concurrency = nondet_size_t();
    input_type v = nondet_int(); int run_id = n->my_body->body.my_body.id, init_id = n->my_init_body->body.my_body.id;
    graph_task *r = mfinput_apply_body_impl_bypass(n, &v);
    OBLIGATION(g_user_calls == 1, "C14.async: the user's body is invoked exactly once per input");
    OBLIGATION(g_user_gw == &n->my_gateway, "C14.async: the user's body is invoked with THIS node's gateway");
    OBLIGATION(g_user_in == v && (g_user_body == run_id || g_user_body == init_id), "C14.async: the user's functor gets the input message");
    OBLIGATION(n->my_max_concurrency != 0 ? (g_postponed_calls == 1 && g_post_after_body) : g_postponed_calls == 0,
               "C14.node: a node with a concurrency limit reports the finished body exactly once, after the body has returned");
    OBLIGATION(r == SUCCESSFULLY_ENQUEUED || (r == &T_post && g_postponed_calls == 1), "C14.async: a processed input is reported as accepted (never NULL = rejected): the body task continues with the postponed input it was handed, else with nothing");
    VACUITY_END();
}
void h_async_gateway_wait(void) {
    ghost_reset();
    struct async_node *n = mk_node();
    struct gateway_impl *gw = async_node_gateway(n);
    OBLIGATION(gw == &n->my_gateway, "C14.async: gateway() hands out this node's gateway");
    vertex *want = &G.my_wait_context_vertex;
    if (nondet_bool()) {
        gateway_reserve_wait(gw);
        OBLIGATION(g_res == 1 && g_rel == 0 && g_res_on == want, "C14.async: one gateway reserve_wait takes exactly one reference on the wait context of the node's graph");
    } else {
        g_free_on_release = n;
        gateway_release_wait(gw);      /* n may be gone from here on */
        OBLIGATION(g_rel == 1 && g_res == 0 && g_rel_on == want, "C14.async: one gateway release_wait gives back exactly one reference on the wait context of the node's graph");
    }
    VACUITY_END();
}
#endif
#ifdef ASYNCPUT
/* gateway try_put: the n successors of output port 0 present on entry are 0..n-1 in list order (positional view as in section SC of c14.c); all facts are about ONE
   arbitrary successor g_k; the task that successor i returns is &g_tasks[i]; the task list is viewed positionally (g_pos_k = where g_k's task was appended). */
size_t g_n, g_k, g_off_k, g_acc_k, g_rp_k, g_accepts, g_made, g_enq, g_enq_k, g_pos_k; bool g_rp_res_k, g_erased_k, g_real_k, g_listed_k;
graph_task *g_tasks; output_type *g_msg; struct cache *g_cache; graph *g_graph; struct port *g_port0;
#define IDX(p) ((size_t)((p) - g_tasks))
static void LIST_ctor(graph_task_list *l) { l->head = 0; l->tail = 0; }
static bool LIST_empty(graph_task_list *l) { return l->head == l->tail; }
static void LIST_push_back(graph_task_list *l, graph_task *t) {
    OBLIGATION(t != NULL && t != SUCCESSFULLY_ENQUEUED && IDX(t) < g_n, "C14.async: only real tasks returned by successors are put on the task list");
    if (IDX(t) == g_k) { OBLIGATION(!g_listed_k, "C14.async: a successor's task is put on the task list at most once"); g_listed_k = true; g_pos_k = l->tail; }
    l->tail++;
}
static graph_task *LIST_pop_front(graph_task_list *l) {
    OBLIGATION(l->head < l->tail, "C14.async: nothing is popped from an empty task list");
    size_t pos = l->head++;
    return (g_listed_k && pos == g_pos_k) ? &g_tasks[g_k] : &T_other;
}
static void STUB_enqueue_in_graph_arena(graph *g, graph_task *t) {
    OBLIGATION(g == g_graph, "C14.async: the tasks are enqueued into this node's graph");
    OBLIGATION(t != NULL && t != SUCCESSFULLY_ENQUEUED, "C14.async: only real tasks are enqueued (never NULL or the SUCCESSFULLY_ENQUEUED sentinel)");
    g_enq++; if (t == &g_tasks[g_k]) g_enq_k++;
}
static size_t LIST_begin(struct cache *self) { return 0; }
static size_t LIST_end(struct cache *self) { return g_n; }
static graph_task *SUCC_try_put_task(struct cache *self, size_t i, output_type *t) {
    OBLIGATION(self == g_cache, "C14.async: the message is offered to the successors of THIS node's output port 0");
    OBLIGATION(i < g_n, "C14.async: the iterator that is dereferenced points into the successor list");
    OBLIGATION(t == g_msg, "C14.async: what is offered is the message that was submitted through the gateway");
    if (i == g_k) { OBLIGATION(!g_erased_k, "C14.async: a successor that was dropped from the list is not offered the message"); g_off_k++; }
    if (nondet_bool()) return NULL;
    g_accepts++; if (i == g_k) g_acc_k++;
    if (nondet_bool()) return SUCCESSFULLY_ENQUEUED;
    g_made++; if (i == g_k) g_real_k = true;
    return &g_tasks[i];
}
static bool SUCC_register_predecessor(struct cache *self, size_t i, struct port *owner) {
    OBLIGATION(i < g_n, "C14.async: the iterator that is dereferenced points into the successor list");
    OBLIGATION(owner == g_port0, "C14.async: a rejecting successor is given THIS node's output port as the sender to pull from");
    bool r = nondet_bool();
    if (i == g_k) { OBLIGATION(g_off_k >= 1 && g_acc_k == 0, "C14.async: an edge is switched to pull mode only after its successor rejected the message"); g_rp_k++; g_rp_res_k = r; }
    return r;
}
static size_t LIST_erase(struct cache *self, size_t i) {
    OBLIGATION(i < g_n, "C14.async: the iterator that is erased points into the successor list");
    if (i == g_k) { OBLIGATION(!g_erased_k, "C14.async: a successor is erased at most once"); g_erased_k = true; }
    return i + 1;
}
#define K_DONE (g_off_k == 1 && g_acc_k <= 1 && (g_acc_k == 1 ? (g_rp_k == 0 && !g_erased_k) : (g_rp_k == 1 && g_erased_k == g_rp_res_k && !g_real_k)))
#define K_UNTOUCHED (g_off_k == 0 && g_acc_k == 0 && g_rp_k == 0 && !g_erased_k && !g_real_k)
#define LOOP_bcgather_succ __CPROVER_assigns(i, is_at_least_one_put_successful, __CPROVER_object_whole(tasks), g_off_k, g_acc_k, g_rp_k, g_rp_res_k, g_erased_k, g_real_k, g_listed_k, g_pos_k, g_accepts, g_made) \
  __CPROVER_loop_invariant(i <= g_n && g_accepts <= i && g_made <= g_accepts && (is_at_least_one_put_successful == (g_accepts > 0)) && tasks->head == 0 && tasks->tail == g_made \
     && (g_k < i ? K_DONE : K_UNTOUCHED) && g_listed_k == g_real_k && (!g_listed_k || g_pos_k < tasks->tail)) __CPROVER_decreases(g_n - i)
#define LOOP_antp_drain __CPROVER_assigns(tasks.head, g_enq, g_enq_k) \
  __CPROVER_loop_invariant(tasks.head <= tasks.tail && g_enq == tasks.head && g_enq_k == ((g_listed_k && g_pos_k < tasks.head) ? 1 : 0)) __CPROVER_decreases(tasks.tail - tasks.head)
#include "async_node.inc"
void h_async_try_put(void) {
    struct async_node *n = malloc(sizeof(*n)); __CPROVER_assume(n != NULL);
    n->my_graph = n->my_graph_ref = &G; n->my_gateway.my_node = n;
    g_n = nondet_size_t(); g_k = nondet_size_t(); __CPROVER_assume(g_n <= ((size_t)1 << 16) && g_k < g_n);
    g_tasks = malloc(g_n * sizeof(graph_task)); __CPROVER_assume(g_tasks != NULL);
    g_off_k = g_acc_k = g_rp_k = g_accepts = g_made = g_enq = g_enq_k = g_pos_k = 0; g_rp_res_k = g_erased_k = g_real_k = g_listed_k = false;
    output_type msg = nondet_int(); g_msg = &msg; g_cache = &n->my_output_ports.p0.my_successors; g_graph = &G; g_port0 = &n->my_output_ports.p0; g_port0->my_successors.my_owner = g_port0;
    bool ret = gateway_try_put(&n->my_gateway, &msg);
    OBLIGATION(g_off_k == 1, "C14.async: a message submitted through the gateway is offered exactly once to every successor of the node's output port 0");
    OBLIGATION(g_acc_k == 1 ? (g_rp_k == 0 && !g_erased_k) : (g_rp_k == 1 && g_erased_k == g_rp_res_k), "C14.async: a successor that accepted stays a push successor; one that rejected is asked exactly once to become a pull edge and is dropped from the list iff it agreed");
    OBLIGATION(ret == (g_accepts > 0), "C14.async: gateway try_put reports acceptance iff at least one successor accepted the message (a message nobody took is reported as rejected)");
    OBLIGATION(g_enq_k == (g_real_k ? 1 : 0), "C14.async: the task that an accepting successor returned is enqueued exactly once - not dropped, not twice");
    OBLIGATION(g_enq == g_made, "C14.async: exactly the tasks returned by accepting successors are enqueued");
    VACUITY_END();
}
#endif
#ifdef JOINCTOR
/* join_node (queueing: default, reserving: -DJP_RESERVING): constructors / copy constructors.  One flattened object stands for join_node_base + join_node_FE +
   forwarding_base + graph_node; the tuple of input ports is an array (std::get<I> = element I); N = std::tuple_size (1..10, the library's limit); the template
   recursion join_helper<N> -> join_helper<N-1> -> ... -> join_helper<1> is run-time recursion on N.  Facts are stated for ONE arbitrary port g_k. */
typedef struct graph { int d; } graph;
struct join_node;
typedef struct join_node join_node_FE;
struct jport { struct join_node *my_join; };                     /* queueing_port / reserving_port: the pointer to the owning front end */
#define MAXPORTS 10
struct join_node {
    graph *my_graph;                                             /* graph_node */
    graph *graph_ref;                                            /* forwarding_base */
    struct jport my_inputs[MAXPORTS]; struct join_node *my_node; size_t ports_with_no_items, ports_with_no_inputs;   /* join_node_FE */
    bool forwarder_busy; struct join_node *succ_owner;           /* join_node_base (my_successors: the owner the cache was built with) */
};
static int N; size_t g_get_bad;
static void STUB_initialize_handler(struct join_node *n) {}
static void STUB_register_node(graph *g, struct join_node *n) {}
static struct jport *TUPLE_GET(struct jport *t, int i) { if (i < 0 || i >= N) g_get_bad++; return &t[i]; }
#ifdef JP_RESERVING
#define PORT_set_join_node_pointer jr_port_set_join_node_pointer
#define FE_ctor jr_fe_ctor
#define FE_copy_ctor jr_fe_copy_ctor
#define FE_set_my_node jr_fe_set_my_node
#define COUNT ports_with_no_inputs
#else
#define PORT_set_join_node_pointer jq_port_set_join_node_pointer
#define FE_ctor jq_fe_ctor
#define FE_copy_ctor jq_fe_copy_ctor
#define FE_set_my_node jq_fe_set_my_node
#define COUNT ports_with_no_items
#endif
/* template dispatch: join_helper<1> is the explicit specialisation */
#define JOIN_HELPER_set_join_node_pointer(n, in, p) do { if ((n) == 1) jh1_set_join_node_pointer(in, p); else jhN_set_join_node_pointer(n, in, p); } while (0)
#define INIT_jr_fe_reserving_forwarding_base(self, g) forwarding_base_ctor(self, g)
#define INIT_jr_fe_copy_reserving_forwarding_base(self, g) forwarding_base_ctor(self, g)
#define INIT_jq_fe_queueing_forwarding_base(self, g) forwarding_base_ctor(self, g)
#define INIT_jq_fe_copy_queueing_forwarding_base(self, g) forwarding_base_ctor(self, g)
#define INIT_jbase_graph_node(self, g) graph_node_ctor(self, g)
#define INIT_jbase_input_ports_type(self, g) FE_ctor(self, g)
#define INIT_jbase_my_successors(self, owner) ((self)->succ_owner = (owner))
#define INIT_jbase_copy_graph_node(self, g) graph_node_ctor(self, g)
#define INIT_jbase_copy_input_ports_type(self, o) FE_copy_ctor(self, o)
#define INIT_jbase_copy_sender(self) RG_NOP()
#define INIT_jbase_copy_my_successors(self, owner) ((self)->succ_owner = (owner))
#include "join_ctor.inc"
static graph G; int IN_N, IN_k;
void h_join_ctor(void) {
    N = IN_N = nondet_int(); __CPROVER_assume(N >= 1 && N <= MAXPORTS); int k = IN_k = nondet_int(); __CPROVER_assume(k >= 0 && k < N); g_get_bad = 0;
    struct join_node *n = malloc(sizeof(*n)); __CPROVER_assume(n != NULL);
    join_node_base_ctor(n, &G);
    OBLIGATION(g_get_bad == 0, "C14.join: only ports of the tuple are addressed");
    OBLIGATION(n->my_inputs[k].my_join == n, "C14.join: every input port of a constructed join_node names this node as its owner (what is put to the port counts for THIS node's tuples)");
    OBLIGATION(n->my_node == n && n->succ_owner == n, "C14.join: the front end forwards to this node's back end, and the successor cache names this node as the sender");
    OBLIGATION(n->COUNT == (size_t)N && !n->forwarder_busy, "C14.join: a constructed join_node starts with all N ports empty and no forwarder outstanding");
    OBLIGATION(n->my_graph == &G && n->graph_ref == &G, "C14.join: the node and its ports belong to the graph it was constructed in");
    VACUITY_END();
}
void h_join_copy_ctor(void) {
    N = IN_N = nondet_int(); __CPROVER_assume(N >= 1 && N <= MAXPORTS); int k = IN_k = nondet_int(); __CPROVER_assume(k >= 0 && k < N); g_get_bad = 0;
    struct join_node *o = malloc(sizeof(*o)); __CPROVER_assume(o != NULL);
    o->my_graph = o->graph_ref = &G; o->my_node = o; o->succ_owner = o; o->my_inputs[k].my_join = o;     /* the source satisfies the invariant (at port k); counters and flags arbitrary */
    struct join_node *c = malloc(sizeof(*c)); __CPROVER_assume(c != NULL);
    join_node_base_copy_ctor(c, o);
    OBLIGATION(g_get_bad == 0, "C14.join: only ports of the tuple are addressed");
    OBLIGATION(c->my_inputs[k].my_join == c, "C14.join: every input port of a copied join_node names the COPY as its owner");
    OBLIGATION(c->my_node == c && c->succ_owner == c, "C14.join: the copy's front end forwards to the copy's back end, and its successor cache names the copy as the sender");
    OBLIGATION(o->my_inputs[k].my_join == o && o->my_node == o && o->succ_owner == o, "C14.join: copying leaves the source node's ports and owner pointers untouched");
    OBLIGATION(c->COUNT == (size_t)N && !c->forwarder_busy, "C14.join: a copied join_node starts with all N ports empty and no forwarder outstanding (no message of the source is duplicated into the copy)");
    OBLIGATION(c->my_graph == &G && c->graph_ref == &G, "C14.join: the copy and its ports belong to the source's graph");
    VACUITY_END();
}
#endif
#ifdef INDEXERCTOR
/* indexer_node: constructors / copy constructor.  The tuple of input ports is an array; N = tuple size (1..10); a pointer to the instantiation do_try_put<Node, T, K>
   is represented by the number K (CALL_FWD_FN runs the sliced do_try_put with that K).  Facts are stated for ONE arbitrary port k, then a message is put to it. */
typedef int item_type;
typedef struct graph { int d; } graph;
typedef struct graph_task { int d; } graph_task;
typedef int fwd_fn;
struct inode;
typedef struct inode indexer_node_base;
struct iport { void *my_indexer_ptr; fwd_fn my_try_put_task; graph *my_graph; };
#define MAXPORTS 10
struct inode { graph *my_graph; struct iport my_inputs[MAXPORTS]; struct inode *succ_owner; };
typedef struct tagged_msg { int tag; item_type value; } tagged_msg;
static int N; size_t g_get_bad, g_node_puts; struct inode *g_put_node; int g_put_tag; item_type g_put_value; static graph_task T_real;
static void STUB_initialize_handler(struct inode *n) {}
static struct iport *TUPLE_GET(struct iport *t, int i) { if (i < 0 || i >= N) g_get_bad++; return &t[i]; }
#define DO_TRY_PUT_INSTANCE(k) (k)
#define CALL_FWD_FN(f, v, p) do_try_put(f, v, p)
static void TAGGED_ctor(tagged_msg *o, int tag, item_type *v) { o->tag = tag; o->value = *v; }
static graph_task *NODE_try_put_task(struct inode *n, tagged_msg *o) { g_node_puts++; g_put_node = n; g_put_tag = o->tag; g_put_value = o->value; return nondet_bool() ? NULL : &T_real; }
#define INDEXER_HELPER_set_indexer_node_pointer(n, in, p, g) do { if ((n) == 1) ih1_set_indexer_node_pointer(in, p, g); else ihN_set_indexer_node_pointer(n, in, p, g); } while (0)
#define INIT_inode_graph_node(self, g) ((self)->my_graph = (g))              /* graph_node(g): job async.ctor covers graph_node::graph_node */
#define INIT_inode_input_ports_type(self) RG_NOP()                           /* indexer_node_FE(): default-constructed ports */
#define INIT_inode_my_successors(self, owner) ((self)->succ_owner = (owner))
#define INIT_inode_copy_graph_node(self, g) ((self)->my_graph = (g))
#define INIT_inode_copy_input_ports_type(self) RG_NOP()
#define INIT_inode_copy_sender(self) RG_NOP()
#define INIT_inode_copy_my_successors(self, owner) ((self)->succ_owner = (owner))
#include "indexer_ctor.inc"
static graph G; int IN_N, IN_k;
static void indexer_post(struct inode *n, int k) {
    OBLIGATION(g_get_bad == 0, "C14.indexer: only ports of the tuple are addressed");
    OBLIGATION(n->my_inputs[k].my_indexer_ptr == n && n->my_inputs[k].my_graph == &G && n->succ_owner == n && n->my_graph == &G,
               "C14.indexer: every input port of a constructed / copied indexer_node names THIS node (the copy) and its graph; the successor cache names this node as the sender");
    item_type v = nondet_int(); g_node_puts = 0;
    graph_task *r = iport_try_put_task(&n->my_inputs[k], &v);
    OBLIGATION(g_node_puts == 1 && g_put_node == n, "C14.indexer: a message put to port k is handed exactly once to THIS node");
    OBLIGATION(g_put_tag == k && g_put_value == v, "C14.indexer: the message is handed on unchanged, tagged with the index of the port it arrived at");
    OBLIGATION((r != NULL) == (r == &T_real), "C14.indexer: the port reports what the node reported (a message the node rejected is reported as rejected)");
}
void h_indexer_ctor(void) {
    N = IN_N = nondet_int(); __CPROVER_assume(N >= 1 && N <= MAXPORTS); int k = IN_k = nondet_int(); __CPROVER_assume(k >= 0 && k < N); g_get_bad = 0;
    struct inode *n = malloc(sizeof(*n)); __CPROVER_assume(n != NULL);
    indexer_node_base_ctor(n, &G);
    indexer_post(n, k);
    VACUITY_END();
}
void h_indexer_copy_ctor(void) {
    N = IN_N = nondet_int(); __CPROVER_assume(N >= 1 && N <= MAXPORTS); int k = IN_k = nondet_int(); __CPROVER_assume(k >= 0 && k < N); g_get_bad = 0;
    struct inode *o = malloc(sizeof(*o)); __CPROVER_assume(o != NULL);
    o->my_graph = &G; o->succ_owner = o; o->my_inputs[k].my_indexer_ptr = o; o->my_inputs[k].my_try_put_task = k; o->my_inputs[k].my_graph = &G;
    struct inode *c = malloc(sizeof(*c)); __CPROVER_assume(c != NULL);
    indexer_node_base_copy_ctor(c, o);
    OBLIGATION(o->my_inputs[k].my_indexer_ptr == o && o->my_inputs[k].my_try_put_task == k && o->succ_owner == o, "C14.indexer: copying leaves the source node's ports untouched");
    indexer_post(c, k);
    VACUITY_END();
}
#endif
