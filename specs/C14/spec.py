"""C14 -- flow graph: node concurrency limits and one disposition per message inside the aggregator handler; single open reservation."""
import os
import sys
import re
import importlib.util
HERE = os.path.dirname(os.path.abspath(__file__))
sys.path.insert(0, os.path.join(HERE, '..'))
sys.path.insert(0, os.path.join(HERE, '..', '..', 'tools'))
import common
import native
import cxx2c
from cxx2c import Rewriter, CClass, Slice, slice_block, tag_loops, ExtractionBreak, load
from prove import Job

NI = 'include/oneapi/tbb/detail/_flow_graph_node_impl.h'
IB = 'include/oneapi/tbb/detail/_flow_graph_item_buffer_impl.h'


def c15():
    s = importlib.util.spec_from_file_location('spec_C15', os.path.join(HERE, '..', 'C15', 'spec.py'))
    m = importlib.util.module_from_spec(s)
    s.loader.exec_module(m)
    return m


FG = 'include/oneapi/tbb/flow_graph.h'


def _proto(t):
    """`RET f(params) {...` -> `RET f(params);`"""
    return t[:t.index('{')].strip() + ';\n'


def extract_buffer_node(ctx, sliced, fired, m15):
    """buffer_node / queue_node aggregator handler on the REAL item_buffer (grow_my_array under the contract that C15 proves)."""
    # ---- 1. the complete item_buffer (second instance of the C15 extraction, with everything the handler reaches) ----
    GROW = [(r'allocator_type\(\)\.allocate\(new_size\)', '(aligned_space_item*)alloc_nofail(new_size * sizeof(aligned_space_item))', 1),
            (r'char \*new_space = \(char \*\)&\(new_array\[i&\(new_size-1\)\]\.item\);\s*\(void\)new\(new_space\) item_type\(get_my_item\(i\)\);', 'new_array[i&(new_size-1)].item = *get_my_item(i);', 1),
            (r'clean_up_buffer\(false\);', 'clean_up_buffer(false);', 1)]
    CLEAN = [(r'allocator_type\(\)\.deallocate\(my_array,my_array_size\);', 'free(my_array);', 1), (r'my_head = my_tail = my_array_size = 0;', 'my_head = 0; my_tail = 0; my_array_size = 0;', 1)]
    more = [(r'const item_type& front\(\) const', 'item_buffer_front', [(r'return get_my_item\(my_head\);', 'return get_my_item(my_head);', 0)], 'const item_type*'),
            (r'const item_type& back\(\) const', 'item_buffer_back', [(r'return get_my_item\(my_tail - 1\);', 'return get_my_item(my_tail - 1);', 0)], 'const item_type*'),
            (r'void reserve_item\(size_type i\)', 'item_buffer_reserve_item', [(r'!my_item_reserved\(i\)', 'element(i).state != reserved_item', 0)], None),
            (r'void release_item\(size_type i\)', 'item_buffer_release_item', [(r'my_item_reserved\(i\)', 'element(i).state == reserved_item', 0)], None),
            (r'void destroy_front\(\)', 'item_buffer_destroy_front', [], None),
            (r'void destroy_back\(\)', 'item_buffer_destroy_back', [], None),
            (r'void clean_up_buffer\(bool reset_pointers\)', 'item_buffer_clean_up_buffer', CLEAN, None),
            (r'void grow_my_array\( size_t minimum_size \)', 'item_buffer_grow_my_array', GROW, None),
            (r'bool buffer_full\(\)', 'item_buffer_buffer_full', [], None),
            (r'bool push_back\(item_type& v\s', 'item_buffer_push_back', [(r'set_my_item\(my_tail, v\);', 'set_my_item(my_tail, v);', 0)], None),
            (r'bool pop_back\(item_type& v\s', 'item_buffer_pop_back', [(r'v = e->item;', '*v = e->item;', 0), (r'my_item_reserved\(([^()]*)\)', r'(element(\1).state == reserved_item)', 0)], None),
            (r'bool pop_front\(item_type& v\s', 'item_buffer_pop_front', [(r'v = e->item;', '*v = e->item;', 0)], None)]
    s2, f2 = [], {}
    ib, rw, conv = m15.extract_item_buffer(ctx, s2, f2, more=more)
    ibp = os.path.join(ctx.work, 'item_buffer.inc')
    txt = open(ibp).read()
    os.remove(ibp)
    txt = rw.sub(txt, r'void item_buffer_grow_my_array\(struct item_buffer\* self, size_t minimum_size\) \{', 'void item_buffer_grow_my_array(struct item_buffer* self, size_t minimum_size)\nCONTRACT_grow_my_array {', 1, 1, name='contract-anchor')
    a_ = txt.index('void item_buffer_grow_my_array(struct item_buffer* self, size_t minimum_size)\nCONTRACT_grow_my_array {')
    e_ = txt.index('\n    }\n', a_) + 7
    txt = txt[:a_] + tag_loops(txt[a_:e_], 'ibgrow', rw, expect=3) + txt[e_:]
    a_ = txt.index('void item_buffer_clean_up_buffer(')
    e_ = txt.index('\n    }\n', a_) + 7
    txt = txt[:a_] + tag_loops(txt[a_:e_], 'ibclean', rw, expect=1) + txt[e_:]
    if txt.count('    size_t my_tail;\n};') != 1:
        raise ExtractionBreak('item_buffer struct layout changed')
    txt = txt.replace('    size_t my_tail;\n};', '    size_t my_tail;\n    bool my_reserved;      /* member of the derived reservable_item_buffer */\n    bool forwarder_busy;   /* member of the derived buffer_node (one flattened object) */\n};')
    txt = 'void item_buffer_clean_up_buffer(struct item_buffer* self, bool reset_pointers);\nvoid item_buffer_grow_my_array(struct item_buffer* self, size_t minimum_size);\n' + txt
    common.write(ctx, 'item_buffer_bn.inc', txt)
    # the harness prelude of C15 (types, IB_SHAPE, the grow_my_array contract and its loop invariants) is taken over verbatim so that the contract
    # used here is textually the one that C15's job buffer.grow_my_array enforces
    c15c = open(os.path.join(HERE, '..', 'C15', 'c15.c')).read()
    a_ = c15c.find('#ifdef SEQ\n')
    e_ = c15c.find('#include "item_buffer.inc"', a_)
    if a_ < 0 or e_ < 0 or 'CONTRACT_grow_my_array' not in c15c[a_:e_]:
        raise ExtractionBreak('specs/C15/c15.c: SEQ prelude with CONTRACT_grow_my_array not found')
    common.write(ctx, 'c15_prelude.inc', c15c[a_ + len('#ifdef SEQ\n'):e_])
    # ---- 2. buffer_node ----
    for pat, what in ((r'enum op_type \{reg_succ, rem_succ, req_item, res_item, rel_res, con_res, put_item, try_fwd_task\s*\};', 'buffer_node::op_type'),
                      (r'bool forwarder_busy;', 'buffer_node::forwarder_busy'), (r'round_robin_cache< T, null_rw_mutex > my_successors;', 'buffer_node::my_successors')):
        if not re.search(pat, load(FG)):
            raise ExtractionBreak('flow_graph.h: %s changed' % what)
    TB = {'size_type': 'size_t', 'derived_type': 'struct item_buffer', 'T': 'item_type'}
    bn = CClass(FG, r'class buffer_node\s*: public graph_node', 'item_buffer', tbind=TB)
    bn.members = ib.members + [('bool', 'my_reserved', ''), ('bool', 'forwarder_busy', '')]
    rb = bn.rw
    IBM = ['my_item_valid', 'back', 'front', 'destroy_back', 'destroy_front', 'push_back', 'pop_back', 'pop_front']
    OPS = 'internal_reg_succ|internal_rem_succ|internal_pop|internal_reserve|internal_release|internal_consume|internal_push|internal_forward_task'
    PRE = [(r'static_cast<class_type\*>\(derived\) == this', 'derived == self', 0),
           (r'\b(%s)\(tmp\)' % OPS, r'VIRT_\1(self, tmp)', 0),
           (r'derived->order\(\);', 'DERIVED_order(derived);', 0),
           (r'derived->is_item_valid\(\)', 'DERIVED_is_item_valid(derived)', 0),
           (r'derived->try_put_and_add_task\(last_task\)', 'DERIVED_try_put_and_add_task(derived, &last_task)', 0),
           (r'is_graph_active\(this->my_graph\)', 'STUB_is_graph_active()', 0),
           (r'typedef forward_task_bypass<class_type> task_type;', 'RG_NOP();', 0),
           (r'd1::small_object_allocator allocator\{\};', 'RG_NOP();', 0),
           (r'allocator\.new_object<task_type>\(graph_reference\(\), allocator, \*this\)', 'STUB_new_forward_task(self)', 0),
           (r'graph ?& ?(\w+) = this->(?:my_graph|graph_reference\(\));', r'graph* \1 = STUB_graph();', 0),
           (r'(?:this->)?my_successors\.size\(\)', 'STUB_succ_size(self)', 0),
           (r'(?:this->)?my_successors\.try_put_task\(', 'STUB_succ_try_put_task(self, ', 0),
           (r'my_successors\.register_successor\(\*\(op->r\)\);', 'STUB_succ_register(self, op->r);', 0),
           (r'my_successors\.remove_successor\(\*\(op->r\)\);', 'STUB_succ_remove(self, op->r);', 0),
           (r'(?:this->)?handle_operations_impl\(op_list, this\)', 'bn_handle_operations_impl(self, op_list, self)', 0),
           (r'(?:this->)?internal_forward_task_impl\(op, this\)', 'bn_internal_forward_task_impl(self, op, self)', 0),
           (r'this->(consume_front|release_front)\(\)', r'rib_\1(self)', 0), (r'this->reserve_front\(', 'rib_reserve_front(self, ', 0),
           (r'(?:this->)?is_item_valid\(\)', 'DERIVED_is_item_valid(self)', 0),
           (r'\*\(op->elem\)', 'op->elem', 0),     # argument for a reference parameter (now a pointer)
           (r'(\w+)->status\.store\((\w+), std::memory_order_release\);', r'SET_STATUS(\1, \2);', 0)]

    def res(sl, name):
        return m15.resolved(sl, name)

    def cv(cls, sig, cfn, loops=None):
        t = cls.convert(res(cls.method(sig), cfn), cfn, methods=IBM, pre=PRE)
        # `graph_task*& last_task` became a pointer parameter: every use in the body is a dereference
        hd, body = t[:t.index('{')], t[t.index('{'):]
        if 'graph_task** last_task' in hd:
            body = re.sub(r'\blast_task\b', '(*last_task)', body)
            rb.fired['ref-param use -> deref'] = rb.fired.get('ref-param use -> deref', 0) + 1
        hd = re.sub(r'\)\s*override\s*$', ') ', hd)
        t = hd + body
        if loops:
            t = tag_loops(t, loops[0], rb, expect=loops[1])
        return t
    out = []
    out.append(cv(bn, r'void handle_operations_impl\(buffer_operation \*op_list, derived_type\* derived\)', 'bn_handle_operations_impl', ('bnho', 1)))
    out.append(cv(bn, r'virtual void handle_operations\(buffer_operation \*op_list\)', 'bn_handle_operations'))
    out.append(cv(bn, r'virtual void internal_reg_succ\(buffer_operation \*op\)', 'bn_internal_reg_succ'))
    out.append(cv(bn, r'virtual void internal_rem_succ\(buffer_operation \*op\)', 'bn_internal_rem_succ'))
    out.append(cv(bn, r'void order\(\)', 'bn_order'))
    out.append(cv(bn, r'bool is_item_valid\(\)', 'bn_is_item_valid'))
    out.append(cv(bn, r'void try_put_and_add_task\(graph_task\*& last_task\)', 'bn_try_put_and_add_task'))
    out.append(cv(bn, r'virtual void internal_forward_task\(buffer_operation \*op\)', 'bn_internal_forward_task'))
    out.append(cv(bn, r'void internal_forward_task_impl\(buffer_operation \*op, derived_type\* derived\)', 'bn_internal_forward_task_impl', ('bnfwd', 1)))
    out.append(cv(bn, r'virtual bool internal_push\(buffer_operation \*op\)', 'bn_internal_push'))
    out.append(cv(bn, r'virtual void internal_pop\(buffer_operation \*op\)', 'bn_internal_pop'))
    out.append(cv(bn, r'virtual void internal_reserve\(buffer_operation \*op\)', 'bn_internal_reserve'))
    out.append(cv(bn, r'virtual void internal_consume\(buffer_operation \*op\)', 'bn_internal_consume'))
    out.append(cv(bn, r'virtual void internal_release\(buffer_operation \*op\)', 'bn_internal_release'))
    # ---- 2b. the public entry points around the aggregator: what happens to the operation record's task ----
    WPRE = [(r'buffer_operation op_data\((\w+)\);', r'buffer_operation op_data; OP_INIT(&op_data, NULL, \1);', 0),
            (r'buffer_operation op_data\(t, (\w+)\);', r'buffer_operation op_data; OP_INIT(&op_data, t, \1);', 0),
            (r'my_aggregator\.execute\(&op_data\);', 'AGG_execute(self, &op_data);', 0),
            (r'op_data\.r = &r;', 'op_data.r = r;', 0), (r'op_data\.elem = &v;', 'op_data.elem = v;', 0),
            (r'enqueue_forwarding_task\(op_data\)', 'bn_enqueue_forwarding_task(self, &op_data)', 0),
            (r'grab_forwarding_task\(op_data\)', 'bn_grab_forwarding_task(self, &op_data)', 0),
            (r'grab_forwarding_task\(\s*buffer_operation &op_data\)', 'grab_forwarding_task(buffer_operation &op_data)', 0),
            (r'spawn_in_graph_arena\(graph_reference\(\), \*ft\);', 'STUB_spawn(ft);', 0),
            (r'tbb::detail::d2::remove_predecessor\(r, \*this\);', 'STUB_remove_predecessor(self, r);', 0)]
    TBW = dict(TB)
    TBW['successor_type'] = 'void'
    bw = CClass(FG, r'class buffer_node\s*: public graph_node', 'item_buffer', tbind=TBW, rw=rb)
    bw.members = bn.members

    def cw(sig, cfn, loops=None):
        t = bw.convert(res(bw.method(sig), cfn), cfn, pre=WPRE + PRE)
        t = re.sub(r'\)\s*override\s*\{', ') {', t, 1)
        hd, body = t[:t.index('{')], t[t.index('{'):]
        if 'buffer_operation* op_data' in hd:      # reference parameter (now a pointer) passed on: no address-of
            body = body.replace('&op_data', 'op_data')
        t = hd + body
        if loops:
            t = tag_loops(t, loops[0], rb, expect=loops[1])
        return t
    wout = []
    wout.append(cw(r'inline graph_task \*grab_forwarding_task\( buffer_operation &op_data\)', 'bn_grab_forwarding_task'))
    wout.append(cw(r'inline bool enqueue_forwarding_task\(buffer_operation &op_data\)', 'bn_enqueue_forwarding_task'))
    wout.append(cw(r'virtual graph_task \*forward_task\(\)', 'bn_forward_task', ('bnft', 1)))
    wout.append(cw(r'bool register_successor\( successor_type &r \) override', 'bn_register_successor'))
    wout.append(cw(r'bool remove_successor\( successor_type &r \) override', 'bn_remove_successor'))
    wout.append(cw(r'bool try_get\( T &v \) override', 'bn_try_get'))
    wout.append(cw(r'bool try_reserve\( T &v \) override', 'bn_try_reserve'))
    wout.append(cw(r'bool try_release\(\) override', 'bn_try_release'))
    wout.append(cw(r'bool try_consume\(\) override', 'bn_try_consume'))
    wout.append(cw(r'graph_task\* try_put_task_impl\(const T& t', 'bn_try_put_task_impl'))
    # ---- 3. queue_node overrides ----
    qn = CClass(FG, r'class queue_node : public buffer_node<T> \{', 'item_buffer', tbind=TB, rw=rb)
    qn.members = bn.members
    out.append(cv(qn, r'bool is_item_valid\(\)', 'qn_is_item_valid'))
    out.append(cv(qn, r'void try_put_and_add_task\(graph_task\*& last_task\)', 'qn_try_put_and_add_task'))
    out.append(cv(qn, r'void internal_forward_task\(queue_operation \*op\) override', 'qn_internal_forward_task'))
    out.append(cv(qn, r'void internal_pop\(queue_operation \*op\) override', 'qn_internal_pop'))
    out.append(cv(qn, r'void internal_reserve\(queue_operation \*op\) override', 'qn_internal_reserve'))
    out.append(cv(qn, r'void internal_consume\(queue_operation \*op\) override', 'qn_internal_consume'))
    # ---- 4. combine_tasks (free function) ----
    ct = slice_block(FG, r'static inline graph_task\* combine_tasks\(graph& g, graph_task\* left, graph_task\* right\)')
    t = rb.sub(ct.text, r'static inline graph_task\* combine_tasks\(graph& g, graph_task\* left, graph_task\* right\)', 'static graph_task* combine_tasks(graph* g, graph_task* left, graph_task* right)', 1, 1, name='sig (ref-param -> pointer)')
    t = rb.sub(t, r'auto tasks_pair = order_tasks\(left, right\);', 'struct task_pair tasks_pair = STUB_order_tasks(left, right);', 0, name='order_tasks -> stub (either order)')
    t = rb.sub(t, r'spawn_in_graph_arena\(g, \*([\w.]+)\);', r'STUB_spawn(\1);', 0, name='spawn_in_graph_arena -> stub')
    t = rb.std(t)
    txt = t + '\n' + ''.join(_proto(x) for x in out) + '\n'.join(out)
    bad = cxx2c.c_residue(txt)
    if bad:
        raise ExtractionBreak('buffer_node.inc: C++ residue %s' % bad)
    common.write(ctx, 'buffer_node.inc', txt)
    wtxt = ''.join(_proto(x) for x in wout) + '\n'.join(wout)
    bad = cxx2c.c_residue(wtxt)
    if bad:
        raise ExtractionBreak('buffer_node_api.inc: C++ residue %s' % bad)
    common.write(ctx, 'buffer_node_api.inc', wtxt)
    sliced += s2 + bn.sliced + bw.sliced + qn.sliced + ['%s:%d combine_tasks' % (FG, ct.line)]
    fired['item_buffer(full)'] = dict(rw.fired)
    fired['buffer_node+queue_node'] = dict(rb.fired)


CI = 'include/oneapi/tbb/detail/_flow_graph_cache_impl.h'


def extract_caches(ctx, sliced, fired, m15):
    """broadcast_cache / round_robin_cache::try_put_task_impl and predecessor_cache / reservable_predecessor_cache (pull side).
    std::list / std::queue are viewed positionally: the successors (predecessors) present on entry are numbered 0..n-1 in list order, an iterator is
    a position, erase(i) yields i+1 (only forward iteration with erasure at the iterator occurs; the stubs check that)."""
    LOCK = (r'typename mutex_type::scoped_lock (?:l|lock)\(\s*this->my_mutex(?:, (?:true|false))?\s*\);', 'RG_NOP();', 0)
    PRE = [LOCK,
           (r'typename successors_type::iterator i = this->my_successors\.begin\(\);', 'size_t i = LIST_begin(self);', 0),
           (r'this->my_successors\.end\(\)', 'LIST_end(self)', 0),
           (r'\(\*i\)->try_put_task\(t\)', 'SUCC_try_put_task(self, i, t)', 0),
           (r'graph ?& ?(\w+) = \(\*i\)->graph_reference\(\);', r'graph* \1 = STUB_graph();', 0),
           (r'\(\*i\)->register_predecessor\(\*this->my_owner\)', 'SUCC_register_predecessor(self, i)', 0),
           (r'this->my_successors\.erase\(i\)', 'LIST_erase(self, i)', 0)]
    TB = {'T': 'item_type', 'size_type': 'size_t', 'output_type': 'item_type'}
    out = []
    bc = CClass(CI, r'class broadcast_cache : public successor_cache<T, M> \{', 'cache', tbind=TB)
    t = bc.convert(m15.resolved(bc.method(r'graph_task\* try_put_task_impl\( const T& t'), 'bc'), 'bc_try_put_task_impl', pre=PRE)
    out.append(tag_loops(t, 'bcput', bc.rw, expect=1))
    rr = CClass(CI, r'class round_robin_cache : public successor_cache<T, M> \{', 'cache', tbind=TB, rw=bc.rw)
    t = rr.convert(m15.resolved(rr.method(r'graph_task\* try_put_task_impl\( const T &t'), 'rr'), 'rr_try_put_task_impl', pre=PRE)
    out.append(tag_loops(t, 'rrput', bc.rw, expect=1))
    ct = slice_block(FG, r'static inline graph_task\* combine_tasks\(graph& g, graph_task\* left, graph_task\* right\)')
    t = bc.rw.sub(ct.text, r'static inline graph_task\* combine_tasks\(graph& g, graph_task\* left, graph_task\* right\)', 'static graph_task* combine_tasks(graph* g, graph_task* left, graph_task* right)', 1, 1, name='sig (ref-param -> pointer)')
    t = bc.rw.sub(t, r'auto tasks_pair = order_tasks\(left, right\);', 'struct task_pair tasks_pair = STUB_order_tasks(left, right);', 0, name='order_tasks -> stub (either order)')
    t = bc.rw.sub(t, r'spawn_in_graph_arena\(g, \*([\w.]+)\);', r'STUB_spawn(\1);', 0, name='spawn_in_graph_arena -> stub')
    t = bc.rw.std(t)
    txt = t + '\n' + '\n'.join(out)
    bad = cxx2c.c_residue(txt)
    if bad:
        raise ExtractionBreak('succ_cache.inc: C++ residue %s' % bad)
    common.write(ctx, 'succ_cache.inc', txt)
    sliced += bc.sliced + rr.sliced
    # ---- pull side ----
    if not re.search(r'std::atomic<predecessor_type\*> reserved_src;', load(CI)) or not re.search(r'std::queue< T \* > my_q;', load(CI)):
        raise ExtractionBreak('_flow_graph_cache_impl.h: reserved_src / my_q declarations changed')
    PPRE = [(r'typename mutex_type::scoped_lock lock\(this->my_mutex\);', 'RG_NOP();', 0),
            (r'this->internal_empty\(\)', 'Q_empty(self)', 0),
            (r'&this->internal_pop\(\)', 'Q_pop(self)', 0),
            (r'(\w+)->try_get\( ?v ?\)', r'PRED_try_get(self, \1, v)', 0),
            (r'(\w+)->try_reserve\( ?v ?\)', r'PRED_try_reserve(self, \1, v)', 0),
            (r'register_successor\( ?\*(\w+), \*(?:this->)?my_owner ?\);', r'PRED_register_successor(self, \1);', 0),
            (r'this->add\( ?\*(\w+)\);', r'Q_add(self, \1);', 0),
            (r'reserved_src\.load\(std::memory_order_relaxed\)->try_release\(\);', 'PRED_try_release(self, reserved_src.load(std::memory_order_relaxed));', 0),
            (r'reserved_src\.load\(std::memory_order_relaxed\)->try_consume\(\);', 'PRED_try_consume(self, reserved_src.load(std::memory_order_relaxed));', 0)]
    pc = CClass(CI, r'class predecessor_cache : public node_cache< sender<T>, M > \{', 'pcache', tbind=TB, rw=bc.rw)
    pc.members = [('predecessor_type*', 'reserved_src', '')]
    out = []
    t = pc.convert(m15.resolved(pc.method(r'bool get_item_impl\( output_type& v'), 'pc'), 'pc_get_item_impl', pre=PPRE)
    out.append(tag_loops(t, 'pcget', bc.rw, expect=1))
    rc = CClass(CI, r'class reservable_predecessor_cache : public predecessor_cache< T, M > \{', 'pcache', tbind=TB, rw=bc.rw)
    rc.members = pc.members
    t = rc.convert(m15.resolved(rc.method(r'bool try_reserve_impl\( output_type &v'), 'rc'), 'rc_try_reserve_impl', pre=PPRE)
    out.append(tag_loops(t, 'rcres', bc.rw, expect=1))
    out.append(rc.convert(rc.method(r'bool try_release\(\)'), 'rc_try_release', pre=PPRE))
    out.append(rc.convert(rc.method(r'bool try_consume\(\)'), 'rc_try_consume', pre=PPRE))
    txt = '\n'.join(out)
    txt = bc.rw.atomics(txt, ['reserved_src'], 0)
    bad = cxx2c.c_residue(txt)
    if bad:
        raise ExtractionBreak('pred_cache.inc: C++ residue %s' % bad)
    common.write(ctx, 'pred_cache.inc', txt)
    sliced += pc.sliced + rc.sliced
    fired['successor caches'] = dict(bc.rw.fired)


GI = 'include/oneapi/tbb/detail/_flow_graph_impl.h'
BI = 'include/oneapi/tbb/detail/_flow_graph_body_impl.h'
TH = 'include/oneapi/tbb/detail/_task.h'


def extract_wait(ctx, sliced, fired):
    """graph_task ctor / finalize, forward_task_bypass::execute / cancel, graph::reserve_wait / release_wait (reference pairing) and
    reference_vertex::reserve / release (rely/guarantee on m_ref_count)."""
    rw = Rewriter('wait')
    out = []
    s = slice_block(GI, r'inline graph_task::graph_task\(graph& g, d1::small_object_allocator& allocator,', ctor=True)
    sliced.append('%s:%d graph_task::graph_task' % (GI, s.line))
    t = rw.sub(s.text, r'inline graph_task::graph_task\(graph& g, d1::small_object_allocator& allocator,\s*node_priority_t node_priority\)\s*: my_graph\(g\)\s*, priority\(node_priority\)\s*, my_allocator\(allocator\)\s*\{',
               'void graph_task_ctor(struct graph_task* self, graph* g, int node_priority) {\n    self->my_graph = g; self->priority = node_priority;', 1, 1, name='ctor sig + init list -> assignments')
    t = rw.sub(t, r'd1::wait_context_vertex\* graph_wait_context_vertex = &my_graph\.get_wait_context_vertex\(\);', 'vertex* graph_wait_context_vertex = GRAPH_wait_vertex(self->my_graph);', 0, name='accessor')
    t = rw.sub(t, r'is_this_thread_in_graph_arena\(g\)', 'STUB_is_this_thread_in_graph_arena(g)', 0, name='callee stub')
    t = rw.sub(t, r'r1::get_thread_reference_vertex\(', 'STUB_get_thread_reference_vertex(', 0, name='callee stub')
    t = rw.sub(t, r'\b(\w+)->reserve\(\);', r'VERTEX_reserve(\1);', 0, name='virtual call')
    t = rw.fields(t, ['my_reference_vertex'])
    t = rw.asserts(t)
    t = rw.std(t)
    out.append(t)
    s = slice_block(GI, r'inline void graph_task::finalize\(const d1::execution_data& ed\)')
    sliced.append('%s:%d graph_task::finalize' % (GI, s.line))
    t = rw.sub(s.text, r'inline void graph_task::finalize\(const d1::execution_data& ed\)', 'void graph_task_finalize(struct graph_task* self)', 1, 1, name='sig')
    t = rw.sub(t, r'd1::wait_tree_vertex_interface\* reference_vertex = my_reference_vertex;', 'vertex* reference_vertex = my_reference_vertex;', 0, name='ns-strip')
    t = rw.sub(t, r'destruct_and_deallocate<DerivedType>\(ed\);', 'STUB_destruct_and_deallocate(self);', 0, name='callee stub (destroys *self)')
    t = rw.sub(t, r'\b(\w+)->release\(\);', r'VERTEX_release(\1);', 0, name='virtual call')
    t = rw.fields(t, ['my_reference_vertex'])
    t = rw.std(t)
    out.append(t)
    for sig, cfn in ((r'd1::task\* execute\(d1::execution_data& ed\) override', 'fwd_task_execute'), (r'd1::task\* cancel\(d1::execution_data& ed\) override', 'fwd_task_cancel')):
        s = slice_block(BI, sig, within=r'class forward_task_bypass : public graph_task \{')
        sliced.append('%s:%d forward_task_bypass::%s' % (BI, s.line, cfn))
        t = rw.sub(s.text, sig, 'graph_task* %s(struct graph_task* self)' % cfn, 1, 1, name='sig')
        t = rw.sub(t, r'my_node\.forward_task\(\)', 'NODE_forward_task(self)', 0, name='callee stub')
        t = rw.sub(t, r'prioritize_task\(my_node\.graph_reference\(\), \*next_task\)', 'STUB_prioritize_task(next_task)', 0, name='callee stub')
        t = rw.sub(t, r'finalize<forward_task_bypass>\(ed\);', 'graph_task_finalize(self);', 0, name='member call')
        t = rw.std(t)
        out.append(t)
    for nm in ('reserve_wait', 'release_wait'):
        s = slice_block('include/oneapi/tbb/flow_graph.h', r'inline void graph::%s\(\)' % nm)
        sliced.append('include/oneapi/tbb/flow_graph.h:%d graph::%s' % (s.line, nm))
        t = rw.sub(s.text, r'inline void graph::%s\(\)' % nm, 'void graph_%s(graph* self)' % nm, 1, 1, name='sig')
        t = rw.sub(t, r'my_wait_context_vertex\.(reserve|release)\(\);', r'VERTEX_\1(&self->my_wait_context_vertex);', 0, name='member call')
        t = rw.nop_calls(t, [r'fgt_reserve_wait', r'fgt_release_wait'])
        out.append(t)
    txt = '\n'.join(out)
    bad = cxx2c.c_residue(txt)
    if bad:
        raise ExtractionBreak('graph_wait.inc: C++ residue %s' % bad)
    common.write(ctx, 'graph_wait.inc', txt)
    # reference_vertex
    rv = CClass(TH, r'class reference_vertex : public wait_tree_vertex_interface \{', 'refv', rw=rw)
    rv.harvest_members(['my_parent', 'm_ref_count'])
    PRE = [(r'my_parent->reserve\(\);', 'PARENT_reserve(my_parent);', 0), (r'auto parent = my_parent;', 'wait_tree_vertex_interface* parent = my_parent;', 0), (r'parent->release\(\);', 'PARENT_release(parent);', 0)]
    out = []
    for nm in ('reserve', 'release'):
        t = rv.convert(rv.method(r'void %s\(std::uint32_t delta = 1\) override' % nm), 'refv_' + nm, pre=PRE)
        t = re.sub(r'\)\s*override\s*\{', ') {', t, 1)
        t = rw.atomics(t, ['m_ref_count'], 0)
        t = rw.number_sites(t, nm, by_kind=True)
        out.append(t)
    txt = '\n'.join(out)
    bad = cxx2c.c_residue(txt)
    if bad:
        raise ExtractionBreak('refvertex.inc: C++ residue %s' % bad)
    common.write(ctx, 'refvertex_struct.inc', rv.struct_decl())
    common.write(ctx, 'refvertex.inc', txt)
    sliced += rv.sliced
    fired['graph wait / reference vertex'] = dict(rw.fired)


def extract(ctx):
    sliced, fired = [], {}
    m15 = c15()
    extract_buffer_node(ctx, sliced, fired, m15)
    extract_caches(ctx, sliced, fired, m15)
    extract_wait(ctx, sliced, fired)
    more = [(r'const item_type& front\(\) const', 'item_buffer_front', [(r'return get_my_item\(my_head\);', 'return get_my_item(my_head);', 1)], 'const item_type*'),
            (r'void reserve_item\(size_type i\)', 'item_buffer_reserve_item', [(r'!my_item_reserved\(i\)', 'element(i).state != reserved_item', 1)], None),
            (r'void release_item\(size_type i\)', 'item_buffer_release_item', [(r'my_item_reserved\(i\)', 'element(i).state == reserved_item', 1)], None),
            (r'void destroy_front\(\)', 'item_buffer_destroy_front', [], None)]
    ib, rw, conv = m15.extract_item_buffer(ctx, sliced, fired, more=more)
    rb = CClass(IB, r'class reservable_item_buffer : public item_buffer<T, A> \{', 'item_buffer', rw=rw, tbind={'T': 'item_type'})
    rb.members = ib.members + [('bool', 'my_reserved', '')]
    if not re.search(r'bool my_reserved;', rb.text):
        raise ExtractionBreak('reservable_item_buffer::my_reserved not found')
    out = []
    IM = ['my_item_valid', 'front', 'reserve_item', 'release_item', 'destroy_front']
    s = rb.method(r'bool reserve_front\(T &v\)')
    t = rb.convert(s, 'rib_reserve_front', methods=IM, pre=[(r'v = this->front\(\);', '*v = *this->front();', 1)])
    out.append(t)
    out.append(rb.convert(rb.method(r'void consume_front\(\)'), 'rib_consume_front', methods=IM))
    out.append(rb.convert(rb.method(r'void release_front\(\)'), 'rib_release_front', methods=IM))
    common.write(ctx, 'reservable.inc', '\n'.join(out))
    ibp = os.path.join(ctx.work, 'item_buffer.inc')
    txt_ib = open(ibp).read()
    if txt_ib.count('    size_t my_tail;\n};') != 1:
        raise ExtractionBreak('item_buffer struct layout changed')
    open(ibp, 'w').write(txt_ib.replace('    size_t my_tail;\n};', '    size_t my_tail;\n    bool my_reserved;   /* member of the derived reservable_item_buffer */\n};'))
    sliced += rb.sliced
    fired['reservable_item_buffer'] = dict(rw.fired)
    # function_input_base
    fi = CClass(NI, r'class function_input_base : public receiver<Input>, no_assign \{', 'fib')
    fi.members = [('size_t', 'my_max_concurrency', ''), ('size_t', 'my_concurrency', ''), ('bool', 'forwarder_busy', ''), ('bool', 'my_queue', '')]
    for pat, what in ((r'const size_t my_max_concurrency;', 'my_max_concurrency'), (r'size_t my_concurrency;', 'my_concurrency'), (r'bool forwarder_busy;', 'forwarder_busy'),
                      (r'enum op_type \{reg_pred, rem_pred, try_fwd, tryput_bypass, app_body_bypass, occupy_concurrency', 'op_type')):
        if not re.search(pat, load(NI)):
            raise ExtractionBreak('_flow_graph_node_impl.h: %s changed' % what)
    rw2 = fi.rw
    M = ['perform_queued_requests', 'internal_try_put_task', 'internal_forward']
    PRE = [(r'my_queue->empty\(\)', 'STUB_queue_empty()', 0), (r'my_queue->pop\(\);', 'STUB_queue_pop();', 0), (r'my_queue->push\(\*\(op->elem\)\)', 'STUB_queue_push(op->elem)', 0),
           (r'create_body_task\(my_queue->front\(\)\)', 'STUB_create_body_task(self, 1)', 0), (r'create_body_task\(i\)', 'STUB_create_body_task(self, 2)', 0), (r'create_body_task\(\*\(op->elem\)\)', 'STUB_create_body_task(self, 3)', 0),
           (r'my_predecessors\.get_item\(i\)', 'STUB_pred_get_item()', 0), (r'input_type i;', 'RG_NOP();', 0),
           (r'my_predecessors\.add\(\*\(tmp->r\)\);', 'STUB_pred_add();', 0), (r'my_predecessors\.remove\(\*\(tmp->r\)\);', 'STUB_pred_remove();', 0),
           (r'spawn_forward_task\(\);', 'STUB_spawn_forward_task();', 0),
           (r'(\w+)->status\.store\((\w+), std::memory_order_release\);', r'SET_STATUS(\1, \2);', 0)]
    out = []

    def res(sl, name):
        return m15.resolved(sl, name)
    out.append(fi.convert(res(fi.method(r'graph_task\* perform_queued_requests\(\)'), 'pqr'), 'fib_perform_queued_requests', methods=M, pre=PRE))
    out.append(fi.convert(res(fi.method(r'void internal_try_put_task\(operation_type \*op\)'), 'itp'), 'fib_internal_try_put_task', methods=M, pre=PRE))
    out.append(fi.convert(res(fi.method(r'void internal_forward\(operation_type \*op\)'), 'ifw'), 'fib_internal_forward', methods=M, pre=PRE))
    t = fi.convert(res(fi.method(r'void handle_operations\(operation_type \*op_list\)'), 'ho'), 'fib_handle_operations', methods=M, pre=PRE)
    t = tag_loops(t, 'fho', rw2, expect=1)
    out.append(t)
    txt = 'graph_task* fib_perform_queued_requests(struct fib* self);\nvoid fib_internal_try_put_task(struct fib* self, operation_type* op);\nvoid fib_internal_forward(struct fib* self, operation_type* op);\n' + '\n'.join(out)
    common.write(ctx, 'function_input.inc', txt)
    sliced += fi.sliced
    fired['function_input_base'] = rw2.fired
    return sliced, fired


def build(ctx):
    sliced, fired = extract(ctx)
    C = os.path.join(HERE, 'c14.c')
    jobs = [
        Job('node.handle_one_operation', C, 'h_handle', route='LF', defines=['FIB'], unwind=3, target='function_input_base::handle_operations + internal_try_put_task + internal_forward + perform_queued_requests (one arbitrary operation in an arbitrary state: inductive step of the batch loop)', source=NI),
        Job('buffer.reserve_front', C, 'h_reserve', route='LF', defines=['RIB'], target='reservable_item_buffer::reserve_front', source=IB),
        Job('buffer.consume_release', C, 'h_consume_release', route='LF', defines=['RIB'], target='reservable_item_buffer::consume_front / release_front', source=IB),
    ]
    OPS = ['reg_succ', 'rem_succ', 'req_item', 'res_item', 'rel_res', 'con_res', 'put_item', 'try_fwd_task']
    for cls, dfn in (('bufnode', []), ('queue', ['DERIVED_QUEUE'])):
        for k, opn in enumerate(OPS):
            jobs.append(Job('%s.handle.%s' % (cls, opn), C, 'h_bn_op', route='LC', defines=['BN', 'OPK=%d' % k] + dfn, loops=True, nloops=(1 if opn == 'try_fwd_task' else 0),
                            replace=['item_buffer_grow_my_array'], timeout=900, twin=True, solver=('cadical' if opn == 'try_fwd_task' else None),
                            target='%s: handle_operations_impl(%s) + internal_* + try_put_and_add_task + combine_tasks on the real item_buffer (one arbitrary operation in an arbitrary invariant state)' % ('buffer_node' if cls == 'bufnode' else 'queue_node', opn), source=FG))
    jobs.append(Job('cache.broadcast.try_put_task', C, 'h_bc_put', route='LC', defines=['SC'], loops=True, nloops=1, timeout=300, target='broadcast_cache::try_put_task_impl + combine_tasks', source=CI))
    jobs.append(Job('cache.round_robin.try_put_task', C, 'h_rr_put', route='LC', defines=['SC'], loops=True, nloops=1, timeout=300, target='round_robin_cache::try_put_task_impl', source=CI))
    jobs.append(Job('pull.predecessor_cache.get_item', C, 'h_pc_get', route='LC', defines=['PC'], loops=True, nloops=1, timeout=300, target='predecessor_cache::get_item_impl', source=CI))
    jobs.append(Job('pull.reservable.try_reserve', C, 'h_rc_reserve', route='LC', defines=['PC'], loops=True, nloops=1, timeout=300, target='reservable_predecessor_cache::try_reserve_impl', source=CI))
    jobs.append(Job('pull.reservable.release_consume', C, 'h_rc_release_consume', route='LF', defines=['PC'], timeout=300, target='reservable_predecessor_cache::try_release / try_consume', source=CI))
    jobs.append(Job('wait.graph_task.reference', C, 'h_task_life', route='LF', defines=['WT'], timeout=300, target='graph_task::graph_task + graph_task::finalize + forward_task_bypass::execute / cancel', source=GI))
    jobs.append(Job('wait.graph.reserve_release_wait', C, 'h_reserve_release_wait', route='LF', defines=['WT'], timeout=300, target='graph::reserve_wait / release_wait', source=FG))
    jobs.append(Job('wait.reference_vertex.reserve', C, 'h_refv_reserve', route='RG', defines=['RV'], timeout=300, target='reference_vertex::reserve (owner thread) against any number of concurrent releases', source=TH))
    jobs.append(Job('wait.reference_vertex.release', C, 'h_refv_release', route='RG', defines=['RV'], timeout=300, target='reference_vertex::release (any thread) against the owner reserving and other releases', source=TH))
    jobs.append(Job('bufnode.api.task_handoff', C, 'h_bn_api', route='LF', defines=['BN', 'BNAPI'], timeout=300,
                    target='buffer_node::register_successor / remove_successor / try_get / try_reserve / try_release / try_consume / try_put_task_impl / enqueue_forwarding_task / grab_forwarding_task', source=FG))
    jobs.append(Job('bufnode.api.forward_task', C, 'h_bn_forward_task', route='LC', defines=['BN', 'BNAPI'], loops=True, nloops=1, timeout=300, target='buffer_node::forward_task', source=FG))
    # domain split (finding F10): try_get on a plain buffer_node whose ONLY item is under reservation
    jobs.append(Job('bufnode.pop_reserved', C, 'h_bn_pop_reserved', route='LC', defines=['BN'], loops=True, nloops=0, replace=['item_buffer_grow_my_array'], timeout=300,
                    target='buffer_node: handle_operations_impl(req_item) + internal_pop + item_buffer::pop_back while the only buffered item is reserved', source=FG))
    return {
        'jobs': jobs, 'sliced': sliced, 'fired': fired,
        'trusted': ['the aggregator runs handle_operations on one thread at a time and hands every record to the handler exactly once (proved for aggregator_generic under C13, job agg.execute); '
                    'the buffer_node entry-point jobs (bufnode.api.*) use a stub AGG_execute that gives the record one status and a task as the handler jobs prove',
                    'function_input_base: input queue, predecessor cache, create_body_task, spawn_forward_task: stubs (every accept/empty pattern)',
                    'item_type is trivially copyable (int)',
                    'item_buffer::grow_my_array is used through its contract CONTRACT_grow_my_array; the contract text is read from specs/C15/c15.c on every run and is enforced there (C15 job buffer.grow_my_array)',
                    'buffer_node handler jobs: my_successors (round_robin_cache) is a stub with the behaviour that job cache.round_robin.try_put_task proves: offers in turn, at most one acceptor, NULL only when all rejected, '
                    'rejecting successors leave the list iff they accept pull mode; is_graph_active, small_object_allocator::new_object, order_tasks (either order), spawn_in_graph_arena: stubs',
                    'successor / predecessor objects behind the caches: receiver::try_put_task, register_predecessor, sender::try_get, try_reserve, try_release, try_consume, register_successor are nondeterministic stubs (every accept / reject pattern)',
                    'std::list / std::queue semantics in the cache jobs: positional view (iterator = position, erase(i) -> i+1, queue pop = next position, push = append)',
                    'buffer_operation constructors -> OP_INIT (type, elem, ltask = r = nullptr, status = WAIT)',
                    'reference_vertex jobs: the parent vertex (wait_context_vertex -> wait_context::add_reference) is a ghost counter P; r1::get_thread_reference_vertex returns the calling thread\'s vertex whose parent is its argument (stub records the argument)'],
        'drops': ['preview metainfo arguments / #if __TBB_PREVIEW_FLOW_GRAPH_TRY_PUT_AND_WAIT arms resolved to 0', 'status atomics -> SET_STATUS (handler-only access)', 'aligned_space -> struct',
                  'scoped_lock objects of the caches -> RG_NOP (mutual exclusion is C08\'s)', 'template parameter derived_type bound to the same flattened C object; virtual internal_* calls dispatched by macro to the buffer_node or queue_node override',
                  'fgt_* tracing calls -> RG_NOP', 'memory orders of reserved_src / m_ref_count (SC assumed)', 'execution_data arguments'],
        'not_decided': ['sequencer_node / priority_queue_node as derived types of the buffer handler (sequencer internal_push is under C15; priority_queue_node has its own handler, C13)',
                        'batches of more than one operation per handler run are covered as a sequence of inductive steps only for the state invariant; the combined ltask of a multi-record batch is not modelled',
                        'interleavings of several cache calls on one cache (the cache jobs prove one call in isolation; concurrent add/remove on the same predecessor queue between the two locked sections of get_item / try_reserve is not modelled)',
                        'successor_cache::register_successor / remove_successor, broadcast_cache::gather_successful_try_puts, predecessor_cache::reset / node_cache::remove',
                        'a successor that rejects AND refuses pull mode (write_once_node, a full sequencer duplicate): the item stays buffered and is offered again only at the next put / release / consume / registration (ghost g_refused excludes it from the forwarding invariant)',
                        'graph::wait_for_all itself (lambda + try_call/on_exception: exception plumbing is cut by extraction), wait_context::add_reference / notify_waiters (sleep/wake-up: C02), get_thread_reference_vertex map clean-up',
                        'join_node ports, limiter_node (C15), input_node, overwrite/write_once, async_node gateways, topology quantifier (fan-in/fan-out/cycles) - only per-node / per-edge inductive steps are proved',
                        'after cancellation or an exception no further body starts',
                        'aggregator exclusivity itself'],
        'assumptions': ['app_body_bypass operations are issued once per finished body (ghost running-bodies count)',
                        'buffer handler: only the holder of the reservation issues rel_res / con_res; try_fwd_task records are issued only by the forward task (forwarder_busy set); buffers below 2^16 items, indices below 2^62',
                        'buffer handler: the graph-activity flag does not change during one handler run',
                        'reference_vertex: only the owning thread calls reserve() on its thread-local vertex (get_thread_reference_vertex is a per-thread map); release() is called only for references whose reserve() has returned; counters below 2^62',
                        'sequentially consistent atomics'],
    }


def replay(ctx, jobname, failure):
    exe = native.build([os.path.join(HERE, 'c14_replay.cpp')], os.path.join(ctx.work, 'c14_replay'), flags=['-fno-access-control'], link_tbb=True)
    rc, out = native.run([exe, jobname], timeout=120)
    rep = {'cmd': exe + ' ' + jobname, 'rc': rc, 'output': out[-1500:], 'reproduced': False, 'detail': 'native recipes found no failing sequence'}
    m = re.search(r'REPRODUCED (.*)', out)
    if m:
        rep['reproduced'] = True
        rep['detail'] = m.group(1)
        w = re.search(r'class=(\S+)', m.group(1))
        rep['witness_class'] = w.group(1) if w else None
    return rep
