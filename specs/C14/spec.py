"""C14 -- flow graph: node concurrency limits and one disposition per message inside the aggregator handler; single open reservation; async_node gateway binding
(constructors, copy constructor, reset path, body invocation, gateway reserve/release_wait and try_put); owner re-binding in join_node / indexer_node constructors."""
import os
import sys
import re
import importlib.util
HERE = os.path.dirname(os.path.abspath(__file__))
sys.path.insert(0, os.path.join(HERE, '..'))
sys.path.insert(0, os.path.join(HERE, '..', '..', 'tools'))
import common
import native
import cxx2c
from cxx2c import Rewriter, CClass, Slice, slice_block, tag_loops, ExtractionBreak, load
from prove import Job

NI = 'include/oneapi/tbb/detail/_flow_graph_node_impl.h'
IB = 'include/oneapi/tbb/detail/_flow_graph_item_buffer_impl.h'


def c15():
    s = importlib.util.spec_from_file_location('spec_C15', os.path.join(HERE, '..', 'C15', 'spec.py'))
    m = importlib.util.module_from_spec(s)
    s.loader.exec_module(m)
    return m


FG = 'include/oneapi/tbb/flow_graph.h'


def _proto(t):
    """`RET f(params) {...` -> `RET f(params);`"""
    return t[:t.index('{')].strip() + ';\n'


def extract_buffer_node(ctx, sliced, fired, m15):
    """buffer_node / queue_node aggregator handler on the REAL item_buffer (grow_my_array under the contract that C15 proves)."""
    # ---- 1. the complete item_buffer (second instance of the C15 extraction, with everything the handler reaches) ----
    GROW = [(r'allocator_type\(\)\.allocate\(new_size\)', '(aligned_space_item*)alloc_nofail(new_size * sizeof(aligned_space_item))', 1),
            (r'char \*new_space = \(char \*\)&\(new_array\[i&\(new_size-1\)\]\.item\);\s*\(void\)new\(new_space\) item_type\(get_my_item\(i\)\);', 'new_array[i&(new_size-1)].item = *get_my_item(i);', 1),
            (r'clean_up_buffer\(false\);', 'clean_up_buffer(false);', 1)]
    CLEAN = [(r'allocator_type\(\)\.deallocate\(my_array,my_array_size\);', 'free(my_array);', 1), (r'my_head = my_tail = my_array_size = 0;', 'my_head = 0; my_tail = 0; my_array_size = 0;', 1)]
    more = [(r'const item_type& front\(\) const', 'item_buffer_front', [(r'return get_my_item\(my_head\);', 'return get_my_item(my_head);', 0)], 'const item_type*'),
            (r'const item_type& back\(\) const', 'item_buffer_back', [(r'return get_my_item\(my_tail - 1\);', 'return get_my_item(my_tail - 1);', 0)], 'const item_type*'),
            (r'void reserve_item\(size_type i\)', 'item_buffer_reserve_item', [(r'!my_item_reserved\(i\)', 'element(i).state != reserved_item', 0)], None),
            (r'void release_item\(size_type i\)', 'item_buffer_release_item', [(r'my_item_reserved\(i\)', 'element(i).state == reserved_item', 0)], None),
            (r'void destroy_front\(\)', 'item_buffer_destroy_front', [], None),
            (r'void destroy_back\(\)', 'item_buffer_destroy_back', [], None),
            (r'void clean_up_buffer\(bool reset_pointers\)', 'item_buffer_clean_up_buffer', CLEAN, None),
            (r'void grow_my_array\( size_t minimum_size \)', 'item_buffer_grow_my_array', GROW, None),
            (r'bool buffer_full\(\)', 'item_buffer_buffer_full', [], None),
            (r'bool push_back\(item_type& v\s', 'item_buffer_push_back', [(r'set_my_item\(my_tail, v\);', 'set_my_item(my_tail, v);', 0)], None),
            (r'bool pop_back\(item_type& v\s', 'item_buffer_pop_back', [(r'v = e->item;', '*v = e->item;', 0), (r'my_item_reserved\(([^()]*)\)', r'(element(\1).state == reserved_item)', 0)], None),
            (r'bool pop_front\(item_type& v\s', 'item_buffer_pop_front', [(r'v = e->item;', '*v = e->item;', 0)], None)]
    s2, f2 = [], {}
    ib, rw, conv = m15.extract_item_buffer(ctx, s2, f2, more=more)
    ibp = os.path.join(ctx.work, 'item_buffer.inc')
    txt = open(ibp).read()
    os.remove(ibp)
    txt = rw.sub(txt, r'void item_buffer_grow_my_array\(struct item_buffer\* self, size_t minimum_size\) \{', 'void item_buffer_grow_my_array(struct item_buffer* self, size_t minimum_size)\nCONTRACT_grow_my_array {', 1, 1, name='contract-anchor')
    a_ = txt.index('void item_buffer_grow_my_array(struct item_buffer* self, size_t minimum_size)\nCONTRACT_grow_my_array {')
    e_ = txt.index('\n    }\n', a_) + 7
    txt = txt[:a_] + tag_loops(txt[a_:e_], 'ibgrow', rw, expect=3) + txt[e_:]
    a_ = txt.index('void item_buffer_clean_up_buffer(')
    e_ = txt.index('\n    }\n', a_) + 7
    txt = txt[:a_] + tag_loops(txt[a_:e_], 'ibclean', rw, expect=1) + txt[e_:]
    if txt.count('    size_t my_tail;\n};') != 1:
        raise ExtractionBreak('item_buffer struct layout changed')
    txt = txt.replace('    size_t my_tail;\n};', '    size_t my_tail;\n    bool my_reserved;      /* member of the derived reservable_item_buffer */\n    bool forwarder_busy;   /* member of the derived buffer_node (one flattened object) */\n};')
    txt = 'void item_buffer_clean_up_buffer(struct item_buffer* self, bool reset_pointers);\nvoid item_buffer_grow_my_array(struct item_buffer* self, size_t minimum_size);\n' + txt
    common.write(ctx, 'item_buffer_bn.inc', txt)
    # the harness prelude of C15 (types, IB_SHAPE, the grow_my_array contract and its loop invariants) is taken over verbatim so that the contract
    # used here is textually the one that C15's job buffer.grow_my_array enforces
    c15c = open(os.path.join(HERE, '..', 'C15', 'c15.c')).read()
    a_ = c15c.find('#ifdef SEQ\n')
    e_ = c15c.find('#include "item_buffer.inc"', a_)
    if a_ < 0 or e_ < 0 or 'CONTRACT_grow_my_array' not in c15c[a_:e_]:
        raise ExtractionBreak('specs/C15/c15.c: SEQ prelude with CONTRACT_grow_my_array not found')
    common.write(ctx, 'c15_prelude.inc', c15c[a_ + len('#ifdef SEQ\n'):e_])
    # ---- 2. buffer_node ----
    for pat, what in ((r'enum op_type \{reg_succ, rem_succ, req_item, res_item, rel_res, con_res, put_item, try_fwd_task\s*\};', 'buffer_node::op_type'),
                      (r'bool forwarder_busy;', 'buffer_node::forwarder_busy'), (r'round_robin_cache< T, null_rw_mutex > my_successors;', 'buffer_node::my_successors')):
        if not re.search(pat, load(FG)):
            raise ExtractionBreak('flow_graph.h: %s changed' % what)
    TB = {'size_type': 'size_t', 'derived_type': 'struct item_buffer', 'T': 'item_type'}
    bn = CClass(FG, r'class buffer_node\s*: public graph_node', 'item_buffer', tbind=TB)
    bn.members = ib.members + [('bool', 'my_reserved', ''), ('bool', 'forwarder_busy', '')]
    rb = bn.rw
    IBM = ['my_item_valid', 'back', 'front', 'destroy_back', 'destroy_front', 'push_back', 'pop_back', 'pop_front']
    OPS = 'internal_reg_succ|internal_rem_succ|internal_pop|internal_reserve|internal_release|internal_consume|internal_push|internal_forward_task'
    PRE = [(r'static_cast<class_type\*>\(derived\) == this', 'derived == self', 0),
           (r'\b(%s)\(tmp\)' % OPS, r'VIRT_\1(self, tmp)', 0),
           (r'derived->order\(\);', 'DERIVED_order(derived);', 0),
           (r'derived->is_item_valid\(\)', 'DERIVED_is_item_valid(derived)', 0),
           (r'derived->try_put_and_add_task\(last_task\)', 'DERIVED_try_put_and_add_task(derived, &last_task)', 0),
           (r'is_graph_active\(this->my_graph\)', 'STUB_is_graph_active()', 0),
           (r'typedef forward_task_bypass<class_type> task_type;', 'RG_NOP();', 0),
           (r'd1::small_object_allocator allocator\{\};', 'RG_NOP();', 0),
           (r'allocator\.new_object<task_type>\(graph_reference\(\), allocator, \*this\)', 'STUB_new_forward_task(self)', 0),
           (r'graph ?& ?(\w+) = this->(?:my_graph|graph_reference\(\));', r'graph* \1 = STUB_graph();', 0),
           (r'(?:this->)?my_successors\.size\(\)', 'STUB_succ_size(self)', 0),
           (r'(?:this->)?my_successors\.try_put_task\(', 'STUB_succ_try_put_task(self, ', 0),
           (r'my_successors\.register_successor\(\*\(op->r\)\);', 'STUB_succ_register(self, op->r);', 0),
           (r'my_successors\.remove_successor\(\*\(op->r\)\);', 'STUB_succ_remove(self, op->r);', 0),
           (r'(?:this->)?handle_operations_impl\(op_list, this\)', 'bn_handle_operations_impl(self, op_list, self)', 0),
           (r'(?:this->)?internal_forward_task_impl\(op, this\)', 'bn_internal_forward_task_impl(self, op, self)', 0),
           (r'this->(consume_front|release_front)\(\)', r'rib_\1(self)', 0), (r'this->reserve_front\(', 'rib_reserve_front(self, ', 0),
           (r'(?:this->)?is_item_valid\(\)', 'DERIVED_is_item_valid(self)', 0),
           (r'\*\(op->elem\)', 'op->elem', 0),     # argument for a reference parameter (now a pointer)
           (r'(\w+)->status\.store\((\w+), std::memory_order_release\);', r'SET_STATUS(\1, \2);', 0)]

    def res(sl, name):
        return m15.resolved(sl, name)

    def cv(cls, sig, cfn, loops=None):
        t = cls.convert(res(cls.method(sig), cfn), cfn, methods=IBM, pre=PRE)
        # `graph_task*& last_task` became a pointer parameter: every use in the body is a dereference
        hd, body = t[:t.index('{')], t[t.index('{'):]
        if 'graph_task** last_task' in hd:
            body = re.sub(r'\blast_task\b', '(*last_task)', body)
            rb.fired['ref-param use -> deref'] = rb.fired.get('ref-param use -> deref', 0) + 1
        hd = re.sub(r'\)\s*override\s*$', ') ', hd)
        t = hd + body
        if loops:
            t = tag_loops(t, loops[0], rb, expect=loops[1])
        return t
    out = []
    out.append(cv(bn, r'void handle_operations_impl\(buffer_operation \*op_list, derived_type\* derived\)', 'bn_handle_operations_impl', ('bnho', 1)))
    out.append(cv(bn, r'virtual void handle_operations\(buffer_operation \*op_list\)', 'bn_handle_operations'))
    out.append(cv(bn, r'virtual void internal_reg_succ\(buffer_operation \*op\)', 'bn_internal_reg_succ'))
    out.append(cv(bn, r'virtual void internal_rem_succ\(buffer_operation \*op\)', 'bn_internal_rem_succ'))
    out.append(cv(bn, r'void order\(\)', 'bn_order'))
    out.append(cv(bn, r'bool is_item_valid\(\)', 'bn_is_item_valid'))
    out.append(cv(bn, r'void try_put_and_add_task\(graph_task\*& last_task\)', 'bn_try_put_and_add_task'))
    out.append(cv(bn, r'virtual void internal_forward_task\(buffer_operation \*op\)', 'bn_internal_forward_task'))
    out.append(cv(bn, r'void internal_forward_task_impl\(buffer_operation \*op, derived_type\* derived\)', 'bn_internal_forward_task_impl', ('bnfwd', 1)))
    out.append(cv(bn, r'virtual bool internal_push\(buffer_operation \*op\)', 'bn_internal_push'))
    out.append(cv(bn, r'virtual void internal_pop\(buffer_operation \*op\)', 'bn_internal_pop'))
    out.append(cv(bn, r'virtual void internal_reserve\(buffer_operation \*op\)', 'bn_internal_reserve'))
    out.append(cv(bn, r'virtual void internal_consume\(buffer_operation \*op\)', 'bn_internal_consume'))
    out.append(cv(bn, r'virtual void internal_release\(buffer_operation \*op\)', 'bn_internal_release'))
    # ---- 2b. the public entry points around the aggregator: what happens to the operation record's task ----
    WPRE = [(r'buffer_operation op_data\((\w+)\);', r'buffer_operation op_data; OP_INIT(&op_data, NULL, \1);', 0),
            (r'buffer_operation op_data\(t, (\w+)\);', r'buffer_operation op_data; OP_INIT(&op_data, t, \1);', 0),
            (r'my_aggregator\.execute\(&op_data\);', 'AGG_execute(self, &op_data);', 0),
            (r'op_data\.r = &r;', 'op_data.r = r;', 0), (r'op_data\.elem = &v;', 'op_data.elem = v;', 0),
            (r'enqueue_forwarding_task\(op_data\)', 'bn_enqueue_forwarding_task(self, &op_data)', 0),
            (r'grab_forwarding_task\(op_data\)', 'bn_grab_forwarding_task(self, &op_data)', 0),
            (r'grab_forwarding_task\(\s*buffer_operation &op_data\)', 'grab_forwarding_task(buffer_operation &op_data)', 0),
            (r'spawn_in_graph_arena\(graph_reference\(\), \*ft\);', 'STUB_spawn(ft);', 0),
            (r'tbb::detail::d2::remove_predecessor\(r, \*this\);', 'STUB_remove_predecessor(self, r);', 0)]
    TBW = dict(TB)
    TBW['successor_type'] = 'void'
    bw = CClass(FG, r'class buffer_node\s*: public graph_node', 'item_buffer', tbind=TBW, rw=rb)
    bw.members = bn.members

    def cw(sig, cfn, loops=None):
        t = bw.convert(res(bw.method(sig), cfn), cfn, pre=WPRE + PRE)
        t = re.sub(r'\)\s*override\s*\{', ') {', t, 1)
        hd, body = t[:t.index('{')], t[t.index('{'):]
        if 'buffer_operation* op_data' in hd:      # reference parameter (now a pointer) passed on: no address-of
            body = body.replace('&op_data', 'op_data')
        t = hd + body
        if loops:
            t = tag_loops(t, loops[0], rb, expect=loops[1])
        return t
    wout = []
    wout.append(cw(r'inline graph_task \*grab_forwarding_task\( buffer_operation &op_data\)', 'bn_grab_forwarding_task'))
    wout.append(cw(r'inline bool enqueue_forwarding_task\(buffer_operation &op_data\)', 'bn_enqueue_forwarding_task'))
    wout.append(cw(r'virtual graph_task \*forward_task\(\)', 'bn_forward_task', ('bnft', 1)))
    wout.append(cw(r'bool register_successor\( successor_type &r \) override', 'bn_register_successor'))
    wout.append(cw(r'bool remove_successor\( successor_type &r \) override', 'bn_remove_successor'))
    wout.append(cw(r'bool try_get\( T &v \) override', 'bn_try_get'))
    wout.append(cw(r'bool try_reserve\( T &v \) override', 'bn_try_reserve'))
    wout.append(cw(r'bool try_release\(\) override', 'bn_try_release'))
    wout.append(cw(r'bool try_consume\(\) override', 'bn_try_consume'))
    wout.append(cw(r'graph_task\* try_put_task_impl\(const T& t', 'bn_try_put_task_impl'))
    # ---- 3. queue_node overrides ----
    qn = CClass(FG, r'class queue_node : public buffer_node<T> \{', 'item_buffer', tbind=TB, rw=rb)
    qn.members = bn.members
    out.append(cv(qn, r'bool is_item_valid\(\)', 'qn_is_item_valid'))
    out.append(cv(qn, r'void try_put_and_add_task\(graph_task\*& last_task\)', 'qn_try_put_and_add_task'))
    out.append(cv(qn, r'void internal_forward_task\(queue_operation \*op\) override', 'qn_internal_forward_task'))
    out.append(cv(qn, r'void internal_pop\(queue_operation \*op\) override', 'qn_internal_pop'))
    out.append(cv(qn, r'void internal_reserve\(queue_operation \*op\) override', 'qn_internal_reserve'))
    out.append(cv(qn, r'void internal_consume\(queue_operation \*op\) override', 'qn_internal_consume'))
    # ---- 4. combine_tasks (free function) ----
    ct = slice_block(FG, r'static inline graph_task\* combine_tasks\(graph& g, graph_task\* left, graph_task\* right\)')
    t = rb.sub(ct.text, r'static inline graph_task\* combine_tasks\(graph& g, graph_task\* left, graph_task\* right\)', 'static graph_task* combine_tasks(graph* g, graph_task* left, graph_task* right)', 1, 1, name='sig (ref-param -> pointer)')
    t = rb.sub(t, r'auto tasks_pair = order_tasks\(left, right\);', 'struct task_pair tasks_pair = STUB_order_tasks(left, right);', 0, name='order_tasks -> stub (either order)')
    t = rb.sub(t, r'spawn_in_graph_arena\(g, \*([\w.]+)\);', r'STUB_spawn(\1);', 0, name='spawn_in_graph_arena -> stub')
    t = rb.std(t)
    txt = t + '\n' + ''.join(_proto(x) for x in out) + '\n'.join(out)
    bad = cxx2c.c_residue(txt)
    if bad:
        raise ExtractionBreak('buffer_node.inc: C++ residue %s' % bad)
    common.write(ctx, 'buffer_node.inc', txt)
    wtxt = ''.join(_proto(x) for x in wout) + '\n'.join(wout)
    bad = cxx2c.c_residue(wtxt)
    if bad:
        raise ExtractionBreak('buffer_node_api.inc: C++ residue %s' % bad)
    common.write(ctx, 'buffer_node_api.inc', wtxt)
    sliced += s2 + bn.sliced + bw.sliced + qn.sliced + ['%s:%d combine_tasks' % (FG, ct.line)]
    fired['item_buffer(full)'] = dict(rw.fired)
    fired['buffer_node+queue_node'] = dict(rb.fired)


CI = 'include/oneapi/tbb/detail/_flow_graph_cache_impl.h'


def extract_caches(ctx, sliced, fired, m15):
    """broadcast_cache / round_robin_cache::try_put_task_impl and predecessor_cache / reservable_predecessor_cache (pull side).
    std::list / std::queue are viewed positionally: the successors (predecessors) present on entry are numbered 0..n-1 in list order, an iterator is
    a position, erase(i) yields i+1 (only forward iteration with erasure at the iterator occurs; the stubs check that)."""
    LOCK = (r'typename mutex_type::scoped_lock (?:l|lock)\(\s*this->my_mutex(?:, (?:true|false))?\s*\);', 'RG_NOP();', 0)
    PRE = [LOCK,
           (r'typename successors_type::iterator i = this->my_successors\.begin\(\);', 'size_t i = LIST_begin(self);', 0),
           (r'this->my_successors\.end\(\)', 'LIST_end(self)', 0),
           (r'\(\*i\)->try_put_task\(t\)', 'SUCC_try_put_task(self, i, t)', 0),
           (r'graph ?& ?(\w+) = \(\*i\)->graph_reference\(\);', r'graph* \1 = STUB_graph();', 0),
           (r'\(\*i\)->register_predecessor\(\*this->my_owner\)', 'SUCC_register_predecessor(self, i)', 0),
           (r'this->my_successors\.erase\(i\)', 'LIST_erase(self, i)', 0)]
    TB = {'T': 'item_type', 'size_type': 'size_t', 'output_type': 'item_type'}
    out = []
    bc = CClass(CI, r'class broadcast_cache : public successor_cache<T, M> \{', 'cache', tbind=TB)
    t = bc.convert(m15.resolved(bc.method(r'graph_task\* try_put_task_impl\( const T& t'), 'bc'), 'bc_try_put_task_impl', pre=PRE)
    out.append(tag_loops(t, 'bcput', bc.rw, expect=1))
    rr = CClass(CI, r'class round_robin_cache : public successor_cache<T, M> \{', 'cache', tbind=TB, rw=bc.rw)
    t = rr.convert(m15.resolved(rr.method(r'graph_task\* try_put_task_impl\( const T &t'), 'rr'), 'rr_try_put_task_impl', pre=PRE)
    out.append(tag_loops(t, 'rrput', bc.rw, expect=1))
    ct = slice_block(FG, r'static inline graph_task\* combine_tasks\(graph& g, graph_task\* left, graph_task\* right\)')
    t = bc.rw.sub(ct.text, r'static inline graph_task\* combine_tasks\(graph& g, graph_task\* left, graph_task\* right\)', 'static graph_task* combine_tasks(graph* g, graph_task* left, graph_task* right)', 1, 1, name='sig (ref-param -> pointer)')
    t = bc.rw.sub(t, r'auto tasks_pair = order_tasks\(left, right\);', 'struct task_pair tasks_pair = STUB_order_tasks(left, right);', 0, name='order_tasks -> stub (either order)')
    t = bc.rw.sub(t, r'spawn_in_graph_arena\(g, \*([\w.]+)\);', r'STUB_spawn(\1);', 0, name='spawn_in_graph_arena -> stub')
    t = bc.rw.std(t)
    txt = t + '\n' + '\n'.join(out)
    bad = cxx2c.c_residue(txt)
    if bad:
        raise ExtractionBreak('succ_cache.inc: C++ residue %s' % bad)
    common.write(ctx, 'succ_cache.inc', txt)
    sliced += bc.sliced + rr.sliced
    # ---- pull side ----
    if not re.search(r'std::atomic<predecessor_type\*> reserved_src;', load(CI)) or not re.search(r'std::queue< T \* > my_q;', load(CI)):
        raise ExtractionBreak('_flow_graph_cache_impl.h: reserved_src / my_q declarations changed')
    PPRE = [(r'typename mutex_type::scoped_lock lock\(this->my_mutex\);', 'RG_NOP();', 0),
            (r'this->internal_empty\(\)', 'Q_empty(self)', 0),
            (r'&this->internal_pop\(\)', 'Q_pop(self)', 0),
            (r'(\w+)->try_get\( ?v ?\)', r'PRED_try_get(self, \1, v)', 0),
            (r'(\w+)->try_reserve\( ?v ?\)', r'PRED_try_reserve(self, \1, v)', 0),
            (r'register_successor\( ?\*(\w+), \*(?:this->)?my_owner ?\);', r'PRED_register_successor(self, \1);', 0),
            (r'this->add\( ?\*(\w+)\);', r'Q_add(self, \1);', 0),
            (r'reserved_src\.load\(std::memory_order_relaxed\)->try_release\(\);', 'PRED_try_release(self, reserved_src.load(std::memory_order_relaxed));', 0),
            (r'reserved_src\.load\(std::memory_order_relaxed\)->try_consume\(\);', 'PRED_try_consume(self, reserved_src.load(std::memory_order_relaxed));', 0)]
    pc = CClass(CI, r'class predecessor_cache : public node_cache< sender<T>, M > \{', 'pcache', tbind=TB, rw=bc.rw)
    pc.members = [('predecessor_type*', 'reserved_src', '')]
    out = []
    t = pc.convert(m15.resolved(pc.method(r'bool get_item_impl\( output_type& v'), 'pc'), 'pc_get_item_impl', pre=PPRE)
    out.append(tag_loops(t, 'pcget', bc.rw, expect=1))
    rc = CClass(CI, r'class reservable_predecessor_cache : public predecessor_cache< T, M > \{', 'pcache', tbind=TB, rw=bc.rw)
    rc.members = pc.members
    t = rc.convert(m15.resolved(rc.method(r'bool try_reserve_impl\( output_type &v'), 'rc'), 'rc_try_reserve_impl', pre=PPRE)
    out.append(tag_loops(t, 'rcres', bc.rw, expect=1))
    out.append(rc.convert(rc.method(r'bool try_release\(\)'), 'rc_try_release', pre=PPRE))
    out.append(rc.convert(rc.method(r'bool try_consume\(\)'), 'rc_try_consume', pre=PPRE))
    txt = '\n'.join(out)
    txt = bc.rw.atomics(txt, ['reserved_src'], 0)
    bad = cxx2c.c_residue(txt)
    if bad:
        raise ExtractionBreak('pred_cache.inc: C++ residue %s' % bad)
    common.write(ctx, 'pred_cache.inc', txt)
    sliced += pc.sliced + rc.sliced
    fired['successor caches'] = dict(bc.rw.fired)


GI = 'include/oneapi/tbb/detail/_flow_graph_impl.h'
BI = 'include/oneapi/tbb/detail/_flow_graph_body_impl.h'
TH = 'include/oneapi/tbb/detail/_task.h'


def extract_wait(ctx, sliced, fired):
    """graph_task ctor / finalize, forward_task_bypass::execute / cancel, graph::reserve_wait / release_wait (reference pairing) and
    reference_vertex::reserve / release (rely/guarantee on m_ref_count)."""
    rw = Rewriter('wait')
    out = []
    s = slice_block(GI, r'inline graph_task::graph_task\(graph& g, d1::small_object_allocator& allocator,', ctor=True)
    sliced.append('%s:%d graph_task::graph_task' % (GI, s.line))
    t = rw.sub(s.text, r'inline graph_task::graph_task\(graph& g, d1::small_object_allocator& allocator,\s*node_priority_t node_priority\)\s*: my_graph\(g\)\s*, priority\(node_priority\)\s*, my_allocator\(allocator\)\s*\{',
               'void graph_task_ctor(struct graph_task* self, graph* g, int node_priority) {\n    self->my_graph = g; self->priority = node_priority;', 1, 1, name='ctor sig + init list -> assignments')
    t = rw.sub(t, r'd1::wait_context_vertex\* graph_wait_context_vertex = &my_graph\.get_wait_context_vertex\(\);', 'vertex* graph_wait_context_vertex = GRAPH_wait_vertex(self->my_graph);', 0, name='accessor')
    t = rw.sub(t, r'is_this_thread_in_graph_arena\(g\)', 'STUB_is_this_thread_in_graph_arena(g)', 0, name='callee stub')
    t = rw.sub(t, r'r1::get_thread_reference_vertex\(', 'STUB_get_thread_reference_vertex(', 0, name='callee stub')
    t = rw.sub(t, r'\b(\w+)->reserve\(\);', r'VERTEX_reserve(\1);', 0, name='virtual call')
    t = rw.fields(t, ['my_reference_vertex'])
    t = rw.asserts(t)
    t = rw.std(t)
    out.append(t)
    s = slice_block(GI, r'inline void graph_task::finalize\(const d1::execution_data& ed\)')
    sliced.append('%s:%d graph_task::finalize' % (GI, s.line))
    t = rw.sub(s.text, r'inline void graph_task::finalize\(const d1::execution_data& ed\)', 'void graph_task_finalize(struct graph_task* self)', 1, 1, name='sig')
    t = rw.sub(t, r'd1::wait_tree_vertex_interface\* reference_vertex = my_reference_vertex;', 'vertex* reference_vertex = my_reference_vertex;', 0, name='ns-strip')
    t = rw.sub(t, r'destruct_and_deallocate<DerivedType>\(ed\);', 'STUB_destruct_and_deallocate(self);', 0, name='callee stub (destroys *self)')
    t = rw.sub(t, r'\b(\w+)->release\(\);', r'VERTEX_release(\1);', 0, name='virtual call')
    t = rw.fields(t, ['my_reference_vertex'])
    t = rw.std(t)
    out.append(t)
    for sig, cfn in ((r'd1::task\* execute\(d1::execution_data& ed\) override', 'fwd_task_execute'), (r'd1::task\* cancel\(d1::execution_data& ed\) override', 'fwd_task_cancel')):
        s = slice_block(BI, sig, within=r'class forward_task_bypass : public graph_task \{')
        sliced.append('%s:%d forward_task_bypass::%s' % (BI, s.line, cfn))
        t = rw.sub(s.text, sig, 'graph_task* %s(struct graph_task* self)' % cfn, 1, 1, name='sig')
        t = rw.sub(t, r'my_node\.forward_task\(\)', 'NODE_forward_task(self)', 0, name='callee stub')
        t = rw.sub(t, r'prioritize_task\(my_node\.graph_reference\(\), \*next_task\)', 'STUB_prioritize_task(next_task)', 0, name='callee stub')
        t = rw.sub(t, r'finalize<forward_task_bypass>\(ed\);', 'graph_task_finalize(self);', 0, name='member call')
        t = rw.std(t)
        out.append(t)
    for nm in ('reserve_wait', 'release_wait'):
        s = slice_block('include/oneapi/tbb/flow_graph.h', r'inline void graph::%s\(\)' % nm)
        sliced.append('include/oneapi/tbb/flow_graph.h:%d graph::%s' % (s.line, nm))
        t = rw.sub(s.text, r'inline void graph::%s\(\)' % nm, 'void graph_%s(graph* self)' % nm, 1, 1, name='sig')
        t = rw.sub(t, r'my_wait_context_vertex\.(reserve|release)\(\);', r'VERTEX_\1(&self->my_wait_context_vertex);', 0, name='member call')
        t = rw.nop_calls(t, [r'fgt_reserve_wait', r'fgt_release_wait'])
        out.append(t)
    txt = '\n'.join(out)
    bad = cxx2c.c_residue(txt)
    if bad:
        raise ExtractionBreak('graph_wait.inc: C++ residue %s' % bad)
    common.write(ctx, 'graph_wait.inc', txt)
    # reference_vertex
    rv = CClass(TH, r'class reference_vertex : public wait_tree_vertex_interface \{', 'refv', rw=rw)
    rv.harvest_members(['my_parent', 'm_ref_count'])
    PRE = [(r'my_parent->reserve\(\);', 'PARENT_reserve(my_parent);', 0), (r'auto parent = my_parent;', 'wait_tree_vertex_interface* parent = my_parent;', 0), (r'parent->release\(\);', 'PARENT_release(parent);', 0)]
    out = []
    for nm in ('reserve', 'release'):
        t = rv.convert(rv.method(r'void %s\(std::uint32_t delta = 1\) override' % nm), 'refv_' + nm, pre=PRE)
        t = re.sub(r'\)\s*override\s*\{', ') {', t, 1)
        t = rw.atomics(t, ['m_ref_count'], 0)
        t = rw.number_sites(t, nm, by_kind=True)
        out.append(t)
    txt = '\n'.join(out)
    bad = cxx2c.c_residue(txt)
    if bad:
        raise ExtractionBreak('refvertex.inc: C++ residue %s' % bad)
    common.write(ctx, 'refvertex_struct.inc', rv.struct_decl())
    common.write(ctx, 'refvertex.inc', txt)
    sliced += rv.sliced
    fired['graph wait / reference vertex'] = dict(rw.fired)


# ---------------------------------------------------------------------------------------------------------------------------------
# ASYNC: async_node (constructors, copy constructor, reset path, gateway, body invocation) on one flattened C object
# ---------------------------------------------------------------------------------------------------------------------------------
def ctor_init_list(rw, text, order, cls, scalars=()):
    """`C(params) : a(x), b(y, z) {body}` -> (`params`, init statements in DECLARED order, body without braces).
    A member listed in `scalars` becomes `self->a = x;` (built-in type: initialisation is assignment); every other item (base class, class-type member,
    delegated constructor) becomes `INIT_<cls>_<name>(self, args);` which the harness maps to the callee's constructor."""
    mk = cxx2c.mask(text)
    o = mk.find('(')
    c = cxx2c.match_close(mk, o, '(', ')')
    params = text[o + 1:c]
    b = None
    i = c + 1
    while i < len(mk):
        ch = mk[i]
        if ch == '(':
            i = cxx2c.match_close(mk, i, '(', ')')
        elif ch == '{':
            k = i - 1
            while mk[k].isspace():
                k -= 1
            if mk[k] in ')}':
                b = i
                break
            i = cxx2c.match_close(mk, i)
        i += 1
    if b is None:
        raise ExtractionBreak('%s: constructor body not found' % cls)
    il = text[c + 1:b].strip()
    items = []
    if il:
        if not il.startswith(':'):
            raise ExtractionBreak('%s: cannot parse init list %r' % (cls, il[:80]))
        for it in cxx2c.split_args(il[1:]):
            im = re.match(r'\s*(\w+)\s*(?:<[^()]*>)?\s*[\(\{](.*)[\)\}]\s*$', it, re.S)
            if not im:
                raise ExtractionBreak('%s: cannot parse init-list item %r' % (cls, it))
            if im.group(1) not in order:
                raise ExtractionBreak('%s: init-list member %s not in the declared-order table' % (cls, im.group(1)))
            items.append((order.index(im.group(1)), im.group(1), ' '.join(im.group(2).split())))
    items.sort()
    rw.fired[cls + ':init-list->assignments / INIT_<cls>_<member>(self, args) (declared order)'] = len(items)
    init = ''
    for _, nm, a in items:
        if nm in scalars:
            init += '    self->%s = %s;\n' % (nm, a if a else '0')
        else:
            init += '    INIT_%s_%s(self%s);\n' % (cls, nm, (', ' + a) if a else '')
    e = cxx2c.match_close(mk, b)
    return params, init, text[b + 1:e]


def _rules(rw, t, rules, what):
    for pat, rep in rules:
        t = rw.sub(t, pat, rep, 0, None, name='%s: %s' % (what, pat))
    return t


def extract_async(ctx, sliced, fired, m15):
    rw = Rewriter('async_node')
    out = []

    def note(s, what):
        sliced.append('%s:%d %s' % (s.rel, s.line, what))

    def fields(t, names):
        return rw.sub(t, r'(?<![\w.>])(%s)\b(?!\s*\()' % '|'.join(names), r'self->\1', 0, None, name='field')

    def ctor(s, cls, order, scalars, csig, rules=(), pre=(), flds=()):
        text = s.text
        for pat, rep in pre:           # before the init list is split (template arguments contain commas)
            text = rw.sub(text, pat, rep, 0, None, name='%s: %s' % (cls, pat))
        params, init, body = ctor_init_list(rw, text, order, cls, scalars)
        t = init + body
        t = _rules(rw, t, rules, cls)
        if flds:
            t = fields(t, flds)
        t = rw.sub(t, r'\bthis\b', 'self', 0, None, name='this')
        return csig + ' {\n' + t + '}\n'

    def meth(s, sig, csig, rules=(), flds=(), what=''):
        t = rw.sub(s.text, sig, csig, 1, 1, name='sig ' + what)
        t = _rules(rw, t, rules, what)
        if flds:
            hd, body = t[:t.index('{')], t[t.index('{'):]
            t = hd + fields(body, flds)
        t = rw.sub(t, r'\bthis->', 'self->', 0, None, name='this->')
        return t + '\n'

    FGT = [r'fgt_multioutput_node_with_body<\w+>', r'fgt_async_reserve', r'fgt_async_commit', r'fgt_async_try_put_begin', r'fgt_async_try_put_end', r'fgt_begin_body', r'fgt_end_body']
    # ---- async_body_base / async_body ------------------------------------------------------------------------------------------
    W_ABB = r'class async_body_base: no_assign \{'
    W_AB = r'class async_body: public async_body_base<Gateway> \{'
    abb = CClass(FG, W_ABB, 'abody', rw=rw)
    abb.harvest_members(['my_gateway'])
    ab = CClass(FG, W_AB, 'abody', rw=rw)
    ab.harvest_members(['my_body'])
    if abb.members[0][0].replace(' ', '') != 'gateway_type*' or ab.members[0][0] != 'Body':
        raise ExtractionBreak('async_body_base::my_gateway / async_body::my_body declarations changed: %r %r' % (abb.members, ab.members))
    s = slice_block(FG, r'async_body_base\(gateway_type \*gateway\)', within=W_ABB, ctor=True)
    note(s, 'async_body_base::async_body_base')
    out.append(ctor(s, 'abody_base', ['my_gateway'], ['my_gateway'], 'void async_body_base_ctor(struct abody* self, struct gateway_impl* gateway)'))
    s = slice_block(FG, r'void set_gateway\(gateway_type \*gateway\)', within=W_ABB)
    note(s, 'async_body_base::set_gateway')
    out.append(meth(s, r'void set_gateway\(gateway_type \*gateway\)', 'void async_body_base_set_gateway(struct abody* self, struct gateway_impl* gateway)', flds=['my_gateway'], what='set_gateway'))
    s = slice_block(FG, r'async_body\(const Body &body, gateway_type \*gateway\)', within=W_AB, ctor=True)
    note(s, 'async_body::async_body')
    out.append(ctor(s, 'abody', ['base_type', 'my_body'], [], 'void async_body_ctor(struct abody* self, Body* body, struct gateway_impl* gateway)'))
    s = slice_block(FG, r'void operator\(\)\( const Input &v, Ports & \)', within=W_AB)
    note(s, 'async_body::operator()')

    def ref_args(conv):
        def fn(m, a):
            return conv[0] + '(' + ', '.join(conv[1](x) for x in a) + ')'
        return fn
    t = rw.sub(s.text, r'void operator\(\)\( const Input &v, Ports & \) noexcept\(noexcept\(tbb::detail::invoke\(my_body, v, std::declval<gateway_type&>\(\)\)\)\)',
               'void async_body_call(struct abody* self, input_type* v, struct ports* unused_ports)', 1, 1, name='sig async_body::operator() (noexcept specification dropped)')

    def refarg(x):     # argument bound to a reference parameter: `*p` -> p, a reference parameter (already a pointer) stays, an lvalue -> its address
        x = x.strip()
        if x.startswith('*'):
            return x[1:]
        if x in ('v', 'input', 'oset', 'i'):
            return x
        return '&' + x
    t = rw.call(t, r'tbb::detail::invoke', ref_args(('INVOKE_user_body', refarg)), 0, name='tbb::detail::invoke(user body, ...) -> INVOKE_user_body (reference arguments -> pointers)')
    t = fields(t, ['my_body'])
    t = rw.sub(t, r'\bthis->', 'self->', 0, None, name='this->')
    out.append(t + '\n')
    # ---- multifunction_body_leaf -------------------------------------------------------------------------------------------------
    W_LEAF = r'class multifunction_body_leaf : public multifunction_body<Input, OutputSet> \{'
    lf = CClass(BI, W_LEAF, 'mfleaf', rw=rw)
    lf.harvest_members(['body'])
    if lf.members[0][0] != 'B':
        raise ExtractionBreak('multifunction_body_leaf::body declaration changed')
    s = slice_block(BI, r'multifunction_body_leaf\(const B &_body\)', within=W_LEAF, ctor=True)
    note(s, 'multifunction_body_leaf::multifunction_body_leaf')
    out.append(ctor(s, 'mfleaf', ['body'], [], 'void mfleaf_ctor(struct mfleaf* self, struct abody* _body)'))
    s = slice_block(BI, r'void operator\(\)\(const Input &input, OutputSet &oset\) override', within=W_LEAF)
    note(s, 'multifunction_body_leaf::operator()')
    t = rw.sub(s.text, r'void operator\(\)\(const Input &input, OutputSet &oset\) override', 'void mfleaf_call(struct mfleaf* self, input_type* input, struct ports* oset)', 1, 1, name='sig leaf::operator()')
    t = rw.call(t, r'tbb::detail::invoke', ref_args(('INVOKE_leaf_body', refarg)), 0, name='tbb::detail::invoke(B, ...) -> INVOKE_leaf_body (reference arguments -> pointers)')
    t = fields(t, ['body'])
    out.append(t + '\n')
    s = slice_block(BI, r'void\* get_body_ptr\(\) override', within=W_LEAF)
    note(s, 'multifunction_body_leaf::get_body_ptr')
    out.append(meth(s, r'void\* get_body_ptr\(\) override', 'void* mfleaf_get_body_ptr(struct mfleaf* self)', flds=['body'], what='get_body_ptr'))
    s = slice_block(BI, r'multifunction_body_leaf\* clone\(\) override', within=W_LEAF)
    note(s, 'multifunction_body_leaf::clone')
    t = rw.sub(s.text, r'multifunction_body_leaf\* clone\(\) override', 'struct mfleaf* mfleaf_clone(struct mfleaf* self)', 1, 1, name='sig clone')
    t = rw.call(t, r'new multifunction_body_leaf<[^()]*>', ref_args(('NEW_mfleaf', refarg)), 0, name='new leaf(body) -> NEW_mfleaf(&body)')
    t = fields(t, ['body'])
    out.append(t + '\n')
    NEWLEAF = (r'new multifunction_body_leaf<input_type, output_ports_type, Body>\((\w+)\)', r'NEW_mfleaf(\1)')
    # ---- function_input_base: constructors, reset_function_input_base ------------------------------------------------------------------
    W_FIB = r'class function_input_base : public receiver<Input>, no_assign \{'
    fb = CClass(NI, W_FIB, 'fib', rw=rw)
    fb.harvest_members(['my_graph_ref', 'my_max_concurrency', 'my_concurrency', 'my_priority', 'my_is_no_throw', 'my_queue', 'my_predecessors', 'forwarder_busy'])
    s = slice_block(NI, r'function_input_base\( graph &g, size_t max_concurrency, node_priority_t a_priority, bool is_no_throw \)', within=W_FIB, ctor=True)
    note(s, 'function_input_base::function_input_base')
    out.append(ctor(s, 'fib', fb.member_names(), ['my_graph_ref', 'my_max_concurrency', 'my_concurrency', 'my_priority', 'my_is_no_throw', 'forwarder_busy'],
                    'void fib_ctor(struct async_node* self, graph* g, size_t max_concurrency, int a_priority, bool is_no_throw)',
                    pre=[(r'!has_policy<rejecting, Policy>::value \? new input_queue_type\(\) : nullptr', 'POLICY_QUEUE_OR_NULL')],
                    rules=[(r'my_aggregator\.initialize_handler\(handler_type\(this\)\);', 'STUB_initialize_handler(self);')]))
    s = slice_block(NI, r'function_input_base\( const function_input_base& src \)', within=W_FIB, ctor=True)
    note(s, 'function_input_base::function_input_base(const&)')
    out.append(ctor(s, 'fib_copy', ['function_input_base'], [], 'void fib_copy_ctor(struct async_node* self, const struct async_node* src)', rules=[(r'\bsrc\.', 'src->')]))
    s = slice_block(NI, r'void reset_function_input_base\( reset_flags f\)', within=W_FIB)
    note(s, 'function_input_base::reset_function_input_base')
    out.append(meth(s, r'void reset_function_input_base\( reset_flags f\)', 'void fib_reset_function_input_base(struct async_node* self, int f)',
                    rules=[(r'my_queue->reset\(\);', 'STUB_queue_reset(my_queue);'), (r'(?<![\w.>])reset_receiver\(f\);', 'STUB_reset_receiver(self, f);')],
                    flds=['my_concurrency', 'my_queue', 'forwarder_busy'], what='reset_function_input_base'))
    # ---- multifunction_input ----------------------------------------------------------------------------------------------------------
    W_MFI = r'class multifunction_input : public function_input_base<'
    mi = CClass(NI, W_MFI, 'mfinput', rw=rw)
    mi.harvest_members(['my_body', 'my_init_body', 'my_output_ports'])
    order = ['base_type'] + mi.member_names()
    PORTS = (r'init_output_ports<output_ports_type>::call\(', 'PORTS_INIT_CALL(')
    s = slice_block(NI, r'multifunction_input\(graph &g, size_t max_concurrency,Body& body, node_priority_t a_priority \)', within=W_MFI, ctor=True)
    note(s, 'multifunction_input::multifunction_input')
    out.append(ctor(s, 'mfinput', order, ['my_body', 'my_init_body'], 'void mfinput_ctor(struct async_node* self, graph* g, size_t max_concurrency, struct abody* body, int a_priority)',
                    pre=[(r'noexcept\(tbb::detail::invoke\(body, input_type\(\), my_output_ports\)\)', 'NOEXCEPT_OF_BODY'), NEWLEAF, PORTS], flds=['my_output_ports', 'my_body', 'my_init_body']))
    s = slice_block(NI, r'multifunction_input\( const multifunction_input& src \)', within=W_MFI, ctor=True)
    note(s, 'multifunction_input::multifunction_input(const&)')
    out.append(ctor(s, 'mfinput_copy', order, ['my_body', 'my_init_body'], 'void mfinput_copy_ctor(struct async_node* self, const struct async_node* src)',
                    pre=[PORTS], rules=[(r'\bsrc\.', 'src->'), (r'(\w+(?:->\w+)*)->clone\(\)', r'MFBODY_clone(\1)')], flds=['my_output_ports', 'my_body', 'my_init_body']))
    s = slice_block(NI, r'~multifunction_input\(\)', within=W_MFI)
    note(s, 'multifunction_input::~multifunction_input')
    out.append(meth(s, r'~multifunction_input\(\)', 'void mfinput_dtor(struct async_node* self)', rules=[(r'\bdelete (\w+);', r'DELETE_mfbody(\1);')], flds=['my_body', 'my_init_body'], what='~multifunction_input'))
    s = m15.resolved(slice_block(NI, r'graph_task\* apply_body_impl_bypass\( const input_type &i', within=W_MFI), 'apply_body_impl_bypass')
    note(s, 'multifunction_input::apply_body_impl_bypass')
    t = rw.sub(s.text, r'graph_task\* apply_body_impl_bypass\( const input_type &i\s*\)', 'graph_task* mfinput_apply_body_impl_bypass(struct async_node* self, input_type* i)', 1, 1, name='sig apply_body_impl_bypass')
    t = rw.nop_calls(t, FGT)
    t = rw.call(t, r'\(\*(\w+)\)', lambda m, a: 'MFBODY_call(%s, %s)' % (m.group(1), ', '.join(refarg(x) for x in a)), 0, name='virtual (*body)(i, ports) -> MFBODY_call (reference arguments -> pointers)')
    t = rw.sub(t, r'base_type::my_max_concurrency', 'my_max_concurrency', 0, None, name='base-qualified member')
    t = rw.sub(t, r'base_type::try_get_postponed_task\(i\)', 'STUB_try_get_postponed_task(self, i)', 0, None, name='callee stub (aggregator op app_body_bypass: job node.handle_one_operation)')
    hd, body = t[:t.index('{')], t[t.index('{'):]
    t = hd + fields(body, ['my_body', 'my_init_body', 'my_output_ports', 'my_max_concurrency'])
    t = rw.std(t)
    out.append(t + '\n')
    s = slice_block(NI, r'void reset\(reset_flags f\)', within=W_MFI)
    note(s, 'multifunction_input::reset')
    t = meth(s, r'void reset\(reset_flags f\)', 'void mfinput_reset(struct async_node* self, int f)',
             rules=[(r'base_type::reset_function_input_base\(f\);', 'fib_reset_function_input_base(self, f);'),
                    (r'clear_element<N>::clear_this\(my_output_ports\);', 'STUB_clear_ports(&my_output_ports);'),
                    (r'clear_element<N>::this_empty\(my_output_ports\)', 'STUB_ports_empty(&my_output_ports)'),
                    (r'multifunction_body_type\* (\w+) =', r'struct mfleaf* \1 ='),
                    (r'(\w+(?:->\w+)*)->clone\(\)', r'MFBODY_clone(\1)'), (r'\bdelete (\w+);', r'DELETE_mfbody(\1);')],
             flds=['my_body', 'my_init_body', 'my_output_ports'], what='multifunction_input::reset')
    t = rw.asserts(t)
    out.append(t)
    # ---- output ports: function_output / multifunction_output constructors, successor_cache / broadcast_cache constructors ----------------------
    W_FO = r'class function_output : public sender<Output> \{'
    fo = CClass(NI, W_FO, 'port', rw=rw)
    fo.harvest_members(['my_successors', 'my_graph_ref'])
    s = slice_block(NI, r'function_output\(graph& g\)', within=W_FO, ctor=True)
    note(s, 'function_output::function_output')
    out.append(ctor(s, 'port', fo.member_names(), ['my_graph_ref'], 'void function_output_ctor(struct port* self, graph* g)'))
    W_MO = r'class multifunction_output : public function_output<Output> \{'
    s = slice_block(NI, r'multifunction_output\(graph& g\)', within=W_MO, ctor=True)
    note(s, 'multifunction_output::multifunction_output')
    out.append(ctor(s, 'mfport', ['base_type'], [], 'void multifunction_output_ctor(struct port* self, graph* g)'))
    s = slice_block(NI, r'multifunction_output\(const multifunction_output& other\)', within=W_MO, ctor=True)
    note(s, 'multifunction_output::multifunction_output(const&)')
    out.append(ctor(s, 'mfport_copy', ['base_type'], [], 'void multifunction_output_copy_ctor(struct port* self, const struct port* other)', rules=[(r'\bother\.', 'other->')]))
    s = slice_block(CI, r'successor_cache\( owner_type\* owner \)', within=r'class successor_cache : no_copy \{', ctor=True)
    note(s, 'successor_cache::successor_cache')
    out.append(ctor(s, 'scache', ['my_owner'], ['my_owner'], 'void successor_cache_ctor(struct cache* self, struct port* owner)'))
    s = slice_block(CI, r'broadcast_cache\( typename base_type::owner_type\* owner \)', within=r'class broadcast_cache : public successor_cache<T, M> \{', ctor=True)
    note(s, 'broadcast_cache::broadcast_cache')
    out.append(ctor(s, 'bcache', ['base_type'], [], 'void broadcast_cache_ctor(struct cache* self, struct port* owner)'))
    # ---- graph_node / multifunction_node ---------------------------------------------------------------------------------------------
    s = slice_block(FG, r'inline graph_node::graph_node\(graph& g\)', ctor=True)
    note(s, 'graph_node::graph_node')
    t = rw.sub(s.text, r'inline graph_node::graph_node\(graph& g\)', 'graph_node(graph& g)', 1, 1, name='sig graph_node')
    out.append(ctor(Slice(s.rel, s.start, s.end, t, s.line), 'graph_node', ['my_graph'], ['my_graph'], 'void graph_node_ctor(struct async_node* self, graph* g)',
                    rules=[(r'my_graph\.register_node\(this\);', 'STUB_register_node(my_graph, self);')], flds=['my_graph']))
    W_MFN = r'class multifunction_node :'
    s = slice_block(FG, r'multifunction_node\(\s*graph &g, size_t concurrency,\s*Body body, Policy = Policy\(\), node_priority_t a_priority = no_priority\s*\)', within=W_MFN, ctor=True)
    note(s, 'multifunction_node::multifunction_node')
    t = rw.nop_calls(s.text, FGT)
    out.append(ctor(Slice(s.rel, s.start, s.end, t, s.line), 'mfnode', ['graph_node', 'input_impl_type'], [], 'void mfnode_ctor(struct async_node* self, graph* g, size_t concurrency, struct abody body, int a_priority)'))
    s = slice_block(FG, r'multifunction_node\( const multifunction_node &other\)', within=W_MFN, ctor=True)
    note(s, 'multifunction_node::multifunction_node(const&)')
    t = rw.nop_calls(s.text, FGT)
    out.append(ctor(Slice(s.rel, s.start, s.end, t, s.line), 'mfnode_copy', ['graph_node', 'input_impl_type'], [], 'void mfnode_copy_ctor(struct async_node* self, const struct async_node* other)', rules=[(r'\bother\.', 'other->')]))
    s = slice_block(FG, r'void reset_node\(reset_flags f\) override', within=W_MFN)
    note(s, 'multifunction_node::reset_node')
    out.append(meth(s, r'void reset_node\(reset_flags f\) override', 'void mfnode_reset_node(struct async_node* self, int f)', rules=[(r'input_impl_type::reset\(f\);', 'mfinput_reset(self, f);')], what='multifunction_node::reset_node'))
    # ---- async_node -----------------------------------------------------------------------------------------------------------------
    W_AN = r'class async_node\s*: public multifunction_node<'
    an = CClass(FG, W_AN, 'async_node', rw=rw)
    if not re.search(r'async_node\* my_node;\s*\} my_gateway;', an.text):
        raise ExtractionBreak('async_node::my_gateway / receiver_gateway_impl::my_node declarations changed')
    s = slice_block(FG, r'receiver_gateway_impl\(async_node\* node\)', within=W_AN, ctor=True)
    note(s, 'async_node::receiver_gateway_impl::receiver_gateway_impl')
    out.append(ctor(s, 'gateway_impl', ['my_node'], ['my_node'], 'void gateway_impl_ctor(struct gateway_impl* self, struct async_node* node)'))
    GRAPHM = [(r'&(\w+)->my_graph\b', r'\1->my_graph'),                                    # address of a reference member = the referent's address (our field holds it)
              (r'((?:\w+->)*\w+)\.(reserve_wait|release_wait)\(\);', r'graph_\2(\1);'), (r'\b(\w+)->(reserve_wait|release_wait)\(\);', r'graph_\2(\1);')]
    for nm in ('reserve_wait', 'release_wait'):
        s = slice_block(FG, r'void %s\(\) override' % nm, within=W_AN)
        note(s, 'async_node::receiver_gateway_impl::' + nm)
        t = rw.nop_calls(s.text, FGT)
        t = rw.sub(t, r'void %s\(\) override' % nm, 'void gateway_%s(struct gateway_impl* self)' % nm, 1, 1, name='sig gateway ' + nm)
        t = _rules(rw, t, GRAPHM + [(r'async_node\* (\w+) =', r'struct async_node* \1 =')], 'gateway ' + nm)
        hd, body = t[:t.index('{')], t[t.index('{'):]
        out.append(hd + fields(body, ['my_node']) + '\n')
    s = slice_block(FG, r'bool try_put\(const Output &i\) override', within=W_AN)
    note(s, 'async_node::receiver_gateway_impl::try_put')
    out.append(meth(s, r'bool try_put\(const Output &i\) override', 'bool gateway_try_put(struct gateway_impl* self, output_type* i)',
                    rules=[(r'(\w+)->try_put_impl\(', r'async_node_try_put_impl(\1, ')], flds=['my_node'], what='gateway try_put'))
    s = slice_block(FG, r'async_node\* self\(\)', within=W_AN)
    note(s, 'async_node::self')
    out.append(rw.sub(rw.sub(s.text, r'async_node\* self\(\)', 'struct async_node* async_node_self(struct async_node* self)', 1, 1, name='sig self()'), r'\bthis\b', 'self', 0, None, name='this') + '\n')
    s = slice_block(FG, r'bool try_put_impl\(const Output &i\)', within=W_AN)
    note(s, 'async_node::try_put_impl')
    t = rw.nop_calls(s.text, FGT)
    t = rw.sub(t, r'bool try_put_impl\(const Output &i\)', 'bool async_node_try_put_impl(struct async_node* self, output_type* i)', 1, 1, name='sig try_put_impl')
    t = _rules(rw, t, [(r'multifunction_output<Output> &(\w+) =', r'struct port* \1 ='), (r'output_port<0>\(\*this\)', 'OUTPUT_PORT_0(self)'),
                       (r'broadcast_cache<output_type>& (\w+) = (\w+)\.successors\(\);', r'struct cache* \1 = PORT_successors(\2);'),
                       (r'graph_task_list (\w+);', r'graph_task_list \1; LIST_ctor(&\1);'),
                       (r'(\w+)\.gather_successful_try_puts\(\s*(\w+), (\w+)\s*\)', r'bc_gather_successful_try_puts(\1, \2, &\3)'),
                       (r'\btasks\.empty\(\)', 'LIST_empty(&tasks)'), (r'\btasks\.pop_front\(\)', 'LIST_pop_front(&tasks)'),
                       (r'enqueue_in_graph_arena\(', 'STUB_enqueue_in_graph_arena(')], 'try_put_impl')
    t = rw.asserts(t)
    t = rw.sub(t, r'\bthis->', 'self->', 0, None, name='this->')
    t = tag_loops(t, 'antp', rw, names=[(r'LIST_empty', 'drain')])
    out.append(t + '\n')
    # constructors
    ABTEMP = r'async_body<Input, typename base_type::output_ports_type, gateway_type, Body>\s*\(([^()]*)\)'
    s = slice_block(FG, r'async_node\(\s*graph &g, size_t concurrency,\s*Body body, Policy = Policy\(\), node_priority_t a_priority = no_priority\s*\)', within=W_AN, ctor=True)
    note(s, 'async_node::async_node')
    t = rw.nop_calls(s.text, FGT)
    mt = re.search(ABTEMP, t)
    if not mt:
        raise ExtractionBreak('async_node constructor: the async_body temporary handed to the base class was not found')
    targs = [x.strip() for x in cxx2c.split_args(mt.group(1))]
    if len(targs) != 2:
        raise ExtractionBreak('async_node constructor: async_body temporary has %d arguments' % len(targs))
    rw.fired['temporary async_body(args) in the init list -> local object constructed before the base-class constructor call'] = 1
    t = t[:mt.start()] + 'tmp_body' + t[mt.end():]
    t = ctor(Slice(s.rel, s.start, s.end, t, s.line), 'async_node', ['base_type', 'my_gateway'], [],
             'void async_node_ctor(struct async_node* self, graph* g, size_t concurrency, Body body, int a_priority)', rules=[(r'(?<![\w.>])self\(\)', 'async_node_self(self)')])
    tmp = '    struct abody tmp_body; async_body_ctor(&tmp_body, %s, %s);\n' % (refarg(targs[0]), targs[1])
    t = t.replace('{\n', '{\n' + tmp, 1)
    t = fields(t, ['my_gateway'])
    out.append(t)
    s = slice_block(FG, r'async_node\( const async_node &other \)', within=W_AN, ctor=True)
    note(s, 'async_node::async_node(const&)')
    t = rw.nop_calls(s.text, FGT)
    t = rw.casts(t)
    t = ctor(Slice(s.rel, s.start, s.end, t, s.line), 'async_node_copy', ['base_type', 'sender', 'my_gateway'], [],
             'void async_node_copy_ctor(struct async_node* self, const struct async_node* other)',
             rules=[(r'(?<![\w.>])self\(\)', 'async_node_self(self)'), (r'\bother\.', 'other->'), (r'\bthis->', 'self->'),
                    (r'(\w+(?:->\w+)*)->get_body_ptr\(\)', r'MFBODY_get_body_ptr(\1)'),
                    (r'\(\(async_body_base_type\*\)\(([^;]*?)\)\)->set_gateway\(', r'async_body_base_set_gateway(((async_body_base_type*)(\1)), ')])
    t = fields(t, ['my_gateway'])
    out.append(t)
    s = slice_block(FG, r'gateway_type& gateway\(\)', within=W_AN)
    note(s, 'async_node::gateway')
    out.append(meth(s, r'gateway_type& gateway\(\)', 'struct gateway_impl* async_node_gateway(struct async_node* self)', rules=[(r'return my_gateway;', 'return &my_gateway;')], flds=['my_gateway'], what='gateway()'))
    s = slice_block(FG, r'void reset_node\( reset_flags f\) override', within=W_AN)
    note(s, 'async_node::reset_node')
    out.append(meth(s, r'void reset_node\( reset_flags f\) override', 'void async_node_reset_node(struct async_node* self, int f)', rules=[(r'base_type::reset_node\(f\);', 'mfnode_reset_node(self, f);')], what='async_node::reset_node'))
    # ---- broadcast_cache::gather_successful_try_puts ----------------------------------------------------------------------------------
    LOCK = (r'typename mutex_type::scoped_lock (?:l|lock)\(\s*this->my_mutex(?:,\s*(?:true|false))?\s*\);', 'RG_NOP();', 0)
    PRE = [LOCK,
           (r'typename successors_type::iterator i = this->my_successors\.begin\(\);', 'size_t i = LIST_begin(self);', 0),
           (r'this->my_successors\.end\(\)', 'LIST_end(self)', 0),
           (r'\(\*i\)->try_put_task\(t\)', 'SUCC_try_put_task(self, i, t)', 0),
           (r'\(\*i\)->register_predecessor\(\*([^()]*)\)', r'SUCC_register_predecessor(self, i, \1)', 0),
           (r'this->my_successors\.erase\(i\)', 'LIST_erase(self, i)', 0),
           (r'tasks\.push_back\(\*(\w+)\);', r'LIST_push_back(tasks, \1);', 0)]
    bc = CClass(CI, r'class broadcast_cache : public successor_cache<T, M> \{', 'cache', tbind={'T': 'output_type'}, rw=rw)
    g = bc.convert(bc.method(r'bool gather_successful_try_puts\( const T &t, graph_task_list& tasks \)'), 'bc_gather_successful_try_puts', pre=PRE)
    g = tag_loops(g, 'bcgather', rw, names=[(r'LIST_end', 'succ')])
    sliced += bc.sliced
    # ---- graph::reserve_wait / release_wait (the same text as graph_wait.inc) -----------------------------------------------------------
    gw = []
    for nm in ('reserve_wait', 'release_wait'):
        s = slice_block(FG, r'inline void graph::%s\(\)' % nm)
        note(s, 'graph::' + nm)
        t = rw.sub(s.text, r'inline void graph::%s\(\)' % nm, 'void graph_%s(graph* self)' % nm, 1, 1, name='sig graph::' + nm)
        t = rw.sub(t, r'my_wait_context_vertex\.(reserve|release)\(\);', r'VERTEX_\1(&self->my_wait_context_vertex);', 0, None, name='member call')
        t = rw.nop_calls(t, [r'fgt_reserve_wait', r'fgt_release_wait'])
        gw.append(t + '\n')
    en = slice_block(GI, r'enum reset_flags \{')
    note(en, 'enum reset_flags')
    protos = en.text + ';\n' + ''.join(_proto(x) for x in out) + _proto(g)
    common.write(ctx, 'async_node_protos.inc', protos)
    txt = rw.std('\n'.join(gw)) + '\n' + rw.std(g) + '\n' + rw.std('\n'.join(out))
    bad = cxx2c.c_residue(txt)
    if bad:
        raise ExtractionBreak('async_node.inc: C++ residue %s' % bad)
    common.write(ctx, 'async_node.inc', txt)
    fired['async_node'] = dict(rw.fired)
    return rw.fired.get('loop:bcgather_succ', 0) + rw.fired.get('loop:antp_drain', 0)



JI = 'include/oneapi/tbb/detail/_flow_graph_join_impl.h'


def extract_join_ctor(ctx, sliced, fired):
    """join_node (queueing / reserving): constructors and copy constructors of join_node_base and join_node_FE, join_helper<N>::set_join_node_pointer
    (template recursion over the ports -> run-time recursion on N), port::set_join_node_pointer, set_my_node.  One flattened object per node."""
    rw = Rewriter('join_ctor')
    out = []

    def note(s, what):
        sliced.append('%s:%d %s' % (s.rel, s.line, what))

    def fields(t, names):
        return rw.sub(t, r'(?<![\w.>])(%s)\b(?!\s*\()' % '|'.join(names), r'self->\1', 0, None, name='field')

    def ctor(s, cls, order, scalars, csig, rules=(), pre=(), flds=()):
        text = s.text
        for pat, rep in pre:
            text = rw.sub(text, pat, rep, 0, None, name='%s: %s' % (cls, pat))
        params, init, body = ctor_init_list(rw, rw.casts(text), order, cls, scalars)
        t = _rules(rw, init + body, rules, cls)
        if flds:
            t = fields(t, flds)
        t = rw.sub(t, r'\bthis\b', 'self', 0, None, name='this')
        return csig + ' {\n' + t + '}\n'
    # join_helper<N> / join_helper<1>
    HR = [(r'std::get<([^<>]+)>\(\s*my_input\s*\)\.set_join_node_pointer\(', r'PORT_set_join_node_pointer(TUPLE_GET(my_input, \1), '),
          (r'join_helper<([^<>]+)>::set_join_node_pointer\(', r'JOIN_HELPER_set_join_node_pointer(\1, ')]
    SIG = r'static inline void set_join_node_pointer\(TupleType &my_input, PortType \*port\)'
    for within, cfn, csig in ((r'struct join_helper \{', 'jhN', 'void jhN_set_join_node_pointer(int N, struct jport* my_input, struct join_node* port)'),
                              (r'struct join_helper<1> \{', 'jh1', 'void jh1_set_join_node_pointer(struct jport* my_input, struct join_node* port)')):
        s = slice_block(JI, SIG, within=within)
        note(s, 'join_helper::set_join_node_pointer (%s)' % cfn)
        t = rw.sub(s.text, SIG, csig, 1, 1, name='sig ' + cfn)
        out.append(_rules(rw, t, HR, cfn) + '\n')
    # ports
    for pol, W, base in (('jr', r'class reserving_port : public receiver<T> \{', 'reserving_forwarding_base'), ('jq', r'class queueing_port : public receiver<T>, public item_buffer<T> \{', 'queueing_forwarding_base')):
        s = slice_block(JI, r'void set_join_node_pointer\(%s \*join\)' % base, within=W)
        note(s, 'port::set_join_node_pointer (%s)' % pol)
        t = rw.sub(s.text, r'void set_join_node_pointer\(%s \*join\)' % base, 'void %s_port_set_join_node_pointer(struct jport* self, struct join_node* join)' % pol, 1, 1, name='sig port set_join_node_pointer')
        hd, body = t[:t.index('{')], t[t.index('{'):]
        out.append(hd + fields(body, ['my_join']) + '\n')
    s = slice_block(JI, r'forwarding_base\(graph &g\)', within=r'struct forwarding_base : no_assign \{', ctor=True)
    note(s, 'forwarding_base::forwarding_base')
    out.append(ctor(s, 'fwdbase', ['graph_ref'], ['graph_ref'], 'void forwarding_base_ctor(struct join_node* self, graph* g)'))
    # front ends
    for pol, pname, cnt in (('jr', 'reserving', 'ports_with_no_inputs'), ('jq', 'queueing', 'ports_with_no_items')):
        W = r'class join_node_FE<%s, InputTuple, OutputTuple> : public %s_forwarding_base \{' % (pname, pname)
        fe = CClass(JI, W, 'join_node', rw=rw)
        fe.harvest_members(['my_inputs', 'my_node', cnt])
        order = [pname + '_forwarding_base'] + fe.member_names()
        FR = [(r'&other\b(?!\s*(?:->|\.))', 'other'), (r'join_helper<N>::set_join_node_pointer\(', 'JOIN_HELPER_set_join_node_pointer(N, '), (r'\(other\.%s_forwarding_base::graph_ref\)' % pname, 'other->graph_ref')]
        s = slice_block(JI, r'join_node_FE\(graph &g\)', within=W, ctor=True)
        note(s, 'join_node_FE<%s>::join_node_FE' % pname)
        out.append(ctor(s, pol + '_fe', order, ['my_node'], 'void %s_fe_ctor(struct join_node* self, graph* g)' % pol, rules=FR, flds=['my_inputs', cnt]))
        s = slice_block(JI, r'join_node_FE\(const join_node_FE& other\)', within=W, ctor=True)
        note(s, 'join_node_FE<%s>::join_node_FE(const&)' % pname)
        out.append(ctor(s, pol + '_fe_copy', order, ['my_node'], 'void %s_fe_copy_ctor(struct join_node* self, const struct join_node* other)' % pol, rules=FR, flds=['my_inputs', cnt]))
        s = slice_block(JI, r'void set_my_node\(base_node_type \*new_my_node\)', within=W)
        note(s, 'join_node_FE<%s>::set_my_node' % pname)
        t = rw.sub(s.text, r'void set_my_node\(base_node_type \*new_my_node\)', 'void %s_fe_set_my_node(struct join_node* self, struct join_node* new_my_node)' % pol, 1, 1, name='sig set_my_node')
        hd, body = t[:t.index('{')], t[t.index('{'):]
        out.append(hd + fields(body, ['my_node']) + '\n')
    # back end
    W = r'class join_node_base : public graph_node, public join_node_FE<JP, InputTuple, OutputTuple>,'
    jb = CClass(JI, W, 'join_node', rw=rw)
    jb.harvest_members(['forwarder_busy', 'my_successors'])
    order = ['graph_node', 'input_ports_type', 'sender'] + jb.member_names()
    BR = [(r'input_ports_type::set_my_node\(', 'FE_set_my_node(self, '), (r'my_aggregator\.initialize_handler\(handler_type\(this\)\);', 'STUB_initialize_handler(self);'),
          (r'other\.graph_node::my_graph', 'other->my_graph')]
    s = slice_block(JI, r'join_node_base\(graph &g\)', within=W, ctor=True)
    note(s, 'join_node_base::join_node_base')
    out.append(ctor(s, 'jbase', order, ['forwarder_busy'], 'void join_node_base_ctor(struct join_node* self, graph* g)', rules=BR))
    s = slice_block(JI, r'join_node_base\(const join_node_base& other\)', within=W, ctor=True)
    note(s, 'join_node_base::join_node_base(const&)')
    out.append(ctor(s, 'jbase_copy', order, ['forwarder_busy'], 'void join_node_base_copy_ctor(struct join_node* self, const struct join_node* other)', rules=BR))
    s = slice_block(FG, r'inline graph_node::graph_node\(graph& g\)', ctor=True)
    note(s, 'graph_node::graph_node')
    t = rw.sub(s.text, r'inline graph_node::graph_node\(graph& g\)', 'graph_node(graph& g)', 1, 1, name='sig graph_node')
    out.append(ctor(Slice(s.rel, s.start, s.end, t, s.line), 'graph_node', ['my_graph'], ['my_graph'], 'void graph_node_ctor(struct join_node* self, graph* g)',
                    rules=[(r'my_graph\.register_node\(this\);', 'STUB_register_node(my_graph, self);')], flds=['my_graph']))
    txt = rw.std(''.join(_proto(x) for x in out) + '\n'.join(out))
    bad = cxx2c.c_residue(txt)
    if bad:
        raise ExtractionBreak('join_ctor.inc: C++ residue %s' % bad)
    common.write(ctx, 'join_ctor.inc', txt)
    fired['join_node constructors'] = dict(rw.fired)



II = 'include/oneapi/tbb/detail/_flow_graph_indexer_impl.h'


def extract_indexer_ctor(ctx, sliced, fired, m15):
    """indexer_node: constructors / copy constructor of indexer_node_base, indexer_helper<.., N>::set_indexer_node_pointer (template recursion -> run-time recursion on N),
    indexer_input_port::set_up / try_put_task, do_try_put<Node, T, K> (the tag K is a run-time value; a pointer to the instantiation do_try_put<.., K> is the number K)."""
    rw = Rewriter('indexer_ctor')
    out = []

    def note(s, what):
        sliced.append('%s:%d %s' % (s.rel, s.line, what))

    def fields(t, names):
        return rw.sub(t, r'(?<![\w.>])(%s)\b(?!\s*\()' % '|'.join(names), r'self->\1', 0, None, name='field')
    HR = [(r'typedef typename std::tuple_element<[^;]*>::type T;', 'RG_NOP();'),
          (r'auto (\w+) = do_try_put<IndexerNodeBaseType, T, ([^<>;]+)>;', r'fwd_fn \1 = DO_TRY_PUT_INSTANCE(\2);'),
          (r'std::get<([^<>]+)>\(\s*my_input\s*\)\.set_up\(', r'iport_set_up(TUPLE_GET(my_input, \1), '),
          (r'indexer_helper<TupleTypes,([^<>]+)>::template set_indexer_node_pointer<IndexerNodeBaseType,PortTuple>\(', r'INDEXER_HELPER_set_indexer_node_pointer(\1, ')]
    SIG = r'static inline void set_indexer_node_pointer\(PortTuple &my_input, IndexerNodeBaseType \*p, graph& g\)'
    for within, cfn, csig in ((r'struct indexer_helper \{', 'ihN', 'void ihN_set_indexer_node_pointer(int N, struct iport* my_input, struct inode* p, graph* g)'),
                              (r'struct indexer_helper<TupleTypes,1> \{', 'ih1', 'void ih1_set_indexer_node_pointer(struct iport* my_input, struct inode* p, graph* g)')):
        s = slice_block(II, SIG, within=within)
        note(s, 'indexer_helper::set_indexer_node_pointer (%s)' % cfn)
        t = rw.sub(s.text, SIG, csig, 1, 1, name='sig ' + cfn)
        out.append(_rules(rw, t, HR, cfn) + '\n')
    s = m15.resolved(slice_block(II, r'graph_task\* do_try_put\(const T &v, void \*p'), 'do_try_put')
    note(s, 'do_try_put')
    t = rw.sub(s.text, r'graph_task\* do_try_put\(const T &v, void \*p\)', 'graph_task* do_try_put(int K, item_type* v, void* p)', 1, 1, name='sig do_try_put (template parameter K -> argument)')
    t = _rules(rw, t, [(r'typename IndexerNodeBaseType::output_type o\(([^;]*)\);', r'tagged_msg o; TAGGED_ctor(&o, \1);'),
                       (r'reinterpret_cast<IndexerNodeBaseType \*>\(p\)->try_put_task\(', 'NODE_try_put_task(((struct inode*)(p)), ')], 'do_try_put')
    out.append(t + '\n')
    W = r'class indexer_input_port : public receiver<T> \{'
    ip = CClass(II, W, 'iport', rw=rw)
    ip.harvest_members(['my_indexer_ptr', 'my_try_put_task', 'my_graph'])
    s = slice_block(II, r'void set_up\(void\* p, forward_function_ptr f, graph& g\)', within=W)
    note(s, 'indexer_input_port::set_up')
    t = rw.sub(s.text, r'void set_up\(void\* p, forward_function_ptr f, graph& g\)', 'void iport_set_up(struct iport* self, void* p, fwd_fn f, graph* g)', 1, 1, name='sig set_up')
    t = rw.sub(t, r'= &g;', '= g;', 0, None, name='address of reference parameter')
    hd, body = t[:t.index('{')], t[t.index('{'):]
    out.append(hd + fields(body, ip.member_names()) + '\n')
    s = m15.resolved(slice_block(II, r'graph_task\* try_put_task\(const T &v\) override', within=W), 'iport_try_put_task')
    note(s, 'indexer_input_port::try_put_task')
    t = rw.sub(s.text, r'graph_task\* try_put_task\(const T &v\) override', 'graph_task* iport_try_put_task(struct iport* self, item_type* v)', 1, 1, name='sig port try_put_task')
    t = rw.sub(t, r'(?<![\w.>])my_try_put_task\(', 'CALL_FWD_FN(my_try_put_task, ', 0, None, name='call through function pointer')
    hd, body = t[:t.index('{')], t[t.index('{'):]
    out.append(hd + fields(body, ip.member_names()) + '\n')
    W = r'class indexer_node_base : public graph_node, public indexer_node_FE<InputTuple, OutputType,StructTypes>,'
    nb = CClass(II, W, 'inode', rw=rw)
    nb.harvest_members(['my_successors'])
    order = ['graph_node', 'input_ports_type', 'sender', 'my_successors']
    BR = [(r'indexer_helper<StructTypes,N>::set_indexer_node_pointer\(', 'INDEXER_HELPER_set_indexer_node_pointer(N, '), (r'\bthis->my_inputs\b', 'self->my_inputs'),
          (r'my_aggregator\.initialize_handler\(handler_type\(this\)\);', 'STUB_initialize_handler(self);'), (r'\bother\.', 'other->')]
    for sig, cls, csig in ((r'indexer_node_base\(graph& g\)', 'inode', 'void indexer_node_base_ctor(struct inode* self, graph* g)'),
                           (r'indexer_node_base\(const indexer_node_base& other\)', 'inode_copy', 'void indexer_node_base_copy_ctor(struct inode* self, const struct inode* other)')):
        s = slice_block(II, sig, within=W, ctor=True)
        note(s, 'indexer_node_base::' + cls)
        params, init, body = ctor_init_list(rw, rw.casts(s.text), order, cls, [])
        t = _rules(rw, init + body, [(r'&other\b(?!\s*(?:->|\.))', 'other')] + BR, cls)
        t = rw.sub(t, r'\bthis\b', 'self', 0, None, name='this')
        out.append(csig + ' {\n' + t + '}\n')
    txt = rw.std(''.join(_proto(x) for x in out) + '\n'.join(out))
    bad = cxx2c.c_residue(txt)
    if bad:
        raise ExtractionBreak('indexer_ctor.inc: C++ residue %s' % bad)
    common.write(ctx, 'indexer_ctor.inc', txt)
    fired['indexer_node constructors'] = dict(rw.fired)


ASYNC_LOOPS = 2


def extract(ctx):
    sliced, fired = [], {}
    m15 = c15()
    extract_buffer_node(ctx, sliced, fired, m15)
    extract_caches(ctx, sliced, fired, m15)
    extract_wait(ctx, sliced, fired)
    global ASYNC_LOOPS
    ASYNC_LOOPS = extract_async(ctx, sliced, fired, m15)
    extract_join_ctor(ctx, sliced, fired)
    extract_indexer_ctor(ctx, sliced, fired, m15)
    more = [(r'const item_type& front\(\) const', 'item_buffer_front', [(r'return get_my_item\(my_head\);', 'return get_my_item(my_head);', 1)], 'const item_type*'),
            (r'void reserve_item\(size_type i\)', 'item_buffer_reserve_item', [(r'!my_item_reserved\(i\)', 'element(i).state != reserved_item', 1)], None),
            (r'void release_item\(size_type i\)', 'item_buffer_release_item', [(r'my_item_reserved\(i\)', 'element(i).state == reserved_item', 1)], None),
            (r'void destroy_front\(\)', 'item_buffer_destroy_front', [], None)]
    ib, rw, conv = m15.extract_item_buffer(ctx, sliced, fired, more=more)
    rb = CClass(IB, r'class reservable_item_buffer : public item_buffer<T, A> \{', 'item_buffer', rw=rw, tbind={'T': 'item_type'})
    rb.members = ib.members + [('bool', 'my_reserved', '')]
    if not re.search(r'bool my_reserved;', rb.text):
        raise ExtractionBreak('reservable_item_buffer::my_reserved not found')
    out = []
    IM = ['my_item_valid', 'front', 'reserve_item', 'release_item', 'destroy_front']
    s = rb.method(r'bool reserve_front\(T &v\)')
    t = rb.convert(s, 'rib_reserve_front', methods=IM, pre=[(r'v = this->front\(\);', '*v = *this->front();', 1)])
    out.append(t)
    out.append(rb.convert(rb.method(r'void consume_front\(\)'), 'rib_consume_front', methods=IM))
    out.append(rb.convert(rb.method(r'void release_front\(\)'), 'rib_release_front', methods=IM))
    common.write(ctx, 'reservable.inc', '\n'.join(out))
    ibp = os.path.join(ctx.work, 'item_buffer.inc')
    txt_ib = open(ibp).read()
    if txt_ib.count('    size_t my_tail;\n};') != 1:
        raise ExtractionBreak('item_buffer struct layout changed')
    open(ibp, 'w').write(txt_ib.replace('    size_t my_tail;\n};', '    size_t my_tail;\n    bool my_reserved;   /* member of the derived reservable_item_buffer */\n};'))
    sliced += rb.sliced
    fired['reservable_item_buffer'] = dict(rw.fired)
    # function_input_base
    fi = CClass(NI, r'class function_input_base : public receiver<Input>, no_assign \{', 'fib')
    fi.members = [('size_t', 'my_max_concurrency', ''), ('size_t', 'my_concurrency', ''), ('bool', 'forwarder_busy', ''), ('bool', 'my_queue', '')]
    for pat, what in ((r'const size_t my_max_concurrency;', 'my_max_concurrency'), (r'size_t my_concurrency;', 'my_concurrency'), (r'bool forwarder_busy;', 'forwarder_busy'),
                      (r'enum op_type \{reg_pred, rem_pred, try_fwd, tryput_bypass, app_body_bypass, occupy_concurrency', 'op_type')):
        if not re.search(pat, load(NI)):
            raise ExtractionBreak('_flow_graph_node_impl.h: %s changed' % what)
    rw2 = fi.rw
    M = ['perform_queued_requests', 'internal_try_put_task', 'internal_forward']
    PRE = [(r'my_queue->empty\(\)', 'STUB_queue_empty()', 0), (r'my_queue->pop\(\);', 'STUB_queue_pop();', 0), (r'my_queue->push\(\*\(op->elem\)\)', 'STUB_queue_push(op->elem)', 0),
           (r'create_body_task\(my_queue->front\(\)\)', 'STUB_create_body_task(self, 1)', 0), (r'create_body_task\(i\)', 'STUB_create_body_task(self, 2)', 0), (r'create_body_task\(\*\(op->elem\)\)', 'STUB_create_body_task(self, 3)', 0),
           (r'my_predecessors\.get_item\(i\)', 'STUB_pred_get_item()', 0), (r'input_type i;', 'RG_NOP();', 0),
           (r'my_predecessors\.add\(\*\(tmp->r\)\);', 'STUB_pred_add();', 0), (r'my_predecessors\.remove\(\*\(tmp->r\)\);', 'STUB_pred_remove();', 0),
           (r'spawn_forward_task\(\);', 'STUB_spawn_forward_task();', 0),
           (r'(\w+)->status\.store\((\w+), std::memory_order_release\);', r'SET_STATUS(\1, \2);', 0)]
    out = []

    def res(sl, name):
        return m15.resolved(sl, name)
    out.append(fi.convert(res(fi.method(r'graph_task\* perform_queued_requests\(\)'), 'pqr'), 'fib_perform_queued_requests', methods=M, pre=PRE))
    out.append(fi.convert(res(fi.method(r'void internal_try_put_task\(operation_type \*op\)'), 'itp'), 'fib_internal_try_put_task', methods=M, pre=PRE))
    out.append(fi.convert(res(fi.method(r'void internal_forward\(operation_type \*op\)'), 'ifw'), 'fib_internal_forward', methods=M, pre=PRE))
    t = fi.convert(res(fi.method(r'void handle_operations\(operation_type \*op_list\)'), 'ho'), 'fib_handle_operations', methods=M, pre=PRE)
    t = tag_loops(t, 'fho', rw2, expect=1)
    out.append(t)
    txt = 'graph_task* fib_perform_queued_requests(struct fib* self);\nvoid fib_internal_try_put_task(struct fib* self, operation_type* op);\nvoid fib_internal_forward(struct fib* self, operation_type* op);\n' + '\n'.join(out)
    common.write(ctx, 'function_input.inc', txt)
    sliced += fi.sliced
    fired['function_input_base'] = rw2.fired
    return sliced, fired


def build(ctx):
    sliced, fired = extract(ctx)
    C = os.path.join(HERE, 'c14.c')
    jobs = [
        Job('node.handle_one_operation', C, 'h_handle', route='LF', defines=['FIB'], unwind=3, target='function_input_base::handle_operations + internal_try_put_task + internal_forward + perform_queued_requests (one arbitrary operation in an arbitrary state: inductive step of the batch loop)', source=NI),
        Job('buffer.reserve_front', C, 'h_reserve', route='LF', defines=['RIB'], target='reservable_item_buffer::reserve_front', source=IB),
        Job('buffer.consume_release', C, 'h_consume_release', route='LF', defines=['RIB'], target='reservable_item_buffer::consume_front / release_front', source=IB),
    ]
    OPS = ['reg_succ', 'rem_succ', 'req_item', 'res_item', 'rel_res', 'con_res', 'put_item', 'try_fwd_task']
    for cls, dfn in (('bufnode', []), ('queue', ['DERIVED_QUEUE'])):
        for k, opn in enumerate(OPS):
            jobs.append(Job('%s.handle.%s' % (cls, opn), C, 'h_bn_op', route='LC', defines=['BN', 'OPK=%d' % k] + dfn, loops=True, nloops=(1 if opn == 'try_fwd_task' else 0),
                            replace=['item_buffer_grow_my_array'], timeout=900, twin=True, solver=('cadical' if opn == 'try_fwd_task' else None),
                            target='%s: handle_operations_impl(%s) + internal_* + try_put_and_add_task + combine_tasks on the real item_buffer (one arbitrary operation in an arbitrary invariant state)' % ('buffer_node' if cls == 'bufnode' else 'queue_node', opn), source=FG))
    jobs.append(Job('cache.broadcast.try_put_task', C, 'h_bc_put', route='LC', defines=['SC'], loops=True, nloops=1, timeout=300, target='broadcast_cache::try_put_task_impl + combine_tasks', source=CI))
    jobs.append(Job('cache.round_robin.try_put_task', C, 'h_rr_put', route='LC', defines=['SC'], loops=True, nloops=1, timeout=300, target='round_robin_cache::try_put_task_impl', source=CI))
    jobs.append(Job('pull.predecessor_cache.get_item', C, 'h_pc_get', route='LC', defines=['PC'], loops=True, nloops=1, timeout=300, target='predecessor_cache::get_item_impl', source=CI))
    jobs.append(Job('pull.reservable.try_reserve', C, 'h_rc_reserve', route='LC', defines=['PC'], loops=True, nloops=1, timeout=300, target='reservable_predecessor_cache::try_reserve_impl', source=CI))
    jobs.append(Job('pull.reservable.release_consume', C, 'h_rc_release_consume', route='LF', defines=['PC'], timeout=300, target='reservable_predecessor_cache::try_release / try_consume', source=CI))
    jobs.append(Job('wait.graph_task.reference', C, 'h_task_life', route='LF', defines=['WT'], timeout=300, target='graph_task::graph_task + graph_task::finalize + forward_task_bypass::execute / cancel', source=GI))
    jobs.append(Job('wait.graph.reserve_release_wait', C, 'h_reserve_release_wait', route='LF', defines=['WT'], timeout=300, target='graph::reserve_wait / release_wait', source=FG))
    jobs.append(Job('wait.reference_vertex.reserve', C, 'h_refv_reserve', route='RG', defines=['RV'], timeout=300, target='reference_vertex::reserve (owner thread) against any number of concurrent releases', source=TH))
    jobs.append(Job('wait.reference_vertex.release', C, 'h_refv_release', route='RG', defines=['RV'], timeout=300, target='reference_vertex::release (any thread) against the owner reserving and other releases', source=TH))
    jobs.append(Job('bufnode.api.task_handoff', C, 'h_bn_api', route='LF', defines=['BN', 'BNAPI'], timeout=300,
                    target='buffer_node::register_successor / remove_successor / try_get / try_reserve / try_release / try_consume / try_put_task_impl / enqueue_forwarding_task / grab_forwarding_task', source=FG))
    jobs.append(Job('bufnode.api.forward_task', C, 'h_bn_forward_task', route='LC', defines=['BN', 'BNAPI'], loops=True, nloops=1, timeout=300, target='buffer_node::forward_task', source=FG))
    # domain split (finding F10): try_get on a plain buffer_node whose ONLY item is under reservation
    jobs.append(Job('bufnode.pop_reserved', C, 'h_bn_pop_reserved', route='LC', defines=['BN'], loops=True, nloops=0, replace=['item_buffer_grow_my_array'], timeout=300,
                    target='buffer_node: handle_operations_impl(req_item) + internal_pop + item_buffer::pop_back while the only buffered item is reserved', source=FG))
    CA = os.path.join(HERE, 'c14_async.c')
    AT = 'async_node + multifunction_node / multifunction_input / function_input_base / graph_node constructors + async_body / async_body_base / multifunction_body_leaf'
    jobs.append(Job('async.ctor', CA, 'h_async_ctor', route='LF', defines=['ASYNC'], timeout=600, target='async_node::async_node(graph&, concurrency, body): ' + AT, source=FG))
    jobs.append(Job('async.copy_ctor', CA, 'h_async_copy_ctor', route='LF', defines=['ASYNC'], timeout=600, target='async_node::async_node(const async_node&): ' + AT + ' + multifunction_body_leaf::clone / get_body_ptr + async_body_base::set_gateway', source=FG))
    jobs.append(Job('async.reset_node', CA, 'h_async_reset', route='LF', defines=['ASYNC'], timeout=600, inputs=['IN_flags'],
                    target='async_node::reset_node -> multifunction_node::reset_node -> multifunction_input::reset + function_input_base::reset_function_input_base + multifunction_body_leaf::clone, then apply_body_impl_bypass', source=NI))
    jobs.append(Job('async.body_call', CA, 'h_async_body_call', route='LF', defines=['ASYNC'], timeout=600,
                    target='multifunction_input::apply_body_impl_bypass -> multifunction_body_leaf::operator() -> async_body::operator()', source=FG))
    jobs.append(Job('async.gateway.wait', CA, 'h_async_gateway_wait', route='LF', defines=['ASYNC'], timeout=600,
                    target='async_node::gateway + receiver_gateway_impl::reserve_wait / release_wait + graph::reserve_wait / release_wait', source=FG))
    jobs.append(Job('async.gateway.try_put', CA, 'h_async_try_put', route='LC', defines=['ASYNCPUT'], loops=True, nloops=ASYNC_LOOPS, timeout=900,
                    target='receiver_gateway_impl::try_put + async_node::try_put_impl + broadcast_cache::gather_successful_try_puts', source=FG))
    for pol, dfn in (('queueing', []), ('reserving', ['JP_RESERVING'])):
        JT = 'join_node_base<%s> + join_node_FE<%s> + forwarding_base + graph_node constructors, join_helper<N>::set_join_node_pointer (N = 1..10), %s_port::set_join_node_pointer, set_my_node' % (pol, pol, pol)
        jobs.append(Job('join.ctor.' + pol, CA, 'h_join_ctor', route='LW', defines=['JOINCTOR'] + dfn, unwind=12, timeout=600, inputs=['IN_N', 'IN_k'], target='join_node_base(graph&): ' + JT, source=JI))
        jobs.append(Job('join.copy_ctor.' + pol, CA, 'h_join_copy_ctor', route='LW', defines=['JOINCTOR'] + dfn, unwind=12, timeout=600, inputs=['IN_N', 'IN_k'], target='join_node_base(const join_node_base&): ' + JT, source=JI))
    IT = 'indexer_node_base constructors + indexer_helper<.., N>::set_indexer_node_pointer (N = 1..10) + indexer_input_port::set_up / try_put_task + do_try_put<.., K>'
    jobs.append(Job('indexer.ctor', CA, 'h_indexer_ctor', route='LW', defines=['INDEXERCTOR'], unwind=12, timeout=600, inputs=['IN_N', 'IN_k'], target='indexer_node_base(graph&): ' + IT, source=II))
    jobs.append(Job('indexer.copy_ctor', CA, 'h_indexer_copy_ctor', route='LW', defines=['INDEXERCTOR'], unwind=12, timeout=600, inputs=['IN_N', 'IN_k'], target='indexer_node_base(const indexer_node_base&): ' + IT, source=II))
    return {
        'jobs': jobs, 'sliced': sliced, 'fired': fired,
        'trusted': ['the aggregator runs handle_operations on one thread at a time and hands every record to the handler exactly once (proved for aggregator_generic under C13, job agg.execute); '
                    'the buffer_node entry-point jobs (bufnode.api.*) use a stub AGG_execute that gives the record one status and a task as the handler jobs prove',
                    'function_input_base: input queue, predecessor cache, create_body_task, spawn_forward_task: stubs (every accept/empty pattern)',
                    'item_type is trivially copyable (int)',
                    'item_buffer::grow_my_array is used through its contract CONTRACT_grow_my_array; the contract text is read from specs/C15/c15.c on every run and is enforced there (C15 job buffer.grow_my_array)',
                    'buffer_node handler jobs: my_successors (round_robin_cache) is a stub with the behaviour that job cache.round_robin.try_put_task proves: offers in turn, at most one acceptor, NULL only when all rejected, '
                    'rejecting successors leave the list iff they accept pull mode; is_graph_active, small_object_allocator::new_object, order_tasks (either order), spawn_in_graph_arena: stubs',
                    'successor / predecessor objects behind the caches: receiver::try_put_task, register_predecessor, sender::try_get, try_reserve, try_release, try_consume, register_successor are nondeterministic stubs (every accept / reject pattern)',
                    'std::list / std::queue semantics in the cache jobs: positional view (iterator = position, erase(i) -> i+1, queue pop = next position, push = append)',
                    'buffer_operation constructors -> OP_INIT (type, elem, ltask = r = nullptr, status = WAIT)',
                    'reference_vertex jobs: the parent vertex (wait_context_vertex -> wait_context::add_reference) is a ghost counter P; r1::get_thread_reference_vertex returns the calling thread\'s vertex whose parent is its argument (stub records the argument)',
                    'async / join / indexer jobs: C++ object-model facts stated by the harness, not extracted: base classes and members are initialised in declared order (init lists are re-ordered accordingly from the harvested class text); '
                    'the implicit copy constructor of async_body is memberwise (gateway pointer + functor: INIT_mfleaf_body); the user functor Body is copyable (an int id); `OutputTuple(Args(g)...)` copy-constructs every port from a temporary that then dies (ports_ctor); '
                    'virtual calls on multifunction_body (clone, get_body_ptr, operator()) reach multifunction_body_leaf, the only implementer; std::get<I>(tuple) = element I of an array; the explicit specialisations join_helper<1> / indexer_helper<..,1> end the template recursion; '
                    'a pointer to the instantiation do_try_put<Node, T, K> is the number K',
                    'async jobs: new / delete of body objects -> malloc / free (any later access to a deleted body fails a pointer check); VERTEX_release may free the node (the owner may destroy it once wait_for_all can return); '
                    'function_input_base input queue, predecessor cache, aggregator handler initialisation, graph::register_node, reset_receiver, clear_element<N>::clear_this, try_get_postponed_task (-> job node.handle_one_operation): stubs',
                    'async.gateway.try_put: graph_task_list is viewed positionally (push_back appends, pop_front takes the oldest, empty iff all popped: the list code itself - 3 small functions of _flow_graph_impl.h - is not extracted); '
                    'the successors behind the cache are nondeterministic stubs (every accept / reject / pull-mode answer); enqueue_in_graph_arena is a stub that counts (an inactive graph drops the task there: not modelled)'],
        'drops': ['preview metainfo arguments / #if __TBB_PREVIEW_FLOW_GRAPH_TRY_PUT_AND_WAIT arms resolved to 0', 'status atomics -> SET_STATUS (handler-only access)', 'aligned_space -> struct',
                  'scoped_lock objects of the caches -> RG_NOP (mutual exclusion is C08\'s)', 'template parameter derived_type bound to the same flattened C object; virtual internal_* calls dispatched by macro to the buffer_node or queue_node override',
                  'fgt_* tracing calls -> RG_NOP', 'memory orders of reserved_src / m_ref_count (SC assumed)', 'execution_data arguments',
                  'async / join / indexer constructors: the inheritance chain is flattened into one C object per node; constructor init lists -> assignments (built-in members) or INIT_<class>_<item>(self, args) calls that the harness maps to the extracted '
                  'constructor of the base / member; the async_body temporary in async_node\'s init list -> a local object constructed before the base-class constructor call; noexcept(...) operands, Policy tag parameters, node_set constructors (preview) dropped; '
                  'template recursion over the tuple of ports -> run-time recursion on N (fully unwound, N <= 10); reference parameters / reference members -> pointers'],
        'not_decided': ['sequencer_node / priority_queue_node as derived types of the buffer handler (sequencer internal_push is under C15; priority_queue_node has its own handler, C13)',
                        'batches of more than one operation per handler run are covered as a sequence of inductive steps only for the state invariant; the combined ltask of a multi-record batch is not modelled',
                        'interleavings of several cache calls on one cache (the cache jobs prove one call in isolation; concurrent add/remove on the same predecessor queue between the two locked sections of get_item / try_reserve is not modelled)',
                        'successor_cache::register_successor / remove_successor, broadcast_cache::gather_successful_try_puts, predecessor_cache::reset / node_cache::remove',
                        'a successor that rejects AND refuses pull mode (write_once_node, a full sequencer duplicate): the item stays buffered and is offered again only at the next put / release / consume / registration (ghost g_refused excludes it from the forwarding invariant)',
                        'graph::wait_for_all itself (lambda + try_call/on_exception: exception plumbing is cut by extraction), wait_context::add_reference / notify_waiters (sleep/wake-up: C02), get_thread_reference_vertex map clean-up',
                        'join_node port protocols (try_put / reserve / consume on the ports, tuple building; key_matching ports and their constructors), limiter_node (C15), input_node, overwrite/write_once, '
                        'topology quantifier (fan-in/fan-out/cycles) - only per-node / per-edge inductive steps are proved',
                        'async_node: the aggregator path in front of the body (try_put_task -> function_input_base, shared with function_node: job node.handle_one_operation) is not re-proved for the multifunction instantiation; '
                        'async_node::copy_function_object, ~multifunction_input only sliced (not under an obligation); interleavings of a gateway try_put from a foreign thread with graph tasks on the same successor cache '
                        '(the cache mutex is C08\'s; one call in isolation is proved); enqueue_in_graph_arena / is_graph_active (a gateway try_put after cancellation drops the tasks its successors returned)',
                        'copy constructors of function_node, continue_node, split_node, composite_node, sequencer/priority_queue/limiter/overwrite nodes (only async_node, multifunction_node/-input, join_node<queueing|reserving>, indexer_node are under contract); '
                        'multifunction_node with more than one output port (the port tuple is modelled with the single port async_node has)',
                        'after cancellation or an exception no further body starts',
                        'aggregator exclusivity itself'],
        'assumptions': ['app_body_bypass operations are issued once per finished body (ghost running-bodies count)',
                        'buffer handler: only the holder of the reservation issues rel_res / con_res; try_fwd_task records are issued only by the forward task (forwarder_busy set); buffers below 2^16 items, indices below 2^62',
                        'buffer handler: the graph-activity flag does not change during one handler run',
                        'reference_vertex: only the owning thread calls reserve() on its thread-local vertex (get_thread_reference_vertex is a per-thread map); release() is called only for references whose reserve() has returned; counters below 2^62',
                        'sequentially consistent atomics',
                        'async.reset_node / async.body_call / async.gateway.*: the node is in a state established by its constructors (jobs async.ctor / async.copy_ctor prove exactly that state: both bodies live, distinct, carrying this node\'s gateway, gateway naming the node); '
                        'reset_node is called while the graph is idle (documented precondition of graph::reset)',
                        'join / indexer constructor jobs: 1 <= N <= 10 ports (the library\'s MAX_TUPLE limit)'],
    }


def replay(ctx, jobname, failure):
    if os.environ.get('C14_SKIP_NATIVE'):      # mutation testing of the spec itself: the library build from source takes minutes under load
        return {'reproduced': False, 'detail': 'native replay skipped (C14_SKIP_NATIVE)'}
    exe = native.build([os.path.join(HERE, 'c14_replay.cpp')], os.path.join(ctx.work, 'c14_replay'), flags=['-fno-access-control'], link_tbb=True)
    rc, out = native.run([exe, jobname], timeout=120)
    rep = {'cmd': exe + ' ' + jobname, 'rc': rc, 'output': out[-1500:], 'reproduced': False, 'detail': 'native recipes found no failing sequence'}
    m = re.search(r'REPRODUCED (.*)', out)
    if m:
        rep['reproduced'] = True
        rep['detail'] = m.group(1)
        w = re.search(r'class=(\S+)', m.group(1))
        rep['witness_class'] = w.group(1) if w else None
    return rep
