"""C14 -- flow graph: node concurrency limits and one disposition per message inside the aggregator handler; single open reservation."""
import os
import sys
import re
import importlib.util
HERE = os.path.dirname(os.path.abspath(__file__))
sys.path.insert(0, os.path.join(HERE, '..'))
sys.path.insert(0, os.path.join(HERE, '..', '..', 'tools'))
import common
import native
import cxx2c
from cxx2c import Rewriter, CClass, Slice, slice_block, tag_loops, ExtractionBreak, load
from prove import Job

NI = 'include/oneapi/tbb/detail/_flow_graph_node_impl.h'
IB = 'include/oneapi/tbb/detail/_flow_graph_item_buffer_impl.h'


def c15():
    s = importlib.util.spec_from_file_location('spec_C15', os.path.join(HERE, '..', 'C15', 'spec.py'))
    m = importlib.util.module_from_spec(s)
    s.loader.exec_module(m)
    return m


def extract(ctx):
    sliced, fired = [], {}
    m15 = c15()
    more = [(r'const item_type& front\(\) const', 'item_buffer_front', [(r'return get_my_item\(my_head\);', 'return get_my_item(my_head);', 1)], 'const item_type*'),
            (r'void reserve_item\(size_type i\)', 'item_buffer_reserve_item', [(r'!my_item_reserved\(i\)', 'element(i).state != reserved_item', 1)], None),
            (r'void release_item\(size_type i\)', 'item_buffer_release_item', [(r'my_item_reserved\(i\)', 'element(i).state == reserved_item', 1)], None),
            (r'void destroy_front\(\)', 'item_buffer_destroy_front', [], None)]
    ib, rw, conv = m15.extract_item_buffer(ctx, sliced, fired, more=more)
    rb = CClass(IB, r'class reservable_item_buffer : public item_buffer<T, A> \{', 'item_buffer', rw=rw, tbind={'T': 'item_type'})
    rb.members = ib.members + [('bool', 'my_reserved', '')]
    if not re.search(r'bool my_reserved;', rb.text):
        raise ExtractionBreak('reservable_item_buffer::my_reserved not found')
    out = []
    IM = ['my_item_valid', 'front', 'reserve_item', 'release_item', 'destroy_front']
    s = rb.method(r'bool reserve_front\(T &v\)')
    t = rb.convert(s, 'rib_reserve_front', methods=IM, pre=[(r'v = this->front\(\);', '*v = *this->front();', 1)])
    out.append(t)
    out.append(rb.convert(rb.method(r'void consume_front\(\)'), 'rib_consume_front', methods=IM))
    out.append(rb.convert(rb.method(r'void release_front\(\)'), 'rib_release_front', methods=IM))
    common.write(ctx, 'reservable.inc', '\n'.join(out))
    ibp = os.path.join(ctx.work, 'item_buffer.inc')
    txt_ib = open(ibp).read()
    if txt_ib.count('    size_t my_tail;\n};') != 1:
        raise ExtractionBreak('item_buffer struct layout changed')
    open(ibp, 'w').write(txt_ib.replace('    size_t my_tail;\n};', '    size_t my_tail;\n    bool my_reserved;   /* member of the derived reservable_item_buffer */\n};'))
    sliced += rb.sliced
    fired['reservable_item_buffer'] = dict(rw.fired)
    # function_input_base
    fi = CClass(NI, r'class function_input_base : public receiver<Input>, no_assign \{', 'fib')
    fi.members = [('size_t', 'my_max_concurrency', ''), ('size_t', 'my_concurrency', ''), ('bool', 'forwarder_busy', ''), ('bool', 'my_queue', '')]
    for pat, what in ((r'const size_t my_max_concurrency;', 'my_max_concurrency'), (r'size_t my_concurrency;', 'my_concurrency'), (r'bool forwarder_busy;', 'forwarder_busy'),
                      (r'enum op_type \{reg_pred, rem_pred, try_fwd, tryput_bypass, app_body_bypass, occupy_concurrency', 'op_type')):
        if not re.search(pat, load(NI)):
            raise ExtractionBreak('_flow_graph_node_impl.h: %s changed' % what)
    rw2 = fi.rw
    M = ['perform_queued_requests', 'internal_try_put_task', 'internal_forward']
    PRE = [(r'my_queue->empty\(\)', 'STUB_queue_empty()', 0), (r'my_queue->pop\(\);', 'STUB_queue_pop();', 0), (r'my_queue->push\(\*\(op->elem\)\)', 'STUB_queue_push(op->elem)', 0),
           (r'create_body_task\(my_queue->front\(\)\)', 'STUB_create_body_task(self, 1)', 0), (r'create_body_task\(i\)', 'STUB_create_body_task(self, 2)', 0), (r'create_body_task\(\*\(op->elem\)\)', 'STUB_create_body_task(self, 3)', 0),
           (r'my_predecessors\.get_item\(i\)', 'STUB_pred_get_item()', 0), (r'input_type i;', 'RG_NOP();', 0),
           (r'my_predecessors\.add\(\*\(tmp->r\)\);', 'STUB_pred_add();', 0), (r'my_predecessors\.remove\(\*\(tmp->r\)\);', 'STUB_pred_remove();', 0),
           (r'spawn_forward_task\(\);', 'STUB_spawn_forward_task();', 0),
           (r'(\w+)->status\.store\((\w+), std::memory_order_release\);', r'SET_STATUS(\1, \2);', 0)]
    out = []

    def res(sl, name):
        return m15.resolved(sl, name)
    out.append(fi.convert(res(fi.method(r'graph_task\* perform_queued_requests\(\)'), 'pqr'), 'fib_perform_queued_requests', methods=M, pre=PRE))
    out.append(fi.convert(res(fi.method(r'void internal_try_put_task\(operation_type \*op\)'), 'itp'), 'fib_internal_try_put_task', methods=M, pre=PRE))
    out.append(fi.convert(res(fi.method(r'void internal_forward\(operation_type \*op\)'), 'ifw'), 'fib_internal_forward', methods=M, pre=PRE))
    t = fi.convert(res(fi.method(r'void handle_operations\(operation_type \*op_list\)'), 'ho'), 'fib_handle_operations', methods=M, pre=PRE)
    t = tag_loops(t, 'fho', rw2, expect=1)
    out.append(t)
    txt = 'graph_task* fib_perform_queued_requests(struct fib* self);\nvoid fib_internal_try_put_task(struct fib* self, operation_type* op);\nvoid fib_internal_forward(struct fib* self, operation_type* op);\n' + '\n'.join(out)
    common.write(ctx, 'function_input.inc', txt)
    sliced += fi.sliced
    fired['function_input_base'] = rw2.fired
    return sliced, fired


def build(ctx):
    sliced, fired = extract(ctx)
    C = os.path.join(HERE, 'c14.c')
    jobs = [
        Job('node.handle_one_operation', C, 'h_handle', route='LF', defines=['FIB'], unwind=3, target='function_input_base::handle_operations + internal_try_put_task + internal_forward + perform_queued_requests (one arbitrary operation in an arbitrary state: inductive step of the batch loop)', source=NI),
        Job('buffer.reserve_front', C, 'h_reserve', route='LF', defines=['RIB'], target='reservable_item_buffer::reserve_front', source=IB),
        Job('buffer.consume_release', C, 'h_consume_release', route='LF', defines=['RIB'], target='reservable_item_buffer::consume_front / release_front', source=IB),
    ]
    return {
        'jobs': jobs, 'sliced': sliced, 'fired': fired,
        'trusted': ['the aggregator runs handle_operations on one thread at a time (proved for aggregator_generic under C13, job agg.execute)', 'input queue, predecessor cache, create_body_task, spawn_forward_task: stubs (every accept/empty pattern)', 'item_type is trivially copyable'],
        'drops': ['preview metainfo arguments', 'status atomics -> SET_STATUS (handler-only access)', 'aligned_space -> struct'],
        'not_decided': ['push/pull edge switching in successor/predecessor caches', 'rejection + re-offer protocols between nodes', 'wait_for_all quiescence', 'async_node gateways', 'topology quantifier',
                        'aggregator exclusivity itself'],
        'assumptions': ['app_body_bypass operations are issued once per finished body (ghost running-bodies count)'],
    }


def replay(ctx, jobname, failure):
    exe = native.build([os.path.join(HERE, 'c14_replay.cpp')], os.path.join(ctx.work, 'c14_replay'), flags=['-fno-access-control'], link_tbb=True)
    rc, out = native.run([exe, jobname], timeout=120)
    rep = {'cmd': exe + ' ' + jobname, 'rc': rc, 'output': out[-1500:], 'reproduced': False, 'detail': 'native recipes found no failing sequence'}
    m = re.search(r'REPRODUCED (.*)', out)
    if m:
        rep['reproduced'] = True
        rep['detail'] = m.group(1)
        w = re.search(r'class=(\S+)', m.group(1))
        rep['witness_class'] = w.group(1) if w else None
    return rep
