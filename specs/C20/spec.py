"""C20 -- a suspended task resumes exactly once: the hand-shake on suspend_point_type::m_stack_state (handshake.*), the stack-switch discipline (switch.*), the glue from
tbb::task::suspend down to the coroutine switch (suspend.*), the arena coroutine cache (cocache.*), the resume task and the waiter node of a parked stack (rtask.*)."""
import os
import sys
import re
HERE = os.path.dirname(os.path.abspath(__file__))
sys.path.insert(0, os.path.join(HERE, '..'))
sys.path.insert(0, os.path.join(HERE, '..', '..', 'tools'))
import common
import native
import cxx2c
from cxx2c import Rewriter, slice_block, ExtractionBreak, load
from prove import Job

SC = 'src/tbb/scheduler_common.h'
TK = 'src/tbb/task.cpp'
MAC = {'__TBB_PREVIEW_CRITICAL_TASKS': 1, '__TBB_RESUMABLE_TASKS': 1}


def extract(ctx):
    sliced, fired = [], {}
    rw = Rewriter('suspend_point')
    if not re.search(r'enum class stack_state \{\s*active,[^\n]*\n\s*suspended,[^\n]*\n\s*notified', load(SC)):
        raise ExtractionBreak('stack_state enum changed')
    out = []
    W = r'struct suspend_point_type \{'
    s = slice_block(SC, r'bool try_notify_resume\(\)', within=W)
    sliced.append('%s:%d suspend_point_type::try_notify_resume' % (SC, s.line))
    t = rw.sub(s.text, r'bool try_notify_resume\(\)', 'bool sp_try_notify_resume(struct sp* self)', 1, 1, name='sig')
    t = rw.sub(t, r'm_stack_state\.exchange\(stack_state::(\w+)\)', r'ATOMIC_XCHG(self->m_stack_state, \1)', 1, 1, name='atomic-exchange')
    t = rw.sub(t, r'stack_state::', '', 1, name='enum-class')
    t = rw.number_sites(t, 'tnr', by_kind=True)
    out.append(t)
    s = slice_block(SC, r'void finilize_resume\(\)', within=W)
    sliced.append('%s:%d suspend_point_type::finilize_resume' % (SC, s.line))
    t = rw.sub(s.text, r'void finilize_resume\(\)', 'void sp_finilize_resume(struct sp* self)', 1, 1, name='sig')
    t = rw.sub(t, r'(?<![\w>])m_stack_state\.store\(stack_state::active, std::memory_order_relaxed\);', 'ATOMIC_STORE(self->m_stack_state, active);', 1, 1, name='atomic-store')
    t = rw.sub(t, r'm_prev_suspend_point->m_stack_state\.exchange\(stack_state::(\w+)\)', r'ATOMIC_XCHG(self->m_prev_suspend_point->m_stack_state, \1)', 1, 1, name='atomic-exchange')
    t = rw.sub(t, r'(?<![\w>])m_prev_suspend_point\b', 'self->m_prev_suspend_point', 3, name='field')
    t = rw.sub(t, r'self->self->', 'self->', 0)
    t = rw.sub(t, r'r1::resume\(', 'r1_resume(', 1, 1, name='ns-strip')
    t = rw.sub(t, r'stack_state::', '', 1, name='enum-class')
    t = rw.std(t)
    t = rw.number_sites(t, 'fin', by_kind=True)
    out.append(t)
    s = slice_block(SC, r'void recall_owner\(\)', within=W)
    sliced.append('%s:%d suspend_point_type::recall_owner' % (SC, s.line))
    t = rw.sub(s.text, r'void recall_owner\(\)', 'void sp_recall_owner(struct sp* self)', 1, 1, name='sig')
    t = rw.sub(t, r'm_stack_state\.load\(std::memory_order_relaxed\)', 'PLAIN_READ(self->m_stack_state)', 1, 1, name='assert-read')
    t = rw.sub(t, r'(?<![\w.>])m_stack_state\.store\(stack_state::(\w+), std::memory_order_\w+\);', r'REC_STORE_STATE(self, \1);', 0, None, name='atomic-store (named by field)')
    t = rw.sub(t, r'(?<![\w.>])m_is_owner_recalled\.store\((\w+), std::memory_order_\w+\);', r'REC_STORE_FLAG(self, \1);', 0, None, name='atomic-store (named by field)')
    t = rw.sub(t, r'stack_state::', '', 1, name='enum-class')
    t = rw.asserts(t, 1)
    out.append(t)
    s = slice_block(TK, r'void resume\(suspend_point_type\* sp\)')
    sliced.append('%s:%d r1::resume' % (TK, s.line))
    t = cxx2c.cpp_resolve(s.text, MAC, 'r1::resume')
    t = rw.sub(t, r'void resume\(suspend_point_type\* sp\)', 'void r1_resume(struct sp* sp)', 1, 1, name='sig')
    t = rw.sub(t, r'assert_pointers_valid\([^;]*\);', 'RG_NOP();', 1, 1, name='debug check -> RG_NOP')
    t = rw.sub(t, r'task_dispatcher& task_disp = sp->m_resume_task\.m_target;', 'RG_NOP();', 1, 1, name='local alias dropped')
    t = rw.sub(t, r'sp->try_notify_resume\(\)', 'sp_try_notify_resume(sp)', 0, None, name='method')
    t = rw.sub(t, r'arena& a = \*sp->m_arena;', 'RG_NOP();', 1, 1, name='local alias dropped')
    t = rw.sub(t, r'a\.my_references \+= arena::ref_worker;', 'STUB_arena_ref();', 0, None, name='callee stub')
    t = rw.sub(t, r'task_disp\.m_properties\.critical_task_allowed', 'STUB_target_critical_allowed(sp)', 0, None, name='callee stub')
    t = rw.sub(t, r'a\.my_resume_task_stream\.push\(&sp->m_resume_task, random_lane_selector\(sp->m_random\)\);', 'STUB_push_resume_task(sp, 0);', 0, None, name='callee stub (counts pushes)')
    t = rw.sub(t, r'a\.my_critical_task_stream\.push\(&sp->m_resume_task, random_lane_selector\(sp->m_random\)\);', 'STUB_push_resume_task(sp, 1);', 0, None, name='callee stub (counts pushes)')
    t = rw.sub(t, r'a\.advertise_new_work<arena::wakeup>\(\);', 'STUB_advertise();', 0, None, name='callee stub')
    t = rw.sub(t, r'a\.on_thread_leaving\(arena::ref_worker\);', 'STUB_arena_unref();', 0, None, name='callee stub')
    out.append(t)
    common.write(ctx, 'sp.inc', '\n'.join(out) + '\n')
    closed_world_scan(rw)
    fired['suspend_point'] = rw.fired
    return sliced, fired


def closed_world_scan(rw):
    """every writer of the two hand-shake words lies inside a function that is under contract (plus the default member initialiser, which job suspend.get_suspend_point covers)"""
    import glob
    W = r'struct suspend_point_type \{'
    allowed = {
        'm_stack_state': [slice_block(SC, r'void finilize_resume\(\)', within=W).text, slice_block(SC, r'bool try_notify_resume\(\)', within=W).text, slice_block(SC, r'void recall_owner\(\)', within=W).text],
        'm_is_owner_recalled': [slice_block(SC, r'void recall_owner\(\)', within=W).text, slice_block(TK, r'bool task_dispatcher::resume\(task_dispatcher& target\)').text],
    }
    files = sorted(glob.glob(os.path.join(cxx2c.REPO, 'src', 'tbb', '*.h')) + glob.glob(os.path.join(cxx2c.REPO, 'src', 'tbb', '*.cpp')) + glob.glob(os.path.join(cxx2c.REPO, 'include', 'oneapi', 'tbb', 'detail', '*.h')))
    for field, texts in allowed.items():
        pat = re.compile(r'\b%s\b\s*(?:\.\s*(?:store|exchange|compare_exchange_\w+|fetch_\w+)\s*\(|=(?!=)|\{|\+\+|--|[-+|&^]=)' % field)
        total = 0
        for f in files:
            total += len(pat.findall(cxx2c.mask(load(os.path.relpath(f, cxx2c.REPO)))))
        inside = sum(len(pat.findall(cxx2c.mask(t))) for t in texts)
        if total != inside + 1:     # + 1: the declaration with its default member initialiser
            raise ExtractionBreak('closed world broken: %s has %d writers in the tree, %d inside functions under contract (+ 1 declaration)' % (field, total, inside))
        rw.fired['closed-world scan: writers of ' + field] = total


TDC = 'src/tbb/task_dispatcher.cpp'
TDH = 'src/tbb/task_dispatcher.h'


def extract_switch(ctx, sliced, fired):
    """the stack-switch discipline: whatever runs first on a stack after a switch performs the post-resume action the previous stack left behind, exactly once"""
    rw = Rewriter('stack_switch')
    out = []
    # do_post_resume_action
    s = slice_block(TK, r'void task_dispatcher::do_post_resume_action\(\)')
    sliced.append('%s:%d task_dispatcher::do_post_resume_action' % (TK, s.line))
    t = rw.sub(s.text, r'void task_dispatcher::do_post_resume_action\(\)', 'void td_do_post_resume_action(struct task_dispatcher* self)', 1, 1, name='sig')
    t = rw.sub(t, r'thread_data\* td = m_thread_data;', 'struct thread_data* td = self->m_thread_data;', 1, 1, name='field')
    t = rw.sub(t, r'case post_resume_action::(\w+):', r'case pra_\1:', 3, name='enum-class')
    t = rw.sub(t, r'post_resume_action::(\w+)', r'pra_\1', 0, name='enum-class')
    t = rw.sub(t, r'static_cast<thread_control_monitor::resume_context\*>\(td->my_post_resume_arg\)->notify\(\);', 'STUB_resume_context_notify(td->my_post_resume_arg);', 0, None, name='callee stub (re-registers the abandoned stack as a waiter)')
    t = rw.sub(t, r'task_dispatcher\* to_cleanup = static_cast<task_dispatcher\*>\(td->my_post_resume_arg\);', 'struct task_dispatcher* to_cleanup = (struct task_dispatcher*)td->my_post_resume_arg;', 0, None, name='cast')
    t = rw.sub(t, r'td->my_arena->on_thread_leaving\(arena::ref_external\);', 'STUB_arena_unref_external(td);', 0, None, name='callee stub')
    t = rw.sub(t, r'td->my_arena->my_co_cache\.push\(([^;]*)\);', r'STUB_co_cache_push(td, \1);', 0, None, name='callee (proved: cocache.push)')
    t = rw.sub(t, r'suspend_point_type\* sp = static_cast<suspend_point_type\*>\(td->my_post_resume_arg\);', 'struct sp* sp = (struct sp*)td->my_post_resume_arg;', 0, None, name='cast')
    t = rw.sub(t, r'sp->recall_owner\(\);', 'STUB_sp_recall_owner(sp);', 0, None, name='callee (proved: handshake.recall_owner)')
    t = rw.sub(t, r'(?s)auto (\w+) = \[sp\] \(market_context (\w+)\) \{\s*return ([^;]*);\s*\};', r'\n#define \1(\2) (\3)\n', 0, None, name='lambda (predicate selecting the waiters of this suspend point) -> macro with the sliced expression as body')
    t = rw.sub(t, r'td->my_arena->get_waiting_threads_monitor\(\)\.notify\((\w+)\);', r'NOTIFY_WAITERS(td, \1);', 0, None, name='callee stub (concurrent_monitor::notify(pred): the predicate is applied to the owner\'s wait context)')
    t = rw.sub(t, r'td->clear_post_resume_action\(\);', 'td_clear_post_resume_action(td);', 0, None, name='method')
    t = rw.sub(t, r'(?<![\w.>])(m_properties|m_execute_data_ext|m_stealing_threshold|m_suspend_point)\b', r'self->\1', 0, None, name='field')
    t = rw.asserts(t, 0)
    t = rw.std(t)
    t = rw.fcasts(t, ['uintptr_t'], 0)
    out.append(t)
    # thread_data::set/clear_post_resume_action
    for name, sig, csig in (('set_post_resume_action', r'void set_post_resume_action\(task_dispatcher::post_resume_action pra, void\* arg\)', 'void td_set_post_resume_action(struct thread_data* self, int pra, void* arg)'),
                            ('clear_post_resume_action', r'void clear_post_resume_action\(\)', 'void td_clear_post_resume_action(struct thread_data* self)')):
        s = slice_block('src/tbb/thread_data.h', sig)
        sliced.append('src/tbb/thread_data.h:%d thread_data::%s' % (s.line, name))
        t = rw.sub(s.text, sig, csig, 1, 1, name='sig')
        t = rw.sub(t, r'task_dispatcher::post_resume_action::(\w+)', r'pra_\1', 0, name='enum-class')
        t = rw.sub(t, r'(?<![\w.>])(my_post_resume_action|my_post_resume_arg)\b', r'self->\1', 2, name='field')
        t = rw.asserts(t, 0)
        t = rw.std(t)
        out.insert(0, t)
    # co_local_wait_for_all (member)
    s = slice_block(TDC, r'void task_dispatcher::co_local_wait_for_all\(\) noexcept')
    sliced.append('%s:%d task_dispatcher::co_local_wait_for_all' % (TDC, s.line))
    t = rw.sub(s.text, r'void task_dispatcher::co_local_wait_for_all\(\) noexcept', 'void td_co_local_wait_for_all(struct task_dispatcher* self)', 1, 1, name='sig')
    t = rw.sub(t, r'assert_pointer_valid\(m_thread_data\);', 'RG_NOP();', 0, None, name='debug check -> RG_NOP')
    t = rw.sub(t, r'assert_task_valid\(resume_task\);', 'RG_NOP();', 0, None, name='debug check -> RG_NOP')
    t = rw.sub(t, r'm_suspend_point->finilize_resume\(\);', 'STUB_sp_finilize_resume(self->m_suspend_point);', 0, None, name='callee (proved: handshake.leaver)')
    t = rw.sub(t, r'(?<![\w.>:])do_post_resume_action\(\);', 'td_do_post_resume_action(self);', 0, None, name='method')
    t = rw.sub(t, r'd1::task\* resume_task\{\};', 'task* resume_task = NULL;', 1, 1, name='brace-init')
    t = rw.sub(t, r'arena\* a = m_thread_data->my_arena;', 'RG_NOP();', 0, None, name='local alias dropped')
    t = rw.sub(t, r'coroutine_waiter waiter\(\*a\);', 'RG_NOP();', 0, None, name='waiter object -> argument of the stub below')
    t = rw.sub(t, r'resume_task = local_wait_for_all\(nullptr, waiter\);', 'resume_task = STUB_local_wait_for_all(self);', 1, 1, name='callee stub (the dispatch loop)')
    t = rw.sub(t, r'm_thread_data->set_post_resume_action\(post_resume_action::(\w+), ([^;]*)\);', r'td_set_post_resume_action(self->m_thread_data, pra_\1, \2);', 0, None, name='method')
    t = rw.sub(t, r'\bthis\b', 'self', 0, None, name='this')
    t = rw.sub(t, r'resume\(static_cast<suspend_point_type::resume_task\*>\(resume_task\)->m_target\)', 'STUB_switch_to_target_of(self, resume_task)', 1, 1, name='callee stub (task_dispatcher::resume: the switch itself)')
    t = rw.sub(t, r'(?<![\w.>])m_thread_data\b', 'self->m_thread_data', 0, None, name='field')
    t = rw.sub(t, r'(?<![\w.>])(m_properties|m_execute_data_ext|m_stealing_threshold|m_suspend_point)\b', r'self->\1', 0, None, name='field')
    t = rw.asserts(t, 0)
    t = rw.std(t)
    t = cxx2c.tag_loops(t, 'colw', rw, expect=1)
    out.append(t)
    # task_dispatcher::resume(target)
    s = slice_block(TK, r'bool task_dispatcher::resume\(task_dispatcher& target\)')
    sliced.append('%s:%d task_dispatcher::resume' % (TK, s.line))
    t = rw.sub(s.text, r'bool task_dispatcher::resume\(task_dispatcher& target\)', 'bool td_resume(struct task_dispatcher* self, struct task_dispatcher* target)', 1, 1, name='sig')
    t = rw.sub(t, r'&target\b', 'target', 1, name='ref-param')
    t = rw.sub(t, r'\btarget\.m_suspend_point', 'target->m_suspend_point', 1, name='ref-param')
    t = rw.sub(t, r'thread_data\* td = m_thread_data;', 'struct thread_data* td = self->m_thread_data;', 2, 2, name='field')
    t = rw.sub(t, r'td->detach_task_dispatcher\(\);', 'STUB_detach_task_dispatcher(td);', 0, None, name='callee stub')
    t = rw.sub(t, r'td->attach_task_dispatcher\(target\);', 'STUB_attach_task_dispatcher(td, target);', 0, None, name='callee stub')
    t = rw.sub(t, r'm_suspend_point->resume\(target->m_suspend_point\);', 'STUB_coroutine_switch(self, target);', 1, 1, name='callee stub (co_context switch: returns when somebody switches back to this stack)')
    t = rw.sub(t, r'if \(m_thread_data\) \{', 'if (self->m_thread_data) {', 1, 1, name='field')
    t = rw.sub(t, r'(?<![\w.>:])do_post_resume_action\(\);', 'td_do_post_resume_action(self);', 0, None, name='method')
    t = rw.sub(t, r'arena_slot\* slot = td->my_arena_slot;', 'struct arena_slot* slot = td->my_arena_slot;', 1, 1, name='type')
    t = rw.sub(t, r'\bthis\b', 'self', 0, None, name='this')
    t = rw.sub(t, r'(?<![\w.>])m_suspend_point->m_is_owner_recalled\.store\(false, std::memory_order_relaxed\);', 'self->m_suspend_point->m_is_owner_recalled = false;', 0, None, name='atomic-store (owner-only flag at this point)')
    t = rw.sub(t, r'(?<![\w.>])m_suspend_point\b', 'self->m_suspend_point', 0, None, name='field')
    t = rw.sub(t, r'(?<![\w.>])(m_properties|m_execute_data_ext|m_stealing_threshold)\b', r'self->\1', 0, None, name='field')
    t = rw.asserts(t, 0)
    t = rw.std(t)
    out.append(t)
    # recall_point
    s = slice_block(TDH, r'inline void task_dispatcher::recall_point\(\)')
    sliced.append('%s:%d task_dispatcher::recall_point' % (TDH, s.line))
    t = rw.sub(s.text, r'inline void task_dispatcher::recall_point\(\)', 'void td_recall_point(struct task_dispatcher* self)', 1, 1, name='sig')
    t = rw.sub(t, r'&m_thread_data->my_arena_slot->default_task_dispatcher\(\)', 'self->m_thread_data->my_arena_slot->my_default_task_dispatcher', 1, 1, name='accessor')
    t = rw.sub(t, r'\bthis\b', 'self', 0, None, name='this')
    t = rw.sub(t, r'm_suspend_point->m_is_owner_recalled\.load\(std::memory_order_relaxed\)', 'self->m_suspend_point->m_is_owner_recalled', 0, None, name='assert-read')
    t = rw.sub(t, r'(?<![\w.>:])get_suspend_point\(\)', 'STUB_get_suspend_point(self)', 0, None, name='method')
    t = rw.sub(t, r'm_thread_data->set_post_resume_action\(post_resume_action::(\w+), ([^;]*)\);', r'td_set_post_resume_action(self->m_thread_data, pra_\1, \2);', 0, None, name='method')
    t = rw.sub(t, r'internal_suspend\(\);', 'STUB_internal_suspend(self);', 0, None, name='callee stub (leaves this stack; returns when it is resumed)')
    t = rw.sub(t, r'm_thread_data->my_inbox\.is_idle_state\(true\)', 'STUB_inbox_is_idle(self)', 1, 1, name='callee stub')
    t = rw.sub(t, r'm_thread_data->my_inbox\.set_is_idle\(false\);', 'STUB_inbox_set_idle_false(self);', 1, 1, name='callee stub')
    t = rw.sub(t, r'(?<![\w.>])m_suspend_point\b', 'self->m_suspend_point', 0, None, name='field')
    t = rw.sub(t, r'(?<![\w.>])(m_properties|m_execute_data_ext|m_stealing_threshold)\b', r'self->\1', 0, None, name='field')
    t = rw.asserts(t, 0)
    t = rw.std(t)
    out.append(t)
    if not re.search(r'enum class post_resume_action \{\s*invalid,\s*register_waiter,\s*cleanup,\s*notify,\s*none\s*\}', load(SC)):
        raise ExtractionBreak('post_resume_action enum changed')
    common.write(ctx, 'switch.inc', '\n'.join(out) + '\n')
    fired['stack_switch'] = rw.fired


# ---------------------------------------------------------------------------------------------------------------------------------
# SUSPEND: the glue between tbb::task::suspend and the stack switch (task.cpp / task_dispatcher.{h,cpp} / co_context.h / thread_data.h)
# ---------------------------------------------------------------------------------------------------------------------------------
CO = 'src/tbb/co_context.h'
TD = 'src/tbb/thread_data.h'
AH = 'src/tbb/arena.h'
TCM = 'src/tbb/thread_control_monitor.h'
WT = 'src/tbb/waiters.h'


def nsdmi(rw, block_text, fields, prefix='self->', name='nsdmi'):
    """default member initialisers `T f{ init };` of the listed fields, in DECLARED order -> `self->f = init;` lines (what a constructor
    does first for every member its init list does not name)."""
    found = []
    for f in fields:
        m = re.search(r'(?<![\w.>])%s\s*\{\s*([^{};]*?)\s*\}\s*;' % re.escape(f), block_text)
        if not m:
            raise ExtractionBreak('%s: member %s has no default member initialiser' % (name, f))
        found.append((m.start(), f, m.group(1) or '0'))
    found.sort()
    rw.fired[name + ':default-member-init->assignment(declared order)'] = len(found)
    return ''.join('    %s%s = %s;\n' % (prefix, f, v) for _, f, v in found)


def ctor_init_list(rw, text, order, name='ctor'):
    """`C(params) : a(x), b(y, z) {body}` -> (`params`, 'INIT_a(self, x); INIT_b(self, y, z);' in DECLARED order, body without braces)"""
    mk = cxx2c.mask(text)
    o = mk.find('(')
    c = cxx2c.match_close(mk, o, '(', ')')
    params = text[o + 1:c]
    b = None
    i = c + 1
    depth = 0
    # body = first '{' at depth 0 that follows ')' or '}' or the parameter list directly
    while i < len(mk):
        ch = mk[i]
        if ch == '(':
            i = cxx2c.match_close(mk, i, '(', ')')
        elif ch == '{':
            k = i - 1
            while mk[k].isspace():
                k -= 1
            if mk[k] in ')}':
                b = i
                break
            i = cxx2c.match_close(mk, i)
        i += 1
    if b is None:
        raise ExtractionBreak('%s: constructor body not found' % name)
    il = text[c + 1:b].strip()
    items = []
    if il:
        if not il.startswith(':'):
            raise ExtractionBreak('%s: cannot parse init list %r' % (name, il[:80]))
        for it in cxx2c.split_args(il[1:]):
            im = re.match(r'\s*(\w+)\s*[\(\{](.*)[\)\}]\s*$', it, re.S)
            if not im:
                raise ExtractionBreak('%s: cannot parse init-list item %r' % (name, it))
            if im.group(1) not in order:
                raise ExtractionBreak('%s: init-list member %s not in the declared-order table' % (name, im.group(1)))
            items.append((order.index(im.group(1)), im.group(1), im.group(2).strip()))
    items.sort()
    rw.fired[name + ':init-list->INIT_<member>(self, args) (declared order)'] = len(items)
    init = ''.join('    INIT_%s(self%s);\n' % (nm, (', ' + a) if a else '') for _, nm, a in items)
    e = cxx2c.match_close(mk, b)
    return params, init, text[b + 1:e]


def declared_order(block_text, fields, name):
    pos = []
    for f in fields:
        m = re.search(r'(?<![\w.>])%s\s*(?:\{[^{};]*\})?\s*;' % re.escape(f), block_text)
        if not m:
            raise ExtractionBreak('%s: member %s not declared' % (name, f))
        pos.append((m.start(), f))
    pos.sort()
    return [f for _, f in pos]


def extract_suspend(ctx, sliced, fired):
    rw = Rewriter('suspend_glue')
    out = []

    def note(s, what):
        sliced.append('%s:%d %s' % (s.rel, s.line, what))

    # ---- co_context: constructor and resume ------------------------------------------------------------------------------------
    W = r'class co_context \{'
    if not re.search(r'enum co_state \{\s*co_invalid,\s*co_suspended,\s*co_executing,\s*co_destroyed\s*\}', load(CO)):
        raise ExtractionBreak('co_state enum changed')
    s = slice_block(CO, r'co_context\(std::size_t stack_size, void\* arg\)', within=W, ctor=True)
    note(s, 'co_context::co_context')
    params, init, body = ctor_init_list(rw, s.text, ['my_coroutine', 'my_state'], 'co_context')
    t = 'void co_context_ctor(struct co_context* self, size_t stack_size, void* arg) {\n' + init + body + '}\n'
    t = rw.sub(t, r'(?<![\w.>])create_coroutine\(my_coroutine, stack_size, arg\);', 'STUB_create_coroutine(&self->my_coroutine, stack_size, arg);', 0, None, name='callee (proved: coroutine.entry_roundtrip)')
    t = rw.sub(t, r'(?<![\w.>])current_coroutine\(my_coroutine\);', 'STUB_current_coroutine(&self->my_coroutine);', 0, None, name='callee stub')
    t = rw.asserts(t, 0)
    t = rw.std(t)
    out.append(t)
    s = slice_block(CO, r'~co_context\(\)', within=W)
    note(s, 'co_context::~co_context')
    t = cxx2c.cpp_resolve(s.text, {'__TBB_RESUMABLE_TASKS_USE_THREADS': 0}, '~co_context')
    t = rw.sub(t, r'~co_context\(\)', 'void co_context_dtor(struct co_context* self)', 1, 1, name='sig')
    t = rw.sub(t, r'(?<![\w.>])destroy_coroutine\(my_coroutine\);', 'STUB_destroy_coroutine(&self->my_coroutine);', 0, None, name='callee stub (munmap of the coroutine stack)')
    t = rw.sub(t, r'(?<![\w.>])my_state\b', 'self->my_state', 0, None, name='field')
    t = rw.asserts(t, 0)
    t = rw.std(t)
    out.append(t)
    s = slice_block(CO, r'void resume\(co_context& target\)', within=W)
    note(s, 'co_context::resume')
    t = rw.sub(s.text, r'void resume\(co_context& target\)', 'void co_context_resume(struct co_context* self, struct co_context* target)', 1, 1, name='sig')
    t = rw.sub(t, r'\btarget\.', 'target->', 0, None, name='ref-param')
    t = rw.sub(t, r'swap_coroutine\(my_coroutine, target->my_coroutine\);', 'STUB_swap_coroutine(self, target);', 0, None, name='callee stub (swapcontext: returns when somebody switches back)')
    t = rw.sub(t, r'(?<![\w.>])my_state\b', 'self->my_state', 0, None, name='field')
    t = rw.asserts(t, 0)
    t = rw.std(t)
    out.append(t)
    # ---- suspend_point_type: default member initialisers + constructor + resume_task constructor + resume ------------------------
    SPW = r'struct suspend_point_type \{'
    spblock = slice_block(SC, SPW).text
    s = slice_block(SC, r'explicit resume_task\(task_dispatcher& target\)', within=SPW, ctor=True)
    note(s, 'suspend_point_type::resume_task::resume_task')
    params, init, body = ctor_init_list(rw, s.text, ['m_target'], 'resume_task')
    t = 'void resume_task_ctor(struct resume_task* self, task_dispatcher* target) {\n' + init + body + '}\n'
    t = rw.sub(t, r'task_accessor::set_resume_trait\(\*this\);', 'TASK_SET_RESUME_TRAIT(self);', 0, None, name='accessor')
    out.append(t)
    s = slice_block(TDH, r'inline suspend_point_type::suspend_point_type\(arena\* a, size_t stack_size, task_dispatcher& task_disp\)', ctor=True)
    note(s, 'suspend_point_type::suspend_point_type (+ default member initialisers of %s)' % SC)
    order = declared_order(spblock, ['m_arena', 'm_random', 'm_is_owner_recalled', 'm_is_critical', 'm_co_context', 'm_prev_suspend_point', 'm_stack_state', 'm_resume_task'], 'suspend_point_type')
    params, init, body = ctor_init_list(rw, s.text, order, 'suspend_point_type')
    dflt = nsdmi(rw, spblock, ['m_is_owner_recalled', 'm_is_critical', 'm_prev_suspend_point', 'm_stack_state'], name='suspend_point_type')
    t = 'void suspend_point_type_ctor(suspend_point_type* self, arena* a, size_t stack_size, task_dispatcher* task_disp) {\n' + dflt + init + body + '}\n'
    t = rw.sub(t, r'stack_state::', '', 1, name='enum-class')
    t = rw.sub(t, r'INIT_m_random\(self, this\);', 'INIT_m_random(self, self);', 0, None, name='this')
    t = rw.sub(t, r'INIT_m_co_context\(self, stack_size, &task_disp\);', 'INIT_m_co_context(self, stack_size, task_disp);', 0, None, name='ref-param')
    t = rw.sub(t, r'assert_pointer_valid\([^;]*\);', 'RG_NOP();', 0, None, name='debug check -> RG_NOP')
    t = rw.sub(t, r'task_accessor::context\(m_resume_task\) = m_arena->my_default_ctx;', 'TASK_SET_CONTEXT(&self->m_resume_task, self->m_arena->my_default_ctx);', 0, None, name='accessor')
    t = rw.sub(t, r'task_accessor::isolation\(m_resume_task\) = no_isolation;', 'TASK_SET_ISOLATION(&self->m_resume_task, no_isolation);', 0, None, name='accessor')
    t = rw.sub(t, r'task_group_context_impl::bind_to\(\*task_accessor::context\(m_resume_task\), task_disp\.m_thread_data\);', 'STUB_bind_to(TASK_CONTEXT(&self->m_resume_task), task_disp->m_thread_data);', 0, None, name='callee stub')
    t = rw.std(t)
    out.append(t)
    s = slice_block(SC, r'void resume\(suspend_point_type\* sp\)', within=SPW)
    note(s, 'suspend_point_type::resume')
    t = rw.sub(s.text, r'void resume\(suspend_point_type\* sp\)', 'void sp_resume(suspend_point_type* self, suspend_point_type* sp)', 1, 1, name='sig')
    t = rw.sub(t, r'm_stack_state\.load\(std::memory_order_relaxed\)', 'ATOMIC_LOAD(self->m_stack_state)', 0, None, name='assert-read')
    t = rw.sub(t, r'sp->m_prev_suspend_point = this;', 'sp->m_prev_suspend_point = self;', 0, None, name='this')
    t = rw.sub(t, r'(?<![\w.>])m_co_context\.resume\(sp->m_co_context\);', 'co_context_resume(&self->m_co_context, &sp->m_co_context);', 0, None, name='method')
    t = rw.sub(t, r'(?<![\w.>])finilize_resume\(\);', 'STUB_sp_finilize_resume(self);', 0, None, name='callee (proved: handshake.leaver)')
    t = rw.sub(t, r'(?<![\w.>])(m_prev_suspend_point|m_is_owner_recalled|m_co_context)\b', r'self->\1', 0, None, name='field')
    t = rw.sub(t, r'stack_state::', '', 0, None, name='enum-class')
    t = rw.asserts(t, 0)
    t = rw.std(t)
    out.append(t)
    # ---- task_dispatcher: constructor + default member initialisers, get_suspend_point, init_suspend_point ----------------------
    TDW = r'class alignas \(max_nfs_size\) task_dispatcher \{'
    tdblock = slice_block(SC, TDW).text
    propblock = slice_block(SC, r'struct properties \{', within=TDW).text
    s = slice_block(TDH, r'inline task_dispatcher::task_dispatcher\(arena\* a\)', ctor=True)
    note(s, 'task_dispatcher::task_dispatcher (+ default member initialisers of %s)' % SC)
    params, init, body = ctor_init_list(rw, s.text, [], 'task_dispatcher')
    dflt = nsdmi(rw, tdblock, ['m_thread_data', 'm_stealing_threshold', 'm_suspend_point'], name='task_dispatcher')
    dflt += nsdmi(rw, propblock, ['outermost', 'fifo_tasks_allowed', 'critical_task_allowed'], prefix='self->m_properties.', name='task_dispatcher::properties')
    t = 'task_dispatcher* task_dispatcher_ctor(task_dispatcher* self, arena* a) {\n' + dflt + init + body + '    return self;\n}\n'
    t = rw.sub(t, r'(?<![\w.>])m_execute_data_ext\b', 'self->m_execute_data_ext', 0, None, name='field')
    t = rw.sub(t, r'= this;', '= self;', 0, None, name='this')
    t = rw.std(t)
    out.append(t)
    s = slice_block(TDC, r'void task_dispatcher::init_suspend_point\(arena\* a, std::size_t stack_size\)')
    note(s, 'task_dispatcher::init_suspend_point')
    t = rw.sub(s.text, r'void task_dispatcher::init_suspend_point\(arena\* a, std::size_t stack_size\)', 'void td_init_suspend_point(task_dispatcher* self, arena* a, size_t stack_size)', 1, 1, name='sig')
    t = rw.sub(t, r'new\(cache_aligned_allocate\(sizeof\(suspend_point_type\)\)\)\s*suspend_point_type\(',
               'NEW_suspend_point_type(STUB_cache_aligned_allocate(sizeof(suspend_point_type)), ', 0, None, name='placement new -> allocation + constructor call')
    t = rw.sub(t, r', \*this\);', ', self);', 0, None, name='ref-arg')
    t = rw.sub(t, r', \*((?:\w+->)*\w+)\);', r', \1);', 0, None, name='ref-arg')
    t = rw.sub(t, r'(?<![\w.>])(m_suspend_point|m_thread_data)\b', r'self->\1', 0, None, name='field')
    t = rw.asserts(t, 0)
    t = rw.std(t)
    out.append(t)
    s = slice_block(TDC, r'd1::suspend_point task_dispatcher::get_suspend_point\(\)')
    note(s, 'task_dispatcher::get_suspend_point')
    t = rw.sub(s.text, r'd1::suspend_point task_dispatcher::get_suspend_point\(\)', 'suspend_point_type* td_get_suspend_point(task_dispatcher* self)', 1, 1, name='sig')
    t = rw.sub(t, r'assert_pointer_valid\([^;]*\);', 'RG_NOP();', 0, None, name='debug check -> RG_NOP')
    t = rw.sub(t, r'(?<![\w.>:])init_suspend_point\(', 'td_init_suspend_point(self, ', 0, None, name='method')
    t = rw.sub(t, r'(?<![\w.>])(m_suspend_point|m_thread_data|m_properties|m_execute_data_ext)\b', r'self->\1', 0, None, name='field')
    t = rw.std(t)
    out.append(t)
    # ---- thread_data::attach/detach_task_dispatcher ---------------------------------------------------------------------------------
    s = slice_block(TD, r'inline void thread_data::attach_task_dispatcher\(task_dispatcher& task_disp\)')
    note(s, 'thread_data::attach_task_dispatcher')
    t = rw.sub(s.text, r'inline void thread_data::attach_task_dispatcher\(task_dispatcher& task_disp\)', 'void thd_attach_task_dispatcher(thread_data* self, task_dispatcher* task_disp)', 1, 1, name='sig')
    t = rw.sub(t, r'\btask_disp\.', 'task_disp->', 0, None, name='ref-param')
    t = rw.sub(t, r'= &task_disp;', '= task_disp;', 0, None, name='ref-param')
    t = rw.sub(t, r'= this;', '= self;', 0, None, name='this')
    t = rw.sub(t, r'(?<![\w.>])my_task_dispatcher\b', 'self->my_task_dispatcher', 0, None, name='field')
    t = rw.asserts(t, 0)
    t = rw.std(t)
    out.append(t)
    s = slice_block(TD, r'inline void thread_data::detach_task_dispatcher\(\)')
    note(s, 'thread_data::detach_task_dispatcher')
    t = rw.sub(s.text, r'inline void thread_data::detach_task_dispatcher\(\)', 'void thd_detach_task_dispatcher(thread_data* self)', 1, 1, name='sig')
    t = rw.sub(t, r'== this\b', '== self', 0, None, name='this')
    t = rw.sub(t, r'(?<![\w.>])my_task_dispatcher\b', 'self->my_task_dispatcher', 0, None, name='field')
    t = rw.asserts(t, 0)
    t = rw.std(t)
    out.append(t)
    # ---- task.cpp: create_coroutine, internal_suspend, task_dispatcher::suspend, r1::suspend, current_suspend_point ------------------
    s = slice_block(TK, r'task_dispatcher& create_coroutine\(thread_data& td\)')
    note(s, 'r1::create_coroutine')
    t = rw.sub(s.text, r'task_dispatcher& create_coroutine\(thread_data& td\)', 'task_dispatcher* r1_create_coroutine(thread_data* td)', 1, 1, name='sig')
    t = rw.sub(t, r'\btd\.', 'td->', 1, name='ref-param')
    t = rw.sub(t, r'td->my_arena->my_co_cache\.pop\(\)', 'STUB_co_cache_pop(td->my_arena)', 0, None, name='callee (proved: cocache.pop)')
    t = rw.sub(t, r'void\* ptr = cache_aligned_allocate\(sizeof\(task_dispatcher\)\);', 'void* ptr = STUB_cache_aligned_allocate(sizeof(task_dispatcher));', 0, None, name='callee stub (alloc_nofail)')
    t = rw.sub(t, r'task_disp = new\(ptr\) task_dispatcher\(td->my_arena\);', 'task_disp = task_dispatcher_ctor((task_dispatcher*)ptr, td->my_arena);', 0, None, name='placement new -> constructor call')
    t = rw.sub(t, r'task_disp->init_suspend_point\(', 'td_init_suspend_point(task_disp, ', 0, None, name='method')
    t = rw.sub(t, r'td->my_arena->my_threading_control->worker_stack_size\(\)', 'STUB_worker_stack_size(td->my_arena)', 0, None, name='callee stub')
    t = rw.sub(t, r'td->my_arena->my_references \+= arena::ref_external;', 'ARENA_REF_EXTERNAL(td->my_arena);', 0, None, name='atomic += on the arena reference word -> counter macro')
    t = rw.sub(t, r'return \*task_disp;', 'return task_disp;', 1, 1, name='ref-return')
    t = rw.std(t)
    out.append(t)
    s = slice_block(TK, r'void task_dispatcher::internal_suspend\(\)')
    note(s, 'task_dispatcher::internal_suspend')
    t = rw.sub(s.text, r'void task_dispatcher::internal_suspend\(\)', 'void td_internal_suspend(task_dispatcher* self)', 1, 1, name='sig')
    t = rw.sub(t, r'task_dispatcher& default_task_disp = slot->default_task_dispatcher\(\);', 'task_dispatcher* default_task_disp = slot->my_default_task_dispatcher;', 1, 1, name='accessor + ref-local')
    t = rw.sub(t, r'\b(\w+)\.get_suspend_point\(\)', r'td_get_suspend_point(\1)', 0, None, name='method (ref-local)')
    t = rw.sub(t, r'(?<![\w.>:])get_suspend_point\(\)', 'td_get_suspend_point(self)', 0, None, name='method')
    t = rw.sub(t, r'((?:\w+\([^()]*\)->)?(?:\w+(?:->|\.))*m_is_owner_recalled)\.load\(std::memory_order_\w+\)', r'ATOMIC_LOAD(\1)', 0, None, name='atomic-load')
    t = rw.sub(t, r'task_dispatcher& target =', 'task_dispatcher* target =', 1, 1, name='ref-local')
    t = rw.sub(t, r'(?<![\w.>:])create_coroutine\(\*m_thread_data\)', 'r1_create_coroutine(self->m_thread_data)', 0, None, name='callee (ref-arg)')
    t = rw.sub(t, r'(?m)^(\s*)resume\(target\);', r'\1TD_RESUME(self, target);', 0, None, name='method (proved: switch.resume)')
    t = rw.sub(t, r'(?<![\w.>:])recall_point\(\);', 'TD_RECALL_POINT(self);', 0, None, name='method (proved: switch.recall_point)')
    t = rw.sub(t, r'(?<![\w.>])(m_thread_data|m_properties|m_suspend_point|m_execute_data_ext)\b', r'self->\1', 0, None, name='field')
    t = rw.asserts(t, 0)
    t = rw.std(t)
    out.append(t)
    s = slice_block(TK, r'void task_dispatcher::suspend\(suspend_callback_type suspend_callback, void\* user_callback\)')
    note(s, 'task_dispatcher::suspend')
    t = rw.sub(s.text, r'void task_dispatcher::suspend\(suspend_callback_type suspend_callback, void\* user_callback\)', 'void td_suspend(task_dispatcher* self, suspend_callback_type suspend_callback, void* user_callback)', 1, 1, name='sig')
    t = rw.sub(t, r'(?<![\w.>:])get_suspend_point\(\)', 'td_get_suspend_point(self)', 0, None, name='method')
    t = rw.sub(t, r'(?<![\w.>:])internal_suspend\(\);', 'TD_INTERNAL_SUSPEND(self);', 0, None, name='method')
    t = rw.sub(t, r'post_resume_action::(\w+)', r'pra_\1', 0, None, name='enum-class')
    t = rw.sub(t, r'(?<![\w.>])(m_thread_data|m_suspend_point|m_properties|m_execute_data_ext)\b', r'self->\1', 0, None, name='field')
    t = rw.asserts(t, 0)
    t = rw.std(t)
    out.append(t)
    s = slice_block(TK, r'void suspend\(suspend_callback_type suspend_callback, void\* user_callback\)')
    note(s, 'r1::suspend')
    t = rw.sub(s.text, r'void suspend\(suspend_callback_type suspend_callback, void\* user_callback\)', 'void r1_suspend(suspend_callback_type suspend_callback, void* user_callback)', 1, 1, name='sig')
    t = rw.sub(t, r'thread_data& td = \*governor::get_thread_data\(\);', 'thread_data* td = STUB_get_thread_data();', 1, 1, name='ref-local')
    t = rw.sub(t, r'\btd\.', 'td->', 0, None, name='ref-local')
    t = rw.sub(t, r'\b((?:\w+->)+\w+)->suspend\(', r'TD_SUSPEND(\1, ', 0, None, name='method')
    out.append(t)
    s = slice_block(TK, r'suspend_point_type\* current_suspend_point\(\)')
    note(s, 'r1::current_suspend_point')
    t = rw.sub(s.text, r'suspend_point_type\* current_suspend_point\(\)', 'suspend_point_type* r1_current_suspend_point(void)', 1, 1, name='sig')
    t = rw.sub(t, r'thread_data& td = \*governor::get_thread_data\(\);', 'thread_data* td = STUB_get_thread_data();', 1, 1, name='ref-local')
    t = rw.sub(t, r'\btd\.', 'td->', 0, None, name='ref-local')
    t = rw.sub(t, r'\b((?:\w+->)+\w+)->get_suspend_point\(\)', r'td_get_suspend_point(\1)', 0, None, name='method')
    out.append(t)
    # ---- POSIX create_coroutine (ucontext) and the coroutine entry function: the dispatcher address travels as two unsigned halves --------
    s = slice_block(CO, r'inline void create_coroutine\(coroutine_type& c, std::size_t stack_size, void\* arg\)', nth=2)
    if 'makecontext' not in s.text:
        raise ExtractionBreak('the third create_coroutine of co_context.h is not the ucontext one any more')
    note(s, 'create_coroutine (ucontext variant)')
    t = rw.sub(s.text, r'inline void create_coroutine\(coroutine_type& c, std::size_t stack_size, void\* arg\)', 'void posix_create_coroutine(struct coroutine_type* c, size_t stack_size, void* arg)', 1, 1, name='sig')
    t = rw.sub(t, r'\bc\.', 'c->', 1, name='ref-param')
    t = rw.sub(t, r'governor::default_page_size\(\)', 'STUB_default_page_size()', 1, name='callee stub')
    t = rw.asserts(t, 0)
    t = rw.std(t)
    t = rw.fcasts(t, ['uintptr_t', 'unsigned', 'uint64_t'], 0)
    t = rw.sub(t, r'\(coroutine_func_t\)co_local_wait_for_all', '(coroutine_func_t)ENTRY_co_local_wait_for_all', 0, None, name='entry function name')
    out.append(t)
    s = slice_block(TDC, r'void co_local_wait_for_all\(unsigned hi, unsigned lo\) noexcept')
    note(s, 'co_local_wait_for_all (coroutine entry function)')
    t = s.text[s.text.index('{'):]
    t = cxx2c.cpp_resolve(t, {'_WIN32': None}, 'co_local_wait_for_all')
    t = 'void ENTRY_co_local_wait_for_all(unsigned hi, unsigned lo)\n' + t
    t = rw.sub(t, r'task_dispatcher& task_disp = \*reinterpret_cast<task_dispatcher\*>\(addr\);', 'task_dispatcher* task_disp = reinterpret_cast<task_dispatcher*>(addr);', 1, 1, name='ref-local')
    t = rw.sub(t, r'assert_pointers_valid\([^;]*\);', 'RG_NOP();', 0, None, name='debug check -> RG_NOP')
    t = rw.sub(t, r'task_disp\.set_stealing_threshold\(task_disp\.m_thread_data->my_arena->calculate_stealing_threshold\(\)\);', 'STUB_set_stealing_threshold(task_disp);', 0, None, name='callee stub')
    t = rw.sub(t, r'__TBB_ASSERT\(task_disp\.can_steal\(\), nullptr\);', 'RG_NOP();', 0, None, name='debug check -> RG_NOP')
    t = rw.sub(t, r'task_disp\.co_local_wait_for_all\(\);', 'TD_CO_LOCAL_WAIT_FOR_ALL(task_disp);', 0, None, name='method (proved: switch.coroutine_prologue)')
    t = rw.casts(t, 1)
    t = rw.asserts(t, 0)
    t = rw.std(t)
    t = rw.fcasts(t, ['uintptr_t', 'unsigned', 'uint64_t'], 0)
    out.append(t)
    if not re.search(r'enum class post_resume_action \{\s*invalid,\s*register_waiter,\s*cleanup,\s*notify,\s*none\s*\}', load(SC)):
        raise ExtractionBreak('post_resume_action enum changed')
    common.write(ctx, 'suspend.inc', '\n'.join(out) + '\n')
    fired['suspend_glue'] = rw.fired


# ---------------------------------------------------------------------------------------------------------------------------------
# COCACHE: arena_co_cache (arena.h), the LIFO ring of parked coroutines
# ---------------------------------------------------------------------------------------------------------------------------------
def extract_cocache(ctx, sliced, fired):
    rw = Rewriter('co_cache')
    W = r'class arena_co_cache \{'
    out = []
    MEM = ['my_co_scheduler_cache', 'my_head', 'my_max_index', 'my_co_cache_mutex']
    METH = ['next_index', 'prev_index', 'internal_empty', 'internal_task_dispatcher_cleanup', 'pop']

    def conv(name, sig, csig, loops=False):
        s = slice_block(AH, sig, within=W)
        sliced.append('%s:%d arena_co_cache::%s' % (AH, s.line, name))
        t = rw.sub(s.text, sig, csig, 1, 1, name='sig')
        t = rw.scoped_locks(t, r'tbb::spin_mutex::scoped_lock \w+\(([^)]*)\);', 0, None)
        # `while (T* x = f())` -> declaration hoisted, condition kept
        t = rw.sub(t, r'\b(while|if) \(task_dispatcher\* (\w+) = ', r'task_dispatcher* \2; \1 ((\2 = ', 0, None, name='declaration in condition -> hoisted')
        if loops:
            t = rw.sub(t, r'((?:while|if) \(\(to_cleanup = pop\(\))\)', r'\1))', 0, None, name='declaration in condition -> hoisted (closing parenthesis)')
        t = rw.sub(t, r'to_cleanup->~task_dispatcher\(\);', 'STUB_dispatcher_dtor(to_cleanup);', 0, None, name='destructor call')
        t = rw.sub(t, r'cache_aligned_deallocate\(', 'STUB_cache_aligned_deallocate(', 0, None, name='callee stub')
        t = rw.sub(t, r'\(task_dispatcher\*\*\)cache_aligned_allocate\(', '(task_dispatcher**)STUB_cache_aligned_allocate(', 0, None, name='callee stub (alloc_nofail)')
        t = rw.sub(t, r'std::memset\(', 'STUB_memset(', 0, None, name='callee stub')
        t = rw.fields(t, MEM, 0)
        t = rw.methods(t, METH, 'cc_', 0)
        # element accesses -> accessor macros (the harness checks the lock, the bounds, and supplies the representation invariant at the index read)
        t = rw.sub(t, r'self->my_co_scheduler_cache\[([^\]]*)\] = ([^;]*);', r'CACHE_WR(self, \1, \2);', 0, None, name='element store -> CACHE_WR')
        t = rw.sub(t, r'self->my_co_scheduler_cache\[([^\]]*)\]', r'CACHE_RD(self, \1)', 0, None, name='element read -> CACHE_RD')
        t = rw.sub(t, r'self->my_head = ([^;]*);', r'HEAD_WR(self, \1);', 0, None, name='head store -> HEAD_WR')
        t = rw.sub(t, r'self->my_head\b', 'HEAD_RD(self)', 0, None, name='head read -> HEAD_RD')
        t = rw.asserts(t, 0)
        t = rw.std(t)
        if loops:
            t = cxx2c.tag_loops(t, 'cc_cleanup', rw, names=[(r'pop', 'drain')])
            if 'LOOP_cc_cleanup_drain' not in t:      # the drain loop is gone (e.g. `while` -> `if`): the loop-free body is checked against the same postcondition
                cxx2c.LOOP_DEFICIT['cc_cleanup'] = 1
        return t
    out.append(conv('next_index', r'unsigned next_index\(\)', 'unsigned cc_next_index(struct arena_co_cache* self)'))
    out.append(conv('prev_index', r'unsigned prev_index\(\)', 'unsigned cc_prev_index(struct arena_co_cache* self)'))
    out.append(conv('internal_empty', r'bool internal_empty\(\)', 'bool cc_internal_empty(struct arena_co_cache* self)'))
    out.append(conv('internal_task_dispatcher_cleanup', r'void internal_task_dispatcher_cleanup\(task_dispatcher\* to_cleanup\)', 'void cc_internal_task_dispatcher_cleanup(struct arena_co_cache* self, task_dispatcher* to_cleanup)'))
    out.append(conv('init', r'void init\(unsigned cache_capacity\)', 'void cc_init(struct arena_co_cache* self, unsigned cache_capacity)'))
    out.append(conv('push', r'void push\(task_dispatcher\* s\)', 'void cc_push(struct arena_co_cache* self, task_dispatcher* s)'))
    out.append('#ifndef CC_POP_BY_CONTRACT\n' + conv('pop', r'task_dispatcher\* pop\(\)', 'task_dispatcher* cc_pop(struct arena_co_cache* self)') + '\n#endif\n')
    out.append(conv('cleanup', r'void cleanup\(\)', 'void cc_cleanup(struct arena_co_cache* self)', loops=True))
    # who uses the cache (closed world): create_coroutine pops, the cleanup post-resume action pushes, arena construction/destruction init/cleanup
    uses = []
    for rel in ('src/tbb/task.cpp', 'src/tbb/arena.cpp', 'src/tbb/arena.h', 'src/tbb/task_dispatcher.h', 'src/tbb/task_dispatcher.cpp', 'src/tbb/thread_data.h', 'src/tbb/governor.cpp', 'src/tbb/waiters.h'):
        for m in re.finditer(r'my_co_cache\.(\w+)\(', cxx2c.mask(load(rel))):
            uses.append((rel, m.group(1)))
    if sorted(uses) != sorted([('src/tbb/task.cpp', 'pop'), ('src/tbb/task.cpp', 'push'), ('src/tbb/arena.cpp', 'init'), ('src/tbb/arena.cpp', 'cleanup')]):
        raise ExtractionBreak('closed world of arena_co_cache users changed: %s' % sorted(uses))
    rw.fired['closed-world scan: my_co_cache users'] = len(uses)
    common.write(ctx, 'cocache.inc', '\n'.join(out) + '\n')
    fired['co_cache'] = rw.fired


# ---------------------------------------------------------------------------------------------------------------------------------
# RTASK: suspend_point_type::resume_task::execute, resume_node (the waiter node of a parked stack), get_self_recall_task, waiters
# ---------------------------------------------------------------------------------------------------------------------------------
def extract_rtask(ctx, sliced, fired):
    rw = Rewriter('resume_task')
    out = []

    def note(s, what):
        sliced.append('%s:%d %s' % (s.rel, s.line, what))
    # ---- resume_node -----------------------------------------------------------------------------------------------------------
    W = r'class resume_node : public wait_node<market_context> \{'
    s = slice_block(TCM, r'resume_node\(market_context ctx, execution_data_ext& ed_ext, task_dispatcher& target\)', within=W, ctor=True)
    note(s, 'resume_node::resume_node')
    nblock = slice_block(TCM, W).text
    order = ['base_type'] + declared_order(nblock, ['my_curr_dispatcher', 'my_target_dispatcher', 'my_suspend_point', 'my_notify_calls'], 'resume_node')
    params, init, body = ctor_init_list(rw, s.text, order, 'resume_node')
    dflt = nsdmi(rw, nblock, ['my_notify_calls'], name='resume_node')
    t = 'void resume_node_ctor(struct resume_node* self, struct market_context ctx, struct execution_data_ext* ed_ext, task_dispatcher* target) {\n' + dflt + init + body + '}\n'
    t = rw.sub(t, r'\bed_ext\.', 'ed_ext->', 0, None, name='ref-param')
    t = rw.sub(t, r'&target\b', 'target', 0, None, name='ref-param')
    t = rw.sub(t, r'(?<![\w.>])(my_curr_dispatcher|my_target_dispatcher|my_suspend_point)\b', r'self->\1', 0, None, name='field')
    t = rw.sub(t, r'((?:\w+->)*\w+)->get_suspend_point\(\)', r'td_get_suspend_point(\1)', 0, None, name='method')
    out.append(t)
    for name, sig, csig in (('wait', r'void wait\(\) override', 'void resume_node_wait(struct resume_node* self)'),
                            ('notify', r'void notify\(\) override', 'void resume_node_notify(struct resume_node* self)')):
        s = slice_block(TCM, sig, within=W)
        note(s, 'resume_node::' + name)
        t = rw.sub(s.text, sig, csig, 1, 1, name='sig')
        t = rw.sub(t, r'(?<![\w.>])(my_curr_dispatcher|my_target_dispatcher|my_suspend_point)\b', r'self->\1', 0, None, name='field')
        t = rw.sub(t, r'((?:\w+->)*\w+)->resume\(\*((?:\w+->)*\w+)\);', r'TD_RESUME(\1, \2);', 0, None, name='method (proved: switch.resume)')
        t = rw.sub(t, r'this->my_is_in_list\.load\(std::memory_order_relaxed\)', 'self->my_is_in_list', 0, None, name='assert-read')
        t = rw.sub(t, r'base_type::reset\(\);', 'WAIT_NODE_RESET(self);', 0, None, name='base-class method')
        t = rw.sub(t, r'spin_wait_until_eq\(this->my_notify_calls, (\w+)\);', r'SPIN_WAIT_UNTIL_EQ(self->my_notify_calls, \1);', 0, None, name='spin wait')
        t = rw.sub(t, r'r1::resume\(', 'R1_RESUME(', 0, None, name='callee (proved: handshake.resumer)')
        t = rw.atomics(t, ['my_notify_calls'], 0)
        t = rw.sub(t, r'ATOMIC_(\w+)\(my_notify_calls', r'ATOMIC_\1(self->my_notify_calls', 0, None, name='field')
        t = rw.asserts(t, 0)
        t = rw.std(t)
        out.append(t)
    # ---- resume_task::execute ---------------------------------------------------------------------------------------------------------
    s = slice_block(TDH, r'inline d1::task\* suspend_point_type::resume_task::execute\(d1::execution_data& ed\)')
    note(s, 'suspend_point_type::resume_task::execute')
    t = rw.sub(s.text, r'inline d1::task\* suspend_point_type::resume_task::execute\(d1::execution_data& ed\)', 'struct task* resume_task_execute(struct resume_task* self, struct execution_data_ext* ed)', 1, 1, name='sig')
    t = rw.sub(t, r'execution_data_ext& ed_ext = static_cast<execution_data_ext&>\(ed\);', 'struct execution_data_ext* ed_ext = ed;', 1, 1, name='ref-local (downcast of the execution data)')
    t = rw.sub(t, r'\bed_ext\.', 'ed_ext->', 1, name='ref-local')
    # the waiter node lives on the stack that is being left: constructor at the declaration, destructor at every exit of its scope
    t = rw.sub(t, r'thread_control_monitor::resume_context (\w+)\{\{std::uintptr_t\((.*?)\), (.*?)\}, (.*?), (.*?)\};', r'RESUME_CONTEXT \1(\1, \2, \3, \4, \5);', 0, None, name='waiter node declaration')
    t = rw.sub(t, r'thread_control_monitor& wait_list = td->my_arena->get_waiting_threads_monitor\(\);', 'RG_NOP();', 0, None, name='local alias dropped')
    # the predicate lambda of the monitor wait: sliced as text, evaluated by the stub of concurrent_monitor::wait
    t = rw.sub(t, r'wait_list\.wait\(\[&\] \{ return (.*?); \}, (\w+)\)', r'MONITOR_WAIT(td, (\1), &\2)', 0, None, name='concurrent_monitor::wait(pred, node) -> stub with the predicate expression')
    t = rw.scoped_locks(t, r'RESUME_CONTEXT \w+\(([^;]*)\);', 0, None, lock='RESUME_NODE_CTOR', unlock='RESUME_NODE_DTOR')
    t = rw.sub(t, r'(\w+(?:->\w+)*)->continue_execution\(\)', r'WAIT_CTX_CONTINUE(\1)', 0, None, name='callee stub (wait_context::continue_execution: read only)')
    t = rw.sub(t, r'((?:\w+->)*\w+)->set_post_resume_action\(task_dispatcher::post_resume_action::(\w+),\s*', r'THD_SET_POST_RESUME_ACTION(\1, pra_\2, ', 0, None, name='method (proved: switch.do_post_resume_action)')
    t = rw.sub(t, r'((?:\w+->)*\w+)->clear_post_resume_action\(\);', r'THD_CLEAR_POST_RESUME_ACTION(\1);', 0, None, name='method (proved: switch.do_post_resume_action)')
    t = rw.sub(t, r'r1::resume\(', 'R1_RESUME(', 0, None, name='callee (proved: handshake.resumer)')
    t = rw.sub(t, r'(?<![\w.>])m_target\.', 'self->m_target->', 0, None, name='ref-member')
    t = rw.sub(t, r'(\w+(?:->\w+)*)->get_suspend_point\(\)', r'td_get_suspend_point(\1)', 0, None, name='method (proved: suspend.get_suspend_point)')
    t = rw.sub(t, r'(\w+(?:->\w+)*)->resume\(m_target\);', r'TD_RESUME(\1, self->m_target);', 0, None, name='method (proved: switch.resume)')
    t = rw.sub(t, r'(?<![\w.>])m_target\b', 'self->m_target', 0, None, name='field')
    t = rw.sub(t, r'self->self->', 'self->', 0, None, name='field (already qualified)')
    t = rw.std(t)
    out.append(t)
    # ---- get_self_recall_task -------------------------------------------------------------------------------------------------------------
    s = slice_block(TDH, r'inline d1::task\* get_self_recall_task\(arena_slot& slot\)')
    note(s, 'get_self_recall_task')
    t = cxx2c.cpp_resolve(s.text, MAC, 'get_self_recall_task')
    t = rw.sub(t, r'inline d1::task\* get_self_recall_task\(arena_slot& slot\)', 'struct task* get_self_recall_task(arena_slot* slot)', 1, 1, name='sig')
    t = rw.sub(t, r'suppress_unused_warning\(slot\);', 'RG_NOP();', 0, None, name='no-op')
    t = rw.sub(t, r'd1::task\* t =', 'struct task* t =', 1, 1, name='type')
    t = rw.sub(t, r'slot\.default_task_dispatcher\(\)\.', 'slot->my_default_task_dispatcher->', 0, None, name='accessor')
    t = rw.sub(t, r'((?:\w+(?:->|\.))*m_is_owner_recalled)\.load\(std::memory_order_\w+\)', r'ATOMIC_LOAD(\1)', 0, None, name='atomic-load')
    t = rw.sub(t, r't = &sp->m_resume_task;', 't = &sp->m_resume_task.base;', 0, None, name='upcast to the task base')
    t = rw.sub(t, r'sp->m_resume_task\.m_target\.m_thread_data', 'sp->m_resume_task.m_target->m_thread_data', 0, None, name='ref-member')
    t = rw.asserts(t, 0)
    t = rw.std(t)
    out.append(t)
    # ---- waiters: continue_execution / postpone_execution ---------------------------------------------------------------------------------
    for cls, cname in (('coroutine_waiter', 'cw'), ('external_waiter', 'ew')):
        CW = r'class %s : public sleep_waiter \{' % cls
        s = slice_block(WT, r'bool continue_execution\(arena_slot& slot, d1::task\*& t\) const', within=CW)
        note(s, cls + '::continue_execution')
        t = rw.sub(s.text, r'bool continue_execution\(arena_slot& slot, d1::task\*& t\) const', 'bool %s_continue_execution(struct waiter* self, arena_slot* slot, struct task** t)' % cname, 1, 1, name='sig')
        t = rw.sub(t, r'(?<![\w*])t == nullptr', '*t == nullptr', 0, None, name='ref-param')
        t = rw.sub(t, r'(?m)^(\s*)t = ', r'\1*t = ', 0, None, name='ref-param')
        t = rw.sub(t, r'get_self_recall_task\(slot\)', 'get_self_recall_task(slot)', 0, None, name='callee')
        t = rw.sub(t, r'my_wait_ctx\.continue_execution\(\)', 'WAIT_CTX_CONTINUE(self->my_wait_ctx)', 0, None, name='callee stub (wait_context::continue_execution: read only)')
        t = rw.asserts(t, 0)
        t = rw.std(t)
        out.append(t)
        s = slice_block(WT, r'static bool postpone_execution\(d1::task&\s*\w*\)', within=CW)
        note(s, cls + '::postpone_execution')
        t = rw.sub(s.text, r'static bool postpone_execution\(d1::task&\s*\w*\)', 'bool %s_postpone_execution(struct task* t)' % cname, 1, 1, name='sig')
        t = rw.sub(t, r'task_accessor::is_resume_task\(t\)', 'TASK_IS_RESUME(t)', 0, None, name='accessor')
        t = rw.std(t)
        out.append(t)
    s = slice_block(WT, r'void pause\(arena_slot& slot\)', within=r'class coroutine_waiter : public sleep_waiter \{')
    note(s, 'coroutine_waiter::pause')
    t = rw.sub(s.text, r'void pause\(arena_slot& slot\)', 'void cw_pause(struct waiter* self, arena_slot* slot)', 1, 1, name='sig')
    t = rw.sub(t, r'sleep_waiter::pause\(\)', 'STUB_backoff_pause(self)', 0, None, name='callee stub (spin/yield back-off; true = time to sleep)')
    t = rw.sub(t, r'slot\.default_task_dispatcher\(\)\.', 'slot->my_default_task_dispatcher->', 0, None, name='accessor')
    t = rw.sub(t, r'(?s)auto (\w+) = \[&\] \{\s*return ([^;]*);\s*\};', r'\n#define \1 (\2)\n', 0, None, name='lambda (wake-up condition) -> macro with the sliced expression as body')
    t = rw.sub(t, r'my_arena\.is_empty\(\)', 'STUB_arena_is_empty(self)', 0, None, name='callee stub')
    t = rw.sub(t, r'((?:\w+(?:->|\.))*m_is_owner_recalled)\.load\(std::memory_order_\w+\)', r'ATOMIC_LOAD(\1)', 0, None, name='atomic-load')
    t = rw.sub(t, r'(?m)^(\s*)sleep\(', r'\1STUB_sleep(self, ', 0, None, name='callee stub (concurrent_monitor::wait under a tag: C02)')
    t = rw.std(t)
    t = rw.fcasts(t, ['uintptr_t'], 0)
    out.append(t)
    common.write(ctx, 'rtask.inc', '\n'.join(out) + '\n')
    fired['resume_task'] = rw.fired


def build(ctx):
    sliced, fired = extract(ctx)
    extract_switch(ctx, sliced, fired)
    extract_suspend(ctx, sliced, fired)
    extract_cocache(ctx, sliced, fired)
    extract_rtask(ctx, sliced, fired)
    C = os.path.join(HERE, 'c20.c')
    jobs = [
        Job('handshake.resumer', C, 'h_resumer', route='RG', target='r1::resume + suspend_point_type::try_notify_resume (the resumer side)', source=TK),
        Job('handshake.leaver', C, 'h_leaver', route='RG', target='suspend_point_type::finilize_resume (+ r1::resume when it finds the stack notified) (the leaver side)', source=SC),
        Job('handshake.recall_owner', C, 'h_recall', route='LF', target='suspend_point_type::recall_owner', source=SC),
        Job('switch.do_post_resume_action', C, 'h_post_action', route='LF', defines=['SWITCH'], target='task_dispatcher::do_post_resume_action + thread_data::set/clear_post_resume_action', source=TK),
        Job('switch.coroutine_prologue', C, 'h_prologue', route='LC', loops=True, nloops=1, defines=['SWITCH'], target='task_dispatcher::co_local_wait_for_all (prologue and re-use loop of a coroutine)', source=TDC),
        Job('switch.resume', C, 'h_td_resume', route='LF', defines=['SWITCH'], target='task_dispatcher::resume(target) (the code on both sides of the stack switch)', source=TK),
        Job('switch.recall_point', C, 'h_recall_point', route='LF', defines=['SWITCH'], target='task_dispatcher::recall_point', source=TDH),
    ]
    C2 = os.path.join(HERE, 'c20_susp.c')
    D = ['SUSPEND']
    jobs += [
        Job('suspend.entry', C2, 'h_entry', route='LF', defines=D, target='r1::suspend, r1::current_suspend_point', source=TK, timeout=200),
        Job('suspend.td_suspend', C2, 'h_td_suspend', route='LF', defines=D, target='task_dispatcher::suspend (callback, then internal_suspend) + get_suspend_point', source=TK, timeout=200),
        Job('suspend.get_suspend_point', C2, 'h_get_suspend_point', route='LF', defines=D, target='task_dispatcher::get_suspend_point + init_suspend_point + suspend_point_type / resume_task / co_context constructors and default member initialisers', source=TDC, timeout=200),
        Job('suspend.create_coroutine', C2, 'h_create_coroutine', route='LF', defines=D, target='r1::create_coroutine + task_dispatcher constructor + init_suspend_point + constructors', source=TK, timeout=200),
        Job('suspend.internal_suspend', C2, 'h_internal_suspend', route='LF', defines=D, target='task_dispatcher::internal_suspend (+ get_suspend_point, create_coroutine)', source=TK, timeout=200),
        Job('suspend.sp_resume', C2, 'h_sp_resume', route='LF', defines=D, target='suspend_point_type::resume + co_context::resume', source=SC, timeout=200),
        Job('suspend.co_context_dtor', C2, 'h_co_dtor', route='LF', defines=D, target='co_context::~co_context', source=CO, timeout=200),
        Job('suspend.attach_detach', C2, 'h_attach_detach', route='LF', defines=D, target='thread_data::detach_task_dispatcher / attach_task_dispatcher', source=TD, timeout=200),
        Job('suspend.entry_roundtrip', C2, 'h_entry_roundtrip', route='LF', defines=D, target='create_coroutine (ucontext) + co_local_wait_for_all(hi, lo): dispatcher address round trip', source=CO, timeout=200),
    ]
    D = ['COCACHE']
    jobs += [
        Job('cocache.push', C2, 'h_cc_push', route='LF', defines=D, target='arena_co_cache::push (+ next_index, internal_task_dispatcher_cleanup), ring of any capacity <= 4096', source=AH, timeout=300),
        Job('cocache.pop', C2, 'h_cc_pop', route='LF', defines=D, target='arena_co_cache::pop (+ prev_index, internal_empty), ring of any capacity <= 4096', source=AH, timeout=300),
        Job('cocache.init', C2, 'h_cc_init', route='LF', defines=D, target='arena_co_cache::init', source=AH, timeout=200),
        Job('cocache.cleanup', C2, 'h_cc_cleanup', route='LC', loops=True, nloops=1, defines=D + ['CC_POP_BY_CONTRACT'], target='arena_co_cache::cleanup (drain loop, any number of cached coroutines)', source=AH, timeout=300),
    ]
    D = ['RTASK']
    jobs += [
        Job('rtask.execute', C2, 'h_rtask_execute', route='LF', defines=D, target='suspend_point_type::resume_task::execute + resume_node constructor and wait()', source=TDH, timeout=200),
        Job('rtask.notify', C2, 'h_rtask_notify', route='RG', defines=D + ['NOTIFY_JOB'], target='resume_node::notify (two notifiers, one resume)', source=TCM, timeout=200),
        Job('rtask.self_recall', C2, 'h_self_recall', route='LF', defines=D, target='get_self_recall_task, coroutine_waiter / external_waiter ::continue_execution, ::postpone_execution, coroutine_waiter::pause', source=TDH, timeout=200),
    ]
    return {
        'jobs': jobs, 'sliced': sliced, 'fired': fired,
        'trusted': [
            'task_stream::push, arena reference counting (my_references += / on_thread_leaving), advertise_new_work: stubs; pushes, pins and wake-ups are counted and ordered',
            'swapcontext / makecontext / getcontext / mmap / mprotect: stubs (the switch returns "when somebody switches back": on return the coroutine is executing again, the stack state is suspended or notified, as the hand-shake jobs prove for the party that does it)',
            'task_dispatcher::local_wait_for_all (the dispatch loop) as called from the coroutine prologue: stub returning a resume task',
            'concurrent_monitor::wait(pred, node) used by resume_task::execute: stub by its contract (predicate true under a prepared wait -> cancelled, false; else node.wait() called exactly once, last -> true); the monitor itself is C02',
            'wait_context::continue_execution: read-only stub (nondeterministic, consulted value remembered)',
            'cache_aligned_allocate: never fails (alloc_nofail); cache_aligned_deallocate, ~task_dispatcher: counted stubs; std::memset: clears exactly what the stub checks it is asked to clear',
            'task_group_context_impl::bind_to, governor::get_thread_data, governor::default_page_size, worker_stack_size (> 0), set_stealing_threshold: stubs',
            'per-job contract stubs whose contract is proved by another job of this check: task_dispatcher::resume (switch.resume) in suspend.internal_suspend / rtask.execute; get_suspend_point (suspend.get_suspend_point) in rtask.execute; '
            'internal_suspend and recall_point in suspend.td_suspend / suspend.internal_suspend / switch.recall_point; finilize_resume (handshake.leaver) in suspend.sp_resume / switch.coroutine_prologue; '
            'arena_co_cache::pop (cocache.pop) in suspend.create_coroutine and cocache.cleanup; arena_co_cache::push (cocache.push) in switch.do_post_resume_action; r1::resume (handshake.resumer) in rtask.*',
            'SC atomics',
            'closed world: m_stack_state is written only by the sliced functions and the default member initialiser; my_co_cache is used only by create_coroutine (pop), the cleanup action (push), arena construction / destruction (scanned)',
        ],
        'drops': ['debug pointer checks (assert_pointer_valid*) -> RG_NOP', 'local reference aliases', 'enum class -> plain enum', 'references -> pointers, `this` -> self, member names -> self->member',
                  'constructor init lists -> INIT_<member>(self, args) in declared order, default member initialisers -> assignments in declared order (harvested from the class text)',
                  'placement new -> allocation stub + constructor call', 'RAII: spin_mutex::scoped_lock -> LOCK_MUTEX / UNLOCK_MUTEX at every scope exit; resume_context node -> RESUME_NODE_CTOR / RESUME_NODE_DTOR at every scope exit',
                  'the predicate lambda of concurrent_monitor::wait -> its expression handed to the stub', '`while (T* x = f())` -> declaration hoisted', '#if chains resolved for __TBB_RESUMABLE_TASKS=1, __TBB_PREVIEW_CRITICAL_TASKS=1, __TBB_RESUMABLE_TASKS_USE_THREADS=0, !_WIN32',
                  'element accesses of the coroutine ring -> CACHE_RD / CACHE_WR / HEAD_RD / HEAD_WR accessor macros', 'ITT / suppress_unused_warning -> RG_NOP'],
        'not_decided': [
            'the coroutine switch itself (swapcontext; register and stack contents) and the thread-based variant of co_context (sanitizer builds), the Windows fiber variant',
            'resume_node::reset / ~resume_node (absorbing the stale notification of a cancelled wait): sliced text not under an obligation - a stale count only causes a spurious resume of a waiting stack, which re-checks its wait',
            'that the resume task pushed into a stream is taken by some thread, and the owner-recall wake-up reaching the sleeping owner (liveness; streams are C16, the monitor C02)',
            'the enclosing wait not completing early: the reference held by the suspended task on its wait context is the caller\'s (C01/C03); here only: the resume task returns no task and does not touch the wait context',
            'local_wait_for_all\'s own bookkeeping (dispatch_loop_guard restores m_properties / execute data on exit): C01; the frame obligations here cover suspend, internal_suspend, get_suspend_point, task_dispatcher::resume, do_post_resume_action, recall_point, resume_task::execute',
            '~task_dispatcher / ~suspend_point_type beyond ~co_context (the reference-vertex map), arena::free_arena ordering',
            'composition of the per-function contracts into the whole-history statement (written argument in the harness comments, not mechanised)',
        ],
        'assumptions': ['resume is called once for the suspend point (the property\'s own precondition)', 'the user callback does not itself suspend or leave a post-resume action behind',
                        'coroutine ring capacity 1..4096 (arena: 4 * slots)', 'addresses passed to mmap stub below 2^47; page size 4096 / 16384 / 65536',
                        'a recalled stack has no outstanding user tag (its last tag was consumed by the resume that made a foreign thread run on it)'],
    }


_replay_cache = {}


def replay(ctx, jobname, failure):
    """Native recipe: scenario suite on the real library (compiled from the current src/tbb) - continuation counters per suspend point, owner thread at continuation, completion of the
    enclosing wait, progress under a watchdog.  The verifier's counterexample is a schedule / a code path, not an input, so the same suite is run for every job (once per check run)."""
    if os.environ.get('C20_SKIP_NATIVE'):      # development aid for mutation testing (the library build takes minutes on a loaded machine)
        return {'reproduced': False, 'detail': 'native replay skipped (C20_SKIP_NATIVE set)'}
    if 'r' not in _replay_cache:
        try:
            exe = native.build([os.path.join(HERE, 'c20_replay.cpp')], os.path.join(ctx.work, 'c20_replay'), link_tbb=True, timeout=900)
            args = [exe, 'watchdog=40', 'reps=2']
            rc, out = native.run(args, timeout=1200)
        except native.NativeError as e:
            _replay_cache['r'] = {'reproduced': False, 'detail': 'native build failed: %s' % str(e)[-300:]}
            return dict(_replay_cache['r'])
        rep = {'cmd': ' '.join(args), 'rc': rc, 'output': out[-1500:], 'reproduced': False, 'detail': 'the native scenario suite (14 scenarios x 2) saw no double, missing or early continuation and no hang'}
        m = re.search(r'^REPRODUCED (.*)', out, re.M)
        if m:
            rep['reproduced'] = True
            rep['detail'] = m.group(1)
            w = re.search(r'class=(\S+)', m.group(1))
            rep['witness_class'] = w.group(1) if w else None
        _replay_cache['r'] = rep
    return dict(_replay_cache['r'])
