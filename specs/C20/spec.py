"""C20 -- a suspended task resumes exactly once: the suspend/resume hand-shake on suspend_point_type::m_stack_state."""
import os
import sys
import re
HERE = os.path.dirname(os.path.abspath(__file__))
sys.path.insert(0, os.path.join(HERE, '..'))
sys.path.insert(0, os.path.join(HERE, '..', '..', 'tools'))
import common
import native
import cxx2c
from cxx2c import Rewriter, slice_block, ExtractionBreak, load
from prove import Job

SC = 'src/tbb/scheduler_common.h'
TK = 'src/tbb/task.cpp'
MAC = {'__TBB_PREVIEW_CRITICAL_TASKS': 1, '__TBB_RESUMABLE_TASKS': 1}


def extract(ctx):
    sliced, fired = [], {}
    rw = Rewriter('suspend_point')
    if not re.search(r'enum class stack_state \{\s*active,[^\n]*\n\s*suspended,[^\n]*\n\s*notified', load(SC)):
        raise ExtractionBreak('stack_state enum changed')
    out = []
    W = r'struct suspend_point_type \{'
    s = slice_block(SC, r'bool try_notify_resume\(\)', within=W)
    sliced.append('%s:%d suspend_point_type::try_notify_resume' % (SC, s.line))
    t = rw.sub(s.text, r'bool try_notify_resume\(\)', 'bool sp_try_notify_resume(struct sp* self)', 1, 1, name='sig')
    t = rw.sub(t, r'm_stack_state\.exchange\(stack_state::(\w+)\)', r'ATOMIC_XCHG(self->m_stack_state, \1)', 1, 1, name='atomic-exchange')
    t = rw.sub(t, r'stack_state::', '', 1, name='enum-class')
    t = rw.number_sites(t, 'tnr', by_kind=True)
    out.append(t)
    s = slice_block(SC, r'void finilize_resume\(\)', within=W)
    sliced.append('%s:%d suspend_point_type::finilize_resume' % (SC, s.line))
    t = rw.sub(s.text, r'void finilize_resume\(\)', 'void sp_finilize_resume(struct sp* self)', 1, 1, name='sig')
    t = rw.sub(t, r'(?<![\w>])m_stack_state\.store\(stack_state::active, std::memory_order_relaxed\);', 'ATOMIC_STORE(self->m_stack_state, active);', 1, 1, name='atomic-store')
    t = rw.sub(t, r'm_prev_suspend_point->m_stack_state\.exchange\(stack_state::(\w+)\)', r'ATOMIC_XCHG(self->m_prev_suspend_point->m_stack_state, \1)', 1, 1, name='atomic-exchange')
    t = rw.sub(t, r'(?<![\w>])m_prev_suspend_point\b', 'self->m_prev_suspend_point', 3, name='field')
    t = rw.sub(t, r'self->self->', 'self->', 0)
    t = rw.sub(t, r'r1::resume\(', 'r1_resume(', 1, 1, name='ns-strip')
    t = rw.sub(t, r'stack_state::', '', 1, name='enum-class')
    t = rw.std(t)
    t = rw.number_sites(t, 'fin', by_kind=True)
    out.append(t)
    s = slice_block(SC, r'void recall_owner\(\)', within=W)
    sliced.append('%s:%d suspend_point_type::recall_owner' % (SC, s.line))
    t = rw.sub(s.text, r'void recall_owner\(\)', 'void sp_recall_owner(struct sp* self)', 1, 1, name='sig')
    t = rw.sub(t, r'm_stack_state\.load\(std::memory_order_relaxed\)', 'PLAIN_READ(self->m_stack_state)', 1, 1, name='assert-read')
    t = rw.sub(t, r'm_stack_state\.store\(stack_state::notified, std::memory_order_relaxed\);', 'ATOMIC_STORE(self->m_stack_state, notified);', 1, 1, name='atomic-store')
    t = rw.sub(t, r'm_is_owner_recalled\.store\(true, std::memory_order_release\);', 'ATOMIC_STORE(self->m_is_owner_recalled, true);', 1, 1, name='atomic-store')
    t = rw.sub(t, r'stack_state::', '', 1, name='enum-class')
    t = rw.asserts(t, 1)
    t = rw.number_sites(t, 'rec', by_kind=True)
    out.append(t)
    s = slice_block(TK, r'void resume\(suspend_point_type\* sp\)')
    sliced.append('%s:%d r1::resume' % (TK, s.line))
    t = cxx2c.cpp_resolve(s.text, MAC, 'r1::resume')
    t = rw.sub(t, r'void resume\(suspend_point_type\* sp\)', 'void r1_resume(struct sp* sp)', 1, 1, name='sig')
    t = rw.sub(t, r'assert_pointers_valid\([^;]*\);', 'RG_NOP();', 1, 1, name='debug check -> RG_NOP')
    t = rw.sub(t, r'task_dispatcher& task_disp = sp->m_resume_task\.m_target;', 'RG_NOP();', 1, 1, name='local alias dropped')
    t = rw.sub(t, r'sp->try_notify_resume\(\)', 'sp_try_notify_resume(sp)', 1, 1, name='method')
    t = rw.sub(t, r'arena& a = \*sp->m_arena;', 'RG_NOP();', 1, 1, name='local alias dropped')
    t = rw.sub(t, r'a\.my_references \+= arena::ref_worker;', 'STUB_arena_ref();', 1, 1, name='callee stub')
    t = rw.sub(t, r'task_disp\.m_properties\.critical_task_allowed', 'STUB_target_critical_allowed(sp)', 1, 1, name='callee stub')
    t = rw.sub(t, r'a\.my_resume_task_stream\.push\(&sp->m_resume_task, random_lane_selector\(sp->m_random\)\);', 'STUB_push_resume_task(sp, 0);', 1, 1, name='callee stub (counts pushes)')
    t = rw.sub(t, r'a\.my_critical_task_stream\.push\(&sp->m_resume_task, random_lane_selector\(sp->m_random\)\);', 'STUB_push_resume_task(sp, 1);', 1, 1, name='callee stub (counts pushes)')
    t = rw.sub(t, r'a\.advertise_new_work<arena::wakeup>\(\);', 'STUB_advertise();', 1, 1, name='callee stub')
    t = rw.sub(t, r'a\.on_thread_leaving\(arena::ref_worker\);', 'STUB_arena_unref();', 1, 1, name='callee stub')
    out.append(t)
    common.write(ctx, 'sp.inc', '\n'.join(out) + '\n')
    fired['suspend_point'] = rw.fired
    return sliced, fired


TDC = 'src/tbb/task_dispatcher.cpp'
TDH = 'src/tbb/task_dispatcher.h'


def extract_switch(ctx, sliced, fired):
    """the stack-switch discipline: whatever runs first on a stack after a switch performs the post-resume action the previous stack left behind, exactly once"""
    rw = Rewriter('stack_switch')
    out = []
    # do_post_resume_action
    s = slice_block(TK, r'void task_dispatcher::do_post_resume_action\(\)')
    sliced.append('%s:%d task_dispatcher::do_post_resume_action' % (TK, s.line))
    t = rw.sub(s.text, r'void task_dispatcher::do_post_resume_action\(\)', 'void td_do_post_resume_action(struct task_dispatcher* self)', 1, 1, name='sig')
    t = rw.sub(t, r'thread_data\* td = m_thread_data;', 'struct thread_data* td = self->m_thread_data;', 1, 1, name='field')
    t = rw.sub(t, r'case post_resume_action::(\w+):', r'case pra_\1:', 3, name='enum-class')
    t = rw.sub(t, r'post_resume_action::(\w+)', r'pra_\1', 0, name='enum-class')
    t = rw.sub(t, r'static_cast<thread_control_monitor::resume_context\*>\(td->my_post_resume_arg\)->notify\(\);', 'STUB_resume_context_notify(td->my_post_resume_arg);', 0, None, name='callee stub (re-registers the abandoned stack as a waiter)')
    t = rw.sub(t, r'task_dispatcher\* to_cleanup = static_cast<task_dispatcher\*>\(td->my_post_resume_arg\);', 'struct task_dispatcher* to_cleanup = (struct task_dispatcher*)td->my_post_resume_arg;', 0, None, name='cast')
    t = rw.sub(t, r'td->my_arena->on_thread_leaving\(arena::ref_external\);', 'STUB_arena_unref_external(td);', 0, None, name='callee stub')
    t = rw.sub(t, r'td->my_arena->my_co_cache\.push\(to_cleanup\);', 'STUB_co_cache_push(td, to_cleanup);', 0, None, name='callee stub')
    t = rw.sub(t, r'suspend_point_type\* sp = static_cast<suspend_point_type\*>\(td->my_post_resume_arg\);', 'struct sp* sp = (struct sp*)td->my_post_resume_arg;', 0, None, name='cast')
    t = rw.sub(t, r'sp->recall_owner\(\);', 'STUB_sp_recall_owner(sp);', 0, None, name='callee (proved: handshake.recall_owner)')
    t = rw.sub(t, r'(?s)auto is_our_suspend_point = \[sp\] \(market_context ctx\) \{.*?\};', 'RG_NOP();', 0, None, name='lambda (predicate selecting the waiters of this suspend point) -> argument of the stub below')
    t = rw.sub(t, r'td->my_arena->get_waiting_threads_monitor\(\)\.notify\(is_our_suspend_point\);', 'STUB_notify_waiters_of(td, sp);', 0, None, name='callee stub')
    t = rw.sub(t, r'td->clear_post_resume_action\(\);', 'td_clear_post_resume_action(td);', 0, None, name='method')
    t = rw.asserts(t, 0)
    t = rw.std(t)
    out.append(t)
    # thread_data::set/clear_post_resume_action
    for name, sig, csig in (('set_post_resume_action', r'void set_post_resume_action\(task_dispatcher::post_resume_action pra, void\* arg\)', 'void td_set_post_resume_action(struct thread_data* self, int pra, void* arg)'),
                            ('clear_post_resume_action', r'void clear_post_resume_action\(\)', 'void td_clear_post_resume_action(struct thread_data* self)')):
        s = slice_block('src/tbb/thread_data.h', sig)
        sliced.append('src/tbb/thread_data.h:%d thread_data::%s' % (s.line, name))
        t = rw.sub(s.text, sig, csig, 1, 1, name='sig')
        t = rw.sub(t, r'task_dispatcher::post_resume_action::(\w+)', r'pra_\1', 0, name='enum-class')
        t = rw.sub(t, r'(?<![\w.>])(my_post_resume_action|my_post_resume_arg)\b', r'self->\1', 2, name='field')
        t = rw.asserts(t, 0)
        t = rw.std(t)
        out.insert(0, t)
    # co_local_wait_for_all (member)
    s = slice_block(TDC, r'void task_dispatcher::co_local_wait_for_all\(\) noexcept')
    sliced.append('%s:%d task_dispatcher::co_local_wait_for_all' % (TDC, s.line))
    t = rw.sub(s.text, r'void task_dispatcher::co_local_wait_for_all\(\) noexcept', 'void td_co_local_wait_for_all(struct task_dispatcher* self)', 1, 1, name='sig')
    t = rw.sub(t, r'assert_pointer_valid\(m_thread_data\);', 'RG_NOP();', 0, None, name='debug check -> RG_NOP')
    t = rw.sub(t, r'assert_task_valid\(resume_task\);', 'RG_NOP();', 0, None, name='debug check -> RG_NOP')
    t = rw.sub(t, r'm_suspend_point->finilize_resume\(\);', 'STUB_sp_finilize_resume(self->m_suspend_point);', 0, None, name='callee (proved: handshake.leaver)')
    t = rw.sub(t, r'(?<![\w.>:])do_post_resume_action\(\);', 'td_do_post_resume_action(self);', 0, None, name='method')
    t = rw.sub(t, r'd1::task\* resume_task\{\};', 'task* resume_task = NULL;', 1, 1, name='brace-init')
    t = rw.sub(t, r'arena\* a = m_thread_data->my_arena;', 'RG_NOP();', 0, None, name='local alias dropped')
    t = rw.sub(t, r'coroutine_waiter waiter\(\*a\);', 'RG_NOP();', 0, None, name='waiter object -> argument of the stub below')
    t = rw.sub(t, r'resume_task = local_wait_for_all\(nullptr, waiter\);', 'resume_task = STUB_local_wait_for_all(self);', 1, 1, name='callee stub (the dispatch loop)')
    t = rw.sub(t, r'm_thread_data->set_post_resume_action\(post_resume_action::(\w+), ([^;]*)\);', r'td_set_post_resume_action(self->m_thread_data, pra_\1, \2);', 0, None, name='method')
    t = rw.sub(t, r'\bthis\b', 'self', 0, None, name='this')
    t = rw.sub(t, r'resume\(static_cast<suspend_point_type::resume_task\*>\(resume_task\)->m_target\)', 'STUB_switch_to_target_of(self, resume_task)', 1, 1, name='callee stub (task_dispatcher::resume: the switch itself)')
    t = rw.sub(t, r'== m_thread_data->my_task_dispatcher', '== self->m_thread_data->my_task_dispatcher', 0, None, name='field')
    t = rw.asserts(t, 0)
    t = rw.std(t)
    t = cxx2c.tag_loops(t, 'colw', rw, expect=1)
    out.append(t)
    # task_dispatcher::resume(target)
    s = slice_block(TK, r'bool task_dispatcher::resume\(task_dispatcher& target\)')
    sliced.append('%s:%d task_dispatcher::resume' % (TK, s.line))
    t = rw.sub(s.text, r'bool task_dispatcher::resume\(task_dispatcher& target\)', 'bool td_resume(struct task_dispatcher* self, struct task_dispatcher* target)', 1, 1, name='sig')
    t = rw.sub(t, r'&target\b', 'target', 1, name='ref-param')
    t = rw.sub(t, r'\btarget\.m_suspend_point', 'target->m_suspend_point', 1, name='ref-param')
    t = rw.sub(t, r'thread_data\* td = m_thread_data;', 'struct thread_data* td = self->m_thread_data;', 2, 2, name='field')
    t = rw.sub(t, r'td->detach_task_dispatcher\(\);', 'STUB_detach_task_dispatcher(td);', 0, None, name='callee stub')
    t = rw.sub(t, r'td->attach_task_dispatcher\(target\);', 'STUB_attach_task_dispatcher(td, target);', 0, None, name='callee stub')
    t = rw.sub(t, r'm_suspend_point->resume\(target->m_suspend_point\);', 'STUB_coroutine_switch(self, target);', 1, 1, name='callee stub (co_context switch: returns when somebody switches back to this stack)')
    t = rw.sub(t, r'if \(m_thread_data\) \{', 'if (self->m_thread_data) {', 1, 1, name='field')
    t = rw.sub(t, r'(?<![\w.>:])do_post_resume_action\(\);', 'td_do_post_resume_action(self);', 0, None, name='method')
    t = rw.sub(t, r'arena_slot\* slot = td->my_arena_slot;', 'struct arena_slot* slot = td->my_arena_slot;', 1, 1, name='type')
    t = rw.sub(t, r'\bthis\b', 'self', 0, None, name='this')
    t = rw.sub(t, r'(?<![\w.>])m_suspend_point->m_is_owner_recalled\.store\(false, std::memory_order_relaxed\);', 'self->m_suspend_point->m_is_owner_recalled = false;', 0, None, name='atomic-store (owner-only flag at this point)')
    t = rw.sub(t, r'(?<![\w.>])m_suspend_point\b', 'self->m_suspend_point', 0, None, name='field')
    t = rw.asserts(t, 0)
    t = rw.std(t)
    out.append(t)
    # recall_point
    s = slice_block(TDH, r'inline void task_dispatcher::recall_point\(\)')
    sliced.append('%s:%d task_dispatcher::recall_point' % (TDH, s.line))
    t = rw.sub(s.text, r'inline void task_dispatcher::recall_point\(\)', 'void td_recall_point(struct task_dispatcher* self)', 1, 1, name='sig')
    t = rw.sub(t, r'&m_thread_data->my_arena_slot->default_task_dispatcher\(\)', 'self->m_thread_data->my_arena_slot->my_default_task_dispatcher', 1, 1, name='accessor')
    t = rw.sub(t, r'\bthis\b', 'self', 0, None, name='this')
    t = rw.sub(t, r'm_suspend_point->m_is_owner_recalled\.load\(std::memory_order_relaxed\)', 'self->m_suspend_point->m_is_owner_recalled', 0, None, name='assert-read')
    t = rw.sub(t, r'(?<![\w.>:])get_suspend_point\(\)', 'STUB_get_suspend_point(self)', 0, None, name='method')
    t = rw.sub(t, r'm_thread_data->set_post_resume_action\(post_resume_action::(\w+), ([^;]*)\);', r'td_set_post_resume_action(self->m_thread_data, pra_\1, \2);', 0, None, name='method')
    t = rw.sub(t, r'internal_suspend\(\);', 'STUB_internal_suspend(self);', 0, None, name='callee stub (leaves this stack; returns when it is resumed)')
    t = rw.sub(t, r'm_thread_data->my_inbox\.is_idle_state\(true\)', 'STUB_inbox_is_idle(self)', 1, 1, name='callee stub')
    t = rw.sub(t, r'm_thread_data->my_inbox\.set_is_idle\(false\);', 'STUB_inbox_set_idle_false(self);', 1, 1, name='callee stub')
    t = rw.sub(t, r'(?<![\w.>])m_suspend_point\b', 'self->m_suspend_point', 0, None, name='field')
    t = rw.asserts(t, 0)
    t = rw.std(t)
    out.append(t)
    if not re.search(r'enum class post_resume_action \{\s*invalid,\s*register_waiter,\s*cleanup,\s*notify,\s*none\s*\}', load(SC)):
        raise ExtractionBreak('post_resume_action enum changed')
    common.write(ctx, 'switch.inc', '\n'.join(out) + '\n')
    fired['stack_switch'] = rw.fired


def build(ctx):
    sliced, fired = extract(ctx)
    extract_switch(ctx, sliced, fired)
    C = os.path.join(HERE, 'c20.c')
    jobs = [
        Job('handshake.resumer', C, 'h_resumer', route='RG', target='r1::resume + suspend_point_type::try_notify_resume (the resumer side)', source=TK),
        Job('handshake.leaver', C, 'h_leaver', route='RG', target='suspend_point_type::finilize_resume (+ r1::resume when it finds the stack notified) (the leaver side)', source=SC),
        Job('handshake.recall_owner', C, 'h_recall', route='LF', target='suspend_point_type::recall_owner', source=SC),
        Job('switch.do_post_resume_action', C, 'h_post_action', route='LF', defines=['SWITCH'], target='task_dispatcher::do_post_resume_action + thread_data::set/clear_post_resume_action', source=TK),
        Job('switch.coroutine_prologue', C, 'h_prologue', route='LC', loops=True, nloops=1, defines=['SWITCH'], target='task_dispatcher::co_local_wait_for_all (prologue and re-use loop of a coroutine)', source=TDC),
        Job('switch.resume', C, 'h_td_resume', route='LF', defines=['SWITCH'], target='task_dispatcher::resume(target) (the code on both sides of the stack switch)', source=TK),
        Job('switch.recall_point', C, 'h_recall_point', route='LF', defines=['SWITCH'], target='task_dispatcher::recall_point', source=TDH),
    ]
    return {
        'jobs': jobs, 'sliced': sliced, 'fired': fired,
        'trusted': ['task_stream::push, arena reference counting, advertise_new_work: stubs (push counted)', 'co_context switch, local_wait_for_all, detach/attach_task_dispatcher, co_cache, waiting-threads monitor: stubs with effect counters', 'SC atomics', 'closed world: m_stack_state is written only by the sliced functions and co_context construction'],
        'drops': ['debug pointer checks', 'local reference aliases', 'enum class -> plain enum'],
        'not_decided': ['the coroutine switch itself', 'internal_suspend target choice / create_coroutine / resume_task::execute', 'owner recall wake-up reaching the sleeper (liveness)', 'the enclosing wait not completing early (C01)'],
        'assumptions': ['resume is called once for the suspend point (the property\'s own precondition)'],
    }


def replay(ctx, jobname, failure):
    return {'reproduced': False, 'detail': 'no native recipe: forcing both race orders of the two exchanges needs control of the coroutine switch'}
