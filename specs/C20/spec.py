"""C20 -- a suspended task resumes exactly once: the suspend/resume hand-shake on suspend_point_type::m_stack_state."""
import os
import sys
import re
HERE = os.path.dirname(os.path.abspath(__file__))
sys.path.insert(0, os.path.join(HERE, '..'))
sys.path.insert(0, os.path.join(HERE, '..', '..', 'tools'))
import common
import native
import cxx2c
from cxx2c import Rewriter, slice_block, ExtractionBreak, load
from prove import Job

SC = 'src/tbb/scheduler_common.h'
TK = 'src/tbb/task.cpp'
MAC = {'__TBB_PREVIEW_CRITICAL_TASKS': 1, '__TBB_RESUMABLE_TASKS': 1}


def extract(ctx):
    sliced, fired = [], {}
    rw = Rewriter('suspend_point')
    if not re.search(r'enum class stack_state \{\s*active,[^\n]*\n\s*suspended,[^\n]*\n\s*notified', load(SC)):
        raise ExtractionBreak('stack_state enum changed')
    out = []
    W = r'struct suspend_point_type \{'
    s = slice_block(SC, r'bool try_notify_resume\(\)', within=W)
    sliced.append('%s:%d suspend_point_type::try_notify_resume' % (SC, s.line))
    t = rw.sub(s.text, r'bool try_notify_resume\(\)', 'bool sp_try_notify_resume(struct sp* self)', 1, 1, name='sig')
    t = rw.sub(t, r'm_stack_state\.exchange\(stack_state::(\w+)\)', r'ATOMIC_XCHG(self->m_stack_state, \1)', 1, 1, name='atomic-exchange')
    t = rw.sub(t, r'stack_state::', '', 1, name='enum-class')
    t = rw.number_sites(t, 'tnr', by_kind=True)
    out.append(t)
    s = slice_block(SC, r'void finilize_resume\(\)', within=W)
    sliced.append('%s:%d suspend_point_type::finilize_resume' % (SC, s.line))
    t = rw.sub(s.text, r'void finilize_resume\(\)', 'void sp_finilize_resume(struct sp* self)', 1, 1, name='sig')
    t = rw.sub(t, r'(?<![\w>])m_stack_state\.store\(stack_state::active, std::memory_order_relaxed\);', 'ATOMIC_STORE(self->m_stack_state, active);', 1, 1, name='atomic-store')
    t = rw.sub(t, r'm_prev_suspend_point->m_stack_state\.exchange\(stack_state::(\w+)\)', r'ATOMIC_XCHG(self->m_prev_suspend_point->m_stack_state, \1)', 1, 1, name='atomic-exchange')
    t = rw.sub(t, r'(?<![\w>])m_prev_suspend_point\b', 'self->m_prev_suspend_point', 3, name='field')
    t = rw.sub(t, r'self->self->', 'self->', 0)
    t = rw.sub(t, r'r1::resume\(', 'r1_resume(', 1, 1, name='ns-strip')
    t = rw.sub(t, r'stack_state::', '', 1, name='enum-class')
    t = rw.std(t)
    t = rw.number_sites(t, 'fin', by_kind=True)
    out.append(t)
    s = slice_block(SC, r'void recall_owner\(\)', within=W)
    sliced.append('%s:%d suspend_point_type::recall_owner' % (SC, s.line))
    t = rw.sub(s.text, r'void recall_owner\(\)', 'void sp_recall_owner(struct sp* self)', 1, 1, name='sig')
    t = rw.sub(t, r'm_stack_state\.load\(std::memory_order_relaxed\)', 'PLAIN_READ(self->m_stack_state)', 1, 1, name='assert-read')
    t = rw.sub(t, r'm_stack_state\.store\(stack_state::notified, std::memory_order_relaxed\);', 'ATOMIC_STORE(self->m_stack_state, notified);', 1, 1, name='atomic-store')
    t = rw.sub(t, r'm_is_owner_recalled\.store\(true, std::memory_order_release\);', 'ATOMIC_STORE(self->m_is_owner_recalled, true);', 1, 1, name='atomic-store')
    t = rw.sub(t, r'stack_state::', '', 1, name='enum-class')
    t = rw.asserts(t, 1)
    t = rw.number_sites(t, 'rec', by_kind=True)
    out.append(t)
    s = slice_block(TK, r'void resume\(suspend_point_type\* sp\)')
    sliced.append('%s:%d r1::resume' % (TK, s.line))
    t = cxx2c.cpp_resolve(s.text, MAC, 'r1::resume')
    t = rw.sub(t, r'void resume\(suspend_point_type\* sp\)', 'void r1_resume(struct sp* sp)', 1, 1, name='sig')
    t = rw.sub(t, r'assert_pointers_valid\([^;]*\);', 'RG_NOP();', 1, 1, name='debug check -> RG_NOP')
    t = rw.sub(t, r'task_dispatcher& task_disp = sp->m_resume_task\.m_target;', 'RG_NOP();', 1, 1, name='local alias dropped')
    t = rw.sub(t, r'sp->try_notify_resume\(\)', 'sp_try_notify_resume(sp)', 1, 1, name='method')
    t = rw.sub(t, r'arena& a = \*sp->m_arena;', 'RG_NOP();', 1, 1, name='local alias dropped')
    t = rw.sub(t, r'a\.my_references \+= arena::ref_worker;', 'STUB_arena_ref();', 1, 1, name='callee stub')
    t = rw.sub(t, r'task_disp\.m_properties\.critical_task_allowed', 'STUB_target_critical_allowed(sp)', 1, 1, name='callee stub')
    t = rw.sub(t, r'a\.my_resume_task_stream\.push\(&sp->m_resume_task, random_lane_selector\(sp->m_random\)\);', 'STUB_push_resume_task(sp, 0);', 1, 1, name='callee stub (counts pushes)')
    t = rw.sub(t, r'a\.my_critical_task_stream\.push\(&sp->m_resume_task, random_lane_selector\(sp->m_random\)\);', 'STUB_push_resume_task(sp, 1);', 1, 1, name='callee stub (counts pushes)')
    t = rw.sub(t, r'a\.advertise_new_work<arena::wakeup>\(\);', 'STUB_advertise();', 1, 1, name='callee stub')
    t = rw.sub(t, r'a\.on_thread_leaving\(arena::ref_worker\);', 'STUB_arena_unref();', 1, 1, name='callee stub')
    out.append(t)
    common.write(ctx, 'sp.inc', '\n'.join(out) + '\n')
    fired['suspend_point'] = rw.fired
    return sliced, fired


def build(ctx):
    sliced, fired = extract(ctx)
    C = os.path.join(HERE, 'c20.c')
    jobs = [
        Job('handshake.resumer', C, 'h_resumer', route='RG', target='r1::resume + suspend_point_type::try_notify_resume (the resumer side)', source=TK),
        Job('handshake.leaver', C, 'h_leaver', route='RG', target='suspend_point_type::finilize_resume (+ r1::resume when it finds the stack notified) (the leaver side)', source=SC),
        Job('handshake.recall_owner', C, 'h_recall', route='LF', target='suspend_point_type::recall_owner', source=SC),
    ]
    return {
        'jobs': jobs, 'sliced': sliced, 'fired': fired,
        'trusted': ['task_stream::push, arena reference counting, advertise_new_work: stubs (push counted)', 'SC atomics', 'closed world: m_stack_state is written only by the sliced functions and co_context construction'],
        'drops': ['debug pointer checks', 'local reference aliases', 'enum class -> plain enum'],
        'not_decided': ['the coroutine switch itself', 'post-resume actions other than the hand-shake', 'owner recall wake-up (liveness)', 'the arena reference held per coroutine', 'the enclosing wait not completing early (C01)'],
        'assumptions': ['resume is called once for the suspend point (the property\'s own precondition)'],
    }


def replay(ctx, jobname, failure):
    return {'reproduced': False, 'detail': 'no native recipe: forcing both race orders of the two exchanges needs control of the coroutine switch'}
