// C20 native replay: scenarios on the REAL library (libtbb is compiled from the current src/tbb) that drive tbb::task::suspend / resume through every path the contracts talk about:
// foreign-thread resume, resume from inside the suspend callback (early resume), resume from another task of the arena, sequential and nested suspensions, an arena with a single
// slot (owner recall), a suspension at the outermost level of an external thread, suspension under a nested wait, a waiter inside this_task_arena::isolate.
// Observed: the continuation counter of every suspend point (must be exactly 1 when the enclosing wait returns, never 2), "continued before resume() was called", and progress
// (a forgotten continuation is a hang: every scenario runs in a forked child under a watchdog; a crash of the child is reported as such).
// Prints `REPRODUCED class=<name> scenario=<s> ...` for the first scenario that misbehaves, `NOT-SEEN` otherwise.
#include <oneapi/tbb/task.h>
#include <oneapi/tbb/task_group.h>
#include <oneapi/tbb/task_arena.h>
#include <oneapi/tbb/parallel_for.h>
#include <oneapi/tbb/global_control.h>
#include <atomic>
#include <chrono>
#include <condition_variable>
#include <cstdio>
#include <cstdlib>
#include <cstring>
#include <deque>
#include <mutex>
#include <thread>
#include <vector>
#include <signal.h>
#include <sys/wait.h>
#include <unistd.h>

namespace {
using sp_t = tbb::task::suspend_point;

[[noreturn]] void bad(const char* cls, const char* what) { std::printf("CHILD-FAIL class=%s %s\n", cls, what); std::fflush(stdout); _exit(3); }

// a foreign thread that resumes the tags it is given (after an optional delay, so that both orders of the two exchanges occur)
struct Resumer {
    std::mutex m; std::condition_variable cv; std::deque<sp_t> q; bool stop = false; int delay_us; std::thread th; std::atomic<int> resumed{0};
    explicit Resumer(int d) : delay_us(d), th([this] { run(); }) {}
    void push(sp_t s) { { std::lock_guard<std::mutex> l(m); q.push_back(s); } cv.notify_one(); }
    void run() {
        for (;;) {
            sp_t s;
            { std::unique_lock<std::mutex> l(m); cv.wait(l, [&] { return stop || !q.empty(); }); if (q.empty()) return; s = q.front(); q.pop_front(); }
            if (delay_us) std::this_thread::sleep_for(std::chrono::microseconds(delay_us));
            ++resumed; tbb::task::resume(s);
        }
    }
    ~Resumer() { { std::lock_guard<std::mutex> l(m); stop = true; } cv.notify_one(); th.join(); }
};

struct Point { std::atomic<int> resumed{0}, continued{0}; };
void check_points(std::vector<Point>& pts, const char* where) {
    for (auto& p : pts) {
        if (p.continued.load() > 1) bad("continued-twice", where);
        if (p.continued.load() < 1) bad("wait-returned-before-continuation", where);
    }
}
// one suspension of point p, resumed through `how`: 0 foreign thread, 1 inside the callback, 2 foreign thread with delay
void suspend_once(Point& p, Resumer& r0, Resumer& r2, int how) {
    tbb::task::suspend([&](sp_t s) { p.resumed.store(1); if (how == 1) tbb::task::resume(s); else (how == 0 ? r0 : r2).push(s); });
    if (p.resumed.load() != 1) bad("continued-before-resume", "suspend returned although resume was not called");
    if (p.continued.fetch_add(1) != 0) bad("continued-twice", "the code after tbb::task::suspend ran twice for one suspend point");
}

int sc_group(int slots, int n, int rounds) {                 // tasks of a task_group suspend; mixed resume sources
    tbb::task_arena a(slots); Resumer r0(0), r2(50);
    for (int round = 0; round < rounds; ++round) {
        std::vector<Point> pts(n);
        a.execute([&] { tbb::task_group tg; for (int i = 0; i < n; ++i) tg.run([&, i] { suspend_once(pts[i], r0, r2, i % 3); }); tg.wait(); });
        check_points(pts, "task_group::wait returned");
    }
    return 0;
}
int sc_sequential(int slots, int n) {                        // one task suspends several times in a row, and once more from inside a nested parallel_for
    tbb::task_arena a(slots); Resumer r0(0), r2(30); std::vector<Point> pts(3 * n);
    a.execute([&] { tbb::task_group tg;
        for (int i = 0; i < n; ++i) tg.run([&, i] {
            suspend_once(pts[3 * i], r0, r2, 0); suspend_once(pts[3 * i + 1], r0, r2, 1);
            tbb::parallel_for(0, 4, [&](int k) { if (k == 2) suspend_once(pts[3 * i + 2], r0, r2, 2); });
        });
        tg.wait(); });
    check_points(pts, "task_group::wait returned");
    return 0;
}
int sc_outermost(int slots, int rounds) {                    // an external thread suspends at its outermost level (arena.execute functor): it must get its own stack back
    tbb::task_arena a(slots); Resumer r0(0), r2(200);
    for (int round = 0; round < rounds; ++round) {
        std::vector<Point> pts(1); std::thread::id before = std::this_thread::get_id(), after;
        a.execute([&] { suspend_once(pts[0], r0, r2, round % 3); after = std::this_thread::get_id(); });
        check_points(pts, "arena.execute returned");
        if (before != std::this_thread::get_id()) bad("owner-not-recalled", "arena.execute returned on another thread");
    }
    return 0;
}
int sc_worker_resumes(int slots, int n) {                    // the tag is resumed by another task of the same arena
    tbb::task_arena a(slots); Resumer r0(0), r2(0); std::vector<Point> pts(n); std::vector<std::atomic<sp_t>> tags(n);
    for (auto& t : tags) t.store(nullptr);
    a.execute([&] { tbb::task_group tg;
        for (int i = 0; i < n; ++i) {
            tg.run([&, i] { tbb::task::suspend([&](sp_t s) { pts[i].resumed.store(1); tags[i].store(s); });
                            if (pts[i].continued.fetch_add(1) != 0) bad("continued-twice", "the code after tbb::task::suspend ran twice"); });
            tg.run([&, i] { sp_t s; while ((s = tags[i].load()) == nullptr) std::this_thread::yield(); tbb::task::resume(s); });
        }
        tg.wait(); });
    check_points(pts, "task_group::wait returned");
    return 0;
}
int sc_isolated_waiter() {                                   // the only thread of the arena waits inside isolate(); it must still pick the resume task
    std::atomic<bool> suspended{false}, in_iso{false}; std::atomic<int> cont{0}; std::atomic<sp_t> tag{nullptr};
    tbb::task_arena a(1); tbb::task_group tg, tg_iso; tbb::task_handle tok = tg_iso.defer([] {});
    std::thread X([&] { a.execute([&] { tg.run_and_wait([&] {
        tg.run([&] { tbb::this_task_arena::isolate([&] { in_iso = true; tg_iso.wait(); }); });
        tbb::task::suspend([&](sp_t s) { tag = s; suspended = true; });
        if (cont.fetch_add(1) != 0) bad("continued-twice", "isolated waiter scenario");
        tg_iso.run(std::move(tok)); }); }); });
    while (!suspended || !in_iso) std::this_thread::sleep_for(std::chrono::milliseconds(1));
    tbb::task::resume(tag.load());
    X.join();
    if (cont != 1) bad("wait-returned-before-continuation", "isolated waiter scenario");
    return 0;
}
int sc_nested_wait_resumer(int slots, int n) {               // resume tasks are taken by threads that sit in nested waits (register_waiter path) while the cache is cold and warm
    tbb::task_arena a(slots); Resumer r0(0), r2(100); std::vector<Point> pts(n);
    a.execute([&] { tbb::task_group outer;
        for (int i = 0; i < n; ++i) outer.run([&, i] { tbb::task_group inner; inner.run([&, i] { suspend_once(pts[i], r0, r2, 2); }); inner.run([] { for (volatile int k = 0; k < 20000; ++k) {} }); inner.wait(); });
        outer.wait(); });
    check_points(pts, "outer wait returned");
    return 0;
}

int sc_outermost_via_nested_waiter() {   // an external thread M suspends at its outermost level; the resume task is taken by a worker that sits in a NESTED wait (its own stack is parked, not recalled)
    // while the coroutine cache is empty: the worker continues M's stack up to the owner-recall point on a FRESH coroutine, whose prologue must recall M
    std::atomic<bool> t1_started{false}, go_wait{false}, b_started{false}, release_b{false}, sp_ready{false}; std::atomic<int> cont{0}; std::atomic<sp_t> tag{nullptr};
    std::thread::id main_id = std::this_thread::get_id(), t1_id, cont_id;
    auto spin = [](std::atomic<bool>& f) { while (!f.load()) std::this_thread::yield(); };
    std::thread resumer([&] { spin(sp_ready); spin(b_started); tbb::task::resume(tag.load()); go_wait = true; std::this_thread::sleep_for(std::chrono::milliseconds(400)); release_b = true; });
    tbb::task_arena a(2, 1); tbb::task_group tg, tg2; tbb::task_handle h = tg2.defer([] {});
    bool skipped = false;
    a.execute([&] {
        tg.run([&] { t1_id = std::this_thread::get_id(); t1_started = true; spin(go_wait); tg2.wait(); });
        spin(t1_started);
        if (t1_id == main_id) { skipped = true; sp_ready = b_started = true; tg2.run(std::move(h)); tg.wait(); return; }
        tg.run([&] { b_started = true; spin(release_b); });
        tbb::task::suspend([&](sp_t s) { tag = s; sp_ready = true; });
        cont_id = std::this_thread::get_id(); ++cont;
        tg2.run(std::move(h)); tg.wait(); });
    resumer.join();
    if (skipped) return 0;
    if (cont != 1) bad(cont > 1 ? "continued-twice" : "wait-returned-before-continuation", "outermost suspension continued by a nested waiter");
    if (cont_id != main_id) bad("owner-not-recalled", "code after an outermost suspend continued on a foreign thread");
    return 0;
}

int sc_wait_finishes_while_resuming(int slots, int waiters, int suspenders, int iters) {   // threads inside short nested waits keep taking resume tasks of OTHER groups: often their own wait is finished
    // by the time the resume task runs - they leave their stack anyway and must ask for their own resume first (the early-resume side of the hand-shake)
    tbb::task_arena a(slots); Resumer r0(0), r2(0); std::vector<Point> pts(suspenders * iters);
    a.execute([&] { tbb::task_group outer;
        for (int w = 0; w < waiters; ++w) outer.run([&] { for (int k = 0; k < iters; ++k) { tbb::task_group inner; for (int j = 0; j < 3; ++j) inner.run([] { for (volatile int z = 0; z < 1500; ++z) {} }); inner.wait(); } });
        for (int q = 0; q < suspenders; ++q) outer.run([&, q] { for (int k = 0; k < iters; ++k) suspend_once(pts[q * iters + k], r0, r2, k % 2); });
        outer.wait(); });
    check_points(pts, "outer wait returned");
    return 0;
}

struct Scenario { const char* name; int (*fn)(); };
int s1() { return sc_group(4, 64, 20); }
int s2() { return sc_group(1, 16, 20); }
int s3() { return sc_group(2, 200, 5); }
int s4() { return sc_sequential(4, 24); }
int s5() { return sc_sequential(1, 6); }
int s6() { return sc_outermost(2, 60); }
int s7() { return sc_outermost(1, 60); }
int s8() { return sc_worker_resumes(4, 48); }
int s9() { return sc_isolated_waiter(); }
int s10() { return sc_nested_wait_resumer(4, 64); }
int s11() { return sc_nested_wait_resumer(2, 32); }
int s12() { return sc_outermost_via_nested_waiter(); }
int g_scale = 1;
int s13() { return sc_wait_finishes_while_resuming(4, 8, 4, 300 * g_scale); }
int s14() { return sc_wait_finishes_while_resuming(2, 4, 2, 300 * g_scale); }
const Scenario SC[] = { {"group/4", s1}, {"group/1-slot", s2}, {"group/2-many", s3}, {"sequential+nested/4", s4}, {"sequential+nested/1-slot", s5}, {"outermost/2", s6}, {"outermost/1-slot", s7},
                        {"resumed-by-a-task", s8}, {"isolated-waiter", s9}, {"nested-wait-takes-resume/4", s10}, {"nested-wait-takes-resume/2", s11},
                        {"outermost-recall-via-nested-waiter", s12},
                        {"wait-finishes-while-resuming/4", s13}, {"wait-finishes-while-resuming/2", s14} };
}  // namespace

int main(int argc, char** argv) {
    int watchdog_s = 40, reps = 2; const char* only = nullptr;
    for (int i = 1; i < argc; ++i) { if (!std::strncmp(argv[i], "only=", 5)) only = argv[i] + 5; if (!std::strncmp(argv[i], "scale=", 6)) g_scale = std::atoi(argv[i] + 6); if (!std::strncmp(argv[i], "watchdog=", 9)) watchdog_s = std::atoi(argv[i] + 9); if (!std::strncmp(argv[i], "reps=", 5)) reps = std::atoi(argv[i] + 5); }
    for (int rep = 0; rep < reps; ++rep)
        for (const Scenario& s : SC) {
            if (only && !std::strstr(s.name, only)) continue;
            int fds[2]; if (pipe(fds)) return 2;
            pid_t c = fork();
            if (c == 0) { dup2(fds[1], 1); close(fds[0]); close(fds[1]); int rc = s.fn(); std::fflush(stdout); _exit(rc); }
            close(fds[1]);
            auto t0 = std::chrono::steady_clock::now(); int st = 0; bool done = false;
            while (std::chrono::steady_clock::now() - t0 < std::chrono::seconds(watchdog_s)) { if (waitpid(c, &st, WNOHANG) == c) { done = true; break; } usleep(2000); }
            char buf[512] = {0};
            if (!done) { kill(c, SIGKILL); waitpid(c, &st, 0); std::printf("REPRODUCED class=hang scenario=%s the scenario did not finish within %d s: a suspended task was never continued or its wait never returned\n", s.name, watchdog_s); return 1; }
            ssize_t n = read(fds[0], buf, sizeof buf - 1); (void)n; close(fds[0]);
            if (WIFSIGNALED(st)) { std::printf("REPRODUCED class=crash scenario=%s the scenario died with signal %d\n", s.name, WTERMSIG(st)); return 1; }
            if (WEXITSTATUS(st) != 0) { char* p = std::strstr(buf, "class="); char* e = p ? std::strchr(p, '\n') : nullptr; if (e) *e = 0;
                std::printf("REPRODUCED %s scenario=%s\n", p ? p : "class=failed", s.name); return 1; }
        }
    std::printf("NOT-SEEN %d scenarios x %d\n", (int)(sizeof SC / sizeof SC[0]), reps);
    return 0;
}
