/* C20 harnesses, part 2: the glue around the hand-shake - tbb::task::suspend down to the coroutine switch (SUSPEND), the arena's coroutine cache (COCACHE),
   the resume task and the waiter node of a parked stack (RTASK).  Only sliced code is #included; everything else here is types, stubs, ghost state, contracts. */
#include "verif.h"
#include <stdlib.h>
enum { active, suspended, notified };                                              /* suspend_point_type::stack_state, order checked by spec.py */
enum { co_invalid, co_suspended, co_executing, co_destroyed };                     /* co_context::co_state, order checked by spec.py */
enum { pra_invalid, pra_register_waiter, pra_cleanup, pra_notify, pra_none };      /* task_dispatcher::post_resume_action, order checked by spec.py */
#define no_isolation 0
typedef struct task_dispatcher task_dispatcher; typedef struct thread_data thread_data; typedef struct arena arena; typedef struct arena_slot arena_slot;
typedef struct suspend_point_type suspend_point_type;
struct tgc { int d; };
struct task { struct tgc *context; intptr_t isolation; bool resume_trait; };
struct resume_task { struct task base; task_dispatcher *m_target; };
struct ucontext { void *uc_link; struct { char *ss_sp; size_t ss_size; int ss_flags; } uc_stack; };
struct coroutine_type { struct ucontext my_context; void *my_stack; size_t my_stack_size; void *entry_arg; size_t req_stack_size; };
struct co_context { struct coroutine_type my_coroutine; int my_state; };
struct suspend_point_type { arena *m_arena; void *m_random; bool m_is_owner_recalled; bool m_is_critical; struct co_context m_co_context; suspend_point_type *m_prev_suspend_point;
                            int m_stack_state; struct resume_task m_resume_task; };
struct execution_data_ext { struct tgc *context; task_dispatcher *task_disp; intptr_t isolation; void *wait_ctx; };
struct properties { bool outermost, fifo_tasks_allowed, critical_task_allowed; };
struct task_dispatcher { thread_data *m_thread_data; struct execution_data_ext m_execute_data_ext; struct properties m_properties; uintptr_t m_stealing_threshold; suspend_point_type *m_suspend_point; };
struct arena { struct tgc *my_default_ctx; unsigned refs_external; };
struct arena_slot { task_dispatcher *my_default_task_dispatcher; };
struct thread_data { task_dispatcher *my_task_dispatcher; arena *my_arena; arena_slot *my_arena_slot; int my_post_resume_action; void *my_post_resume_arg; };
typedef void (*suspend_callback_type)(void *, suspend_point_type *);
#define ATOMIC_LOAD(x) (x)

#ifdef SUSPEND
/* ---------------------------------------------------------------------------------------------------------------------------------------------------------------
   tbb::task::suspend(callback):  r1::suspend -> task_dispatcher::suspend -> callback(tag) ; internal_suspend -> [create_coroutine] -> task_dispatcher::resume(target)
   -> suspend_point_type::resume -> co_context::resume -> swap.   What the property needs from this glue:
     * the callback is run exactly once and receives the suspend point of the dispatcher that is about to be left (resuming that tag switches to THIS dispatcher), and it is
       run before the stack is left - a stack left without a published tag is never continued;
     * the tag of a dispatcher is stable (never replaced), is bound to the stack that is running (no fresh coroutine), and starts `active` / not recalled, which is
       the precondition of the hand-shake proofs (jobs handshake.*);
     * the stack is left exactly once, towards a dispatcher that is not this one and runs nowhere (no thread attached, coroutine state suspended): the thread's own default
       dispatcher only if that was recalled (left and marked notified), otherwise a cached or fresh coroutine, which starts in the prologue of its own dispatcher;
     * the dispatcher state the suspended task relies on (outermost, critical_task_allowed, isolation, execution data) is not touched by the suspension. */
static thread_data TDATA, TDATA2; static arena ARENA; static arena_slot SLOT, SLOT2; static struct tgc DCTX;
static task_dispatcher ME, DEFLT, DEFLT2, CACHED; static suspend_point_type SP_ME, SP_DEFLT, SP_DEFLT2, SP_CACHED, SP_T, SP_X;
unsigned g_allocs, g_create_co, g_current_co, g_pops, g_binds, g_switches, g_recalls, g_cb, g_internal, g_swaps, g_fin, g_get_td, g_suspends, g_entry; bool g_popped;
void *g_alloc[2]; void *g_co_arg; size_t g_co_stack; size_t g_wss; task_dispatcher *g_target; int g_act_at_switch; void *g_arg_at_switch; void *g_cb_arg; suspend_point_type *g_cb_tag;
static void *STUB_cache_aligned_allocate(size_t n) { void *p = malloc(n); __CPROVER_assume(p != NULL); if (g_allocs < 2) g_alloc[g_allocs] = p; g_allocs++; return p; }   /* alloc_nofail */
static void STUB_create_coroutine(struct coroutine_type *c, size_t stack_size, void *arg) { g_create_co++; g_co_arg = arg; g_co_stack = stack_size; c->entry_arg = arg; c->req_stack_size = stack_size; }
static void STUB_current_coroutine(struct coroutine_type *c) { g_current_co++; }
unsigned g_destroy_co; int g_state_at_destroy;
static void STUB_destroy_coroutine(struct coroutine_type *c) { g_destroy_co++; }
static void STUB_bind_to(struct tgc *c, thread_data *td) { g_binds++; }
static size_t STUB_worker_stack_size(arena *a) { return g_wss; }
static task_dispatcher *STUB_co_cache_pop(arena *a) {                               /* contract of arena_co_cache::pop (job cocache.pop): nothing, or a coroutine that was cached = left by its thread */
    g_pops++; g_popped = nondet_bool(); return g_popped ? &CACHED : NULL; }
#define ARENA_REF_EXTERNAL(a) ((a)->refs_external++)
#define TASK_SET_RESUME_TRAIT(t) ((t)->base.resume_trait = true)
#define TASK_SET_CONTEXT(t, c) ((t)->base.context = (c))
#define TASK_SET_ISOLATION(t, i) ((t)->base.isolation = (i))
#define TASK_CONTEXT(t) ((t)->base.context)
#define INIT_my_state(self, v) ((self)->my_state = (v))
#define INIT_m_target(self, t) ((self)->m_target = (t))
#define INIT_m_arena(self, a) ((self)->m_arena = (a))
#define INIT_m_random(self, x) ((self)->m_random = (x))
#define INIT_m_co_context(self, ss, arg) co_context_ctor(&(self)->m_co_context, ss, arg)
#define INIT_m_resume_task(self, t) resume_task_ctor(&(self)->m_resume_task, t)
void suspend_point_type_ctor(suspend_point_type *self, arena *a, size_t stack_size, task_dispatcher *task_disp);
static suspend_point_type *NEW_suspend_point_type(void *mem, arena *a, size_t ss, task_dispatcher *d) { suspend_point_type_ctor((suspend_point_type *)mem, a, ss, d); return (suspend_point_type *)mem; }
/* the switch itself, by the contract proved in job switch.resume: called for a target that is not this dispatcher and has no thread; returns when somebody - possibly another thread -
   has switched back to this stack, with that thread attached and the post-resume action performed */
static void resumed_by(task_dispatcher *self, thread_data *t) { self->m_thread_data = t; t->my_task_dispatcher = self; t->my_post_resume_action = pra_none; t->my_post_resume_arg = NULL;
    if (self == t->my_arena_slot->my_default_task_dispatcher) self->m_suspend_point->m_is_owner_recalled = false; }
static bool STUB_td_resume(task_dispatcher *self, task_dispatcher *target) {
    OBLIGATION(target != self, "C20.suspend: the stack is never switched to itself");
    OBLIGATION(target->m_thread_data == NULL, "C20.suspend: the dispatcher switched to has no thread attached - a stack is never continued on two threads at once");
    OBLIGATION(target->m_suspend_point != NULL && target->m_suspend_point->m_co_context.my_state == co_suspended, "C20.suspend: the dispatcher switched to has a coroutine that is suspended, i.e. runs nowhere");
    OBLIGATION(self->m_suspend_point != NULL, "C20.suspend: the stack that is left has a suspend point (the stack switched to must be able to mark it suspended)");
    g_switches++; g_target = target; g_act_at_switch = self->m_thread_data->my_post_resume_action; g_arg_at_switch = self->m_thread_data->my_post_resume_arg;
    self->m_thread_data->my_task_dispatcher = target; self->m_thread_data = NULL;
    resumed_by(self, nondet_bool() ? &TDATA : &TDATA2); return true;
}
static void STUB_recall_point(task_dispatcher *self) { OBLIGATION(g_switches == 1, "C20.suspend: the owner-recall point of an outermost suspension comes after the stack has been left and continued, not before"); g_recalls++; }
static void STUB_internal_suspend(task_dispatcher *self) {
    OBLIGATION(g_cb == 1, "C20.suspend: the stack is left only after the callback has handed out the suspend point - a stack left without a published tag is never continued");
    g_internal++; resumed_by(self, nondet_bool() ? &TDATA : &TDATA2); }
static void STUB_td_suspend(task_dispatcher *d, suspend_callback_type cb, void *ucb);
static thread_data *STUB_get_thread_data(void) { g_get_td++; return &TDATA; }
static void STUB_swap_coroutine(struct co_context *self, struct co_context *target);
static void STUB_sp_finilize_resume(suspend_point_type *self) { OBLIGATION(g_swaps == 1, "C20.suspend: the hand-shake with the stack that was left is done on the stack switched to, after the switch"); g_fin++; }
static size_t STUB_default_page_size(void) { size_t p = nondet_size_t(); __CPROVER_assume(p == 4096 || p == 16384 || p == 65536); return p; }
enum { PROT_NONE = 0, PROT_READ = 1, PROT_WRITE = 2, MAP_PRIVATE = 2, MAP_ANONYMOUS = 0x20, MAP_STACK = 0x20000 };
#define MAP_FAILED ((void *)(uintptr_t)-1)
uintptr_t g_map; unsigned g_mk_hi, g_mk_lo; int g_mk_argc, g_mk; void (*g_mk_fn)();
#define mmap STUB_mmap
#define mprotect STUB_mprotect
#define getcontext STUB_getcontext
#define makecontext STUB_makecontext
static void *mmap(void *a, size_t n, int p, int f, int fd, long off) { g_map = nondet_uintptr_t(); __CPROVER_assume(g_map != (uintptr_t)-1 && g_map < ((uintptr_t)1 << 47)); return (void *)g_map; }
static int mprotect(void *a, size_t n, int p) { return 0; }
static int getcontext(struct ucontext *c) { return 0; }
static void makecontext(struct ucontext *c, void (*fn)(), int argc, unsigned hi, unsigned lo) { g_mk++; g_mk_fn = fn; g_mk_argc = argc; g_mk_hi = hi; g_mk_lo = lo; }
static void STUB_set_stealing_threshold(task_dispatcher *d) {}
uintptr_t IN_addr;
static void STUB_co_local_wait_for_all(task_dispatcher *d) { g_entry++; OBLIGATION((uintptr_t)d == IN_addr, "C20.suspend: a fresh coroutine starts in the prologue of exactly the dispatcher it was created for (the address is split into two unsigned halves for makecontext and put together again, for every 64-bit address)"); }
#define TD_RESUME(self, target) STUB_td_resume(self, target)
#define TD_RECALL_POINT(self) STUB_recall_point(self)
#define TD_INTERNAL_SUSPEND(self) STUB_internal_suspend(self)
#define TD_SUSPEND(d, cb, ucb) STUB_td_suspend(d, cb, ucb)
#define TD_CO_LOCAL_WAIT_FOR_ALL(d) STUB_co_local_wait_for_all(d)
void ENTRY_co_local_wait_for_all(unsigned hi, unsigned lo);
#pragma CPROVER check push
#pragma CPROVER check disable "conversion"
#include "suspend.inc"
#pragma CPROVER check pop
static void STUB_swap_coroutine(struct co_context *self, struct co_context *target) {
    OBLIGATION(g_swaps == 0, "C20.suspend: one switch per call");
    OBLIGATION(self == &SP_ME.m_co_context && target == &SP_T.m_co_context, "C20.suspend: the switch goes from this stack's coroutine to the coroutine of the suspend point asked for");
    OBLIGATION(SP_T.m_prev_suspend_point == &SP_ME, "C20.suspend: before the switch the stack switched to is told which stack is being left - it is the one that marks it suspended and re-issues an early resume");
    OBLIGATION(self->my_state == co_suspended && target->my_state == co_executing, "C20.suspend: at the switch this coroutine is recorded as suspended and the target as executing");
    g_swaps++;
    /* ... time passes; somebody switches back to this stack: by the same code, with the roles swapped */
    self->my_state = co_executing; SP_ME.m_stack_state = nondet_bool() ? suspended : notified; SP_ME.m_prev_suspend_point = &SP_X;
}
struct snapshot { struct properties p; struct execution_data_ext e; uintptr_t thr; };
static struct snapshot snap(task_dispatcher *d) { struct snapshot s; s.p = d->m_properties; s.e = d->m_execute_data_ext; s.thr = d->m_stealing_threshold; return s; }
#define SAME_PROPS(a, d) ((a).p.outermost == (d)->m_properties.outermost && (a).p.fifo_tasks_allowed == (d)->m_properties.fifo_tasks_allowed && (a).p.critical_task_allowed == (d)->m_properties.critical_task_allowed \
    && (a).e.context == (d)->m_execute_data_ext.context && (a).e.task_disp == (d)->m_execute_data_ext.task_disp && (a).e.isolation == (d)->m_execute_data_ext.isolation && (a).e.wait_ctx == (d)->m_execute_data_ext.wait_ctx \
    && (a).thr == (d)->m_stealing_threshold)
static void havoc_disp(task_dispatcher *d) { d->m_properties.outermost = nondet_bool(); d->m_properties.fifo_tasks_allowed = nondet_bool(); d->m_properties.critical_task_allowed = nondet_bool();
    d->m_execute_data_ext.context = nondet_bool() ? &DCTX : NULL; d->m_execute_data_ext.task_disp = d; d->m_execute_data_ext.isolation = nondet_intptr_t(); d->m_execute_data_ext.wait_ctx = nondet_ptr(); d->m_stealing_threshold = nondet_uintptr_t(); }
static void havoc_sp(suspend_point_type *s, task_dispatcher *d) { s->m_arena = &ARENA; s->m_is_owner_recalled = nondet_bool(); s->m_is_critical = nondet_bool(); s->m_prev_suspend_point = NULL;
    s->m_stack_state = nondet_int(); __CPROVER_assume(s->m_stack_state == active || s->m_stack_state == suspended || s->m_stack_state == notified); s->m_resume_task.m_target = d;
    s->m_co_context.my_state = nondet_bool() ? co_suspended : co_executing; s->m_resume_task.base.resume_trait = true; s->m_resume_task.base.isolation = no_isolation; s->m_resume_task.base.context = &DCTX; }
static void world(void) {
    ARENA.my_default_ctx = &DCTX; ARENA.refs_external = nondet_unsigned(); __CPROVER_assume(ARENA.refs_external < 4096);
    TDATA.my_arena = &ARENA; TDATA.my_arena_slot = &SLOT; SLOT.my_default_task_dispatcher = &DEFLT; TDATA2.my_arena = &ARENA; TDATA2.my_arena_slot = &SLOT2; SLOT2.my_default_task_dispatcher = &DEFLT2;
    TDATA.my_post_resume_action = pra_none; TDATA.my_post_resume_arg = NULL; TDATA2.my_post_resume_action = pra_none; TDATA2.my_post_resume_arg = NULL;
    g_allocs = g_create_co = g_current_co = g_pops = g_binds = g_switches = g_recalls = g_cb = g_internal = g_swaps = g_fin = g_get_td = g_suspends = g_entry = 0; g_wss = nondet_size_t(); __CPROVER_assume(g_wss > 0);
    havoc_disp(&ME); havoc_disp(&DEFLT); havoc_disp(&DEFLT2); havoc_disp(&CACHED);
    /* a cached coroutine has been left by its thread through the cleanup action: no thread, coroutine suspended, its suspend point belongs to it */
    CACHED.m_thread_data = NULL; CACHED.m_suspend_point = &SP_CACHED; havoc_sp(&SP_CACHED, &CACHED); SP_CACHED.m_co_context.my_state = co_suspended; SP_CACHED.m_is_owner_recalled = false;
    DEFLT2.m_thread_data = NULL; DEFLT2.m_suspend_point = &SP_DEFLT2; havoc_sp(&SP_DEFLT2, &DEFLT2);
}
static void attach(task_dispatcher *d) { d->m_thread_data = &TDATA; TDATA.my_task_dispatcher = d; }

/* --- get_suspend_point + init_suspend_point + the constructors of suspend_point_type, resume_task, co_context ------------------------------------------------------------- */
void h_get_suspend_point(void) {
    world(); attach(&ME); bool had = nondet_bool(); ME.m_suspend_point = had ? &SP_ME : NULL; havoc_sp(&SP_ME, &ME); SP_ME.m_co_context.my_state = co_executing; suspend_point_type old = SP_ME; struct snapshot s0 = snap(&ME);
    suspend_point_type *r = td_get_suspend_point(&ME);
    OBLIGATION(r != NULL && r == ME.m_suspend_point, "C20.tag: get_suspend_point returns this dispatcher's suspend point, never null");
    if (had) OBLIGATION(r == &SP_ME && g_allocs == 0 && g_create_co + g_current_co == 0 && SP_ME.m_stack_state == old.m_stack_state && SP_ME.m_is_owner_recalled == old.m_is_owner_recalled && SP_ME.m_prev_suspend_point == old.m_prev_suspend_point
                            && SP_ME.m_resume_task.m_target == old.m_resume_task.m_target && SP_ME.m_co_context.my_state == old.m_co_context.my_state,
                        "C20.tag: an existing suspend point - a tag that may already have been handed out - is never replaced or re-initialised");
    else {
        OBLIGATION(g_allocs == 1 && (void *)r == g_alloc[0], "C20.tag: a dispatcher without a suspend point gets exactly one");
        OBLIGATION(r->m_resume_task.m_target == &ME, "C20.tag: the resume task of a suspend point targets the dispatcher the suspend point belongs to - resuming the tag continues THIS stack");
        OBLIGATION(r->m_co_context.my_state == co_executing && g_create_co == 0 && g_current_co == 1, "C20.tag: the suspend point of a running dispatcher is bound to the stack that is running now (stack size 0), so that resuming it continues the suspended code instead of starting a fresh coroutine");
        OBLIGATION(r->m_stack_state == active && !r->m_is_owner_recalled && r->m_prev_suspend_point == NULL, "C20.tag: a new suspend point starts active, not recalled, with no stack to finalise (the precondition of the hand-shake proofs: a resume that arrives before the stack is left must find `active`)");
        OBLIGATION(r->m_arena == &ARENA, "C20.tag: the suspend point remembers the arena of the thread, into whose resume stream its resume task will be pushed");
        OBLIGATION(r->m_resume_task.base.resume_trait && r->m_resume_task.base.isolation == no_isolation && r->m_resume_task.base.context == &DCTX, "C20.tag: the resume task is marked as resume task, carries no isolation (any waiting thread may take it) and runs under the arena's default context (it cannot be cancelled)");
    }
    OBLIGATION(SAME_PROPS(s0, &ME) && ME.m_thread_data == &TDATA, "C20.frame: asking for the suspend point leaves the dispatcher's properties and execution data alone");
    VACUITY_END();
}
/* --- create_coroutine --------------------------------------------------------------------------------------------------------------------------------------------------- */
void h_create_coroutine(void) {
    world(); attach(&ME); ME.m_suspend_point = &SP_ME; havoc_sp(&SP_ME, &ME); unsigned refs0 = ARENA.refs_external; suspend_point_type c0 = SP_CACHED;
    task_dispatcher *r = r1_create_coroutine(&TDATA);
    OBLIGATION(g_pops == 1, "C20.coroutine: the arena's coroutine cache is asked exactly once");
    OBLIGATION(r != NULL && r != &ME && r->m_thread_data == NULL, "C20.coroutine: the coroutine handed out is not the dispatcher that is running and has no thread attached (it runs nowhere)");
    OBLIGATION(r->m_suspend_point != NULL && r->m_suspend_point->m_co_context.my_state == co_suspended && r->m_suspend_point->m_resume_task.m_target == r, "C20.coroutine: the coroutine handed out has a suspended stack of its own, and its suspend point belongs to it");
    if (g_popped) OBLIGATION(r == &CACHED && g_allocs == 0 && g_create_co == 0 && SP_CACHED.m_stack_state == c0.m_stack_state && SP_CACHED.m_prev_suspend_point == c0.m_prev_suspend_point, "C20.coroutine: a coroutine taken out of the cache is the one that is used - not dropped, not re-initialised, no second one created");
    else {
        OBLIGATION(g_allocs == 2 && (void *)r == g_alloc[0] && (void *)r->m_suspend_point == g_alloc[1], "C20.coroutine: with an empty cache one dispatcher and one suspend point are created");
        OBLIGATION(g_create_co == 1 && g_current_co == 0 && g_co_arg == (void *)r && g_co_stack > 0, "C20.coroutine: a fresh coroutine gets a stack of its own (non-zero size) and starts, when first switched to, in the prologue of its OWN dispatcher");
        OBLIGATION(r->m_properties.outermost && r->m_properties.critical_task_allowed && r->m_execute_data_ext.task_disp == r, "C20.coroutine: a fresh coroutine starts at the outermost level, outside any critical task (its resume tasks go to the resume stream)");
        OBLIGATION(r->m_suspend_point->m_stack_state == active && !r->m_suspend_point->m_is_owner_recalled && r->m_suspend_point->m_prev_suspend_point == NULL, "C20.coroutine: the suspend point of a fresh coroutine starts active and not recalled");
    }
    OBLIGATION(ARENA.refs_external == refs0 + 1, "C20.coroutine: exactly one arena reference is taken per coroutine handed out, cached or fresh (released by the cleanup action when it is cached again): the arena outlives its suspended tasks");
    OBLIGATION(ME.m_thread_data == &TDATA && TDATA.my_task_dispatcher == &ME, "C20.coroutine: creating the coroutine does not yet leave the current stack");
    VACUITY_END();
}
/* --- internal_suspend ------------------------------------------------------------------------------------------------------------------------------------------------------ */
void h_internal_suspend(void) {
    world(); bool on_default = nondet_bool(); task_dispatcher *self = on_default ? &DEFLT : &ME;
    ME.m_suspend_point = &SP_ME; havoc_sp(&SP_ME, &ME); SP_ME.m_co_context.my_state = co_executing; SP_ME.m_is_owner_recalled = false;
    DEFLT.m_suspend_point = &SP_DEFLT; havoc_sp(&SP_DEFLT, &DEFLT);           /* a thread that is not on its default stack has left it through task_dispatcher::resume, which requires a suspend point; on it, suspend()/recall_point() have just asked for one */
    attach(self);
    if (on_default) { SP_DEFLT.m_is_owner_recalled = false; SP_DEFLT.m_co_context.my_state = co_executing; }   /* the recall flag of a default stack is lowered on arrival (job switch.resume) and raised only for a stack that was left (job switch.do_post_resume_action) */
    else { DEFLT.m_thread_data = NULL; SP_DEFLT.m_co_context.my_state = co_suspended; }
    if (nondet_bool()) { TDATA.my_post_resume_action = pra_notify; TDATA.my_post_resume_arg = self->m_suspend_point; }     /* called from recall_point */
    int act0 = TDATA.my_post_resume_action; void *arg0 = TDATA.my_post_resume_arg; bool recalled0 = SP_DEFLT.m_is_owner_recalled; struct snapshot s0 = snap(self);
    td_internal_suspend(self);
    OBLIGATION(g_switches == 1, "C20.suspend: the stack is left exactly once per suspension");
    OBLIGATION(g_target != &DEFLT || recalled0, "C20.suspend: the thread's own default stack is switched to only if it was recalled (left by whoever ran it and marked notified) - never a stack whose resume has not been asked for");
    OBLIGATION(g_target == &DEFLT || (g_pops == 1 && (g_target == &CACHED || (void *)g_target == g_alloc[0])), "C20.suspend: otherwise the stack switched to is a coroutine handed out by create_coroutine (cached or fresh)");
    OBLIGATION(g_act_at_switch == act0 && g_arg_at_switch == arg0, "C20.suspend: the post-resume action the caller prepared (none for task::suspend, notify for the owner-recall point) is still in place at the switch");
    OBLIGATION(g_recalls == (s0.p.outermost ? 1 : 0), "C20.suspend: a suspension at the outermost level passes the owner-recall point once after it has been continued (a foreign thread hands the stack back to its owner); a nested one does not");
    OBLIGATION(SAME_PROPS(s0, self) && self->m_suspend_point == (on_default ? &SP_DEFLT : &SP_ME), "C20.frame: the suspended code finds its dispatcher as it left it: outermost, fifo/critical permission, isolation, execution data and suspend point are not touched by the suspension");
    VACUITY_END();
}
/* --- task_dispatcher::suspend ---------------------------------------------------------------------------------------------------------------------------------------------- */
static int CB_DATA;
static void user_cb(void *arg, suspend_point_type *tag) { OBLIGATION(g_internal == 0, "C20.suspend: the callback runs before the stack is left"); g_cb++; g_cb_arg = arg; g_cb_tag = tag;
    if (nondet_bool() && tag) tag->m_stack_state = notified; }                                      /* the callback (or whoever it gave the tag to) may call resume at once */
void h_td_suspend(void) {
    world(); attach(&ME); bool had = nondet_bool(); ME.m_suspend_point = had ? &SP_ME : NULL; havoc_sp(&SP_ME, &ME); SP_ME.m_co_context.my_state = co_executing; SP_ME.m_stack_state = active; struct snapshot s0 = snap(&ME);
    td_suspend(&ME, user_cb, &CB_DATA);
    OBLIGATION(g_cb == 1 && g_cb_arg == (void *)&CB_DATA, "C20.suspend: the user callback is invoked exactly once per suspend call, with the user's argument");
    OBLIGATION(g_cb_tag != NULL && g_cb_tag == ME.m_suspend_point && g_cb_tag->m_resume_task.m_target == &ME && (!had || g_cb_tag == &SP_ME), "C20.suspend: the tag given to the callback is the suspend point of the dispatcher that is being suspended: resuming it continues THIS stack");
    OBLIGATION(g_internal == 1, "C20.suspend: after the callback the stack is left exactly once");
    OBLIGATION(SAME_PROPS(s0, &ME), "C20.frame: the suspended code finds its dispatcher as it left it");
    VACUITY_END();
}
/* --- r1::suspend, r1::current_suspend_point ------------------------------------------------------------------------------------------------------------------------------- */
static void STUB_td_suspend(task_dispatcher *d, suspend_callback_type cb, void *ucb) {
    OBLIGATION(d == TDATA.my_task_dispatcher && cb == user_cb && ucb == (void *)&CB_DATA, "C20.suspend: tbb::task::suspend suspends the dispatcher the calling thread is running on, with the caller's callback");
    g_suspends++; }
void h_entry(void) {
    world(); task_dispatcher *cur = nondet_bool() ? &ME : &DEFLT; attach(cur); ME.m_suspend_point = &SP_ME; havoc_sp(&SP_ME, &ME); DEFLT.m_suspend_point = &SP_DEFLT; havoc_sp(&SP_DEFLT, &DEFLT);
    if (nondet_bool()) { r1_suspend(user_cb, &CB_DATA); OBLIGATION(g_suspends == 1, "C20.suspend: one suspend call suspends once"); }
    else { suspend_point_type *r = r1_current_suspend_point(); OBLIGATION(r != NULL && r == cur->m_suspend_point && r->m_resume_task.m_target == cur, "C20.tag: current_suspend_point is the suspend point of the dispatcher the calling thread is running on"); }
    VACUITY_END();
}
/* --- suspend_point_type::resume + co_context::resume ---------------------------------------------------------------------------------------------------------------------- */
void h_sp_resume(void) {
    world(); havoc_sp(&SP_ME, &ME); havoc_sp(&SP_T, &CACHED); havoc_sp(&SP_X, &DEFLT2);
    /* caller's side (job suspend.internal_suspend / suspend.create_coroutine): this stack is running - active, or already notified by an early resume; the target's coroutine is suspended */
    __CPROVER_assume(SP_ME.m_stack_state != suspended); SP_ME.m_co_context.my_state = co_executing; SP_T.m_co_context.my_state = co_suspended;
    sp_resume(&SP_ME, &SP_T);
    OBLIGATION(g_swaps == 1 && g_fin == 1, "C20.suspend: one coroutine switch per resume, and once this stack is switched back to, the hand-shake with the stack that was left is completed exactly once");
    OBLIGATION(SP_ME.m_co_context.my_state == co_executing, "C20.suspend: a stack that runs is recorded as executing");
    VACUITY_END();
}
/* --- co_context::~co_context ------------------------------------------------------------------------------------------------------------------------------------------------ */
void h_co_dtor(void) {
    struct co_context c; int st = nondet_int(); __CPROVER_assume(st == co_suspended || st == co_executing); c.my_state = st; g_destroy_co = 0;    /* a live coroutine is suspended or executing (job suspend.sp_resume) */
    co_context_dtor(&c);
    OBLIGATION(g_destroy_co == (st == co_suspended ? 1u : 0u), "C20.coroutine: destroying a dispatcher unmaps the stack of a coroutine that is suspended (nobody runs on it), once - and never the stack a thread is executing on (a suspend point bound to a thread's own stack)");
    OBLIGATION(c.my_state == co_destroyed, "C20.coroutine: a destroyed coroutine is marked destroyed");
    VACUITY_END();
}
/* --- thread_data::detach/attach_task_dispatcher ------------------------------------------------------------------------------------------------------------------------------ */
void h_attach_detach(void) {
    world(); attach(&ME); CACHED.m_thread_data = NULL;
    thd_detach_task_dispatcher(&TDATA);
    OBLIGATION(ME.m_thread_data == NULL && TDATA.my_task_dispatcher == NULL, "C20.switch: a dispatcher that is being left has no thread any more (whoever resumes it attaches its own)");
    thd_attach_task_dispatcher(&TDATA, &CACHED);
    OBLIGATION(CACHED.m_thread_data == &TDATA && TDATA.my_task_dispatcher == &CACHED && ME.m_thread_data == NULL, "C20.switch: a thread is attached to exactly one dispatcher and that dispatcher to exactly this thread");
    VACUITY_END();
}
/* --- makecontext argument round trip ------------------------------------------------------------------------------------------------------------------------------------------- */
void h_entry_roundtrip(void) {
    world(); struct coroutine_type c; IN_addr = nondet_uintptr_t(); size_t ss = nondet_size_t(); __CPROVER_assume(ss > 0 && ss < ((size_t)1 << 40));
    posix_create_coroutine(&c, ss, (void *)IN_addr);
    OBLIGATION(g_mk == 1 && g_mk_argc == 2 && g_mk_fn == (void (*)())ENTRY_co_local_wait_for_all, "C20.suspend: the coroutine is created with the dispatch-loop prologue as entry function and two integer arguments");
    ENTRY_co_local_wait_for_all(g_mk_hi, g_mk_lo);
    OBLIGATION(g_entry == 1, "C20.suspend: the entry function enters the prologue of the dispatcher once");
    VACUITY_END();
}
#endif

#ifdef COCACHE
/* ---------------------------------------------------------------------------------------------------------------------------------------------------------------
   arena_co_cache: a bounded LIFO ring of parked coroutines (task dispatchers whose thread has left them through the cleanup post-resume action).  Users (closed world, scanned by
   spec.py): create_coroutine pops, the cleanup action pushes, arena construction / destruction call init / cleanup.
   Representation, for a ring of any capacity 1..4096 and ONE arbitrary slot g_k / ONE arbitrary dispatcher G (ghost index, no quantifier):
     slot i is occupied  <=>  it lies fewer than n steps behind the head (LIFO window);       slot i holds G  <=>  i is G's position (G is cached at most once).
   The instance of this invariant for a slot is supplied where the sliced code reads the slot (accessor CACHE_RD), and proved again for the arbitrary slot g_k after the operation. */
struct arena_co_cache { task_dispatcher **my_co_scheduler_cache; unsigned my_head; unsigned my_max_index; int my_co_cache_mutex; };
static struct arena_co_cache CC; unsigned g_cap, g_k, g_n0, g_head0, g_pos0; task_dispatcher *G; bool *g_written; bool g_zeroed;
unsigned g_dtor, g_dealloc, g_alloc_n; void *g_dtor_arg, *g_dealloc_arg, *g_arr_dealloc; size_t g_alloc_size;
#define DIST(i, head) ((i) < (head) ? (head) - 1 - (i) : (head) - 1 - (i) + g_cap)                      /* how many steps behind the head slot i lies (0 = most recently cached) */
#define INV_AT(i, head, n, pos) (((CC.my_co_scheduler_cache[i] != NULL) == (DIST(i, head) < (n))) && ((CC.my_co_scheduler_cache[i] == G) == ((i) == (pos))))
static task_dispatcher ANOTHER, PUSHED, THE_G;                                            /* ANOTHER stands for every cached dispatcher other than G (the code only tests entries for null), PUSHED for a pushed one other than G */
#define ENTRY_OK(v) ((v) == NULL || (v) == G || (v) == &ANOTHER)
#define LOCK_MUTEX(m) do { OBLIGATION((m) == 0, "C20.cache: the cache mutex is not taken twice"); (m) = 1; } while (0)
#define UNLOCK_MUTEX(m) do { OBLIGATION((m) == 1, "C20.cache: the cache mutex is released by its holder"); (m) = 0; } while (0)
#pragma CPROVER check push
#pragma CPROVER check disable "pointer"
#pragma CPROVER check disable "pointer-primitive"
static task_dispatcher *cache_rd(struct arena_co_cache *self, unsigned i) {
    OBLIGATION(self->my_co_cache_mutex == 1, "C20.cache: the ring is read only under the cache mutex");
    OBLIGATION(i < g_cap, "C20.cache: every slot index is inside the ring");
    __CPROVER_assume(i < g_cap);
    if (!g_written[i]) __CPROVER_assume(INV_AT(i, g_head0, g_n0, g_pos0) && ENTRY_OK(self->my_co_scheduler_cache[i]));           /* instance of the representation invariant for the slot being read */
    return self->my_co_scheduler_cache[i]; }
static void cache_wr(struct arena_co_cache *self, unsigned i, task_dispatcher *v) {
    OBLIGATION(self->my_co_cache_mutex == 1, "C20.cache: the ring is written only under the cache mutex");
    OBLIGATION(i < g_cap, "C20.cache: every slot index is inside the ring");
    __CPROVER_assume(i < g_cap);
    self->my_co_scheduler_cache[i] = v; g_written[i] = true; }
#pragma CPROVER check pop
#define CACHE_RD(self, i) cache_rd(self, i)
#define CACHE_WR(self, i, v) cache_wr(self, i, v)
#define HEAD_WR(self, v) do { unsigned v_ = (v); OBLIGATION((self)->my_co_cache_mutex == 1 || g_alloc_n, "C20.cache: the head is moved only under the cache mutex"); (self)->my_head = v_; } while (0)
#define HEAD_RD(self) ((self)->my_head)
static void STUB_dispatcher_dtor(task_dispatcher *d) { OBLIGATION(g_dealloc == g_dtor, "C20.cache: destroy, then free"); g_dtor++; g_dtor_arg = d; }
static void STUB_cache_aligned_deallocate(void *p) { if (p == (void *)CC.my_co_scheduler_cache) { g_arr_dealloc = p; return; } OBLIGATION(g_dtor == g_dealloc + 1 && p == g_dtor_arg, "C20.cache: the memory freed is that of the dispatcher just destroyed"); g_dealloc++; g_dealloc_arg = p; }
static void *STUB_cache_aligned_allocate(size_t n) { void *p = malloc(n); __CPROVER_assume(p != NULL); g_alloc_n++; g_alloc_size = n; return p; }
static void STUB_memset(void *p, int v, size_t n) { OBLIGATION(p == (void *)CC.my_co_scheduler_cache && v == 0 && n >= (size_t)g_cap * sizeof(task_dispatcher *) && n <= g_alloc_size, "C20.cache.repr: the whole new ring is cleared"); g_zeroed = true; }
#ifdef CC_POP_BY_CONTRACT
/* arena_co_cache::pop by the contract proved in job cocache.pop: hands out each cached coroutine once, then nothing */
unsigned g_n; task_dispatcher *g_last_popped; static task_dispatcher POPPED;
static task_dispatcher *cc_pop(struct arena_co_cache *self) { if (g_n == 0) { g_last_popped = NULL; return NULL; } g_n--; g_last_popped = &POPPED; return &POPPED; }
#define LOOP_cc_cleanup_drain __CPROVER_assigns(to_cleanup, g_n, g_last_popped, g_dtor, g_dealloc, g_dtor_arg, g_dealloc_arg) \
    __CPROVER_loop_invariant(g_n <= g_n0 && g_dtor == g_n0 - g_n && g_dealloc == g_dtor && g_arr_dealloc == NULL) __CPROVER_decreases(g_n)
#else
#define LOOP_cc_cleanup_drain
#endif
#include "cocache.inc"
static void ring(void) {
    g_cap = nondet_unsigned(); __CPROVER_assume(g_cap >= 1 && g_cap <= 4096);
    CC.my_co_scheduler_cache = malloc(g_cap * sizeof(task_dispatcher *)); __CPROVER_assume(CC.my_co_scheduler_cache != NULL);
    g_written = calloc(g_cap, sizeof(bool)); __CPROVER_assume(g_written != NULL);
    CC.my_max_index = g_cap - 1; CC.my_head = g_head0 = nondet_unsigned(); __CPROVER_assume(g_head0 < g_cap); CC.my_co_cache_mutex = 0;
    g_n0 = nondet_unsigned(); __CPROVER_assume(g_n0 <= g_cap);
    G = &THE_G;                                                                         /* one arbitrary dispatcher */
    g_pos0 = nondet_unsigned(); __CPROVER_assume(g_pos0 <= g_cap);                      /* where it is cached; g_cap = nowhere */
    g_k = nondet_unsigned(); __CPROVER_assume(g_k < g_cap);                            /* one arbitrary slot */
    g_dtor = g_dealloc = g_alloc_n = 0; g_arr_dealloc = NULL; g_zeroed = false;
}
void h_cc_push(void) {
    ring(); task_dispatcher *s = nondet_bool() ? G : &PUSHED;
    /* caller (the cleanup post-resume action): the coroutine being cached has just been left by its thread and came out of the cache (or was created) before - it is not in the cache */
    if (s == G) __CPROVER_assume(g_pos0 == g_cap);
    __CPROVER_assume(INV_AT(g_k, g_head0, g_n0, g_pos0) && ENTRY_OK(CC.my_co_scheduler_cache[g_k])); __CPROVER_assume(INV_AT(g_head0, g_head0, g_n0, g_pos0) && ENTRY_OK(CC.my_co_scheduler_cache[g_head0]));
    task_dispatcher *victim = CC.my_co_scheduler_cache[g_head0];
    cc_push(&CC, s);
    unsigned head1 = g_head0 == g_cap - 1 ? 0 : g_head0 + 1, n1 = g_n0 == g_cap ? g_cap : g_n0 + 1, pos1 = s == G ? g_head0 : (g_pos0 == g_head0 ? g_cap : g_pos0);
    OBLIGATION(CC.my_co_cache_mutex == 0, "C20.cache: the cache mutex is released on return");
    OBLIGATION(CC.my_head == head1, "C20.cache.repr: push advances the head by one slot, wrapping at the end of the ring");
    OBLIGATION((CC.my_co_scheduler_cache[g_k] != NULL) == (DIST(g_k, head1) < n1), "C20.cache.repr: after push the occupied slots are again exactly the window behind the head, one longer (or still full)");
    OBLIGATION((CC.my_co_scheduler_cache[g_k] == G) == (g_k == pos1), "C20.cache: push stores the coroutine in exactly one slot; every other cached coroutine stays cached exactly once");
    OBLIGATION(g_dtor == (victim != NULL) && g_dealloc == g_dtor && (victim == NULL || g_dtor_arg == (void *)victim), "C20.cache: when the ring is full the coroutine whose slot is overwritten is destroyed - exactly that one, once (otherwise it would be lost with its stack)");
    OBLIGATION(g_dtor == 0 || (g_dtor_arg != (void *)s && (g_dtor_arg != (void *)G || pos1 == g_cap)), "C20.cache: a coroutine that is destroyed is neither the one just cached nor one that is still in the cache (it can never be handed out again)");
    VACUITY_END();
}
void h_cc_pop(void) {
    ring(); __CPROVER_assume(INV_AT(g_k, g_head0, g_n0, g_pos0) && ENTRY_OK(CC.my_co_scheduler_cache[g_k]));
    unsigned prev0 = g_head0 == 0 ? g_cap - 1 : g_head0 - 1; __CPROVER_assume(INV_AT(prev0, g_head0, g_n0, g_pos0) && ENTRY_OK(CC.my_co_scheduler_cache[prev0])); task_dispatcher *top = CC.my_co_scheduler_cache[prev0];
    task_dispatcher *r = cc_pop(&CC);
    OBLIGATION(CC.my_co_cache_mutex == 0, "C20.cache: the cache mutex is released on every return path");
    OBLIGATION(g_dtor == 0 && g_dealloc == 0, "C20.cache: pop destroys nothing");
    if (g_n0 == 0) { OBLIGATION(r == NULL && CC.my_head == g_head0 && INV_AT(g_k, g_head0, g_n0, g_pos0), "C20.cache: an empty cache hands out nothing and is not changed"); }
    else {
        unsigned pos1 = r == G ? g_cap : g_pos0;
        OBLIGATION(r != NULL && r == top && CC.my_head == prev0, "C20.cache.repr: pop hands out the most recently cached coroutine and moves the head back onto its slot");
        OBLIGATION((CC.my_co_scheduler_cache[g_k] != NULL) == (DIST(g_k, prev0) < g_n0 - 1), "C20.cache.repr: after pop the occupied slots are again exactly the window behind the head, one shorter");
        OBLIGATION((CC.my_co_scheduler_cache[g_k] == G) == (g_k == pos1), "C20.cache: a cached coroutine is handed out at most once: after pop it is in no slot of the cache, and every other cached coroutine stays cached exactly once");
    }
    VACUITY_END();
}
void h_cc_init(void) {
    unsigned cap = nondet_unsigned(); __CPROVER_assume(cap >= 4 && cap <= 4096); g_cap = cap;      /* arena: 4 * number of slots */ g_k = nondet_unsigned(); __CPROVER_assume(g_k < cap); g_alloc_n = 0; g_zeroed = false; CC.my_co_cache_mutex = 0;
    cc_init(&CC, cap);
    OBLIGATION(g_alloc_n == 1 && g_alloc_size >= (size_t)cap * sizeof(task_dispatcher *) && g_zeroed, "C20.cache.repr: init allocates a ring of at least the requested number of slots and clears it");
    OBLIGATION(CC.my_head < cap && CC.my_max_index == cap - 1, "C20.cache.repr: a new ring is empty: head inside the ring, last index capacity-1 (the representation invariant holds with zero cached coroutines)");
    VACUITY_END();
}
#ifdef CC_POP_BY_CONTRACT
void h_cc_cleanup(void) {
    g_cap = 1; CC.my_co_scheduler_cache = malloc(sizeof(task_dispatcher *)); __CPROVER_assume(CC.my_co_scheduler_cache != NULL); CC.my_co_cache_mutex = 0;
    g_n0 = g_n = nondet_unsigned(); __CPROVER_assume(g_n0 <= 4096); g_dtor = g_dealloc = 0; g_arr_dealloc = NULL;
    cc_cleanup(&CC);
    OBLIGATION(g_n == 0 && g_dtor == g_n0 && g_dealloc == g_n0, "C20.cache: when the arena goes away every coroutine still cached is destroyed exactly once (each one is taken out by pop first, so none is destroyed twice)");
    OBLIGATION(g_arr_dealloc == (void *)CC.my_co_scheduler_cache, "C20.cache: the ring itself is freed after the last coroutine");
    VACUITY_END();
}
#endif
#endif

#ifdef RTASK
/* ---------------------------------------------------------------------------------------------------------------------------------------------------------------
   suspend_point_type::resume_task::execute - what a thread does when it takes a resume task for the stack TARGET out of the resume stream (or its own recall task):
   it leaves its own stack ME for TARGET, exactly once, and its own stack must not be forgotten either:
     (a) inside a wait (task_group::wait, parallel algorithm; wait_ctx != null) whose work is unfinished: ME is parked on the waiting-threads list; the node (on ME's stack) names ME, TARGET,
         ME's suspend point and the wait context; the stack switched to tells the node that ME has been left (register_waiter); the SECOND of the two notifications
         (left + wait finished) resumes ME, exactly once (job rtask.notify);
     (b) inside a wait that is already finished: ME asks for its own resume BEFORE leaving (the early-resume case of the hand-shake: the stack switched to finds ME notified and re-issues it);
     (c) a worker at its outermost level (wait_ctx == null): ME is left with the notify action: the stack switched to recalls ME's owner.
   The resume task itself returns no task and does not touch the wait context: the enclosing wait is not released by it. */
struct market_context { uintptr_t my_uniq_addr; arena *my_arena_addr; };
struct resume_node { struct market_context my_context; bool my_is_in_list; task_dispatcher *my_curr_dispatcher, *my_target_dispatcher; suspend_point_type *my_suspend_point; int my_notify_calls; };
struct waiter { void *my_wait_ctx; };
static thread_data TDATA, TDATA2; static arena ARENA; static arena_slot SLOT, SLOT2; static task_dispatcher ME, TARGET, DEFLT, DEFLT2; static suspend_point_type SP_ME, SP_NEW, SP_TARGET, SP_DEFLT; static int WAITCTX;
unsigned g_switches, g_r1, g_r1_at_switch, g_waits, g_ctor, g_dtor_n, g_ce, g_sets, g_clears, g_gsp; bool g_alive, g_alive_at_switch, g_parked, g_last_cont, g_node_ok; int g_act; void *g_arg; task_dispatcher *g_from, *g_to; suspend_point_type *g_r1_arg;
#define INIT_base_type(self, ctx) ((self)->my_context = (ctx), (self)->my_is_in_list = false)
#define INIT_my_curr_dispatcher(self, d) ((self)->my_curr_dispatcher = (d))
#define INIT_my_target_dispatcher(self, d) ((self)->my_target_dispatcher = (d))
#define INIT_my_suspend_point(self, p) ((self)->my_suspend_point = (p))
static suspend_point_type *td_get_suspend_point(task_dispatcher *d) {                 /* by the contract of job suspend.get_suspend_point: the dispatcher's own suspend point, created on first use, never replaced */
    g_gsp++; if (d->m_suspend_point == NULL) { d->m_suspend_point = &SP_NEW; SP_NEW.m_resume_task.m_target = d; SP_NEW.m_stack_state = active; SP_NEW.m_is_owner_recalled = false; } return d->m_suspend_point; }
static void R1_RESUME(suspend_point_type *sp);
static bool STUB_td_resume(task_dispatcher *cur, task_dispatcher *target);
#define TD_RESUME(a, b) STUB_td_resume(a, b)
#define THD_SET_POST_RESUME_ACTION(td, a, arg) do { thread_data *t_ = (td); VERIF_ASSERT(t_->my_post_resume_action == pra_none && t_->my_post_resume_arg == NULL, "The Post resume action must not be set"); t_->my_post_resume_action = (a); t_->my_post_resume_arg = (arg); g_sets++; } while (0)
#define THD_CLEAR_POST_RESUME_ACTION(td) do { thread_data *t_ = (td); t_->my_post_resume_action = pra_none; t_->my_post_resume_arg = NULL; g_clears++; } while (0)
static bool wait_ctx_continue(void *w) { OBLIGATION(w == (void *)&WAITCTX, "C20.rtask: the wait that is examined is the one the dispatch loop is waiting for"); g_ce++; g_last_cont = nondet_bool(); return g_last_cont; }
#define WAIT_CTX_CONTINUE(w) wait_ctx_continue(w)
#define TASK_IS_RESUME(t) ((t)->resume_trait)
unsigned g_sleeps; uintptr_t g_sleep_tag; bool g_sleep_cond, g_empty, g_time_to_sleep;
static bool STUB_backoff_pause(struct waiter *w) { return g_time_to_sleep; }
static bool STUB_arena_is_empty(struct waiter *w) { return g_empty; }
static void STUB_sleep(struct waiter *w, uintptr_t tag, bool cond_now) { g_sleeps++; g_sleep_tag = tag; g_sleep_cond = cond_now; }
void resume_node_ctor(struct resume_node *self, struct market_context ctx, struct execution_data_ext *ed_ext, task_dispatcher *target);
void resume_node_wait(struct resume_node *self);
#define RESUME_NODE_CTOR(n, wctx, a, ed, tgt) struct resume_node n; { struct market_context c_ = { (uintptr_t)(wctx), (a) }; resume_node_ctor(&n, c_, ed, tgt); g_ctor++; g_alive = true; }
#define RESUME_NODE_DTOR(n, ...) do { g_dtor_n++; g_alive = false; } while (0)
/* concurrent_monitor::wait(pred, node) by its contract (jobs of C02): either the predicate was found true under a prepared wait and the wait is cancelled (false), or the node's wait()
   has been called - exactly once, last - and returned (true) */
static bool monitor_wait(bool pred_true, struct resume_node *node) {
    g_waits++; if (pred_true) return false;
    OBLIGATION(g_last_cont, "C20.rtask: a stack is parked on the waiting list only if its wait was still unfinished when checked under the prepared wait - nobody notifies a finished wait, the stack would be forgotten");
    g_parked = true; resume_node_wait(node); return true; }
#define MONITOR_WAIT(td, pred, node) monitor_wait((pred), (node))
/* notify(): the two-party counter */
bool g_mine, g_other, g_my_owes, g_other_owes; unsigned g_resumes; static struct resume_node NODE;
#define NINV (g_resumes <= 1 && NODE.my_notify_calls == (g_mine ? 1 : 0) + (g_other ? 1 : 0) && g_resumes + (g_my_owes ? 1 : 0) + (g_other_owes ? 1 : 0) == (NODE.my_notify_calls == 2 ? 1u : 0u))
static void other_steps(bool force) {
    if (!g_other && (force || nondet_bool())) { NODE.my_notify_calls++; g_other = true; if (NODE.my_notify_calls == 2) g_other_owes = true; }
    if (g_other_owes && (force || nondet_bool())) { g_resumes++; g_other_owes = false; } }
#ifdef NOTIFY_JOB
#define ATOMIC_PREINC(x) ({ other_steps(false); int new_ = ++(x); g_mine = true; if (new_ == 2) g_my_owes = true; __CPROVER_assert(NINV, "guarantee: notification counter invariant"); new_; })
#define ATOMIC_POSTINC(x) (ATOMIC_PREINC(x) - 1)
#define ATOMIC_FETCH_ADD(x, v) ({ int v_ = (v); int r_ = 0; if (v_ == 1) r_ = ATOMIC_PREINC(x) - 1; else OBLIGATION(0, "C20.rtask: each notification counts once"); r_; })
#else
#define ATOMIC_PREINC(x) (++(x))
#define ATOMIC_POSTINC(x) ((x)++)
#define ATOMIC_FETCH_ADD(x, v) ({ int o_ = (x); (x) += (v); o_; })
#endif
#include "rtask.inc"
static void R1_RESUME(suspend_point_type *sp) {
#ifdef NOTIFY_JOB
    OBLIGATION(g_my_owes && sp == NODE.my_suspend_point, "C20.rtask: a parked stack is resumed by the notification that finds the counter at two - the second one - and by nobody else");
    g_resumes++; g_my_owes = false;
#else
    g_r1++; g_r1_arg = sp;
#endif
}
static bool STUB_td_resume(task_dispatcher *cur, task_dispatcher *target) {
    thread_data *t = cur->m_thread_data;
    g_switches++; g_from = cur; g_to = target; g_act = t->my_post_resume_action; g_arg = t->my_post_resume_arg; g_r1_at_switch = g_r1; g_alive_at_switch = g_alive;
    if (g_act == pra_register_waiter && g_alive) { struct resume_node *n = (struct resume_node *)g_arg;
        g_node_ok = n->my_curr_dispatcher == cur && n->my_target_dispatcher == target && n->my_suspend_point == cur->m_suspend_point && cur->m_suspend_point != NULL && n->my_context.my_uniq_addr == (uintptr_t)&WAITCTX && n->my_notify_calls == 0; }
    /* ... the stack switched to performs the action; later somebody resumes this stack, possibly on another thread */
    t->my_task_dispatcher = target; cur->m_thread_data = nondet_bool() ? &TDATA : &TDATA2; cur->m_thread_data->my_task_dispatcher = cur; cur->m_thread_data->my_post_resume_action = pra_none; cur->m_thread_data->my_post_resume_arg = NULL;
    return true; }
static void rworld(void) {
    TDATA.my_arena = &ARENA; TDATA.my_arena_slot = &SLOT; SLOT.my_default_task_dispatcher = &DEFLT; TDATA2.my_arena = &ARENA; TDATA2.my_arena_slot = &SLOT2; SLOT2.my_default_task_dispatcher = &DEFLT2;
    TDATA.my_post_resume_action = pra_none; TDATA.my_post_resume_arg = NULL; TDATA2.my_post_resume_action = pra_none; TDATA2.my_post_resume_arg = NULL;
    g_switches = g_r1 = g_r1_at_switch = g_waits = g_ctor = g_dtor_n = g_ce = g_sets = g_clears = g_gsp = 0; g_alive = g_alive_at_switch = g_parked = g_last_cont = g_node_ok = false; g_act = pra_invalid;
    ME.m_thread_data = &TDATA; TDATA.my_task_dispatcher = &ME; ME.m_suspend_point = nondet_bool() ? &SP_ME : NULL; SP_ME.m_resume_task.m_target = &ME; SP_ME.m_stack_state = active;
    TARGET.m_thread_data = NULL; TARGET.m_suspend_point = &SP_TARGET; SP_TARGET.m_resume_task.m_target = &TARGET; SP_TARGET.m_resume_task.base.resume_trait = true;
    ME.m_properties.outermost = nondet_bool(); ME.m_properties.critical_task_allowed = nondet_bool(); ME.m_properties.fifo_tasks_allowed = nondet_bool();
    ME.m_execute_data_ext.task_disp = &ME; ME.m_execute_data_ext.isolation = nondet_intptr_t(); ME.m_execute_data_ext.context = NULL;
}
void h_rtask_execute(void) {
    rworld(); bool waiting = nondet_bool(); ME.m_execute_data_ext.wait_ctx = waiting ? (void *)&WAITCTX : NULL; struct properties p0 = ME.m_properties; intptr_t iso0 = ME.m_execute_data_ext.isolation;
    struct task *r = resume_task_execute(&SP_TARGET.m_resume_task, &ME.m_execute_data_ext);
    OBLIGATION(r == NULL, "C20.rtask: the resume task hands no task back to the dispatch loop (nothing of the enclosing wait is released or re-run by it)");
    OBLIGATION(g_switches == 1 && g_from == &ME && g_to == &TARGET, "C20.rtask: executing a resume task switches exactly once, from the stack that executes it to the stack the task was made for");
    OBLIGATION(ME.m_suspend_point != NULL && ME.m_suspend_point->m_resume_task.m_target == &ME, "C20.rtask: the stack that is left has a suspend point of its own");
    if (!waiting) OBLIGATION(g_act == pra_notify && g_arg == (void *)ME.m_suspend_point && g_r1 == 0 && g_waits == 0, "C20.rtask: a worker at its outermost level leaves its stack with the notify action for ITS OWN suspend point (the stack switched to recalls the owner); it does not resume it itself");
    else if (g_parked) {
        OBLIGATION(g_act == pra_register_waiter && g_alive_at_switch && g_node_ok, "C20.rtask: a stack parked inside an unfinished wait leaves with the register_waiter action for a live node that names this stack, the target, this stack's suspend point and the wait context, with a zero notification count");
        OBLIGATION(g_r1 == 0, "C20.rtask: a parked stack is not resumed by the thread that parks it (that is the business of the second notification) - it would be continued twice");
    } else {
        OBLIGATION(g_act == pra_none && g_arg == NULL, "C20.rtask: when the wait is already finished the registration is withdrawn before the stack is left (a dead node must not be notified)");
        OBLIGATION(g_r1 == 1 && g_r1_at_switch == 1 && g_r1_arg == ME.m_suspend_point, "C20.rtask: a stack that is left although its wait is finished asks for its own resume exactly once, before it leaves - otherwise it is forgotten and the wait never returns");
    }
    OBLIGATION(g_ctor == g_dtor_n && g_ctor == (waiting ? 1u : 0u), "C20.rtask: the waiter node is destroyed once, after the stack has been continued");
    OBLIGATION(ME.m_properties.outermost == p0.outermost && ME.m_properties.critical_task_allowed == p0.critical_task_allowed && ME.m_properties.fifo_tasks_allowed == p0.fifo_tasks_allowed && ME.m_execute_data_ext.isolation == iso0 && ME.m_execute_data_ext.wait_ctx == (waiting ? (void *)&WAITCTX : NULL),
               "C20.frame: the resume task leaves the properties and execution data of the dispatcher that executes it alone");
    VACUITY_END();
}
#ifdef NOTIFY_JOB
void h_rtask_notify(void) {
    NODE.my_suspend_point = &SP_ME; NODE.my_notify_calls = nondet_int(); g_mine = false; g_other = nondet_bool(); g_other_owes = nondet_bool(); g_my_owes = false; g_resumes = nondet_unsigned();
    __CPROVER_assume(NINV);                                     /* a node starts with a zero count (constructor, job rtask.execute); each of the two parties - monitor and register_waiter action - notifies once */
    resume_node_notify(&NODE);
    OBLIGATION(NINV && g_mine && !g_my_owes, "C20.rtask: after notify() the resume has been issued or is owed by the other notifier");
    other_steps(true);
    OBLIGATION(g_resumes == 1 && NODE.my_notify_calls == 2, "C20.rtask: of the two notifications of a parked stack (it has been left / its wait is finished) exactly one, the second, resumes it: once, and only after both");
    VACUITY_END();
}
#endif
void h_self_recall(void) {
    rworld(); bool has = nondet_bool(); DEFLT.m_suspend_point = has ? &SP_DEFLT : NULL; SP_DEFLT.m_is_owner_recalled = nondet_bool(); SP_DEFLT.m_resume_task.m_target = &DEFLT; SP_DEFLT.m_resume_task.base.resume_trait = true;
    bool recalled = has && SP_DEFLT.m_is_owner_recalled; DEFLT.m_thread_data = recalled ? NULL : (nondet_bool() ? &TDATA : NULL);    /* a recalled stack has been left (job switch.do_post_resume_action: the flag is raised by the stack switched to) */
    struct waiter wt; wt.my_wait_ctx = &WAITCTX; struct task *t = NULL; int which = nondet_int();
    if (which == 0) { struct task *r = get_self_recall_task(&SLOT);
        OBLIGATION((r != NULL) == recalled, "C20.recall: a self-recall task is produced exactly while the recall flag of the thread's own default stack is up (the stack was left and marked notified) - never for a stack whose resume was not asked for");
        OBLIGATION(r == NULL || (r == &SP_DEFLT.m_resume_task.base && SP_DEFLT.m_resume_task.m_target == &DEFLT && r->resume_trait), "C20.recall: the self-recall task is the resume task of the thread's OWN default dispatcher"); }
    else if (which == 1) { bool c = cw_continue_execution(&wt, &SLOT, &t);
        OBLIGATION(c && (t != NULL) == recalled && (t == NULL || t == &SP_DEFLT.m_resume_task.base), "C20.recall: a coroutine's dispatch loop goes on until its owner is recalled, and then gets the owner's recall task"); }
    else if (which == 2) { bool c = ew_continue_execution(&wt, &SLOT, &t);
        OBLIGATION(c == g_last_cont && g_ce == 1, "C20.recall: a waiting thread's dispatch loop ends exactly when its wait is finished");
        OBLIGATION(c ? ((t != NULL) == recalled && (t == NULL || t == &SP_DEFLT.m_resume_task.base)) : t == NULL, "C20.recall: a waiting thread whose default stack was recalled gets its recall task while the wait goes on"); }
    else if (which == 3) { g_time_to_sleep = nondet_bool(); g_empty = nondet_bool(); g_sleeps = 0; __CPROVER_assume(has);     /* a thread on a coroutine has left its default stack through resume(): that stack has a suspend point */
        cw_pause(&wt, &SLOT);
        OBLIGATION(g_sleeps == (g_time_to_sleep ? 1u : 0u), "C20.recall: an idle thread on a coroutine goes to sleep only when the back-off says so");
        if (g_sleeps) OBLIGATION(g_sleep_tag == (uintptr_t)&SP_DEFLT, "C20.recall: the owner sleeps under the address of ITS OWN default stack's suspend point - the tag the owner-recall notification selects (job switch.do_post_resume_action)");
        if (g_sleeps && recalled) OBLIGATION(g_sleep_cond, "C20.recall: the wake-up condition the owner sleeps on is true once its stack is recalled (evaluated under the prepared wait, a recall is never slept through)"); }
    else { struct task x; x.resume_trait = nondet_bool();
        OBLIGATION(cw_postpone_execution(&x) == x.resume_trait, "C20.recall: a coroutine's dispatch loop hands a resume task back instead of executing it on the coroutine (the coroutine is then left through the cleanup action and cached)");
        OBLIGATION(!ew_postpone_execution(&x), "C20.recall: a waiting thread executes resume tasks in place"); }
    VACUITY_END();
}
#endif
