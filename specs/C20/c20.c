/* C20 harnesses: the suspend/resume hand-shake on suspend_point_type::m_stack_state, both race orders, thread-modular. */
#include "verif.h"
enum { active, suspended, notified };
struct sp { int m_stack_state; bool m_is_owner_recalled; bool m_is_critical; struct sp *m_prev_suspend_point; };
static struct sp P /* the stack being suspended and resumed */, Q /* the stack the leaver switched to */;
/* ghost */
bool r_called /* the resumer did its exchange */, l_done /* the leaver did its exchange */, l_owes, r_owes; unsigned pushes; int g_role; /* 0: code under proof is the resumer, 1: the leaver */
#define HINV ( (!r_called && !l_done ? (P.m_stack_state == active && pushes == 0 && !l_owes && !r_owes) : 1) \
            && (!r_called &&  l_done ? (P.m_stack_state == suspended && pushes == 0 && !l_owes && !r_owes) : 1) \
            && ( r_called && !l_done ? (P.m_stack_state == notified && pushes == 0 && !l_owes && !r_owes) : 1) \
            && ( r_called &&  l_done ? ((l_owes && !r_owes && (P.m_stack_state == suspended || P.m_stack_state == notified) && pushes == 0) || (r_owes && !l_owes && P.m_stack_state == notified && pushes == 0) \
                                        || (!l_owes && !r_owes && P.m_stack_state == notified && pushes == 1)) : 1) )
/* the other party's possible steps */
static void leaver_steps(bool force) {
    if (!l_done && (force || nondet_bool())) { int old = P.m_stack_state; P.m_stack_state = suspended; l_done = true; if (old == notified) l_owes = true; }
    if (l_owes && (force || nondet_bool())) { P.m_stack_state = notified; pushes++; l_owes = false; }     /* its own r1::resume: exchange(notified) finds suspended, pushes */
}
static void resumer_steps(bool force) {
    if (!r_called && (force || nondet_bool())) { int old = P.m_stack_state; P.m_stack_state = notified; r_called = true; if (old == suspended) pushes++; }
}
static void interfere(void) { if (g_role == 0) leaver_steps(false); else resumer_steps(false); }
#define PLAIN_READ(f) (f)
/* recall_owner's two stores, named by field: the owner may switch to the stack the moment it sees the flag (get_self_recall_task), so the stack must be marked notified BEFORE the flag goes up -
   a `notified` that lands after the owner has arrived (and finilize_resume has stored `active`) makes the next leaver re-issue a resume nobody asked for: the stack is continued twice */
#define REC_STORE_STATE(self, v) do { OBLIGATION(!(self)->m_is_owner_recalled, "C20.recall: the suspended stack is marked notified before the recall flag is raised, not after (the owner switches to the stack as soon as it sees the flag)"); (self)->m_stack_state = (v); } while (0)
#define REC_STORE_FLAG(self, v) do { OBLIGATION((self)->m_stack_state == notified, "C20.recall: the recall flag is raised only on a stack already marked notified"); (self)->m_is_owner_recalled = (v); } while (0)
#define ATOMIC_STORE_AT(site, f, v) do { interfere(); (f) = (v); __CPROVER_assert(HINV, "guarantee: hand-shake invariant at " #site); } while (0)
#define ATOMIC_XCHG_AT(site, f, v) ({ interfere(); int old_ = (f); (f) = (v); GHOST_##site; __CPROVER_assert(HINV, "guarantee: hand-shake invariant at " #site); old_; })
/* try_notify_resume's exchange: by the resumer (first call) or by the leaver that found the stack notified */
#define GHOST_tnr_XCHG_1 do { if (self == &P) { if (g_role == 0) { __CPROVER_assert(!r_called, "resume is called once"); r_called = true; if (old_ == suspended) r_owes = true; } \
                                              else { __CPROVER_assert(l_owes && old_ == suspended, "C20: the leaver re-issues the resume only for a stack it has just marked suspended"); } } } while (0)
#define GHOST_fin_XCHG_1 do { if (self->m_prev_suspend_point == &P) { l_done = true; if (old_ == notified) l_owes = true; } } while (0)
int g_pins, g_advertised;   /* the arena is pinned (extra reference) from before the push until after the wake-up: the pushed task may be taken, the stack continued and the arena abandoned by its last thread at once */
static void STUB_arena_ref(void) { g_pins++; } static void STUB_arena_unref(void) { OBLIGATION(g_pins == 1 && g_advertised == 1, "C20.arena: the resumer's arena reference is given back once, after the wake-up"); g_pins--; }
static void STUB_advertise(void) { OBLIGATION(g_pins == 1 && pushes >= 1, "C20.arena: waiting threads are woken after the resume task has been pushed, while the resumer still holds its arena reference"); g_advertised++; }
bool g_crit_allowed;
static bool STUB_target_critical_allowed(struct sp *s) { return g_crit_allowed = nondet_bool(); }
static void STUB_push_resume_task(struct sp *s, int critical) {
    OBLIGATION(s == &P && l_done, "C20: no resume task is pushed while the stack is still active (the leaver has marked it suspended)");
    OBLIGATION(g_role == 0 ? r_owes : l_owes, "C20: a resume task is pushed only by the party that owes it");
    OBLIGATION(critical == !g_crit_allowed, "C20: the resume task goes to the resume stream, which every waiting thread polls, unless the target stack is inside a critical task (then the critical stream) - otherwise isolated waiters never continue it");
    OBLIGATION(g_pins == 1 && g_advertised == 0, "C20.arena: the resume task is pushed while the resumer holds a reference on the arena (the arena outlives the suspended task)");
    pushes++; if (g_role == 0) r_owes = false; else l_owes = false;
}
void r1_resume(struct sp *sp);
#include "sp.inc"
static void init(void) {
    P.m_stack_state = nondet_int(); r_called = nondet_bool(); l_done = nondet_bool(); l_owes = nondet_bool(); r_owes = false; pushes = nondet_unsigned();
    Q.m_stack_state = notified; Q.m_prev_suspend_point = &P; P.m_prev_suspend_point = NULL; g_pins = g_advertised = 0;
}
void h_resumer(void) {
    g_role = 0; init(); __CPROVER_assume(HINV && !r_called);                 /* the one resume() call for this suspension has not happened yet */
    r1_resume(&P);
    OBLIGATION(HINV && r_called && !r_owes, "C20: after resume() the push has happened or is owed by the leaver");
    OBLIGATION(g_pins == 0 && g_advertised == (pushes ? 1 : 0), "C20.arena: resume() returns without a dangling arena reference, and has woken the arena exactly when it pushed");
    leaver_steps(true);                                                      /* let the leaver finish */
    OBLIGATION(pushes == 1 && P.m_stack_state == notified, "C20: exactly one resume task is pushed per suspension, whichever exchange came first");
    VACUITY_END();
}
void h_leaver(void) {
    g_role = 1; init(); __CPROVER_assume(HINV && !l_done);                   /* the leaver is about to mark the stack it left */
    sp_finilize_resume(&Q);
    OBLIGATION(HINV && l_done && !l_owes && Q.m_stack_state == active && Q.m_prev_suspend_point == NULL, "C20: after finilize_resume the new stack is active, the old one suspended or handed to the resumer");
    OBLIGATION(g_pins == 0, "C20.arena: no dangling arena reference");
    resumer_steps(true);
    OBLIGATION(pushes == 1 && P.m_stack_state == notified, "C20: exactly one resume task is pushed per suspension, whichever exchange came first");
    VACUITY_END();
}
void h_recall(void) {
    g_role = 2; P.m_stack_state = suspended; P.m_is_owner_recalled = false; r_called = false; l_done = true; l_owes = r_owes = false; pushes = 0;
    struct sp *s = &Q; Q.m_stack_state = suspended; Q.m_is_owner_recalled = false;   /* recall works on a stack nobody resumes through the hand-shake */
    sp_recall_owner(&Q);
    OBLIGATION(Q.m_stack_state == notified && Q.m_is_owner_recalled, "C20: recall_owner marks the suspended stack notified and raises the recall flag");
    OBLIGATION(pushes == 0, "C20.recall: a recalled stack gets no resume task in a stream: only its owner continues it (get_self_recall_task)");
    VACUITY_END();
}

#ifdef SWITCH
/* The stack-switch discipline.  A thread that leaves a stack records in thread_data::my_post_resume_action what has to be done once it runs on the other stack (register_waiter: the abandoned
   stack goes back to waiting; cleanup: the coroutine it left is cached; notify: the owner of an outermost suspend is recalled and woken).  Whatever runs first on a stack after a switch - the
   code behind the switch in task_dispatcher::resume, or the prologue of a fresh coroutine, co_local_wait_for_all - must perform that action exactly once before anything else: a dropped notify
   means the owner is never recalled and the code after tbb::task::suspend never continues. */
enum { pra_invalid, pra_register_waiter, pra_cleanup, pra_notify, pra_none };       /* order checked by spec.py against scheduler_common.h */
typedef struct task { int d; } task;
struct sp2 { bool m_is_owner_recalled; };
#define sp sp2
struct task_dispatcher; struct arena_slot { struct task_dispatcher *my_default_task_dispatcher; };
struct thread_data { int my_post_resume_action; void *my_post_resume_arg; struct task_dispatcher *my_task_dispatcher; struct arena_slot *my_arena_slot; };
struct properties { bool outermost, fifo_tasks_allowed, critical_task_allowed; }; struct execution_data_ext { void *context; struct task_dispatcher *task_disp; intptr_t isolation; void *wait_ctx; };
struct task_dispatcher { struct thread_data *m_thread_data; struct sp2 *m_suspend_point; struct properties m_properties; struct execution_data_ext m_execute_data_ext; uintptr_t m_stealing_threshold; };
struct snapshot { struct properties p; struct execution_data_ext e; uintptr_t thr; struct sp2 *s; };
#define SAME_DISP(a, d) ((a).p.outermost == (d)->m_properties.outermost && (a).p.fifo_tasks_allowed == (d)->m_properties.fifo_tasks_allowed && (a).p.critical_task_allowed == (d)->m_properties.critical_task_allowed \
    && (a).e.context == (d)->m_execute_data_ext.context && (a).e.task_disp == (d)->m_execute_data_ext.task_disp && (a).e.isolation == (d)->m_execute_data_ext.isolation && (a).e.wait_ctx == (d)->m_execute_data_ext.wait_ctx \
    && (a).thr == (d)->m_stealing_threshold && (a).s == (d)->m_suspend_point)
#define FRAME_TEXT "C20.frame: the code around the stack switch leaves the dispatcher state the suspended task relies on (outermost, fifo/critical permission, isolation, execution data, stealing threshold, suspend point) as it was"

static struct thread_data TD; static struct arena_slot SLOT; static struct task_dispatcher ME, OTHER, DEFLT; static struct sp2 SP_ME, SP_OTHER, SP_PENDING;
int g_rewait, g_unref, g_cache, g_recall, g_wake, g_fin, g_detach, g_attach, g_switch, g_polls; void *g_rewait_arg, *g_cache_arg, *g_recall_arg, *g_wake_arg; int g_pending0; void *g_arg0;
static void STUB_resume_context_notify(void *a) { g_rewait++; g_rewait_arg = a; }
static void STUB_arena_unref_external(struct thread_data *td) { g_unref++; }
static void STUB_co_cache_push(struct thread_data *td, struct task_dispatcher *d) {
    /* d is read back from memory a loop contract havocs: only constants are dereferenced */
    OBLIGATION(d != td->my_task_dispatcher && (d == &OTHER ? OTHER.m_thread_data : d == &ME ? ME.m_thread_data : d == &DEFLT ? DEFLT.m_thread_data : td) != td, "C20.switch: a coroutine is cached (and may be destroyed or handed out again at once) only from another stack, after its thread has left it");
    g_cache++; g_cache_arg = d; }
static void STUB_sp_recall_owner(struct sp2 *s) { __CPROVER_assert(g_wake == 0, "C20.switch: the owner is recalled before its waiters are woken"); g_recall++; g_recall_arg = s; }
/* concurrent_monitor::notify(pred): wakes the sleepers whose context satisfies pred.  The owner of a recalled stack sleeps (coroutine_waiter::pause, job rtask.self_recall) under the address of its
   default stack's suspend point: the sliced predicate must select that context, or the owner of an arena without other threads is never woken and the suspended code never continues */
struct market_context { uintptr_t my_uniq_addr; void *my_arena_addr; }; bool g_wake_owner;
#define NOTIFY_WAITERS(td, pred) do { struct market_context owner_ = { (uintptr_t)g_arg0, NULL }; g_wake++; g_wake_owner = pred(owner_); } while (0)
static void STUB_sp_finilize_resume(struct sp2 *s) { __CPROVER_assert(g_recall + g_cache + g_rewait == 0, "C20.switch: the hand-shake with the stack that was left (finilize_resume) comes before the post-resume action"); g_fin++; }
static void STUB_detach_task_dispatcher(struct thread_data *td) { g_detach++; td->my_task_dispatcher = NULL; }
static void STUB_attach_task_dispatcher(struct thread_data *td, struct task_dispatcher *d) { __CPROVER_assert(g_detach == g_attach + 1, "C20.switch: detach, then attach"); g_attach++; td->my_task_dispatcher = d; }
static void arrive_with_pending(struct task_dispatcher *d) {       /* somebody switched (back) to stack d and left an arbitrary pending action */
    d->m_thread_data = &TD; TD.my_task_dispatcher = d; int k = nondet_int(); __CPROVER_assume(k == pra_register_waiter || k == pra_cleanup || k == pra_notify || k == pra_none);
    TD.my_post_resume_action = g_pending0 = k; TD.my_post_resume_arg = g_arg0 = (k == pra_none ? NULL : (k == pra_notify ? (void *)&SP_PENDING : (k == pra_cleanup ? (void *)&OTHER : (void *)&g_polls)));
    g_rewait = g_unref = g_cache = g_recall = g_wake = 0;
}
#define ACTION_DONE_ONCE (TD.my_post_resume_action == pra_none && TD.my_post_resume_arg == NULL \
   && g_rewait == (g_pending0 == pra_register_waiter) && (g_pending0 != pra_register_waiter || g_rewait_arg == g_arg0) \
   && g_unref == (g_pending0 == pra_cleanup) && g_cache == (g_pending0 == pra_cleanup) && (g_pending0 != pra_cleanup || g_cache_arg == g_arg0) \
   && g_recall == (g_pending0 == pra_notify) && g_wake == (g_pending0 == pra_notify) && (g_pending0 != pra_notify || (g_recall_arg == g_arg0 && g_wake_owner)))
static void STUB_coroutine_switch(struct task_dispatcher *self, struct task_dispatcher *target) {
    __CPROVER_assert(TD.my_task_dispatcher == target && g_attach == 1, "C20.switch: the thread is attached to the target dispatcher before the stacks are switched");
    g_switch++; if (nondet_bool()) { self->m_thread_data = NULL; return; }     /* this stack is never continued with a thread attached (abandoned coroutine) */
    arrive_with_pending(self);
}
void td_do_post_resume_action(struct task_dispatcher *self);
bool td_resume(struct task_dispatcher *self, struct task_dispatcher *target);
static task RT;
static task *STUB_local_wait_for_all(struct task_dispatcher *self) {
    __CPROVER_assert(TD.my_post_resume_action == pra_none, "C20.forgotten: a stack that has just been entered performs the post-resume action the previous stack left behind BEFORE it starts dispatching - otherwise an owner waiting to be recalled (notify) is never woken and the suspended code never continues");
    g_polls = 1; return &RT;
}
static bool STUB_switch_to_target_of(struct task_dispatcher *self, task *t) {      /* task_dispatcher::resume(target) by its contract (job switch.resume) */
    __CPROVER_assert(TD.my_post_resume_action == pra_cleanup && TD.my_post_resume_arg == self, "C20.switch: a coroutine that hands its thread on asks for ITS OWN caching");
    if (nondet_bool()) return false; arrive_with_pending(self); td_do_post_resume_action(self); return true;
}
static struct sp2 *STUB_get_suspend_point(struct task_dispatcher *self) { return self->m_suspend_point; }
int g_suspends;
static void STUB_internal_suspend(struct task_dispatcher *self) { __CPROVER_assert(TD.my_post_resume_action == pra_notify && TD.my_post_resume_arg == self->m_suspend_point, "C20.switch: an outermost level that ends on a foreign stack leaves asking for the recall of THIS stack's owner"); g_suspends++; TD.my_post_resume_action = pra_none; TD.my_post_resume_arg = NULL; }
static bool STUB_inbox_is_idle(struct task_dispatcher *self) { return nondet_bool(); }
static void STUB_inbox_set_idle_false(struct task_dispatcher *self) {}
#define LOOP_colw_1 __CPROVER_assigns(resume_task, TD, ME.m_thread_data, g_polls, g_pending0, g_arg0, g_rewait, g_unref, g_cache, g_recall, g_wake, g_rewait_arg, g_cache_arg, g_recall_arg, g_wake_arg, g_wake_owner) \
  __CPROVER_loop_invariant(TD.my_post_resume_action == pra_none && TD.my_post_resume_arg == NULL && ME.m_thread_data == &TD && TD.my_task_dispatcher == &ME)
#include "switch.inc"
static struct snapshot havoc_disp(struct task_dispatcher *d) { struct snapshot s; d->m_properties.outermost = nondet_bool(); d->m_properties.fifo_tasks_allowed = nondet_bool(); d->m_properties.critical_task_allowed = nondet_bool();
    d->m_execute_data_ext.context = nondet_ptr(); d->m_execute_data_ext.task_disp = d; d->m_execute_data_ext.isolation = nondet_intptr_t(); d->m_execute_data_ext.wait_ctx = nondet_ptr(); d->m_stealing_threshold = nondet_uintptr_t();
    s.p = d->m_properties; s.e = d->m_execute_data_ext; s.thr = d->m_stealing_threshold; s.s = d->m_suspend_point; return s; }
static void world(void) { SLOT.my_default_task_dispatcher = &DEFLT; TD.my_arena_slot = &SLOT; ME.m_suspend_point = &SP_ME; OTHER.m_suspend_point = &SP_OTHER; DEFLT.m_suspend_point = &SP_OTHER;
    g_fin = g_detach = g_attach = g_switch = g_polls = g_suspends = 0; OTHER.m_thread_data = NULL; DEFLT.m_thread_data = NULL; ME.m_thread_data = NULL; }   /* a dispatcher nobody runs on has no thread (detach precedes every switch) */
void h_post_action(void) {
    world(); arrive_with_pending(&ME); struct snapshot s0 = havoc_disp(&ME); struct snapshot s1 = havoc_disp(&OTHER);
    td_do_post_resume_action(&ME);
    OBLIGATION(SAME_DISP(s0, &ME) && SAME_DISP(s1, &OTHER), FRAME_TEXT);
    OBLIGATION(ACTION_DONE_ONCE, "C20.switch: do_post_resume_action performs exactly the pending action, once, on its own argument (waiter re-registered | coroutine unreferenced and cached | owner recalled, then the sleepers waiting for exactly this suspend point woken), and clears it");
    VACUITY_END();
}
void h_prologue(void) {
    world(); arrive_with_pending(&ME); int first = g_pending0; void *arg = g_arg0;
    td_co_local_wait_for_all(&ME);
    OBLIGATION(g_fin == 1, "C20.switch: the coroutine prologue completes the hand-shake with the stack that was left exactly once");
    VACUITY_END();
}
void h_td_resume(void) {
    world(); struct task_dispatcher *self = nondet_bool() ? &ME : &DEFLT; self->m_thread_data = &TD; TD.my_task_dispatcher = self; TD.my_post_resume_action = nondet_int(); TD.my_post_resume_arg = nondet_ptr();
    struct snapshot s0 = havoc_disp(self); struct snapshot s1 = havoc_disp(&OTHER);
    int act0 = TD.my_post_resume_action; void *arg0 = TD.my_post_resume_arg; SP_ME.m_is_owner_recalled = nondet_bool(); SP_OTHER.m_is_owner_recalled = nondet_bool(); bool rme = SP_ME.m_is_owner_recalled, rot = SP_OTHER.m_is_owner_recalled;
    bool r = td_resume(self, &OTHER);
    OBLIGATION(g_switch == 1 && g_detach == 1 && g_attach == 1, "C20.switch: resume switches stacks exactly once, with the thread re-attached to the target first");
    OBLIGATION(SAME_DISP(s0, self) && SAME_DISP(s1, &OTHER), FRAME_TEXT);
    if (self->m_thread_data == NULL) OBLIGATION(!r && g_rewait + g_unref + g_cache + g_recall + g_wake == 0 && SP_ME.m_is_owner_recalled == rme && SP_OTHER.m_is_owner_recalled == rot, "C20.switch: a stack that is not continued touches nothing");
    else {
        OBLIGATION(r && ACTION_DONE_ONCE, "C20.forgotten: when a stack is continued the post-resume action left by the previous stack is performed exactly once, first thing");
        OBLIGATION(self == &DEFLT ? !SP_OTHER.m_is_owner_recalled : (SP_ME.m_is_owner_recalled == rme && SP_OTHER.m_is_owner_recalled == rot), "C20.switch: the recall flag is cleared exactly when the thread is back on its own default stack");
    }
    VACUITY_END();
}
void h_recall_point(void) {
    world(); struct task_dispatcher *self = nondet_bool() ? &ME : &DEFLT; self->m_thread_data = &TD; TD.my_task_dispatcher = self; TD.my_post_resume_action = pra_none; TD.my_post_resume_arg = NULL; SP_ME.m_is_owner_recalled = false; SP_OTHER.m_is_owner_recalled = false;
    struct snapshot s0 = havoc_disp(self);
    td_recall_point(self);
    OBLIGATION(SAME_DISP(s0, self), FRAME_TEXT);
    OBLIGATION(g_suspends == (self != &DEFLT), "C20.switch: at the end of an outermost level, a thread that is on a foreign stack leaves it (asking for the recall of its owner); on its own default stack it just returns");
    VACUITY_END();
}
#endif
