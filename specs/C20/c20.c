/* C20 harnesses: the suspend/resume hand-shake on suspend_point_type::m_stack_state, both race orders, thread-modular. */
#include "verif.h"
enum { active, suspended, notified };
struct sp { int m_stack_state; bool m_is_owner_recalled; bool m_is_critical; struct sp *m_prev_suspend_point; };
static struct sp P /* the stack being suspended and resumed */, Q /* the stack the leaver switched to */;
/* ghost */
bool r_called /* the resumer did its exchange */, l_done /* the leaver did its exchange */, l_owes, r_owes; unsigned pushes; int g_role; /* 0: code under proof is the resumer, 1: the leaver */
#define HINV ( (!r_called && !l_done ? (P.m_stack_state == active && pushes == 0 && !l_owes && !r_owes) : 1) \
            && (!r_called &&  l_done ? (P.m_stack_state == suspended && pushes == 0 && !l_owes && !r_owes) : 1) \
            && ( r_called && !l_done ? (P.m_stack_state == notified && pushes == 0 && !l_owes && !r_owes) : 1) \
            && ( r_called &&  l_done ? ((l_owes && !r_owes && (P.m_stack_state == suspended || P.m_stack_state == notified) && pushes == 0) || (r_owes && !l_owes && P.m_stack_state == notified && pushes == 0) \
                                        || (!l_owes && !r_owes && P.m_stack_state == notified && pushes == 1)) : 1) )
/* the other party's possible steps */
static void leaver_steps(bool force) {
    if (!l_done && (force || nondet_bool())) { int old = P.m_stack_state; P.m_stack_state = suspended; l_done = true; if (old == notified) l_owes = true; }
    if (l_owes && (force || nondet_bool())) { P.m_stack_state = notified; pushes++; l_owes = false; }     /* its own r1::resume: exchange(notified) finds suspended, pushes */
}
static void resumer_steps(bool force) {
    if (!r_called && (force || nondet_bool())) { int old = P.m_stack_state; P.m_stack_state = notified; r_called = true; if (old == suspended) pushes++; }
}
static void interfere(void) { if (g_role == 0) leaver_steps(false); else resumer_steps(false); }
#define PLAIN_READ(f) (f)
#define ATOMIC_STORE_AT(site, f, v) do { interfere(); (f) = (v); __CPROVER_assert(HINV, "guarantee: hand-shake invariant at " #site); } while (0)
#define ATOMIC_XCHG_AT(site, f, v) ({ interfere(); int old_ = (f); (f) = (v); GHOST_##site; __CPROVER_assert(HINV, "guarantee: hand-shake invariant at " #site); old_; })
/* try_notify_resume's exchange: by the resumer (first call) or by the leaver that found the stack notified */
#define GHOST_tnr_XCHG_1 do { if (self == &P) { if (g_role == 0) { __CPROVER_assert(!r_called, "resume is called once"); r_called = true; if (old_ == suspended) r_owes = true; } \
                                              else { __CPROVER_assert(l_owes && old_ == suspended, "C20: the leaver re-issues the resume only for a stack it has just marked suspended"); } } } while (0)
#define GHOST_fin_XCHG_1 do { if (self->m_prev_suspend_point == &P) { l_done = true; if (old_ == notified) l_owes = true; } } while (0)
static void STUB_arena_ref(void) {} static void STUB_arena_unref(void) {} static void STUB_advertise(void) {}
bool g_crit_allowed;
static bool STUB_target_critical_allowed(struct sp *s) { return g_crit_allowed = nondet_bool(); }
static void STUB_push_resume_task(struct sp *s, int critical) {
    OBLIGATION(s == &P && l_done, "C20: no resume task is pushed while the stack is still active (the leaver has marked it suspended)");
    OBLIGATION(g_role == 0 ? r_owes : l_owes, "C20: a resume task is pushed only by the party that owes it");
    OBLIGATION(critical == !g_crit_allowed, "C20: the resume task goes to the resume stream, which every waiting thread polls, unless the target stack is inside a critical task (then the critical stream) - otherwise isolated waiters never continue it");
    pushes++; if (g_role == 0) r_owes = false; else l_owes = false;
}
void r1_resume(struct sp *sp);
#include "sp.inc"
static void init(void) {
    P.m_stack_state = nondet_int(); r_called = nondet_bool(); l_done = nondet_bool(); l_owes = nondet_bool(); r_owes = false; pushes = nondet_unsigned();
    Q.m_stack_state = notified; Q.m_prev_suspend_point = &P; P.m_prev_suspend_point = NULL;
}
void h_resumer(void) {
    g_role = 0; init(); __CPROVER_assume(HINV && !r_called);                 /* the one resume() call for this suspension has not happened yet */
    r1_resume(&P);
    OBLIGATION(HINV && r_called && !r_owes, "C20: after resume() the push has happened or is owed by the leaver");
    leaver_steps(true);                                                      /* let the leaver finish */
    OBLIGATION(pushes == 1 && P.m_stack_state == notified, "C20: exactly one resume task is pushed per suspension, whichever exchange came first");
    VACUITY_END();
}
void h_leaver(void) {
    g_role = 1; init(); __CPROVER_assume(HINV && !l_done);                   /* the leaver is about to mark the stack it left */
    sp_finilize_resume(&Q);
    OBLIGATION(HINV && l_done && !l_owes && Q.m_stack_state == active && Q.m_prev_suspend_point == NULL, "C20: after finilize_resume the new stack is active, the old one suspended or handed to the resumer");
    resumer_steps(true);
    OBLIGATION(pushes == 1 && P.m_stack_state == notified, "C20: exactly one resume task is pushed per suspension, whichever exchange came first");
    VACUITY_END();
}
void h_recall(void) {
    g_role = 2; P.m_stack_state = suspended; P.m_is_owner_recalled = false; r_called = false; l_done = true; l_owes = r_owes = false; pushes = 0;
    struct sp *s = &Q; Q.m_stack_state = suspended; Q.m_is_owner_recalled = false;   /* recall works on a stack nobody resumes through the hand-shake */
    sp_recall_owner(&Q);
    OBLIGATION(Q.m_stack_state == notified && Q.m_is_owner_recalled, "C20: recall_owner marks the suspended stack notified and raises the recall flag");
    VACUITY_END();
}
