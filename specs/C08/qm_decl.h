/* ghost state and invariant of the MCS token protocol (included before the sliced qm.inc, after struct forward decls) */
#include "qm_struct.inc"   /* struct qnode: members harvested from the real scoped_lock, in declared order */
struct qmutex M; struct qnode me, A /* a node that was tail before me (my predecessor) */, B /* a node enqueued after me */;
int tok; bool me_in, me_has_pred, me_linked; struct qnode *g_succ, *g_pred;
#define QINV ( ((M.q_tail == NULL) == (tok == T_FREE)) \
  && (!me_in ? ((tok == T_FREE || tok == T_OTHER) && M.q_tail != &me) : 1) \
  && (me_in ? M.q_tail != NULL : 1) \
  && ((me_in && tok == T_OTHER) ? me.m_going == 0 : 1) \
  && (M.q_tail == &me ? me.m_next == NULL : 1) \
  && (me.m_next != NULL && me_in ? (me.m_next == g_succ && g_succ == &B) : 1) \
  && (tok == T_ME_INFLIGHT ? (me_has_pred && me_linked) : 1) )
/* rely: what any number of other threads running the same code can do, given what this thread currently owns */
static void interfere(void) {
    if (nondet_bool()) {                                   /* another thread publishes its (clean) node at the tail */
        struct qnode *n = me_in ? &B : &A;
        if (!(me_in && M.q_tail == &B)) { n->m_next = NULL; n->m_going = 0; }
        if (M.q_tail == &me) g_succ = n;
        if (tok == T_FREE) tok = T_OTHER;
        M.q_tail = n;
    }
    if (me_in && g_succ && me.m_next == NULL && M.q_tail != &me && nondet_bool()) me.m_next = g_succ;   /* my successor links itself */
    if (tok == T_OTHER && !me_in && nondet_bool()) { M.q_tail = NULL; tok = T_FREE; }                    /* the last other holder releases */
    if (tok == T_OTHER && me_in && me_has_pred && me_linked && nondet_bool()) { me.m_going = 1; tok = T_ME_INFLIGHT; }  /* my predecessor grants me */
}
#define NOG ((void)0)
#define GHOSTPRE_acquire_STORE_1 NOG
#define GHOSTPRE_acquire_STORE_2 NOG
#define GHOSTPRE_acquire_STORE_3 NOG
#define GHOSTPRE_try_acquire_STORE_1 NOG
#define GHOSTPRE_try_acquire_STORE_2 NOG
#define GHOST_acquire_STORE_1 NOG
#define GHOST_acquire_STORE_2 NOG
#define GHOST_try_acquire_STORE_1 NOG
#define GHOST_try_acquire_STORE_2 NOG
#define PUBLISH_CLEAN(site) __CPROVER_assert(me.m_going == 0 && me.m_next == NULL, "guarantee: a node is published with m_going == 0 and m_next == nullptr, at " site)
#define GHOST_acquire_XCHG_1 { PUBLISH_CLEAN("acquire's q_tail exchange"); me_in = true; g_pred = old_; \
    if (old_ == NULL) { __CPROVER_assert(tok == T_FREE, "an empty queue means a free lock"); tok = T_ME; me_has_pred = false; me_linked = true; } else { me_has_pred = true; me_linked = false; } }
#define GHOST_acquire_STORE_3 { me_linked = true; }
#define GHOST_try_acquire_CAS_1 if (r_) { PUBLISH_CLEAN("try_acquire's q_tail CAS"); me_in = true; me_has_pred = false; me_linked = true; tok = T_ME; }
#define GHOST_release_CAS_1 if (r_) { __CPROVER_assert(tok == T_ME, "guarantee: only the holder empties the queue"); tok = T_FREE; me_in = false; }
#define GHOSTPRE_release_STORE_1 __CPROVER_assert(tok == T_ME, "guarantee: only the holder grants the lock to its successor")
#define GHOST_release_STORE_1 { tok = T_OTHER; me_in = false; }
