/* C08 / speculative mutexes: rtm_mutex_impl and rtm_rw_mutex_impl (rtm.inc, rtmrw.inc: generated from /repo on every run) with the hardware transaction, the speculation switch
   and the underlying real lock (spin_mutex / spin_rw_mutex, proved in c08.c) as callee stubs.
     begin_transaction: returns "started" or any abort code; abort_transaction: the path ends (a rolled-back transaction IS the path on which begin_transaction returned the code);
     a word of the real lock read outside the real lock may hold anything (other threads); the real lock's blocking operations count as blocking.
   Decided: what each entry point leaves held (a running transaction / the real lock in the right mode / nothing), that release gives back exactly that, that try_* never block and are
   truthful, the write_flag bookkeeping of rtm_rw_mutex, truthful upgrade.  Not decided: that a conflicting real locker aborts the transaction (hardware read-set semantics). */
#include "verif.h"
#include "rtm_decl.inc"
typedef intptr_t state_type;
bool g_in_tx, g_tx_read, g_tx_read_clear; unsigned g_blocked, g_begin, g_end, g_lock, g_unlock;
static bool STUB_speculation_enabled(void) { return nondet_bool(); }
static unsigned int STUB_begin_transaction(void) {
    unsigned int c = nondet_unsigned();
    if (c == (unsigned int)speculation_successful_begin) { OBLIGATION(!g_in_tx, "C08.rtm: transactions are not nested"); g_in_tx = true; g_begin++; g_tx_read = false; }
    return c;
}
static void STUB_abort_transaction(void) { OBLIGATION(g_in_tx, "C08.rtm: abort only inside a transaction"); __CPROVER_assume(0); }
static void STUB_end_transaction(void) { OBLIGATION(g_in_tx, "C08.rtm: a transaction is committed only by the scoped_lock that runs it"); g_in_tx = false; g_end++; }
static unsigned char STUB_is_in_transaction(void) { return g_in_tx; }
#define PLAIN_READ(x) (x)

#ifdef RTM
struct rtm_mutex { bool m_flag; };
struct rtm_lock { struct rtm_mutex* m_mutex; enum rtm_state m_transaction_state; };
struct rtm_mutex M; struct rtm_lock S; bool g_real;
#define ATOMIC_LOAD_AT(site, f) ({ if (!g_real) (f) = nondet_bool(); if (g_in_tx) { g_tx_read = true; g_tx_read_clear = !(f); } (f); })
#define SPIN_WAIT_WHILE_EQ(f, v) do { g_blocked++; (f) = nondet_bool(); __CPROVER_assume((f) != (v)); } while (0)
static void STUB_real_lock(struct rtm_mutex *m) { OBLIGATION(m == &M && !g_real && !g_in_tx, "C08.rtm: the real lock is taken on the mutex asked for, once, and never inside a transaction"); g_blocked++; g_lock++; g_real = true; M.m_flag = true; }
static bool STUB_real_try_lock(struct rtm_mutex *m) { OBLIGATION(m == &M && !g_real && !g_in_tx, "C08.rtm: the real lock is taken on the mutex asked for, once, and never inside a transaction"); bool ok = nondet_bool(); if (ok) { g_lock++; g_real = true; M.m_flag = true; } return ok; }
static void STUB_real_unlock(struct rtm_mutex *m) { OBLIGATION(m == &M && g_real, "C08.rtm: release unlocks the real lock only if this scoped_lock took it"); g_unlock++; g_real = false; M.m_flag = false; }
#define LOOP_acquire_1
#include "rtm.inc"
static void pre_idle(void) { M.m_flag = nondet_bool(); S.m_mutex = NULL; S.m_transaction_state = rtm_none; g_in_tx = g_real = g_tx_read = false; g_blocked = g_begin = g_end = g_lock = g_unlock = 0; }
#define HOLDS_RIGHT (S.m_transaction_state == rtm_transacting ? (g_in_tx && !g_real && S.m_mutex == &M && g_tx_read && g_tx_read_clear) : \
                     S.m_transaction_state == rtm_real ? (g_real && !g_in_tx && S.m_mutex == &M) : (S.m_transaction_state == rtm_none && !g_in_tx && !g_real && S.m_mutex == NULL))
bool IN_only;
void h_rtm_acquire(void) {
    pre_idle(); bool only = IN_only = nondet_bool();
    rtm_acquire(&M, &S, only);
    OBLIGATION(HOLDS_RIGHT, "C08.rtm: after acquire the scoped_lock says exactly what it holds: a running transaction that has read the real lock's flag as clear (the flag is in its read set), or the real lock, or nothing");
    OBLIGATION(only ? (S.m_transaction_state != rtm_real && g_blocked == 0) : S.m_transaction_state != rtm_none, "C08.rtm: the blocking acquire always ends up holding (speculatively or for real); the speculate-only form never blocks and never takes the real lock");
    VACUITY_END();
}
void h_rtm_try_acquire(void) {
    pre_idle();
    bool ok = rtm_try_acquire(&M, &S);
    OBLIGATION(HOLDS_RIGHT && ok == (S.m_transaction_state != rtm_none), "C08.rtm: try_acquire is truthful: true iff it now speculates or holds the real lock, and it holds nothing when it fails");
    OBLIGATION(g_blocked == 0, "C08.rtm: try_acquire never blocks");
    VACUITY_END();
}
void h_rtm_release(void) {
    pre_idle(); bool tx = nondet_bool();
    S.m_mutex = &M; if (tx) { S.m_transaction_state = rtm_transacting; g_in_tx = true; } else { S.m_transaction_state = rtm_real; g_real = true; M.m_flag = true; }
    rtm_release(&S);
    OBLIGATION(S.m_transaction_state == rtm_none && S.m_mutex == NULL && !g_in_tx && !g_real, "C08.rtm: after release nothing is held and the scoped_lock says so");
    OBLIGATION(tx ? (g_end == 1 && g_unlock == 0) : (g_end == 0 && g_unlock == 1), "C08.rtm: release gives back exactly what was acquired: it commits the transaction of a speculating holder, unlocks the real lock of a real holder - never the other");
    VACUITY_END();
}
#endif

#ifdef RTMRW
struct rtmrw_mutex { state_type m_state; bool write_flag; };
struct rtmrw_lock { struct rtmrw_mutex* m_mutex; enum rtm_type m_transaction_state; };
struct rtmrw_mutex M; struct rtmrw_lock S; int g_real;      /* 0 none, 1 shared, 2 exclusive */
bool g_up_result; unsigned g_upgrade, g_downgrade, g_unlock_shared;
/* words of the real lock change under other threads' hands only while this thread does not hold it; write_flag is true only while some real writer holds the lock (rely; its guarantee
   side are the obligations on the stores below), so it reads false for whoever has just taken the real lock */
#define ATOMIC_LOAD_AT(site, f) ({ if (g_real == 0) { M.m_state = nondet_intptr_t(); M.write_flag = nondet_bool(); } if (g_in_tx) { g_tx_read = true; g_tx_read_clear = !(f); } (f); })
#define ATOMIC_STORE_AT(site, f, v) do { OBLIGATION(&(f) == &M.write_flag && g_real == 2 && !g_in_tx, "C08.rtm_rw: write_flag is written only by the thread that holds the real lock as writer, outside any transaction"); (f) = (v); } while (0)
#define SPIN_WAIT_WHILE_EQ(f, v) do { g_blocked++; M.write_flag = nondet_bool(); __CPROVER_assume((f) != (v)); } while (0)
#define SPIN_WAIT_UNTIL_EQ(f, v) do { g_blocked++; M.m_state = nondet_intptr_t(); __CPROVER_assume((f) == (v)); } while (0)
#define TAKE(mode, blocking) do { OBLIGATION(m == &M && g_real == 0 && !g_in_tx, "C08.rtm_rw: the real lock is taken on the mutex asked for, once, and never inside a transaction"); if (blocking) g_blocked++; g_lock++; g_real = (mode); M.write_flag = false; M.m_state = nondet_intptr_t(); __CPROVER_assume(M.m_state != 0); } while (0)
static void STUB_real_lock(struct rtmrw_mutex *m) { TAKE(2, true); }
static void STUB_real_lock_shared(struct rtmrw_mutex *m) { TAKE(1, true); }
static bool STUB_real_try_lock(struct rtmrw_mutex *m) { bool ok = nondet_bool(); if (ok) TAKE(2, false); else OBLIGATION(m == &M && g_real == 0 && !g_in_tx, "C08.rtm_rw: the real lock is tried on the mutex asked for, never inside a transaction"); return ok; }
static bool STUB_real_try_lock_shared(struct rtmrw_mutex *m) { bool ok = nondet_bool(); if (ok) TAKE(1, false); else OBLIGATION(m == &M && g_real == 0 && !g_in_tx, "C08.rtm_rw: the real lock is tried on the mutex asked for, never inside a transaction"); return ok; }
static void STUB_real_unlock(struct rtmrw_mutex *m) { OBLIGATION(m == &M && g_real == 2, "C08.rtm_rw: the exclusive real lock is unlocked only by the scoped_lock that holds it"); OBLIGATION(!M.write_flag, "C08.rtm_rw: write_flag is cleared while the write lock is still held (the next writer's flag is never wiped out)"); g_unlock++; g_real = 0; }
static void STUB_real_unlock_shared(struct rtmrw_mutex *m) { OBLIGATION(m == &M && g_real == 1, "C08.rtm_rw: the shared real lock is unlocked only by the scoped_lock that holds it"); g_unlock_shared++; g_real = 0; }
static bool STUB_real_upgrade(struct rtmrw_mutex *m) { OBLIGATION(m == &M && g_real == 1, "C08.rtm_rw: only a real reader upgrades the real lock"); g_upgrade++; g_real = 2; M.write_flag = false; g_up_result = nondet_bool(); return g_up_result; }
static void STUB_real_downgrade(struct rtmrw_mutex *m) { OBLIGATION(m == &M && g_real == 2, "C08.rtm_rw: only a real writer downgrades the real lock"); OBLIGATION(!M.write_flag, "C08.rtm_rw: write_flag is cleared before the real lock lets readers in"); g_downgrade++; g_real = 1; }
#define LOOP_rw_acquire_writer_1
#define LOOP_rw_acquire_reader_1
#include "rtmrw.inc"
static void pre_idle(void) { M.m_state = nondet_intptr_t(); M.write_flag = nondet_bool(); S.m_mutex = NULL; S.m_transaction_state = rtm_not_in_mutex; g_in_tx = g_tx_read = false; g_real = 0;
    g_blocked = g_begin = g_end = g_lock = g_unlock = g_upgrade = g_downgrade = g_unlock_shared = 0; }
static void pre_state(enum rtm_type st) { pre_idle(); S.m_mutex = &M; S.m_transaction_state = st;
    if (st == rtm_transacting_reader || st == rtm_transacting_writer) g_in_tx = true;
    if (st == rtm_real_reader) { g_real = 1; M.write_flag = false; __CPROVER_assume(M.m_state != 0); }
    if (st == rtm_real_writer) { g_real = 2; M.write_flag = true; __CPROVER_assume(M.m_state != 0); } }
#define ST S.m_transaction_state
#define TXFRESH (g_tx_read && g_tx_read_clear)
#define HOLDS_RIGHT(fresh) ((ST == rtm_transacting_reader || ST == rtm_transacting_writer) ? (g_in_tx && g_real == 0 && S.m_mutex == &M && (fresh)) : \
     ST == rtm_real_reader ? (g_real == 1 && !g_in_tx && S.m_mutex == &M && !M.write_flag) : ST == rtm_real_writer ? (g_real == 2 && !g_in_tx && S.m_mutex == &M && M.write_flag) : \
     (ST == rtm_not_in_mutex && !g_in_tx && g_real == 0 && S.m_mutex == NULL))
#define HOLD_TEXT "the scoped_lock says exactly what it holds: a running transaction that has read the lock word / write_flag as clear, or the real lock in the matching mode with write_flag set iff it is the real writer, or nothing"
bool IN_only;
void h_rtmrw_acquire_writer(void) { pre_idle(); bool only = IN_only = nondet_bool(); rtmrw_acquire_writer(&M, &S, only);
    OBLIGATION(HOLDS_RIGHT(TXFRESH) && ST != rtm_transacting_reader && ST != rtm_real_reader, "C08.rtm_rw: after acquire_writer " HOLD_TEXT);
    OBLIGATION(only ? (ST != rtm_real_writer && g_blocked == 0) : ST != rtm_not_in_mutex, "C08.rtm_rw: the blocking acquire always ends up holding; the speculate-only form never blocks and never takes the real lock"); VACUITY_END(); }
void h_rtmrw_acquire_reader(void) { pre_idle(); bool only = IN_only = nondet_bool(); rtmrw_acquire_reader(&M, &S, only);
    OBLIGATION(HOLDS_RIGHT(TXFRESH) && ST != rtm_transacting_writer && ST != rtm_real_writer, "C08.rtm_rw: after acquire_reader " HOLD_TEXT);
    OBLIGATION(only ? (ST != rtm_real_reader && g_blocked == 0) : ST != rtm_not_in_mutex, "C08.rtm_rw: the blocking acquire always ends up holding; the speculate-only form never blocks and never takes the real lock"); VACUITY_END(); }
void h_rtmrw_try_acquire_writer(void) { pre_idle(); bool ok = rtmrw_try_acquire_writer(&M, &S);
    OBLIGATION(HOLDS_RIGHT(TXFRESH) && ok == (ST == rtm_transacting_writer || ST == rtm_real_writer) && (ok || ST == rtm_not_in_mutex), "C08.rtm_rw: try_acquire_writer is truthful and holds nothing when it fails; " HOLD_TEXT);
    OBLIGATION(g_blocked == 0, "C08.rtm_rw: try_acquire_writer never blocks"); VACUITY_END(); }
void h_rtmrw_try_acquire_reader(void) { pre_idle(); bool ok = rtmrw_try_acquire_reader(&M, &S);
    OBLIGATION(HOLDS_RIGHT(TXFRESH) && ok == (ST == rtm_transacting_reader || ST == rtm_real_reader) && (ok || ST == rtm_not_in_mutex), "C08.rtm_rw: try_acquire_reader is truthful and holds nothing when it fails; " HOLD_TEXT);
    OBLIGATION(g_blocked == 0, "C08.rtm_rw: try_acquire_reader never blocks"); VACUITY_END(); }
int IN_state;
void h_rtmrw_release(void) { int k = IN_state = nondet_int(); __CPROVER_assume(k >= 1 && k <= 4); enum rtm_type st = (enum rtm_type)k; pre_state(st); rtmrw_release(&S);
    OBLIGATION(HOLDS_RIGHT(1) && ST == rtm_not_in_mutex, "C08.rtm_rw: after release nothing is held and the scoped_lock says so");
    OBLIGATION(g_end == (st == rtm_transacting_reader || st == rtm_transacting_writer) && g_unlock_shared == (st == rtm_real_reader) && g_unlock == (st == rtm_real_writer),
               "C08.rtm_rw: release gives back exactly what was acquired: commits a transaction, or unlock_shared for a real reader, or unlock for a real writer - never another");
    VACUITY_END(); }
void h_rtmrw_upgrade(void) { bool tx = nondet_bool(); IN_state = tx; pre_state(tx ? rtm_transacting_reader : rtm_real_reader); bool r = rtmrw_upgrade(&S);
    OBLIGATION(HOLDS_RIGHT(tx ? (r || TXFRESH) : 1) && (ST == rtm_transacting_writer || ST == rtm_real_writer), "C08.rtm_rw: after upgrade the scoped_lock is a writer; " HOLD_TEXT);
    if (!tx) OBLIGATION(g_upgrade == 1 && r == g_up_result && g_unlock_shared == 0 && g_end == 0, "C08.rtm_rw: a real reader upgrades the real lock once and passes its verdict on (false exactly when the real lock was released in between)");
    else OBLIGATION(r ? (g_end == 0 && g_begin == 0 && g_lock == 0 && ST == rtm_transacting_writer) : g_end == 1, "C08.rtm_rw: truthful upgrade of a speculating reader: true only if the same transaction goes on (nobody can have written in between), false exactly when it committed and acquired anew");
    VACUITY_END(); }
void h_rtmrw_downgrade(void) { bool tx = nondet_bool(); IN_state = tx; pre_state(tx ? rtm_transacting_writer : rtm_real_writer); bool r = rtmrw_downgrade(&S);
    OBLIGATION(r && HOLDS_RIGHT(1) && ST == (tx ? rtm_transacting_reader : rtm_real_reader), "C08.rtm_rw: downgrade keeps holding (same transaction / the real lock downgraded in one step, write_flag cleared first): no writer gets in");
    OBLIGATION(g_downgrade == !tx && g_unlock == 0 && g_end == 0 && g_lock == 0 && g_begin == 0, "C08.rtm_rw: downgrade never releases and re-acquires"); VACUITY_END(); }
#endif
