"""C08 -- mutexes: mutual exclusion, reader/writer rules, truthful try/upgrade/downgrade (state-word protocols, rely/guarantee)."""
import os
import sys
import re
HERE = os.path.dirname(os.path.abspath(__file__))
sys.path.insert(0, os.path.join(HERE, '..'))
sys.path.insert(0, os.path.join(HERE, '..', '..', 'tools'))
import common
import native
from cxx2c import Rewriter, CClass, slice_block, tag_loops, ExtractionBreak, load, mask, strip_comments, cpp_resolve, match_close
from prove import Job

SRW = 'include/oneapi/tbb/spin_rw_mutex.h'
SM = 'include/oneapi/tbb/spin_mutex.h'
QM = 'include/oneapi/tbb/queuing_mutex.h'
RWM = 'include/oneapi/tbb/rw_mutex.h'

SRW_METHODS = [  # name, signature, atomic sites, loops
    ('lock', r'void lock\(\)', 3, 1), ('try_lock', r'bool try_lock\(\)', 2, 0), ('unlock', r'void unlock\(\)', 1, 0),
    ('lock_shared', r'void lock_shared\(\)', 3, 1), ('try_lock_shared', r'bool try_lock_shared\(\)', 3, 0),
    ('unlock_shared', r'void unlock_shared\(\)', 1, 0), ('upgrade', r'bool upgrade\(\)', 4, 2), ('downgrade', r'void downgrade\(\)', 1, 0)]


def closed_world(rel, cls_sig, field, allowed_methods, extra_ok=()):
    """every textual use of `field` inside the class lies in a listed method (or a listed ctor/dtor/declaration line)"""
    cls = slice_block(rel, cls_sig).text
    m = mask(cls)
    spans = []
    for name, sig in allowed_methods:
        h = re.search(sig, m)
        if not h:
            raise ExtractionBreak('%s: method %s not found for closed-world scan' % (rel, name))
        b = m.find('{', h.end() - 1)
        d, j = 0, b
        while True:
            if m[j] == '{':
                d += 1
            elif m[j] == '}':
                d -= 1
                if d == 0:
                    break
            j += 1
        spans.append((h.start(), j))
    stray = []
    for u in re.finditer(r'\b%s\b' % field, m):
        if any(a <= u.start() <= b for a, b in spans):
            continue
        line = cls[cls.rfind('\n', 0, u.start()) + 1:cls.find('\n', u.start())]
        if any(re.search(p, line) for p in extra_ok):
            continue
        stray.append(line.strip())
    if stray:
        raise ExtractionBreak('%s: closed-world scan: %s is used outside the functions under proof: %s' % (rel, field, stray[:3]))


def srw_like(rel, cls_sig, prefix, methods, rw, nop_extra=()):
    out = []
    sl = []
    for name, sig, nsites, nloops in methods:
        s = slice_block(rel, sig, within=cls_sig)
        sl.append('%s:%d %s::%s' % (rel, s.line, prefix, name))
        t = s.text
        t = rw.sub(t, r'^(void|bool) (\w+)\(\)', r'\1 %s_\2(void)' % prefix, 1, 1, name='sig')
        t = rw.sub(t, r'call_itt_notify\([^;]*\);', 'RG_NOP();', 0, name='itt->RG_NOP')
        for p in nop_extra:
            t = rw.sub(t, p[0], p[1], 0, name='wait/notify -> STUB_wait / STUB_notify (callee stubs)')
        t = rw.asserts(t, 0)
        f = 'm_state'
        t = rw.sub(t, r'\b%s\.load\([^)]*\)' % f, 'ATOMIC_LOAD(%s)' % f, 0, name='atomic-load')
        t = rw.sub(t, r'\b%s\.compare_exchange_strong\((\w+),\s*([^;]*?)\)\)' % f, r'ATOMIC_CAS(%s,&\1,\2))' % f, 0, name='atomic-cas')
        t = rw.sub(t, r'\b%s\.fetch_add\(([^)]*)\)' % f, r'ATOMIC_FETCH_ADD(%s,\1)' % f, 0, name='atomic-fetch_add')
        t = rw.sub(t, r'\(%s &= ([^;]*)\);' % f, r'ATOMIC_AND_FETCH(%s,\1);' % f, 0, name='atomic-and-fetch')
        t = rw.sub(t, r'\(%s -= ([^;]*)\);' % f, r'ATOMIC_ADD_FETCH(%s,-(\1));' % f, 0, name='atomic-sub-fetch')
        t = rw.sub(t, r'\b%s \|= ([^;]*);' % f, r'ATOMIC_FETCH_OR(%s,\1);' % f, 0, name='atomic-or=')
        t = rw.sub(t, r'\b%s &= ([^;]*);' % f, r'ATOMIC_FETCH_AND(%s,\1);' % f, 0, name='atomic-and=')
        t = rw.sub(t, r'\b%s -= ([^;]*);' % f, r'ATOMIC_FETCH_ADD(%s,-(\1));' % f, 0, name='atomic--=')
        t = rw.sub(t, r'\b%s \+= ([^;]*);' % f, r'ATOMIC_FETCH_ADD(%s,\1);' % f, 0, name='atomic-+=')
        t = rw.sub(t, r'(?<![\w(,])\(m_state &', '(ATOMIC_LOAD(m_state) &', 0, name='implicit-load')
        t = rw.sub(t, r'!\(m_state &', '!(ATOMIC_LOAD(m_state) &', 0, name='implicit-load')
        t = rw.sub(t, r'for \(atomic_backoff (\w+); ; \1\.pause\(\)\)', 'for (;;)', 0, name='backoff-for')
        t = rw.sub(t, r'atomic_backoff \w+;', 'RG_NOP();', 0, name='backoff-decl->RG_NOP')
        t = rw.sub(t, r'\b\w+\.(pause|reset)\(\);', 'RG_NOP();', 0, name='backoff-call->RG_NOP')
        t = rw.sub(t, r'while \((.*)\) ;', r'while (\1) { }', 0, name='empty-while')
        t = rw.sub(t, r'while \((.*)\) RG_NOP\(\);', r'while (\1) { RG_NOP(); }', 0, name='braces')
        t = rw.sub(t, r'(?<![\w.>])(unlock_shared|lock|try_lock|try_lock_shared)\(\)', r'%s_\1()' % prefix, 0, name='self-call')
        t = rw.sub(t, r'VERIF_ASSERT\(ATOMIC_LOAD\(m_state\)', 'VERIF_ASSERT(PLAIN_READ(m_state)', 0, name='assert-reads are ghost reads')
        t = rw.sub(t, r'VERIF_ASSERT\(\(ATOMIC_LOAD\(m_state\)', 'VERIF_ASSERT((PLAIN_READ(m_state)', 0, name='assert-reads are ghost reads')
        t = rw.sub(t, r'VERIF_ASSERT\(m_state &', 'VERIF_ASSERT(PLAIN_READ(m_state) &', 0, name='assert-reads are ghost reads')
        t = rw.sub(t, r'VERIF_ASSERT\(\(m_state &', 'VERIF_ASSERT((PLAIN_READ(m_state) &', 0, name='assert-reads are ghost reads')
        t = rw.number_sites(t, name, ops=('LOAD', 'CAS', 'FETCH_ADD', 'FETCH_OR', 'FETCH_AND', 'AND_FETCH', 'ADD_FETCH'), expect=nsites)
        t = tag_loops(t, name, rw, expect=nloops)
        t = rw.std(t)
        out.append(t)
    return '\n'.join(out) + '\n', sl


def extract(ctx):
    sliced, fired = [], {}
    # ---- spin_rw_mutex -------------------------------------------------------------
    rw = Rewriter('spin_rw_mutex')
    cls_sig = r'class spin_rw_mutex \{'
    for pat, what in ((r'static constexpr state_type WRITER = 1;', 'WRITER'), (r'static constexpr state_type WRITER_PENDING = 2;', 'WRITER_PENDING'),
                      (r'static constexpr state_type READERS = ~\(WRITER \| WRITER_PENDING\);', 'READERS'), (r'static constexpr state_type ONE_READER = 4;', 'ONE_READER'),
                      (r'static constexpr state_type BUSY = WRITER \| READERS;', 'BUSY'), (r'using state_type = std::intptr_t;', 'state_type'),
                      (r'std::atomic<state_type> m_state;', 'm_state')):
        if not re.search(pat, load(SRW)):
            raise ExtractionBreak('spin_rw_mutex.h: constant %s changed' % what)
    closed_world(SRW, cls_sig, 'm_state', [(n, s) for n, s, _, _ in SRW_METHODS],
                 extra_ok=(r'spin_rw_mutex\(\) noexcept : m_state\(0\)', r'~spin_rw_mutex', r'__TBB_ASSERT\(!m_state', r'std::atomic<state_type> m_state;'))
    txt, sl = srw_like(SRW, cls_sig, 'spin_rw_mutex', SRW_METHODS, rw)
    common.write(ctx, 'srw.inc', txt)
    sliced += sl
    fired['spin_rw_mutex'] = rw.fired
    # ---- rw_mutex (waitable variant; waiting/notification calls are safety-neutral and become RG_NOP) ----
    rw = Rewriter('rw_mutex')
    RWM_METHODS = [('lock', r'void lock\(\)', None, 1), ('try_lock', r'bool try_lock\(\)', None, 0), ('unlock', r'void unlock\(\)', None, 0),
                   ('lock_shared', r'void lock_shared\(\)', None, 1), ('try_lock_shared', r'bool try_lock_shared\(\)', None, 0), ('unlock_shared', r'void unlock_shared\(\)', None, 0),
                   ('upgrade', r'bool upgrade\(\)', None, 2), ('downgrade', r'void downgrade\(\)', None, 0)]
    NOPS = [(r'auto wakeup_condition = \[&\] \{[^}]*\};', 'RG_NOP();'), (r'adaptive_wait_on_address\(this, wakeup_condition, (\w+)\);', r'STUB_wait(\1);'),
            (r'r1::notify_by_address\(this, (\w+)\);', r'STUB_notify(\1);'), (r'r1::notify_by_address_all\(this\);', 'STUB_notify_all();'),
            (r'state_type has_writer = WRITER \| WRITER_PENDING;', 'state_type has_writer = WRITER | WRITER_PENDING;'),
            (r'__TBB_ASSERT\(m_state\.load\(std::memory_order_relaxed\) & WRITER, nullptr\),', '__TBB_ASSERT(m_state.load(std::memory_order_relaxed) & WRITER, nullptr);'),
            (r'state_type curr_state = \(m_state &= READERS \| WRITER_PENDING\);', 'state_type curr_state = (m_state &= (READERS | WRITER_PENDING));'),
            (r'if \(m_state\.fetch_add\(ONE_READER\) & has_writer\)', 'if (m_state.fetch_add(ONE_READER) & has_writer)'),
            (r'if \(!\(m_state & WRITER_PENDING\)\)', 'if (!(m_state.load(std::memory_order_relaxed) & WRITER_PENDING))')]
    for pat, what in ((r'static constexpr state_type WRITER = 1;', 'WRITER'), (r'static constexpr state_type WRITER_PENDING = 2;', 'WRITER_PENDING'), (r'static constexpr state_type ONE_READER = 4;', 'ONE_READER')):
        if not re.search(pat, load(RWM)):
            raise ExtractionBreak('rw_mutex.h: constant %s changed' % what)
    for pat in (r'static constexpr context_type WRITER_CONTEXT = 0;', r'static constexpr context_type READER_CONTEXT = 1;'):
        if not re.search(pat, load(RWM)):
            raise ExtractionBreak('rw_mutex.h: context constants changed')
    closed_world(RWM, r'class rw_mutex \{', 'm_state', [(n, sg) for n, sg, _, _ in RWM_METHODS],
                 extra_ok=(r'rw_mutex\(\) noexcept : m_state\(0\)', r'~rw_mutex', r'__TBB_ASSERT\(!m_state', r'std::atomic<state_type> m_state;'))
    txt, sl = srw_like(RWM, r'class rw_mutex \{', 'rw_mutex', RWM_METHODS, rw, nop_extra=NOPS)
    common.write(ctx, 'rwm.inc', txt)
    sliced += sl
    fired['rw_mutex'] = rw.fired
    # ---- spin_mutex -------------------------------------------------------------------
    rw = Rewriter('spin_mutex')
    cls_sig = r'class spin_mutex \{'
    out = []
    for name, sig, ns, nl in (('lock', r'void lock\(\)', 1, 1), ('try_lock', r'bool try_lock\(\)', 1, 0), ('unlock', r'void unlock\(\)', 1, 0)):
        s = slice_block(SM, sig, within=cls_sig)
        sliced.append('%s:%d spin_mutex::%s' % (SM, s.line, name))
        t = rw.sub(s.text, r'^(void|bool) (\w+)\(\)', r'\1 spin_mutex_\2(void)', 1, 1, name='sig')
        t = rw.sub(t, r'call_itt_notify\([^;]*\);', 'RG_NOP();', 1, name='itt->RG_NOP')
        t = rw.sub(t, r'atomic_backoff backoff;', 'RG_NOP();', 0, name='backoff-decl->RG_NOP')
        t = rw.sub(t, r'backoff\.pause\(\);', '{ RG_NOP(); }', 0, name='backoff-call->RG_NOP')
        t = rw.atomics(t, ['m_flag'], 1)
        t = rw.number_sites(t, name, expect=ns)
        t = tag_loops(t, name, rw, expect=nl)
        out.append(t)
    closed_world(SM, cls_sig, 'm_flag', [('lock', r'void lock\(\)'), ('try_lock', r'bool try_lock\(\)'), ('unlock', r'void unlock\(\)')],
                 extra_ok=(r'spin_mutex\(\) noexcept : m_flag\(false\)', r'std::atomic<bool> m_flag;'))
    common.write(ctx, 'sm.inc', '\n'.join(out) + '\n')
    fired['spin_mutex'] = rw.fired
    # ---- queuing_mutex::scoped_lock ------------------------------------------------------
    q = CClass(QM, r'class scoped_lock \{', 'qnode', tbind={'queuing_mutex': 'struct qmutex', 'scoped_lock': 'struct qnode', 'uintptr_t': 'uintptr_t'})
    q.harvest_members(['m_mutex', 'm_next', 'm_going'])
    rw = q.rw
    out = []
    PRE = [(r'call_itt_notify\([^;]*\);', 'RG_NOP();', 0),
           (r'spin_wait_while_eq\(m_going, 0U\);', 'SPIN_WAIT_WHILE_EQ_going(self);', 0),
           (r'spin_wait_while_eq\(m_next, nullptr\);', 'SPIN_WAIT_WHILE_EQ_next(self);', 0),
           (r'\bthis\b(?!->)', 'self', 0), (r'= &m;', '= m;', 0),
           (r'm_next\.load\(std::memory_order_acquire\)->m_going\.store\(1U, std::memory_order_release\);', 'ATOMIC_STORE(ATOMIC_LOAD(m_next)->m_going, 1U);', 0)]
    for name, sig in (('acquire', r'void acquire\( queuing_mutex& m \)'), ('try_acquire', r'bool try_acquire\( queuing_mutex& m \)'), ('release', r'void release\(\)'), ('reset', r'void reset\(\)')):
        t = q.convert(q.method(sig), 'qnode_' + name, methods=['reset'], pre=PRE)
        t = rw.sub(t, r'queuing_mutex\* m\b', 'struct qmutex* m', 0, name='bind')
        t = rw.atomics(t, ['m_next', 'm_going', 'q_tail'], 0)
        t = rw.sub(t, r'struct qnode\* pred', 'struct qnode* pred', 0)
        t = rw.number_sites(t, name, by_kind=True)
        out.append(t)
    sliced += q.sliced
    if 'ATOMIC_XCHG_AT(acquire_XCHG_1, m->q_tail, self)' not in out[0]:
        raise ExtractionBreak('queuing_mutex::acquire: the q_tail exchange was not found')
    common.write(ctx, 'qm_struct.inc', q.struct_decl())
    common.write(ctx, 'qm.inc', '\n'.join(out) + '\n')
    fired['queuing_mutex'] = rw.fired
    return sliced, fired


# =====================================================================================================================
# queuing_rw_mutex (src/tbb/queuing_rw_mutex.cpp): every function of queuing_rw_mutex_impl + scoped_lock::initialize
# =====================================================================================================================
QRWH = 'include/oneapi/tbb/queuing_rw_mutex.h'
QRWC = 'src/tbb/queuing_rw_mutex.cpp'
QRW_IMPL = r'struct queuing_rw_mutex_impl \{'
NODE_T = r'(?:d1::)?queuing_rw_mutex::scoped_lock'
QRW_FIELDS = ['my_prev', 'my_next', 'my_state', 'my_going', 'my_internal_lock', 'q_tail']
QRW_HELPERS = ['try_acquire_internal_lock', 'acquire_internal_lock', 'release_internal_lock', 'wait_for_release_of_internal_lock',
               'unblock_or_wait_on_internal_lock', 'get_flag']
QRW_OPS = ('LOAD', 'STORE', 'XCHG', 'CAS', 'CASV', 'FETCH_ADD', 'SPIN_WHILE_EQ', 'SPIN_UNTIL_EQ')
_MO = re.compile(r'^\s*(?:std::)?memory_order[_:]*\w+\s*$')
_NS = r'd1::queuing_rw_mutex::scoped_lock& s'
QRW_FUNCS = [  # name, signature regex, C signature, loops (for/while/do), locals declared in front of each backward-goto label
    ('try_acquire_internal_lock', r'static bool try_acquire_internal_lock\(%s\)' % _NS, 'static bool qrw_try_acquire_internal_lock(struct qrw_node* s)', 0, {}),
    ('acquire_internal_lock', r'static void acquire_internal_lock\(%s\)' % _NS, 'static void qrw_acquire_internal_lock(struct qrw_node* s)', 1, {}),
    ('release_internal_lock', r'static void release_internal_lock\(%s\)' % _NS, 'static void qrw_release_internal_lock(struct qrw_node* s)', 0, {}),
    ('wait_for_release_of_internal_lock', r'static void wait_for_release_of_internal_lock\(%s\)' % _NS, 'static void qrw_wait_for_release_of_internal_lock(struct qrw_node* s)', 0, {}),
    ('unblock_or_wait_on_internal_lock', r'static void unblock_or_wait_on_internal_lock\(%s, uintptr_t flag \)' % _NS, 'static void qrw_unblock_or_wait_on_internal_lock(struct qrw_node* s, uintptr_t flag)', 0, {}),
    ('get_flag', r'static uintptr_t get_flag\( d1::queuing_rw_mutex::scoped_lock\* ptr \)', 'static uintptr_t qrw_get_flag(struct qrw_node* ptr)', 0, {}),
    ('acquire', r'static void acquire\(d1::queuing_rw_mutex& m, %s, bool write\)' % _NS, 'static void qrw_acquire(struct qrw_mutex* m, struct qrw_node* s, bool write)', 0, {}),
    ('try_acquire', r'static bool try_acquire\(d1::queuing_rw_mutex& m, %s, bool write\)' % _NS, 'static bool qrw_try_acquire(struct qrw_mutex* m, struct qrw_node* s, bool write)', 0, {}),
    ('release', r'static void release\(%s\)' % _NS, 'static void qrw_release(struct qrw_node* s)', 0, {'retry': ['tmp']}),
    ('downgrade_to_reader', r'static bool downgrade_to_reader\(%s\)' % _NS, 'static bool qrw_downgrade_to_reader(struct qrw_node* s)', 0, {}),
    ('upgrade_to_writer', r'static bool upgrade_to_writer\(%s\)' % _NS, 'static bool qrw_upgrade_to_writer(struct qrw_node* s)', 1,
     {'requested': ['tmp', 'me'], 'waiting': ['tmp', 'me', 'expected']}),
    ('is_writer', r'static bool is_writer\(const d1::queuing_rw_mutex::scoped_lock& m\)', 'static bool qrw_is_writer(struct qrw_node* m)', 0, {}),
]


def _stash(text):
    """protect string literals from the argument splitter (a comma inside an assertion message)"""
    lits = []

    def st(m):
        lits.append(m.group(0))
        return '"@LIT%d@"' % (len(lits) - 1)
    return re.sub(r'"(?:[^"\\\n]|\\.)*"', st, text), lits


def _unstash(text, lits):
    return re.sub(r'"@LIT(\d+)@"', lambda m: lits[int(m.group(1))], text)


def _nomo(a):
    return [x for x in a if not _MO.match(x)]


def qrw_convert(rw, text, fname, sig, csig, nloops, cut_locals):
    """one function of queuing_rw_mutex_impl -> C.  Every atomic primitive becomes A_<OP>(site, field, object, ...); the tricky_atomic_pointer
    wrappers (bodies pinned by qrw_pins) become the underlying operation plus the pointer/word casts; backward gotos become cut points."""
    t = rw.sub(text, sig, csig, 1, 1, name='sig')
    t, lits = _stash(t)
    t = cpp_resolve(t, {'__TBB_USE_ITT_NOTIFY': 1, 'TBB_USE_ASSERT': 0}, fname)
    # ---- syntax C does not have (same statements, same order) ----
    t = rw.sub(t, r'tricky_pointer::load\(([^()]*)\)->(\w+)\.store\(([^;]*)\);', r'{ struct qrw_node* nx_ = tricky_pointer::load(\1); nx_->\2.store(\3); }', 0,
               name='`load(w)->f.store(v);` -> `{ T* nx_ = load(w); nx_->f.store(v); }` (same order: load, then store)')
    t = rw.sub(t, r'if\(\s*' + NODE_T + r' \*const (\w+) = ([^;{]*?) \) \{', r'struct qrw_node* const \1 = \2; if( \1 ) {', 0,
               name='declaration in if-condition -> declaration; if (name)')
    t = rw.sub(t, r'for\( atomic_backoff (\w+); (.*); \1\.pause\(\) \)', r'for( ; \2; RG_NOP() )', 0, name='backoff-for')
    t = rw.nop_calls(t, [r'\bITT_NOTIFY', r'\bmachine_pause'], 0)
    t = rw.call(t, NODE_T + r'::state_t', lambda m, a: '((unsigned char)(%s))' % a[0], 0, name='state_t(x) functional cast')
    t = rw.sub(t, NODE_T + r'\s*\*\s*(?:const\b)?\s*', 'struct qrw_node* ', 0, name='node pointer type')
    t = rw.sub(t, r'\b(\w+)\{\};', r'\1 = 0;', 0, name='brace-init{} -> = 0')
    t = rw.sub(t, r'\bauto expected = RELEASED;', 'unsigned char expected = RELEASED;', 0, name='auto')
    if fname == 'initialize':
        t = rw.fields(t, ['my_mutex', 'my_prev', 'my_next', 'my_state', 'my_going', 'my_internal_lock'], 0, to='s->')
    t = rw.sub(t, r'\bs\.', 's->', 0, name='ref-param s')
    t = rw.sub(t, r'\bm\.', 'm->', 0, name='ref-param m')
    t = rw.sub(t, r'&(s|m)\b', r'\1', 0, name='address of ref-param')
    t = rw.sub(t, r'(?<![\w:>.])(%s)\(\s*\*?' % '|'.join(QRW_HELPERS), r'qrw_\1(', 0, name='helper call')
    t = rw.sub(t, r'\bs->initialize\(\)', 'qrw_initialize(s)', 0, name='initialize()')
    P = '((struct qrw_node*)%s)'
    U = '(uintptr_t)(%s)'
    tp = [('fetch_add', lambda a: P % ('ATOMIC_FETCH_ADD(%s, %s)' % (a[0], a[1]))),
          ('exchange', lambda a: P % ('ATOMIC_XCHG(%s, %s)' % (a[0], U % a[1]))),
          ('compare_exchange_strong', lambda a: P % ('ATOMIC_CASV(%s, %s, %s)' % (a[0], U % a[1], U % a[2]))),
          ('store', lambda a: 'ATOMIC_STORE(%s, %s)' % (a[0], U % a[1])),
          ('load', lambda a: P % ('ATOMIC_LOAD(%s)' % a[0])),
          ('spin_wait_while_eq', lambda a: 'ATOMIC_SPIN_WHILE_EQ(%s, %s)' % (a[0], U % a[1]))]
    t = rw.sub(t, r'tricky_pointer\((\w+)\)\s*&\s*(~?FLAG)', r'TP_AND(\1, \2)', 0, name='tricky_pointer(p) & mask')
    t = rw.sub(t, r'tricky_pointer\((\w+)\)\s*\|\s*FLAG', r'TP_OR(\1, FLAG)', 0, name='tricky_pointer(p) | FLAG')
    for meth, fn in tp:
        t = rw.call(t, r'tricky_pointer::' + meth, lambda m, a, fn=fn: fn(_nomo(a)), 0, name='tricky_pointer::' + meth)
    t = rw.call(t, r'(?<![\w:])spin_wait_until_eq', lambda m, a: 'ATOMIC_SPIN_UNTIL_EQ(%s)' % ', '.join(_nomo(a)), 0, name='spin_wait_until_eq')
    t = rw.call(t, r'(?<![\w:])spin_wait_while_eq', lambda m, a: 'ATOMIC_SPIN_WHILE_EQ(%s)' % ', '.join(_nomo(a)), 0, name='spin_wait_while_eq')
    t = rw.sub(t, r'\(\s*s->my_state != ', '( ATOMIC_LOAD(s->my_state) != ', 0, name='implicit-load')
    t = rw.atomics(t, QRW_FIELDS, 0)
    t = rw.asserts(t, 0)
    t = rw.call(t, r'\bVERIF_ASSERT', lambda m, a: None if not any('ATOMIC_LOAD(' in x for x in a) else 'VERIF_ASSERT(%s)' % ', '.join(x.replace('ATOMIC_LOAD(', 'PLAIN_READ(') for x in a), 0,
                name='assert-reads are ghost reads')
    t = rw.casts(t, 0)
    t = rw.std(t)
    # ---- backward gotos: cut points (LABEL_BACK / GOTO_BACK are the hand-written loop-invariant encoding of the harness) ----
    mk = mask(t)
    labels = {}
    for lab in re.finditer(r'(?m)^\s*(\w+):(?!:)', mk):
        labels[lab.group(1)] = lab.start()
    back = {}
    for g in re.finditer(r'\bgoto (\w+);', mk):
        if g.group(1) in labels and labels[g.group(1)] < g.start():
            back.setdefault(g.group(1), []).append(g.start())
    if sorted(back) != sorted(cut_locals):
        raise ExtractionBreak('%s: backward gotos %s, spec has cut invariants for %s' % (fname, sorted(back), sorted(cut_locals)))
    for lab, want in cut_locals.items():
        # every local declared in front of the label must be in the cut's havoc list (a new local would escape the havoc: unsound)
        decls = set()
        for d in re.finditer(r'(?:struct qrw_node\*|unsigned char|unsigned short|bool|uintptr_t)\s+(?:const\s+)?(\w+)\s*(?:=|;)', mk[:labels[lab]]):
            depth, i = 0, d.start() - 1          # the block that holds the declaration: is the label inside it?
            while i >= 0 and not (mk[i] == '{' and depth == 0):
                depth += (mk[i] == '}') - (mk[i] == '{')
                i -= 1
            if i >= 0 and match_close(mk, i) > labels[lab]:
                decls.add(d.group(1))
        if decls != set(want):
            raise ExtractionBreak('%s: locals declared before label %s are %s, the cut point havocs %s' % (fname, lab, sorted(decls), sorted(want)))
    pos = sorted((p, lab) for lab, ps in back.items() for p in ps)
    for p, lab in reversed(pos):
        t = t[:p] + re.sub(r'^goto %s;' % lab, 'GOTO_BACK(%s);' % lab, t[p:], count=1)
    for lab in back:
        t = rw.sub(t, r'(?m)^(\s*)%s:' % lab, r'\1%s: LABEL_BACK(%s);' % (lab, lab), 1, 1, name='backward-goto label -> cut point')
    rw.fired['backward gotos -> cut points'] = rw.fired.get('backward gotos -> cut points', 0) + len(pos)
    t = rw.number_sites(t, fname, ops=QRW_OPS, by_kind=True)
    t = tag_loops(t, fname, rw, expect=nloops)
    t, n = re.subn(r'\bATOMIC_(\w+?)_AT\((\w+), ((?:\w+->)*\w+)->(%s)\b' % '|'.join(QRW_FIELDS), r'A_\1(\2, \4, \3', t)
    rw.fired['ATOMIC_<OP>_AT(site, obj->field, ..) -> A_<OP>(site, field, obj, ..)'] = rw.fired.get('ATOMIC_<OP>_AT(site, obj->field, ..) -> A_<OP>(site, field, obj, ..)', 0) + n
    return _unstash(t, lits)


def qrw_pins():
    """text that the C view takes as given: the tricky_atomic_pointer wrappers are the plain atomic operation plus casts; constants; spin_wait helpers"""
    src = load(QRWC)
    pins = [
        r'static T\* fetch_add\( std::atomic<word>& location, word addend, std::memory_order memory_order \) \{\s*return reinterpret_cast<T\*>\(location\.fetch_add\(addend, memory_order\)\);\s*\}',
        r'static T\* exchange\( std::atomic<word>& location, T\* value, std::memory_order memory_order \) \{\s*return reinterpret_cast<T\*>\(location\.exchange\(reinterpret_cast<word>\(value\), memory_order\)\);\s*\}',
        r'static T\* compare_exchange_strong\( std::atomic<word>& obj, const T\* expected, const T\* desired, std::memory_order memory_order \) \{\s*word expd = reinterpret_cast<word>\(expected\);\s*obj\.compare_exchange_strong\(expd, reinterpret_cast<word>\(desired\), memory_order\);\s*return reinterpret_cast<T\*>\(expd\);\s*\}',
        r'static void store\( std::atomic<word>& location, const T\* value, std::memory_order memory_order \) \{\s*location\.store\(reinterpret_cast<word>\(value\), memory_order\);\s*\}',
        r'static T\* load\( std::atomic<word>& location, std::memory_order memory_order \) \{\s*return reinterpret_cast<T\*>\(location\.load\(memory_order\)\);\s*\}',
        r'static void spin_wait_while_eq\(const std::atomic<word>& location, const T\* value\) \{\s*tbb::detail::d0::spin_wait_while_eq\(location, reinterpret_cast<word>\(value\) \);\s*\}',
        r'T\* operator&\( const word operand2 \) const \{\s*return reinterpret_cast<T\*>\( reinterpret_cast<word>\(ref\) & operand2 \);\s*\}',
        r'T\* operator\|\( const word operand2 \) const \{\s*return reinterpret_cast<T\*>\( reinterpret_cast<word>\(ref\) \| operand2 \);\s*\}',
        r'using tricky_pointer = tricky_atomic_pointer<queuing_rw_mutex::scoped_lock>;',
        r'static const unsigned char RELEASED = 0;', r'static const unsigned char ACQUIRED = 1;', r'static const tricky_pointer::word FLAG = 0x1;',
    ]
    for p in pins:
        if not re.search(p, src):
            raise ExtractionBreak('queuing_rw_mutex.cpp: pinned text changed: %s' % p[:70])
    ut = load('include/oneapi/tbb/detail/_utils.h')
    for p in (r'T spin_wait_while_eq\(const std::atomic<T>& location, const U value, std::memory_order order = std::memory_order_acquire\) \{\s*return spin_wait_while\(location, \[&value\]\(T t\) \{ return t == value; \}, order\);',
              r'T spin_wait_until_eq\(const std::atomic<T>& location, const U value, std::memory_order order = std::memory_order_acquire\) \{\s*return spin_wait_while\(location, \[&value\]\(T t\) \{ return t != value; \}, order\);',
              r'while \(comp\(snapshot\)\) \{\s*backoff\.pause\(\);\s*snapshot = location\.load\(order\);\s*\}'):
        if not re.search(p, ut):
            raise ExtractionBreak('_utils.h: spin_wait helper changed: %s' % p[:60])
    return len(pins) + 3


def qrw_closed_world():
    """every textual use of the node words / q_tail lies inside a function under proof (or the declarations / the destructor's assertion)"""
    spans = []
    src = load(QRWC)
    m = mask(src)
    for name, sig, _, _, _ in QRW_FUNCS:
        s = slice_block(QRWC, sig, within=QRW_IMPL)
        spans.append((s.start, s.end))
    for f in QRW_FIELDS:
        for u in re.finditer(r'\b%s\b' % f, m):
            if not any(a <= u.start() < b for a, b in spans):
                raise ExtractionBreak('queuing_rw_mutex.cpp: closed-world scan: %s is used outside the functions under proof (line %d)' % (f, src.count('\n', 0, u.start()) + 1))
    hdr = load(QRWH)
    hm = mask(hdr)
    ini = slice_block(QRWH, r'void initialize\(\)', within=r'class scoped_lock \{')
    ok = (r'std::atomic<uintptr_t> my_prev;', r'std::atomic<uintptr_t> my_next;', r'std::atomic<state_t> my_state;', r'std::atomic<unsigned char> my_going;',
          r'std::atomic<unsigned char> my_internal_lock;', r'std::atomic<scoped_lock\*> q_tail\{nullptr\};', r'__TBB_ASSERT\(q_tail\.load\(std::memory_order_relaxed\) == nullptr')
    for f in QRW_FIELDS:
        for u in re.finditer(r'\b%s\b' % f, hm):
            if ini.start <= u.start() < ini.end:
                continue
            line = hdr[hdr.rfind('\n', 0, u.start()) + 1:hdr.find('\n', u.start())]
            if not any(re.search(p, line) for p in ok):
                raise ExtractionBreak('queuing_rw_mutex.h: closed-world scan: %s is used outside initialize(): %s' % (f, line.strip()))
    # nobody else reaches into the node (friend access is limited to queuing_rw_mutex_impl)
    for rel in ('include/oneapi/tbb/detail/_rtm_rw_mutex.h', 'src/tbb/rtm_rw_mutex.cpp'):
        if re.search(r'\bmy_internal_lock\b|\bmy_going\b', load(rel)):
            raise ExtractionBreak('%s touches queuing_rw_mutex node words' % rel)


MX = 'include/oneapi/tbb/mutex.h'
WA = 'include/oneapi/tbb/detail/_waitable_atomic.h'


def extract_mx(ctx):
    """d1::mutex (lock / try_lock / unlock) on top of waitable_atomic<bool> (load / exchange / wait / notify_one_relaxed)"""
    rw = Rewriter('mutex')
    sliced, out = [], []
    wcls = r'class waitable_atomic \{'
    if not re.search(r'waitable_atomic<bool> my_flag\{0\};', load(MX)) or not re.search(r'std::atomic<T> my_atomic\{\};', load(WA)):
        raise ExtractionBreak('mutex.h / _waitable_atomic.h: member declarations changed')
    for name, sig, csig in (('wa_load', r'T load\(std::memory_order order\) const noexcept', 'static bool waitable_atomic_load(struct waitable_atomic_bool* self)'),
                            ('wa_exchange', r'T exchange\(T desired\) noexcept', 'static bool waitable_atomic_exchange(struct waitable_atomic_bool* self, bool desired)'),
                            ('wa_wait', r'void wait\(T old, std::uintptr_t context, std::memory_order order\)', 'static void waitable_atomic_wait(struct waitable_atomic_bool* self, bool old, uintptr_t context)'),
                            ('wa_notify', r'void notify_one_relaxed\(\)', 'static void waitable_atomic_notify_one_relaxed(struct waitable_atomic_bool* self)')):
        sl = slice_block(WA, sig, within=wcls)
        sliced.append('%s:%d waitable_atomic::%s' % (WA, sl.line, name))
        t = rw.sub(sl.text, sig, csig, 1, 1, name='sig + bind-template(T:=bool)')
        # the wake-up predicate is a lambda: it becomes a function-like macro with the same body (evaluated where the lambda is called)
        t = rw.sub(t, r'auto (\w+) = \[&\] \{ return ([^;]*); \};', r'\n#define \1() (\2)\n', 0, name='lambda predicate -> function-like macro (same expression)')
        t = rw.sub(t, r'timed_spin_wait_until\((\w+)\)', r'TIMED_SPIN_WAIT_UNTIL(\1())', 0, name='callee stub (timed_spin_wait_until: evaluates the predicate, returns its last value)')
        t = rw.sub(t, r'd1::delegated_function<decltype\(\w+\)> pred\(\w+\);', 'RG_NOP();', 0, name='delegate wrapper -> RG_NOP')
        t = rw.sub(t, r'r1::wait_on_address\(this, pred, context\);', 'STUB_wait_on_address(self, context);', 0, name='callee stub (r1::wait_on_address)')
        t = rw.sub(t, r'r1::notify_by_address_one\(this\);', 'STUB_notify_by_address_one(self);', 0, name='callee stub (r1::notify_by_address_one)')
        t = rw.sub(t, r'\.load\(order\)', '.load(std::memory_order_seq_cst)', 0, name='memory-order parameter (orders are dropped: SC assumed)')
        t = rw.sub(t, r'\bmy_atomic\b', 'self->my_atomic', 0, name='field')
        t = rw.atomics(t, ['my_atomic'], 0)
        t = rw.std(t)
        t = rw.number_sites(t, name, by_kind=True)
        t = tag_loops(t, name, rw)
        out.append(t)
    mcls = r'class mutex \{'
    for name, sig, csig in (('lock', r'void lock\(\)', 'static void mutex_lock(struct mutex* self)'), ('try_lock', r'bool try_lock\(\)', 'static bool mutex_try_lock(struct mutex* self)'),
                            ('unlock', r'void unlock\(\)', 'static void mutex_unlock(struct mutex* self)')):
        sl = slice_block(MX, sig, within=mcls)
        sliced.append('%s:%d mutex::%s' % (MX, sl.line, name))
        t = rw.sub(sl.text, sig, csig, 1, 1, name='sig')
        t = rw.sub(t, r'call_itt_notify\([^;]*\);', 'RG_NOP();', 0, name='itt->RG_NOP')
        t = rw.sub(t, r'(?<![\w.>])try_lock\(\)', 'mutex_try_lock(self)', 0, name='self-call')
        t = rw.call(t, r'\bmy_flag\.(load|exchange|wait|notify_one_relaxed)', lambda m, a: 'waitable_atomic_%s(%s)' % (m.group(1), ', '.join(['&self->my_flag'] + [x for x in a if x and not _MO.match(x) and not re.match(r'/\*.*\*/\s*$', x)])), 0,
                    name='waitable_atomic member call -> function(&self->my_flag, ..)')
        t = rw.sub(t, r'/\* context = \*/ ', '', 0, name='comment')
        t = rw.std(t)
        t = tag_loops(t, name, rw)
        out.append(t)
    closed_world(MX, mcls, 'my_flag', [('lock', r'void lock\(\)'), ('try_lock', r'bool try_lock\(\)'), ('unlock', r'void unlock\(\)')], extra_ok=(r'waitable_atomic<bool> my_flag\{0\};',))
    closed_world(WA, wcls, 'my_atomic', [('load', r'T load\(std::memory_order order\) const noexcept'), ('exchange', r'T exchange\(T desired\) noexcept'), ('wait', r'void wait\(T old, std::uintptr_t context, std::memory_order order\)')],
                 extra_ok=(r'explicit waitable_atomic\(T value\) : my_atomic\(value\)', r'std::atomic<T> my_atomic\{\};'))
    common.write(ctx, 'mx.inc', '\n'.join(out) + '\n')
    return sliced, rw.fired


RTM = 'src/tbb/rtm_mutex.cpp'
RTMRW = 'src/tbb/rtm_rw_mutex.cpp'
RTMH = 'include/oneapi/tbb/detail/_rtm_mutex.h'
RTMRWH = 'include/oneapi/tbb/detail/_rtm_rw_mutex.h'
MISC = 'src/tbb/misc.h'
REAL_OPS = 'try_lock_shared|unlock_shared|lock_shared|try_lock|unlock|lock|upgrade|downgrade'


def rtm_convert(rw, text, fname, sig, csig, prefix, ns, calls, nloops):
    """one function of rtm_mutex_impl / rtm_rw_mutex_impl -> C.  Hardware transactions, the speculation switch and the operations of the underlying real lock are callee stubs."""
    t = rw.sub(text, sig, csig, 1, 1, name='sig')
    t, lits = _stash(t)
    t = rw.sub(t, r'd1::%s::rtm_(?:state|type)::' % ns, '', 0, name='enum scope')
    t = rw.sub(t, r'd1::%s& m = \*s\.m_mutex;' % ns, 'struct %s_mutex* m = s->m_mutex;' % prefix, 0, name='ref-local -> pointer')
    t = rw.sub(t, r'\btransaction_result_type abort_code\b', 'unsigned int abort_code', 0, name='transaction_result_type := unsigned int (pinned)')
    t = rw.call(t, r'\btransaction_result_type', lambda m, a: '((unsigned int)(%s))' % a[0], 0, name='fcast')
    t = rw.call(t, r'd1::%s::state_type' % ns, lambda m, a: '((state_type)(%s))' % a[0], 0, name='fcast')
    t = rw.sub(t, r'\bs\.', 's->', 0, name='ref-param s')
    t = rw.sub(t, r'\bm\.', 'm->', 0, name='ref-param m')
    t = rw.sub(t, r'&m\b', 'm', 0, name='address of ref-param')
    t = rw.sub(t, r'governor::speculation_enabled\(\)', 'STUB_speculation_enabled()', 0, name='callee stub')
    t = rw.sub(t, r'\b(begin_transaction|end_transaction|abort_transaction|is_in_transaction)\(\)', r'STUB_\1()', 0, name='callee stub (hardware transaction)')
    t = rw.call(t, r'(?<![\w:])spin_wait_while_eq', lambda m, a: 'SPIN_WAIT_WHILE_EQ(%s)' % ', '.join(a), 0, name='spin_wait_while_eq')
    t = rw.call(t, r'(?<![\w:])spin_wait_until_eq', lambda m, a: 'SPIN_WAIT_UNTIL_EQ(%s)' % ', '.join(a), 0, name='spin_wait_until_eq')
    t = rw.sub(t, r'\b((?:\w+->)*\w+)->(%s)\(\)' % REAL_OPS, r'STUB_real_\2(\1)', 0, name='callee stub (operation of the underlying real lock)')
    t = rw.sub(t, r'(?<![\w>.])(%s)\(' % '|'.join(calls), r'%s_\1(' % prefix, 0, name='impl call')
    t = rw.atomics(t, ['m_flag', 'm_state', 'write_flag'], 0)
    t = rw.asserts(t, 0)
    t = rw.call(t, r'\bVERIF_ASSERT', lambda m, a: None if not any('ATOMIC_LOAD(' in x for x in a) else 'VERIF_ASSERT(%s)' % ', '.join(x.replace('ATOMIC_LOAD(', 'PLAIN_READ(') for x in a), 0,
                name='assert-reads are ghost reads')
    t = rw.std(t)
    t = rw.number_sites(t, fname, by_kind=True)
    t = tag_loops(t, fname, rw, expect=nloops)
    return _unstash(t, lits)


def extract_rtm(ctx):
    rw = Rewriter('rtm')
    sliced = []
    misc = load(MISC)
    for pat in (r'static inline unsigned int begin_transaction\(\)', r'using transaction_result_type = decltype\(begin_transaction\(\)\);'):
        if not re.search(pat, misc) and not re.search(pat, load(RTM)):
            raise ExtractionBreak('rtm: pinned declaration changed: %s' % pat)
    e = slice_block(MISC, r'enum (?=\{\s*speculation_not_supported)')
    sliced.append('%s:%d speculation codes' % (MISC, e.line))
    decl = [e.text + ';']
    for rel, nm in ((RTMH, 'rtm_state'), (RTMRWH, 'rtm_type')):
        en = slice_block(rel, r'enum class %s \{' % nm)
        sliced.append('%s:%d %s' % (rel, en.line, nm))
        decl.append(rw.sub(en.text, r'enum class %s \{' % nm, 'enum %s {' % nm, 1, 1, name='enum class -> enum') + ';')
    for rel, names in ((RTM, ['retry_threshold']), (RTMRW, ['retry_threshold_read', 'retry_threshold_write'])):
        for nm in names:
            m_ = re.search(r'static constexpr int %s = (\d+);' % nm, load(rel))
            if not m_:
                raise ExtractionBreak('%s: %s changed' % (rel, nm))
            decl.append('enum { %s = %s };' % (nm, m_.group(1)))
    if not re.search(r'rtm_mutex\* m_mutex;\s*rtm_state m_transaction_state;', load(RTMH)) or not re.search(r'rtm_rw_mutex\* m_mutex;\s*rtm_type m_transaction_state;', load(RTMRWH)) \
            or not re.search(r'alignas\(speculation_granularity\) std::atomic<bool> write_flag;', load(RTMRWH)) or not re.search(r'class alignas\(max_nfs_size\) rtm_rw_mutex : private spin_rw_mutex \{', load(RTMRWH)) \
            or not re.search(r'class alignas\(max_nfs_size\) rtm_mutex : private spin_mutex \{', load(RTMH)):
        raise ExtractionBreak('rtm headers: member declarations changed')
    common.write(ctx, 'rtm_decl.inc', '\n'.join(decl) + '\n')
    out = []
    SL = r'd1::rtm_mutex::scoped_lock& s'
    for name, sig, csig, nl in (('release', r'static void release\(%s\)' % SL, 'static void rtm_release(struct rtm_lock* s)', 0),
                                ('acquire', r'static void acquire\(d1::rtm_mutex& m, %s, bool only_speculate\)' % SL, 'static void rtm_acquire(struct rtm_mutex* m, struct rtm_lock* s, bool only_speculate)', 1),
                                ('try_acquire', r'static bool try_acquire\(d1::rtm_mutex& m, %s\)' % SL, 'static bool rtm_try_acquire(struct rtm_mutex* m, struct rtm_lock* s)', 0)):
        sl = slice_block(RTM, sig, within=r'struct rtm_mutex_impl \{')
        sliced.append('%s:%d rtm_mutex_impl::%s' % (RTM, sl.line, name))
        out.append(rtm_convert(rw, sl.text, name, sig, csig, 'rtm', 'rtm_mutex', ['acquire', 'release'], nl))
    common.write(ctx, 'rtm.inc', '\n'.join(out) + '\n')
    out = []
    SL = r'd1::rtm_rw_mutex::scoped_lock& s'
    MS = r'd1::rtm_rw_mutex& m, %s' % SL
    for name, sig, csig, nl in (('release', r'static void release\(%s\)' % SL, 'static void rtmrw_release(struct rtmrw_lock* s)', 0),
                                ('acquire_writer', r'static void acquire_writer\(%s, bool only_speculate\)' % MS, 'static void rtmrw_acquire_writer(struct rtmrw_mutex* m, struct rtmrw_lock* s, bool only_speculate)', 1),
                                ('acquire_reader', r'static void acquire_reader\(%s, bool only_speculate\)' % MS, 'static void rtmrw_acquire_reader(struct rtmrw_mutex* m, struct rtmrw_lock* s, bool only_speculate)', 1),
                                ('upgrade', r'static bool upgrade\(%s\)' % SL, 'static bool rtmrw_upgrade(struct rtmrw_lock* s)', 0),
                                ('downgrade', r'static bool downgrade\(%s\)' % SL, 'static bool rtmrw_downgrade(struct rtmrw_lock* s)', 0),
                                ('try_acquire_writer', r'static bool try_acquire_writer\(%s\)' % MS, 'static bool rtmrw_try_acquire_writer(struct rtmrw_mutex* m, struct rtmrw_lock* s)', 0),
                                ('try_acquire_reader', r'static bool try_acquire_reader\(%s\)' % MS, 'static bool rtmrw_try_acquire_reader(struct rtmrw_mutex* m, struct rtmrw_lock* s)', 0)):
        sl = slice_block(RTMRW, sig, within=r'struct rtm_rw_mutex_impl \{')
        sliced.append('%s:%d rtm_rw_mutex_impl::%s' % (RTMRW, sl.line, name))
        out.append(rtm_convert(rw, sl.text, 'rw_' + name, sig, csig, 'rtmrw', 'rtm_rw_mutex', ['acquire_writer', 'acquire_reader', 'release'], nl))
    common.write(ctx, 'rtmrw.inc', '\n'.join(out) + '\n')
    # the exported entry points and the inline scoped_lock methods forward unchanged
    for rel, impl, fns in ((RTM, 'rtm_mutex_impl', ('acquire', 'try_acquire', 'release')),
                           (RTMRW, 'rtm_rw_mutex_impl', ('acquire_writer', 'acquire_reader', 'upgrade', 'downgrade', 'try_acquire_writer', 'try_acquire_reader', 'release'))):
        for fn in fns:
            if not re.search(r'__TBB_EXPORTED_FUNC %s\([^)]*\) \{\s*(?:return )?%s::%s\([^;]*\);\s*\}' % (fn, impl, fn), load(rel)):
                raise ExtractionBreak('%s: exported %s no longer forwards to %s::%s' % (rel, fn, impl, fn))
    return sliced, rw.fired


SCL = 'include/oneapi/tbb/detail/_scoped_lock.h'


def extract_scoped(ctx):
    """unique_scoped_lock<Mutex> and rw_scoped_lock<Mutex> (the scoped_lock of spin_mutex / mutex / spin_rw_mutex / rw_mutex): the mutex operations are callee stubs"""
    rw = Rewriter('scoped_lock')
    sliced, out = [], []
    if not re.search(r'Mutex\* m_mutex\{\};', load(SCL)) or not re.search(r'Mutex\* m_mutex \{nullptr\};', load(SCL)) or not re.search(r'bool m_is_writer \{false\};', load(SCL)):
        raise ExtractionBreak('_scoped_lock.h: member declarations / default initialisers changed')
    for nm in ('spin_mutex', 'mutex'):
        rel = {'spin_mutex': SM, 'mutex': MX}[nm]
        if not re.search(r'using scoped_lock = unique_scoped_lock<%s>;' % nm, load(rel)):
            raise ExtractionBreak('%s: scoped_lock is no longer unique_scoped_lock<%s>' % (rel, nm))
    for nm in ('spin_rw_mutex', 'rw_mutex'):
        rel = {'spin_rw_mutex': SRW, 'rw_mutex': RWM}[nm]
        if not re.search(r'using scoped_lock = rw_scoped_lock<%s>;' % nm, load(rel)):
            raise ExtractionBreak('%s: scoped_lock is no longer rw_scoped_lock<%s>' % (rel, nm))

    def conv(cls, cname, name, sig, csig):
        sl = slice_block(SCL, sig, within=r'class %s \{' % cls)
        sliced.append('%s:%d %s::%s' % (SCL, sl.line, cls, name))
        t = rw.sub(sl.text, sig, csig, 1, 1, name='sig')
        t, lits = _stash(t)
        t = rw.sub(t, r'\bMutex\* m = m_mutex;', 'struct stub_mutex* m = self->m_mutex;', 0, name='local')
        t = rw.sub(t, r'(?<![\w.>])(m_mutex|m_is_writer)\b', r'self->\1', 0, name='field')
        t = rw.sub(t, r'= &m;', '= m;', 0, name='address of ref-param')
        t = rw.sub(t, r'\b(?:m\.|m->|self->m_mutex->)(%s)\(\)' % REAL_OPS, lambda mm: 'STUB_mx_%s(%s)' % (mm.group(1), 'self->m_mutex' if mm.group(0).startswith('self') else 'm'), 0, name='callee stub (mutex operation)')
        t = rw.sub(t, r'(?<![\w.>])(acquire|release)\(', r'%s_\1(self, ' % cname, 0, name='self-call')
        t = rw.sub(t, r'\(self, \)', '(self)', 0, name='self-call()')
        t = rw.asserts(t, 0)
        t = rw.std(t)
        return _unstash(t, lits)
    U = 'struct unique_lock* self'
    for name, sig, csig in (('acquire', r'void acquire\(Mutex& m\)', 'static void unique_acquire(%s, struct stub_mutex* m)' % U), ('try_acquire', r'bool try_acquire\(Mutex& m\)', 'static bool unique_try_acquire(%s, struct stub_mutex* m)' % U),
                            ('release', r'void release\(\)', 'static void unique_release(%s)' % U), ('dtor', r'~unique_scoped_lock\(\)', 'static void unique_dtor(%s)' % U)):
        out.append(conv('unique_scoped_lock', 'unique', name, sig, csig))
    R = 'struct rw_lock* self'
    for name, sig, csig in (('acquire', r'void acquire\(Mutex& m, bool write = true\)', 'static void rwl_acquire(%s, struct stub_mutex* m, bool write)' % R),
                            ('try_acquire', r'bool try_acquire\(Mutex& m, bool write = true\)', 'static bool rwl_try_acquire(%s, struct stub_mutex* m, bool write)' % R),
                            ('release', r'void release\(\)', 'static void rwl_release(%s)' % R), ('upgrade_to_writer', r'bool upgrade_to_writer\(\)', 'static bool rwl_upgrade_to_writer(%s)' % R),
                            ('downgrade_to_reader', r'bool downgrade_to_reader\(\)', 'static bool rwl_downgrade_to_reader(%s)' % R), ('is_writer', r'bool is_writer\(\) const', 'static bool rwl_is_writer(%s)' % R),
                            ('dtor', r'~rw_scoped_lock\(\)', 'static void rwl_dtor(%s)' % R)):
        out.append(conv('rw_scoped_lock', 'rwl', name, sig, csig))
    common.write(ctx, 'scoped.inc', '\n'.join(out) + '\n')
    return sliced, rw.fired


def extract_qrw(ctx):
    rw = Rewriter('queuing_rw_mutex')
    sliced = []
    rw.fired['pinned wrapper/constant texts'] = qrw_pins()
    qrw_closed_world()
    # node layout: harvested from the real class (names, types, declared order)
    q = CClass(QRWH, r'class scoped_lock \{', 'qrw_node', tbind={'queuing_rw_mutex': 'struct qrw_mutex', 'state_t': 'unsigned char'}, rw=rw)
    q.harvest_members(['my_mutex', 'my_prev', 'my_next', 'my_state', 'my_going', 'my_internal_lock'])
    if not re.search(r'using state_t = unsigned char ;', load(QRWH)):
        raise ExtractionBreak('queuing_rw_mutex.h: state_t changed')
    decl = ['struct qrw_node;', 'struct qrw_mutex { struct qrw_node* q_tail; };', q.struct_decl()]
    e = slice_block(QRWC, r'enum state_t_flags : unsigned char \{')
    sliced.append('%s:%d state_t_flags' % (QRWC, e.line))
    decl.append(rw.sub(e.text, r'enum state_t_flags : unsigned char \{', 'enum state_t_flags {', 1, 1, name='enum base type') + ';')
    decl.append('enum { RELEASED = 0, ACQUIRED = 1 };\n#define FLAG ((uintptr_t)0x1)')
    out = []
    s = slice_block(QRWH, r'void initialize\(\)', within=r'class scoped_lock \{')
    sliced.append('%s:%d queuing_rw_mutex::scoped_lock::initialize' % (QRWH, s.line))
    out.append(qrw_convert(rw, s.text, 'initialize', r'void initialize\(\)', 'static void qrw_initialize(struct qrw_node* s)', 0, {}))
    for name, sig, csig, nl, cuts in QRW_FUNCS:
        s = slice_block(QRWC, sig, within=QRW_IMPL)
        sliced.append('%s:%d queuing_rw_mutex_impl::%s' % (QRWC, s.line, name))
        out.append(qrw_convert(rw, s.text, name, sig, csig, nl, cuts))
    body = '\n'.join(out) + '\n'
    sites = []
    for m_ in re.finditer(r'\bA_\w+\((\w+),', body):
        if m_.group(1) not in sites:
            sites.append(m_.group(1))
    decl.append('enum qrw_site { S_none, ' + ', '.join('S_' + x for x in sites) + ' };')
    # the exported entry points forward to the impl functions unchanged
    for fn in ('acquire', 'try_acquire', 'release', 'upgrade_to_writer', 'downgrade_to_reader', 'is_writer'):
        if not re.search(r'__TBB_EXPORTED_FUNC %s\([^)]*\) \{\s*(?:return )?queuing_rw_mutex_impl::%s\((?:m, )?s(?:, write)?\);\s*\}' % (fn, fn), load(QRWC)):
            raise ExtractionBreak('queuing_rw_mutex.cpp: exported %s no longer forwards to queuing_rw_mutex_impl::%s' % (fn, fn))
        if fn != 'is_writer' and not re.search(r'inline \w+ queuing_rw_mutex::scoped_lock::%s\([^)]*\) \{\s*(?:return )?r1::%s\((?:m, )?\*this(?:, write)?\);\s*\}' % (fn, fn), load(QRWH)):
            raise ExtractionBreak('queuing_rw_mutex.h: scoped_lock::%s no longer forwards to r1::%s' % (fn, fn))
    common.write(ctx, 'qrw_decl.inc', '\n'.join(decl) + '\n')
    common.write(ctx, 'qrw.inc', body)
    return sliced, rw.fired


def build(ctx):
    sliced, fired = extract(ctx)
    C = os.path.join(HERE, 'c08.c')
    jobs = []
    for name, sig, ns, nl in SRW_METHODS:
        jobs.append(Job('srw.' + name, C, 'h_srw_' + name, route='RG', defines=['SRW'], loops=nl > 0, nloops=nl if nl else None,
                        target='spin_rw_mutex::' + name, source=SRW, timeout=300))
    for name, nl in (('lock', 1), ('try_lock', 0), ('unlock', 0), ('lock_shared', 1), ('try_lock_shared', 0), ('unlock_shared', 0), ('upgrade', 3), ('downgrade', 0)):
        jobs.append(Job('rwm.' + name, C, 'h_rwm_' + name, route='RG', defines=['RWM'], loops=nl > 0, nloops=nl if nl else None, target='rw_mutex::' + name, source=RWM, timeout=300))
    for name, nl in (('lock', 1), ('try_lock', 0), ('unlock', 0)):
        jobs.append(Job('sm.' + name, C, 'h_sm_' + name, route='RG', defines=['SM'], loops=nl > 0, nloops=nl if nl else None, target='spin_mutex::' + name, source=SM))
    for name in ('acquire', 'try_acquire', 'release'):
        jobs.append(Job('qm.' + name, C, 'h_qm_' + name, route='RG', defines=['QM'], target='queuing_mutex::scoped_lock::' + name, source=QM))
    sl2, f2 = extract_qrw(ctx)
    sliced += sl2
    fired['queuing_rw_mutex'] = f2
    CQ = os.path.join(HERE, 'c08_qrw.c')
    QSRC = QRWC
    jobs.append(Job('qrw.try_acquire', CQ, 'h_qrw_try_acquire', route='RG', defines=['QRW_TRY_ACQUIRE'], target='queuing_rw_mutex_impl::try_acquire', source=QSRC, unwind=8, inputs=['IN_write']))
    jobs.append(Job('qrw.acquire.write', CQ, 'h_qrw_acquire', route='RG', defines=['QRW_ACQUIRE=1'], target='queuing_rw_mutex_impl::acquire (write)', source=QSRC, unwind=8))
    jobs.append(Job('qrw.acquire.read', CQ, 'h_qrw_acquire', route='RG', defines=['QRW_ACQUIRE=0'], target='queuing_rw_mutex_impl::acquire (read)', source=QSRC, unwind=8))
    jobs.append(Job('qrw.release.writer', CQ, 'h_qrw_release_w', route='RG', defines=['QRW_RELEASE_W=1'], target='queuing_rw_mutex_impl::release (writer; successor waiting or UPGRADE_WAITING)', source=QSRC, unwind=8))
    jobs.append(Job('qrw.release.writer.loser', CQ, 'h_qrw_release_w', route='RG', defines=['QRW_RELEASE_W=2'], target='queuing_rw_mutex_impl::release (writer; successor UPGRADE_LOSER)', source=QSRC, unwind=8))
    jobs.append(Job('qrw.release.reader', CQ, 'h_qrw_release_r', route='RG', defines=['QRW_RELEASE_R'], target='queuing_rw_mutex_impl::release (reader)', source=QSRC, unwind=8))
    jobs.append(Job('qrw.downgrade', CQ, 'h_qrw_downgrade', route='RG', defines=['QRW_DOWNGRADE=1'], target='queuing_rw_mutex_impl::downgrade_to_reader (writer)', source=QSRC, unwind=8))
    jobs.append(Job('qrw.downgrade.reader', CQ, 'h_qrw_downgrade', route='RG', defines=['QRW_DOWNGRADE=0'], target='queuing_rw_mutex_impl::downgrade_to_reader (already a reader)', source=QSRC, unwind=8))
    jobs.append(Job('qrw.upgrade', CQ, 'h_qrw_upgrade', route='RG', defines=['QRW_UPGRADE=1'], target='queuing_rw_mutex_impl::upgrade_to_writer (reader)', source=QSRC, unwind=8))
    jobs.append(Job('qrw.upgrade.loser_successor', CQ, 'h_qrw_upgrade', route='RG', defines=['QRW_UPGRADE=2'], target='queuing_rw_mutex_impl::upgrade_to_writer (reader; successor UPGRADE_LOSER)', source=QSRC, unwind=8))
    jobs.append(Job('qrw.upgrade.writer', CQ, 'h_qrw_upgrade', route='RG', defines=['QRW_UPGRADE=0'], target='queuing_rw_mutex_impl::upgrade_to_writer (already a writer)', source=QSRC, unwind=8))
    sl3, f3 = extract_mx(ctx)
    sliced += sl3
    fired['mutex'] = f3
    for name, nl in (('lock', 2), ('try_lock', 0), ('unlock', 0), ('wait', 1)):
        jobs.append(Job('mx.' + name, C, 'h_mx_' + name, route='RG', defines=['MX'], loops=nl > 0, nloops=nl if nl else None, target='mutex::' + name if name != 'wait' else 'waitable_atomic<bool>::wait', source=MX if name != 'wait' else WA))
    sl4, f4 = extract_rtm(ctx)
    sliced += sl4
    fired['rtm'] = f4
    CR = os.path.join(HERE, 'c08_rtm.c')
    for name, route, uw in (('acquire', 'LW', 12), ('try_acquire', 'LW', 12), ('release', 'LF', 2)):
        jobs.append(Job('rtm.' + name, CR, 'h_rtm_' + name, route=route, defines=['RTM'], target='rtm_mutex_impl::' + name, source=RTM, unwind=uw, inputs=['IN_only']))
    for name, route, uw in (('acquire_writer', 'LW', 12), ('acquire_reader', 'LW', 12), ('try_acquire_writer', 'LW', 12), ('try_acquire_reader', 'LW', 12), ('release', 'LF', 2), ('upgrade', 'LW', 12), ('downgrade', 'LF', 2)):
        jobs.append(Job('rtmrw.' + name, CR, 'h_rtmrw_' + name, route=route, defines=['RTMRW'], target='rtm_rw_mutex_impl::' + name, source=RTMRW, unwind=uw, inputs=['IN_only', 'IN_state']))
    sl5, f5 = extract_scoped(ctx)
    sliced += sl5
    fired['scoped_lock'] = f5
    for name in ('unique', 'rw_acquire', 'rw_held'):
        jobs.append(Job('scoped.' + name, C, 'h_scoped_' + name, route='LF', defines=['SCOPED'], target=('unique_scoped_lock' if name == 'unique' else 'rw_scoped_lock') + ' (' + name + ')', source=SCL, unwind=2, inputs=['IN_write', 'IN_mode']))
    return {
        'jobs': jobs, 'sliced': sliced, 'fired': fired,
        'trusted': ['sequentially consistent atomics (memory orders dropped)', 'closed world: m_state / m_flag / my_flag / my_atomic and the queuing_rw_mutex node words + q_tail are only touched by the functions under proof (scan-enforced)',
                    'spin_wait_while_eq / spin_wait_until_eq: return only when the condition holds (assumed contract; helper texts pinned)', 'cxx2c rewriter',
                    'queuing_rw_mutex: tricky_atomic_pointer wrappers, RELEASED/ACQUIRED/FLAG taken as their pinned texts (the plain atomic operation plus pointer/word casts)',
                    'queuing_rw_mutex: backward gotos (retry / requested / waiting) are cut by a hand-written invariant encoding: assert at the label and at the backward goto, havoc of the whole model state and of every local declared in front of the label (list checked by the extractor), assume',
                    'queuing_rw_mutex / internal lock: a spin-loop iteration that stays in the loop writes nothing (obligation C08.qrw.spin) and the rely is transitively closed, so the first iteration stands for all',
                    'queuing_rw_mutex: the harness model code (not the sliced code) runs with pointer checks switched off by pragma; bounds checks stay on',
                    'mutex: r1::wait_on_address may return at any time (pure interference point); timed_spin_wait_until evaluates its predicate one or more times and returns the last value; notify_by_address_one is recorded',
                    'rw_mutex: adaptive_wait_on_address is a pure interference point; notify_by_address / notify_by_address_all are recorded',
                    'rtm_mutex / rtm_rw_mutex: begin_transaction returns "started" or any abort code, abort_transaction ends the path (a rolled-back transaction is the path on which begin returned the code), governor::speculation_enabled arbitrary; '
                    'the operations of the underlying spin_mutex / spin_rw_mutex are stubs that record the mode held (their protocols are the sm.* / srw.* jobs); write_flag reads false for whoever has just taken the real lock (rely; guarantee side proved)',
                    'scoped_lock wrappers: the mutex operations are stubs that record the mode held'],
        'drops': ['call_itt_notify / ITT_NOTIFY / machine_pause -> RG_NOP()', 'atomic_backoff -> RG_NOP()', 'std::atomic<T> -> T behind numbered ATOMIC_*_AT(site, ...) / A_<OP>(site, field, object, ...) primitives', '__TBB_ASSERT -> proof obligation',
                  'queuing_rw_mutex: `if (T* x = e) {` -> `T* x = e; if (x) {`; `load(w)->f.store(v);` -> `{ T* nx_ = load(w); nx_->f.store(v); }`; `#if __TBB_USE_ITT_NOTIFY` resolved as built (1), `#if TBB_USE_ASSERT` as built (0)',
                  'waitable_atomic::wait: the lambda predicate -> function-like macro with the same expression; delegated_function wrapper -> RG_NOP()'],
        'not_decided': ['queuing_rw_mutex: the composition of the node-local facts into the global statements (active requests form a prefix of the queue, hence one writer / no reader beside a writer; grants follow queue order) is not mechanised: '
                        'every job proves its guarantees under a rely whose clauses are guarantees of the other jobs plus the structural assumptions listed under assumptions',
                        'queuing_rw_mutex: liveness (every blocked acquirer eventually gets the lock) beyond its safety cores (hand-over exactly once; order pin / my_prev reset / loser mark / grant; flag handshake on my_prev; internal locks released); '
                        'F15 (jobs qrw.release.writer.loser, qrw.upgrade.loser_successor) is a lost hand-off in the UPGRADE_LOSER domain',
                        'queuing_rw_mutex: node lifetime (a node is not touched after its owner destroyed it) beyond: no access to a successor after the hand-over grant; the node waits for the pin before it is recycled',
                        'queuing_mutex: queue order and hand-off across more than one node (multi-node MCS protocol) beyond the node-publication and token obligations',
                        'mutex / rw_mutex: the wake-up machinery itself (address_waiter.cpp, concurrent_monitor; property C02): decided are only the order "state word changed, then notify", which context is notified, and the re-check by the woken thread',
                        'RTM variants: hardware semantics (a conflicting real locker aborts a transaction that has the lock word in its read set); decided is the bookkeeping around it',
                        'visibility of critical-section writes (memory model); TSO store-buffer delays'],
        'assumptions': ['atomics are sequentially consistent', 'fewer than 2^40 simultaneous readers (the reader field does not overflow)',
                        'qrw A1: an active writer is the head of the queue (nothing ahead of it writes its words any more)', 'qrw A2: a queued reader whose my_prev reads null has no predecessor',
                        'qrw A3: requests queued behind a node that is not an active reader wait: they do not unlink themselves and their state only moves READER -> READER_UNBLOCKNEXT; behind an active writer they are in WRITER / READER / READER_UNBLOCKNEXT / UPGRADE_WAITING '
                        '(UPGRADE_LOSER only in the *.loser jobs)', 'qrw A4: the kind of a request (reader / writer) is fixed; a reader successor does not complete an upgrade, and a successor in UPGRADE_WAITING / UPGRADE_LOSER stays so, while this node is ahead of it',
                        'qrw A5 (flag handshake): a predecessor that finds this node\'s FLAG in the my_prev word it replaces keeps its own internal lock taken until this node releases it; it rewrites my_prev only while holding its own internal lock '
                        '(guarantee side: C08.qrw.prev, failing only in the F15 domain)', 'qrw A6: the successor that moved this node to READER_UNBLOCKNEXT is a READER request and stays its successor until granted; the successor that moved it out of UPGRADE_REQUESTED is an upgrader that waits behind it',
                        'qrw A7 (upgrade): a predecessor that leaves as head hands over in the order pin (my_going=2), my_prev reset, [UPGRADE_LOSER mark if it is a writer that saw this node UPGRADE_WAITING], grant (my_going=1) - the order proved for release',
                        'a request that still waits for its first grant has never flagged its my_prev'],
    }


_REPLAY = {}


def replay(ctx, jobname, failure):
    if os.environ.get('C08_NO_REPLAY'):      # mutation self-tests: the verdict of the verifier is what is looked at
        return {'reproduced': False, 'detail': 'native replay switched off (C08_NO_REPLAY)'}
    if jobname.startswith(('rtm', 'scoped')):
        return {'reproduced': False, 'detail': 'no native recipe: hardware transactions are not available here / the wrapper obligations are about call pairing'}
    exe = _REPLAY.get(ctx.work)
    if not exe:
        exe = _REPLAY[ctx.work] = native.build([os.path.join(HERE, 'c08_replay.cpp')], os.path.join(ctx.work, 'c08_replay'), flags=['-fno-access-control'], link_tbb=True)
    rc, out = native.run([exe, jobname], timeout=120)
    rep = {'cmd': exe + ' ' + jobname, 'rc': rc, 'output': out[-1500:], 'reproduced': False, 'detail': 'native recipes found no failing schedule'}
    m = re.search(r'REPRODUCED (.*)', out)
    if m:
        rep['reproduced'] = True
        rep['detail'] = m.group(1)
        w = re.search(r'class=(\S+)', m.group(1))
        rep['witness_class'] = w.group(1) if w else None
    return rep
