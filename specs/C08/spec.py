"""C08 -- mutexes: mutual exclusion, reader/writer rules, truthful try/upgrade/downgrade (state-word protocols, rely/guarantee)."""
import os
import sys
import re
HERE = os.path.dirname(os.path.abspath(__file__))
sys.path.insert(0, os.path.join(HERE, '..'))
sys.path.insert(0, os.path.join(HERE, '..', '..', 'tools'))
import common
import native
from cxx2c import Rewriter, CClass, slice_block, tag_loops, ExtractionBreak, load, mask, strip_comments
from prove import Job

SRW = 'include/oneapi/tbb/spin_rw_mutex.h'
SM = 'include/oneapi/tbb/spin_mutex.h'
QM = 'include/oneapi/tbb/queuing_mutex.h'
RWM = 'include/oneapi/tbb/rw_mutex.h'

SRW_METHODS = [  # name, signature, atomic sites, loops
    ('lock', r'void lock\(\)', 3, 1), ('try_lock', r'bool try_lock\(\)', 2, 0), ('unlock', r'void unlock\(\)', 1, 0),
    ('lock_shared', r'void lock_shared\(\)', 3, 1), ('try_lock_shared', r'bool try_lock_shared\(\)', 3, 0),
    ('unlock_shared', r'void unlock_shared\(\)', 1, 0), ('upgrade', r'bool upgrade\(\)', 4, 2), ('downgrade', r'void downgrade\(\)', 1, 0)]


def closed_world(rel, cls_sig, field, allowed_methods, extra_ok=()):
    """every textual use of `field` inside the class lies in a listed method (or a listed ctor/dtor/declaration line)"""
    cls = slice_block(rel, cls_sig).text
    m = mask(cls)
    spans = []
    for name, sig in allowed_methods:
        h = re.search(sig, m)
        if not h:
            raise ExtractionBreak('%s: method %s not found for closed-world scan' % (rel, name))
        b = m.find('{', h.end() - 1)
        d, j = 0, b
        while True:
            if m[j] == '{':
                d += 1
            elif m[j] == '}':
                d -= 1
                if d == 0:
                    break
            j += 1
        spans.append((h.start(), j))
    stray = []
    for u in re.finditer(r'\b%s\b' % field, m):
        if any(a <= u.start() <= b for a, b in spans):
            continue
        line = cls[cls.rfind('\n', 0, u.start()) + 1:cls.find('\n', u.start())]
        if any(re.search(p, line) for p in extra_ok):
            continue
        stray.append(line.strip())
    if stray:
        raise ExtractionBreak('%s: closed-world scan: %s is used outside the functions under proof: %s' % (rel, field, stray[:3]))


def srw_like(rel, cls_sig, prefix, methods, rw, nop_extra=()):
    out = []
    sl = []
    for name, sig, nsites, nloops in methods:
        s = slice_block(rel, sig, within=cls_sig)
        sl.append('%s:%d %s::%s' % (rel, s.line, prefix, name))
        t = s.text
        t = rw.sub(t, r'^(void|bool) (\w+)\(\)', r'\1 %s_\2(void)' % prefix, 1, 1, name='sig')
        t = rw.sub(t, r'call_itt_notify\([^;]*\);', 'RG_NOP();', 0, name='itt->RG_NOP')
        for p in nop_extra:
            t = rw.sub(t, p[0], p[1], 0, name='wait/notify->RG_NOP')
        t = rw.asserts(t, 0)
        f = 'm_state'
        t = rw.sub(t, r'\b%s\.load\([^)]*\)' % f, 'ATOMIC_LOAD(%s)' % f, 0, name='atomic-load')
        t = rw.sub(t, r'\b%s\.compare_exchange_strong\((\w+),\s*([^;]*?)\)\)' % f, r'ATOMIC_CAS(%s,&\1,\2))' % f, 0, name='atomic-cas')
        t = rw.sub(t, r'\b%s\.fetch_add\(([^)]*)\)' % f, r'ATOMIC_FETCH_ADD(%s,\1)' % f, 0, name='atomic-fetch_add')
        t = rw.sub(t, r'\(%s &= ([^;]*)\);' % f, r'ATOMIC_AND_FETCH(%s,\1);' % f, 0, name='atomic-and-fetch')
        t = rw.sub(t, r'\(%s -= ([^;]*)\);' % f, r'ATOMIC_ADD_FETCH(%s,-(\1));' % f, 0, name='atomic-sub-fetch')
        t = rw.sub(t, r'\b%s \|= ([^;]*);' % f, r'ATOMIC_FETCH_OR(%s,\1);' % f, 0, name='atomic-or=')
        t = rw.sub(t, r'\b%s &= ([^;]*);' % f, r'ATOMIC_FETCH_AND(%s,\1);' % f, 0, name='atomic-and=')
        t = rw.sub(t, r'\b%s -= ([^;]*);' % f, r'ATOMIC_FETCH_ADD(%s,-(\1));' % f, 0, name='atomic--=')
        t = rw.sub(t, r'\b%s \+= ([^;]*);' % f, r'ATOMIC_FETCH_ADD(%s,\1);' % f, 0, name='atomic-+=')
        t = rw.sub(t, r'(?<![\w(,])\(m_state &', '(ATOMIC_LOAD(m_state) &', 0, name='implicit-load')
        t = rw.sub(t, r'!\(m_state &', '!(ATOMIC_LOAD(m_state) &', 0, name='implicit-load')
        t = rw.sub(t, r'for \(atomic_backoff (\w+); ; \1\.pause\(\)\)', 'for (;;)', 0, name='backoff-for')
        t = rw.sub(t, r'atomic_backoff \w+;', 'RG_NOP();', 0, name='backoff-decl->RG_NOP')
        t = rw.sub(t, r'\b\w+\.(pause|reset)\(\);', 'RG_NOP();', 0, name='backoff-call->RG_NOP')
        t = rw.sub(t, r'while \((.*)\) ;', r'while (\1) { }', 0, name='empty-while')
        t = rw.sub(t, r'while \((.*)\) RG_NOP\(\);', r'while (\1) { RG_NOP(); }', 0, name='braces')
        t = rw.sub(t, r'(?<![\w.>])(unlock_shared|lock|try_lock|try_lock_shared)\(\)', r'%s_\1()' % prefix, 0, name='self-call')
        t = rw.sub(t, r'VERIF_ASSERT\(ATOMIC_LOAD\(m_state\)', 'VERIF_ASSERT(PLAIN_READ(m_state)', 0, name='assert-reads are ghost reads')
        t = rw.sub(t, r'VERIF_ASSERT\(\(ATOMIC_LOAD\(m_state\)', 'VERIF_ASSERT((PLAIN_READ(m_state)', 0, name='assert-reads are ghost reads')
        t = rw.sub(t, r'VERIF_ASSERT\(m_state &', 'VERIF_ASSERT(PLAIN_READ(m_state) &', 0, name='assert-reads are ghost reads')
        t = rw.sub(t, r'VERIF_ASSERT\(\(m_state &', 'VERIF_ASSERT((PLAIN_READ(m_state) &', 0, name='assert-reads are ghost reads')
        t = rw.number_sites(t, name, ops=('LOAD', 'CAS', 'FETCH_ADD', 'FETCH_OR', 'FETCH_AND', 'AND_FETCH', 'ADD_FETCH'), expect=nsites)
        t = tag_loops(t, name, rw, expect=nloops)
        t = rw.std(t)
        out.append(t)
    return '\n'.join(out) + '\n', sl


def extract(ctx):
    sliced, fired = [], {}
    # ---- spin_rw_mutex -------------------------------------------------------------
    rw = Rewriter('spin_rw_mutex')
    cls_sig = r'class spin_rw_mutex \{'
    for pat, what in ((r'static constexpr state_type WRITER = 1;', 'WRITER'), (r'static constexpr state_type WRITER_PENDING = 2;', 'WRITER_PENDING'),
                      (r'static constexpr state_type READERS = ~\(WRITER \| WRITER_PENDING\);', 'READERS'), (r'static constexpr state_type ONE_READER = 4;', 'ONE_READER'),
                      (r'static constexpr state_type BUSY = WRITER \| READERS;', 'BUSY'), (r'using state_type = std::intptr_t;', 'state_type'),
                      (r'std::atomic<state_type> m_state;', 'm_state')):
        if not re.search(pat, load(SRW)):
            raise ExtractionBreak('spin_rw_mutex.h: constant %s changed' % what)
    closed_world(SRW, cls_sig, 'm_state', [(n, s) for n, s, _, _ in SRW_METHODS],
                 extra_ok=(r'spin_rw_mutex\(\) noexcept : m_state\(0\)', r'~spin_rw_mutex', r'__TBB_ASSERT\(!m_state', r'std::atomic<state_type> m_state;'))
    txt, sl = srw_like(SRW, cls_sig, 'spin_rw_mutex', SRW_METHODS, rw)
    common.write(ctx, 'srw.inc', txt)
    sliced += sl
    fired['spin_rw_mutex'] = rw.fired
    # ---- rw_mutex (waitable variant; waiting/notification calls are safety-neutral and become RG_NOP) ----
    rw = Rewriter('rw_mutex')
    RWM_METHODS = [('lock', r'void lock\(\)', None, 1), ('try_lock', r'bool try_lock\(\)', None, 0), ('unlock', r'void unlock\(\)', None, 0),
                   ('lock_shared', r'void lock_shared\(\)', None, 1), ('try_lock_shared', r'bool try_lock_shared\(\)', None, 0), ('unlock_shared', r'void unlock_shared\(\)', None, 0),
                   ('upgrade', r'bool upgrade\(\)', None, 2), ('downgrade', r'void downgrade\(\)', None, 0)]
    NOPS = [(r'auto wakeup_condition = \[&\] \{[^}]*\};', 'RG_NOP();'), (r'adaptive_wait_on_address\([^;]*\);', 'RG_NOP();'), (r'r1::notify_by_address(?:_all)?\([^;]*\);', 'RG_NOP();'),
            (r'state_type has_writer = WRITER \| WRITER_PENDING;', 'state_type has_writer = WRITER | WRITER_PENDING;'),
            (r'__TBB_ASSERT\(m_state\.load\(std::memory_order_relaxed\) & WRITER, nullptr\),', '__TBB_ASSERT(m_state.load(std::memory_order_relaxed) & WRITER, nullptr);'),
            (r'state_type curr_state = \(m_state &= READERS \| WRITER_PENDING\);', 'state_type curr_state = (m_state &= (READERS | WRITER_PENDING));'),
            (r'if \(m_state\.fetch_add\(ONE_READER\) & has_writer\)', 'if (m_state.fetch_add(ONE_READER) & has_writer)'),
            (r'if \(!\(m_state & WRITER_PENDING\)\)', 'if (!(m_state.load(std::memory_order_relaxed) & WRITER_PENDING))')]
    for pat, what in ((r'static constexpr state_type WRITER = 1;', 'WRITER'), (r'static constexpr state_type WRITER_PENDING = 2;', 'WRITER_PENDING'), (r'static constexpr state_type ONE_READER = 4;', 'ONE_READER')):
        if not re.search(pat, load(RWM)):
            raise ExtractionBreak('rw_mutex.h: constant %s changed' % what)
    closed_world(RWM, r'class rw_mutex \{', 'm_state', [(n, sg) for n, sg, _, _ in RWM_METHODS],
                 extra_ok=(r'rw_mutex\(\) noexcept : m_state\(0\)', r'~rw_mutex', r'__TBB_ASSERT\(!m_state', r'std::atomic<state_type> m_state;'))
    txt, sl = srw_like(RWM, r'class rw_mutex \{', 'rw_mutex', RWM_METHODS, rw, nop_extra=NOPS)
    common.write(ctx, 'rwm.inc', txt)
    sliced += sl
    fired['rw_mutex'] = rw.fired
    # ---- spin_mutex -------------------------------------------------------------------
    rw = Rewriter('spin_mutex')
    cls_sig = r'class spin_mutex \{'
    out = []
    for name, sig, ns, nl in (('lock', r'void lock\(\)', 1, 1), ('try_lock', r'bool try_lock\(\)', 1, 0), ('unlock', r'void unlock\(\)', 1, 0)):
        s = slice_block(SM, sig, within=cls_sig)
        sliced.append('%s:%d spin_mutex::%s' % (SM, s.line, name))
        t = rw.sub(s.text, r'^(void|bool) (\w+)\(\)', r'\1 spin_mutex_\2(void)', 1, 1, name='sig')
        t = rw.sub(t, r'call_itt_notify\([^;]*\);', 'RG_NOP();', 1, name='itt->RG_NOP')
        t = rw.sub(t, r'atomic_backoff backoff;', 'RG_NOP();', 0, name='backoff-decl->RG_NOP')
        t = rw.sub(t, r'backoff\.pause\(\);', '{ RG_NOP(); }', 0, name='backoff-call->RG_NOP')
        t = rw.atomics(t, ['m_flag'], 1)
        t = rw.number_sites(t, name, expect=ns)
        t = tag_loops(t, name, rw, expect=nl)
        out.append(t)
    closed_world(SM, cls_sig, 'm_flag', [('lock', r'void lock\(\)'), ('try_lock', r'bool try_lock\(\)'), ('unlock', r'void unlock\(\)')],
                 extra_ok=(r'spin_mutex\(\) noexcept : m_flag\(false\)', r'std::atomic<bool> m_flag;'))
    common.write(ctx, 'sm.inc', '\n'.join(out) + '\n')
    fired['spin_mutex'] = rw.fired
    # ---- queuing_mutex::scoped_lock ------------------------------------------------------
    q = CClass(QM, r'class scoped_lock \{', 'qnode', tbind={'queuing_mutex': 'struct qmutex', 'scoped_lock': 'struct qnode', 'uintptr_t': 'uintptr_t'})
    q.harvest_members(['m_mutex', 'm_next', 'm_going'])
    rw = q.rw
    out = []
    PRE = [(r'call_itt_notify\([^;]*\);', 'RG_NOP();', 0),
           (r'spin_wait_while_eq\(m_going, 0U\);', 'SPIN_WAIT_WHILE_EQ_going(self);', 0),
           (r'spin_wait_while_eq\(m_next, nullptr\);', 'SPIN_WAIT_WHILE_EQ_next(self);', 0),
           (r'\bthis\b(?!->)', 'self', 0), (r'= &m;', '= m;', 0),
           (r'm_next\.load\(std::memory_order_acquire\)->m_going\.store\(1U, std::memory_order_release\);', 'ATOMIC_STORE(ATOMIC_LOAD(m_next)->m_going, 1U);', 0)]
    for name, sig in (('acquire', r'void acquire\( queuing_mutex& m \)'), ('try_acquire', r'bool try_acquire\( queuing_mutex& m \)'), ('release', r'void release\(\)'), ('reset', r'void reset\(\)')):
        t = q.convert(q.method(sig), 'qnode_' + name, methods=['reset'], pre=PRE)
        t = rw.sub(t, r'queuing_mutex\* m\b', 'struct qmutex* m', 0, name='bind')
        t = rw.atomics(t, ['m_next', 'm_going', 'q_tail'], 0)
        t = rw.sub(t, r'struct qnode\* pred', 'struct qnode* pred', 0)
        t = rw.number_sites(t, name, by_kind=True)
        out.append(t)
    sliced += q.sliced
    if 'ATOMIC_XCHG_AT(acquire_XCHG_1, m->q_tail, self)' not in out[0]:
        raise ExtractionBreak('queuing_mutex::acquire: the q_tail exchange was not found')
    common.write(ctx, 'qm_struct.inc', q.struct_decl())
    common.write(ctx, 'qm.inc', '\n'.join(out) + '\n')
    fired['queuing_mutex'] = rw.fired
    return sliced, fired


def build(ctx):
    sliced, fired = extract(ctx)
    C = os.path.join(HERE, 'c08.c')
    jobs = []
    for name, sig, ns, nl in SRW_METHODS:
        jobs.append(Job('srw.' + name, C, 'h_srw_' + name, route='RG', defines=['SRW'], loops=nl > 0, nloops=nl if nl else None,
                        target='spin_rw_mutex::' + name, source=SRW, timeout=300))
    for name, nl in (('lock', 1), ('try_lock', 0), ('unlock', 0), ('lock_shared', 1), ('try_lock_shared', 0), ('unlock_shared', 0), ('upgrade', 3), ('downgrade', 0)):
        jobs.append(Job('rwm.' + name, C, 'h_rwm_' + name, route='RG', defines=['RWM'], loops=nl > 0, nloops=nl if nl else None, target='rw_mutex::' + name, source=RWM, timeout=300))
    for name, nl in (('lock', 1), ('try_lock', 0), ('unlock', 0)):
        jobs.append(Job('sm.' + name, C, 'h_sm_' + name, route='RG', defines=['SM'], loops=nl > 0, nloops=nl if nl else None, target='spin_mutex::' + name, source=SM))
    for name in ('acquire', 'try_acquire', 'release'):
        jobs.append(Job('qm.' + name, C, 'h_qm_' + name, route='RG', defines=['QM'], target='queuing_mutex::scoped_lock::' + name, source=QM))
    return {
        'jobs': jobs, 'sliced': sliced, 'fired': fired,
        'trusted': ['sequentially consistent atomics (memory orders dropped)', 'closed world: m_state / m_flag are only touched by the functions under proof (scan-enforced)',
                    'spin_wait_while_eq: returns only when the location differs (assumed contract)', 'cxx2c rewriter'],
        'drops': ['call_itt_notify -> RG_NOP()', 'atomic_backoff -> RG_NOP()', 'std::atomic<T> -> T behind numbered ATOMIC_*_AT(site, ...) primitives', '__TBB_ASSERT -> proof obligation'],
        'not_decided': ['queuing_mutex / queuing_rw_mutex queue order and hand-off across more than one node (multi-node MCS protocol) beyond the node-publication and token obligations',
                        'mutex.h (waitable flag; same shape as spin_mutex)', 'rw_mutex: blocking/wake-up calls (adaptive_wait_on_address, notify_by_address) are safety-neutral and replaced by RG_NOP - no lost-wake-up claim', 'RTM variants (hardware transactions)', 'every blocked acquirer eventually gets the lock (liveness)',
                        'visibility of critical-section writes (memory model)'],
        'assumptions': ['atomics are sequentially consistent', 'fewer than 2^40 simultaneous readers (the reader field does not overflow)'],
    }


def replay(ctx, jobname, failure):
    exe = native.build([os.path.join(HERE, 'c08_replay.cpp')], os.path.join(ctx.work, 'c08_replay'), flags=['-fno-access-control'], link_tbb=True)
    rc, out = native.run([exe, jobname], timeout=120)
    rep = {'cmd': exe + ' ' + jobname, 'rc': rc, 'output': out[-1500:], 'reproduced': False, 'detail': 'native recipes found no failing schedule'}
    m = re.search(r'REPRODUCED (.*)', out)
    if m:
        rep['reproduced'] = True
        rep['detail'] = m.group(1)
        w = re.search(r'class=(\S+)', m.group(1))
        rep['witness_class'] = w.group(1) if w else None
    return rep
