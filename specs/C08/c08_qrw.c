/* C08 / queuing_rw_mutex: rely/guarantee harnesses around the real queuing_rw_mutex_impl functions (qrw.inc, generated from /repo on every run).

   Local view: one node `me` (the scoped_lock the sliced function works on), two nodes that can be its predecessor (P1, P2: my_prev may be
   re-pointed while I look at it), two that can be its successor (N1, N2), the mutex M.  Every atomic primitive of the sliced code is
       A_<OP>(site, field, object, ...)  =  interfere();  universal guarantee table;  the plain operation;  ghost update;  job hook;  INV
   interfere() = any number of steps of any number of other threads: a havoc of every shared word constrained by the RELY below, which is the
   mirror image of the guarantee table (what a predecessor / a successor / the owner may do to a node word).
   Backward gotos (retry / requested / waiting) are cut points: LABEL_BACK asserts the cut invariant, havocs the world and every local declared
   in front of the label (list checked by the extractor) and assumes the invariant; GOTO_BACK asserts it and stops the path. */
#include "verif.h"
#include "qrw_decl.inc"
/* the harness' own model code only touches the global W by index: pointer checks are kept for the sliced code (qrw.inc) and switched off here (they cost 60 s of symbolic execution); bounds checks stay on everywhere */
#pragma CPROVER check push
#pragma CPROVER check disable "pointer"
#pragma CPROVER check disable "pointer-primitive"

/* ===================================================================================================================== */
#ifdef QRW_TRY_ACQUIRE
#define JOB_HOOK(site, kind, f, x, old, nv, wrote, a) do { if ((kind) == K_CAS && (f) == F_q_tail) G.cas_ok = (wrote);   /* hooks name an operation by what it does (kind, word, node), never by its site number: a deleted or added statement cannot shift them */ } while (0)
#endif
#ifdef QRW_ACQUIRE
/* stated assumption: the successor that asked to be unblocked (it moved my state to READER_UNBLOCKNEXT) is a READER request and stays my successor until I grant it */
#define JOB_INV (!((G.unblock || ME->my_state == STATE_READER_UNBLOCKNEXT) && G.me_in && G.n_share == 0 && UNTAG(ME->my_next) != 0) || G.kind[nidx(UNTAG(ME->my_next))] == 1)
#define JOB_RELY(o) (!(((o)->g.unblock || (o)->n[0].my_state == STATE_READER_UNBLOCKNEXT) && (o)->g.me_in && (o)->g.n_share == 0 && (o)->n[0].my_next != 0) || ME->my_next == (o)->n[0].my_next)
/* ghost: my predecessor's grant (my_going becomes 1); the ACTIVEREADER observation on the direct predecessor */
#define JOB_HOOK(site, kind, f, x, old, nv, wrote, a) do { \
    if (((kind) == K_LOAD || (kind) == K_CAS) && (f) == F_my_state && (x) > 0 && !G.me_linked && (old) == STATE_ACTIVEREADER) { OBLIGATION((x) == G.await_link, "C08.qrw.acquire: the state examined is that of the node swapped out of q_tail (the direct predecessor)"); G.saw_active = true; } \
    if ((kind) == -1 && (f) == F_my_going) { OBLIGATION((x) == 0 && G.me_linked, "C08.qrw.acquire: the request waits on its own my_going, after it linked itself behind its predecessor"); if (ME->my_going == 1) G.granted = true; } \
    if ((kind) == K_STORE && (f) == F_my_prev && (x) == 0 && G.me_in) OBLIGATION(!G.me_linked, "C08.qrw.acquire: my_prev is set before the node becomes reachable through the predecessor's my_next"); \
    if ((kind) == K_CAS && (f) == F_my_state && (x) == 0 && !(wrote)) G.unblock = true; \
    } while (0)
#endif


#ifdef QRW_UPGRADE
/* an ACTIVE READER upgrades (variant 0: the node is already WRITER; variant 2: its successor is an upgrader this node marked UPGRADE_LOSER in an earlier downgrade).
   Rely refinement for this job - the hand-over script of a predecessor that leaves as head of the queue, as proved for release (pin, my_prev reset, [loser mark], grant, in this order):
     ps = 0 nothing yet, 1 my_going=2 stored, 2 my_prev reset, 3 UPGRADE_LOSER stored (only when psw: the predecessor is a writer that saw this node UPGRADE_WAITING), 4 my_going=1 stored.
   A writer predecessor that downgrades marks without leaving (marked_dg).  Stated assumptions: a reader whose my_prev is null has no predecessor; when my flagged my_prev comes back
   unflagged my predecessor has seen the flag and waits for me to release its internal lock; a successor in WRITER / UPGRADE_WAITING / UPGRADE_LOSER waits and does not unlink itself */
#define PSINV (G.ps >= 0 && G.ps <= 4 && (G.ps == 1 ? (ME->my_going == 2 && UNTAG(ME->my_prev) != 0) : 1) && ((G.ps == 2 || G.ps == 3) ? (ME->my_going == 2 && UNTAG(ME->my_prev) == 0) : 1) \
    && (G.ps == 3 ? (G.psw && ME->my_state == STATE_UPGRADE_LOSER) : 1) && (G.ps == 4 ? (UNTAG(ME->my_prev) == 0 && ME->my_going != 2 && (!G.psw || ME->my_state == STATE_UPGRADE_LOSER || ME->my_state == STATE_WRITER)) : 1) \
    && (G.marked_dg ? (ME->my_state == STATE_UPGRADE_LOSER || ME->my_state == STATE_WRITER) : 1) && (ME->my_state == STATE_UPGRADE_LOSER && G.me_in ? (G.marked_dg || (G.psw && G.ps >= 3)) : 1) && (G.ps == 0 && G.me_in && !G.left ? ME->my_going != 2 : 1) && (G.psw && G.ps >= 1 ? (ME->my_state == STATE_UPGRADE_WAITING || ME->my_state == STATE_UPGRADE_LOSER || ME->my_state == STATE_WRITER) : 1))
#if QRW_UPGRADE == 2
#define SUCC_DOM(x) (G.kind[x] == 0 || W.n[x].my_state == STATE_UPGRADE_LOSER)
#else
#define SUCC_DOM(x) (W.n[x].my_state != STATE_UPGRADE_LOSER)
#endif
#define JOB_INV (PSINV && SUCC_DOM(3) && SUCC_DOM(4) && (!(G.me_in && (ME->my_state & STATE_COMBINED_UPGRADING) && !G.own_waiting) || G.marked_by_succ))
#define JOB_HAVOC do { G.ps = nondet_int(); G.psw = nondet_bool(); G.marked_dg = nondet_bool(); G.marked_by_succ = nondet_bool(); } while (0)
#define STAYS(o, x) (!(UNTAG((o)->n[0].my_next) == UW(&W.n[x]) && ((o)->n[x].my_state & (STATE_WRITER | STATE_COMBINED_UPGRADING))) || UNTAG(ME->my_next) == UW(&W.n[x]))
#define JOB_RELY(o) (G.ps >= (o)->g.ps && ((o)->g.ps >= 1 ? G.psw == (o)->g.psw : 1) && (G.ps > (o)->g.ps ? ((o)->g.ps >= 1 || UNTAG((o)->n[0].my_prev) != 0) && !(G.ps == 3 && !G.psw) : 1) \
    && (G.ps == (o)->g.ps ? (ME->my_going == (o)->n[0].my_going && ((o)->g.ps >= 1 ? UNTAG(ME->my_prev) == UNTAG((o)->n[0].my_prev) : UNTAG(ME->my_prev) != 0 || UNTAG((o)->n[0].my_prev) == 0)) : 1) \
    && ((ME->my_state == STATE_UPGRADE_LOSER && (o)->n[0].my_state != STATE_UPGRADE_LOSER) \
          ? ((G.psw && (o)->g.ps < 3 && G.ps >= 3 && G.marked_dg == (o)->g.marked_dg) || (G.marked_dg && UNTAG((o)->n[0].my_prev) != 0 && !(G.psw && G.ps >= 3 && (o)->g.ps < 3))) \
          : (G.marked_dg == (o)->g.marked_dg && !(G.psw && (o)->g.ps < 3 && G.ps >= 3))) \
    && STAYS(o, 3) && STAYS(o, 4) \
    /* my predecessor rewrites my my_prev only while it holds its own internal lock (proved for release/upgrade except in the job release.writer.loser) */ \
    && (!(((o)->g.lk[1] && UNTAG((o)->n[0].my_prev) == UW(P1)) || ((o)->g.lk[2] && UNTAG((o)->n[0].my_prev) == UW(P2))) || ME->my_prev == (o)->n[0].my_prev) \
    /* my state leaves UPGRADE_REQUESTED (by others) only through the mark of my direct successor, itself an upgrader that waits behind me: from then on my_next stays */ \
    && (((o)->n[0].my_state == STATE_UPGRADE_REQUESTED && ME->my_state != STATE_UPGRADE_REQUESTED) ? (G.marked_by_succ && UNTAG(ME->my_next) != 0) : G.marked_by_succ == (o)->g.marked_by_succ) \
    && ((o)->g.marked_by_succ ? UNTAG(ME->my_next) == UNTAG((o)->n[0].my_next) : 1))
#define UP_COMMON (me == s && G.me_in && G.me_linked && !G.left && ME->my_mutex == &W.M && !(ME->my_prev & FLAG) && !(ME->my_next & FLAG) && ghost_nolocks())
#define CUT_requested (UP_COMMON && !G.own_waiting && G.st0 == 0 && (ME->my_state == STATE_UPGRADE_REQUESTED || ME->my_state == STATE_UPGRADE_WAITING || ME->my_state == STATE_UPGRADE_LOSER))
#define CUT_waiting (UP_COMMON && G.st0 == 0 && (ME->my_state == STATE_UPGRADE_WAITING || ME->my_state == STATE_UPGRADE_LOSER))
#define HAVOC_requested do { tmp = (struct qrw_node*)nd_word(); me = (struct qrw_node*)nd_word(); } while (0)
#define HAVOC_waiting do { tmp = (struct qrw_node*)nd_word(); me = (struct qrw_node*)nd_word(); expected = (struct qrw_node*)nd_word(); } while (0)
#define JOB_HOOK(site, kind, f, x, old, nv, wrote, a) do { \
    if ((kind) == K_FADD && (f) == F_my_prev && (x) == 0 && (old) == 0) G.me_head = true;          /* stated assumption: a queued reader whose my_prev reads null has no predecessor */ \
    if ((kind) == K_CAS && (f) == F_my_prev && (x) == 0 && !((old) & FLAG)) G.xfer_seen = true; \
    if ((kind) == K_LOAD && (f) == F_my_state && (x) == 0 && G.st0 == 1) { G.st0 = 2; \
        OBLIGATION(ME->my_prev == 0 && ME->my_going != 2 && !G.lk[0], "C08.qrw.upgrade: the loser mark is read only after the predecessor finished its hand-over (my_prev null, pin my_going==2 gone): a writer predecessor's mark cannot be missed"); } \
    if ((kind) == K_CAS && (f) == F_my_state && (x) == 0) G.own_waiting = true;                    /* from its own CAS on, the state may be UPGRADE_WAITING without a successor's mark */ \
    if ((kind) == -1 && (f) == F_my_going && (x) == 0 && (a) == 2) G.st0 = 1;                        /* past the wait for the pin: the next load of my_state is the verdict */ \
    } while (0)
#endif
#ifdef QRW_DOWNGRADE
/* a WRITER holder downgrades (variant 0: the node is already ACTIVEREADER).  Stated assumptions as for the writer's release: the writer is the head; requests behind a node that is not
   an active reader wait (no unlink; state only READER -> READER_UNBLOCKNEXT) */
#define SUCC_OK(st) ((st) == STATE_READER || (st) == STATE_READER_UNBLOCKNEXT || (st) == STATE_UPGRADE_WAITING || (st) == STATE_UPGRADE_LOSER)
#define JOB_INV (ME->my_state == STATE_ACTIVEREADER || ((G.kind[3] == 0 || SUCC_OK(N1->my_state)) && (G.kind[4] == 0 || SUCC_OK(N2->my_state))))
#define WAITS(o, x) (W.n[x].my_state == (o)->n[x].my_state || ((o)->n[x].my_state == STATE_READER && W.n[x].my_state == STATE_READER_UNBLOCKNEXT))
#define JOB_RELY(o) ((o)->n[0].my_state == STATE_ACTIVEREADER || (((o)->n[0].my_next == 0 || ME->my_next == (o)->n[0].my_next) && WAITS(o, 3) && WAITS(o, 4)))
#endif
#ifdef QRW_RELEASE_W
/* a WRITER holder releases.  Stated assumptions: the writer is the head of the queue; the requests queued behind an active writer are waiting ones
   (STATE_WRITER, STATE_READER, STATE_READER_UNBLOCKNEXT, STATE_UPGRADE_WAITING), or - variant LOSER - an upgrader this node marked UPGRADE_LOSER in an earlier downgrade */
#if QRW_RELEASE_W == 2
#define SUCC_OK(st) ((st) == STATE_UPGRADE_LOSER)
#else
#define SUCC_OK(st) ((st) == STATE_READER || (st) == STATE_READER_UNBLOCKNEXT || (st) == STATE_UPGRADE_WAITING)
#endif
/* stated assumption: a request queued behind an active writer waits: it does not unlink itself, so my_next only goes from null to the newcomer */
#define WAITS(o, x) (W.n[x].my_state == (o)->n[x].my_state || ((o)->n[x].my_state == STATE_READER && W.n[x].my_state == STATE_READER_UNBLOCKNEXT))   /* ... and its state only moves READER -> READER_UNBLOCKNEXT */
#define JOB_RELY(o) (((o)->n[0].my_next == 0 || ME->my_next == (o)->n[0].my_next || (o)->g.left) && WAITS(o, 3) && WAITS(o, 4))
#define JOB_INV ((G.kind[3] == 0 || SUCC_OK(N1->my_state) || G.lmarked[3]) && (G.kind[4] == 0 || SUCC_OK(N2->my_state) || G.lmarked[4]))
#define RELEASE_DONE_HOOK
#endif
#ifdef QRW_RELEASE_R
/* an ACTIVE READER releases.  Stated assumptions: a reader that reads its my_prev as null is the head of the queue; my predecessor rewrites my my_prev only while it holds
   its own internal lock; when my flagged my_prev comes back unflagged my predecessor has seen the flag and waits for me to release its internal lock */
#define JOB_RELY(o) (!(((o)->g.lk[1] && UNTAG((o)->n[0].my_prev) == UW(P1)) || ((o)->g.lk[2] && UNTAG((o)->n[0].my_prev) == UW(P2))) || ME->my_prev == (o)->n[0].my_prev)
#define CUT_retry (tmp == NULL && G.me_in && G.me_linked && !G.left && !G.me_head && ME->my_mutex == &W.M && ME->my_state == STATE_ACTIVEREADER && !(ME->my_prev & FLAG) && !(ME->my_next & FLAG) && ghost_clean())
#define HAVOC_retry tmp = (struct qrw_node*)nd_word()
#define RELEASE_DONE_HOOK
#endif
#ifdef RELEASE_DONE_HOOK
#define JOB_HOOK(site, kind, f, x, old, nv, wrote, a) do { \
    if ((kind) == K_FADD && (f) == F_my_prev && (x) == 0 && (old) == 0) G.me_head = true;          /* stated assumption: a queued reader whose my_prev reads null has no predecessor */ \
    if ((kind) == K_CAS && (f) == F_my_prev && (x) == 0 && !((old) & FLAG)) G.xfer_seen = true; \
    if ((kind) == -1 && (f) == F_my_going && (x) == 0 && (a) == 2) { \
        OBLIGATION(G.n_empty + G.n_handoff + G.n_unlink == 1, "C08.qrw.release: by the time the node leaves it has emptied the tail, or handed the lock to its successor, or unlinked itself from between its neighbours - exactly one of the three, exactly once"); \
        OBLIGATION(!G.lk[0] && !G.lk[1] && !G.lk[2] && !G.xfer[1] && !G.xfer[2], "C08.qrw.release: every internal lock taken (own, predecessor's) is released or handed over before the node leaves"); \
        OBLIGATION(G.relink_next == G.relink_prev, "C08.qrw.unlink: a middle reader that steps out re-points both neighbours (successor->my_prev and predecessor->my_next)"); \
        OBLIGATION(ME->my_going != 2, "C08.qrw.release: the node is not recycled while its predecessor still has it pinned (my_going == 2)"); \
        G.me_in = false; G.left = true; if (!G.lk[0]) G.lock_by_other = false; } \
    } while (0)
#endif

enum { F_my_prev, F_my_next, F_my_state, F_my_going, F_my_internal_lock, F_q_tail };
enum { K_LOAD, K_STORE, K_XCHG, K_CAS, K_FADD };
#define NN 5                      /* 0 me, 1 P1, 2 P2, 3 N1, 4 N2 */
struct ghost {
    bool me_in;                   /* my node is in the queue (published by the tail exchange / CAS, not yet left) */
    bool me_linked;               /* I have no predecessor or have stored myself into its my_next */
    bool me_head;                 /* nothing precedes me: empty tail at entry, or my_prev read as null (reader), or writer holder (stated assumption) */
    bool lk[NN];                  /* I hold node x's internal lock */
    bool xfer[NN];                /* node x's owner waits for ME to release its internal lock (responsibility transfer through my flagged my_prev) */
    bool pinned[NN], handed[NN];  /* I stored my_going=2 / then my_going=1 into node x */
    bool lock_by_other;           /* somebody else holds MY internal lock */
    bool xfer_out;                /* my successor had flagged its my_prev when I replaced it: it releases MY internal lock for me, I keep it until then and only wait */
    int await_link;               /* the node I swapped out of q_tail and have not linked to yet */
    unsigned n_empty, n_handoff, n_share, n_link, n_unlink, nwrites, back_hit;
    unsigned char kind[NN];       /* request kind of a successor: 0 writer, 1 reader; fixed for the life of the request */
    /* job-specific */
    bool relink_next, relink_prev, xfer_out_seen, xfer_seen;
    bool left;                    /* my node has left the queue (release is past its last wait) */
    bool saw_waiting[NN], lmarked[NN], prev_reset[NN];   /* I read node x as UPGRADE_WAITING / stored UPGRADE_LOSER into it / reset its my_prev */
    int nx;                       /* node last read from my my_next */
    bool write, granted, saw_active, cas_ok, tail_written, unblock, no_pred_ever; int ps; bool psw, marked_dg, marked_by_succ, own_waiting, saw_loser; bool marked; unsigned char st0;
};
struct world { struct qrw_mutex M; struct qrw_node n[NN]; struct ghost g; } W;
#define G W.g
#define ME (&W.n[0])
#define P1 (&W.n[1])
#define P2 (&W.n[2])
#define N1 (&W.n[3])
#define N2 (&W.n[4])
#define UW(p) ((uintptr_t)(p))
#define UNTAG(w) ((uintptr_t)(w) & ~FLAG)
#define TP_AND(p, m) ((struct qrw_node*)((uintptr_t)(p) & (m)))
#define TP_OR(p, m) ((struct qrw_node*)((uintptr_t)(p) | (m)))
#define PLAIN_READ(x) (x)
struct qrw_node OTHER;            /* stands for every node outside the local view; never dereferenced */
/* a pointer-valued word: null or one of the nodes, with or without FLAG (built from real addresses so that the casts of the sliced code resolve) */
static uintptr_t nd_word(void) { unsigned char k = nondet_uchar(); uintptr_t b = k == 0 ? 0 : k == 1 ? UW(ME) : k == 2 ? UW(P1) : k == 3 ? UW(P2) : k == 4 ? UW(N1) : k == 5 ? UW(N2) : UW(&OTHER); return b | (nondet_bool() ? FLAG : 0); }
static int nidx(uintptr_t o) { return o == UW(ME) ? 0 : o == UW(P1) ? 1 : o == UW(P2) ? 2 : o == UW(N1) ? 3 : o == UW(N2) ? 4 : -1; }
#define IS_PRED(x) ((x) == 1 || (x) == 2)
#define IS_NEXT(x) ((x) == 3 || (x) == 4)
static bool one_state(unsigned char s) { return s == STATE_WRITER || s == STATE_READER || s == STATE_READER_UNBLOCKNEXT || s == STATE_ACTIVEREADER || s == STATE_UPGRADE_REQUESTED || s == STATE_UPGRADE_WAITING || s == STATE_UPGRADE_LOSER; }

static uintptr_t rd(int f, int x) {
    switch (f) { case F_my_prev: return W.n[x].my_prev; case F_my_next: return W.n[x].my_next; case F_my_state: return W.n[x].my_state;
    case F_my_going: return W.n[x].my_going; case F_my_internal_lock: return W.n[x].my_internal_lock; default: return UW(W.M.q_tail); }
}
static void wr(int f, int x, uintptr_t v) {
    switch (f) { case F_my_prev: W.n[x].my_prev = v; break; case F_my_next: W.n[x].my_next = v; break; case F_my_state: W.n[x].my_state = (unsigned char)v; break;
    case F_my_going: W.n[x].my_going = (unsigned char)v; break; case F_my_internal_lock: W.n[x].my_internal_lock = (unsigned char)v; break; default: W.M.q_tail = (struct qrw_node*)v; }
}

/* nothing taken, pinned, handed over or counted yet */
static bool ghost_clean(void) {
    for (int x = 0; x < NN; x++) if (G.lk[x] || G.xfer[x] || G.pinned[x] || G.handed[x] || G.saw_waiting[x] || G.lmarked[x] || G.prev_reset[x]) return false;
    return !G.xfer_out && !G.relink_next && !G.relink_prev && G.n_empty == 0 && G.n_handoff == 0 && G.n_unlink == 0 && G.n_share == 0 && G.nx == -1;
}
static bool ghost_nolocks(void) {
    for (int x = 0; x < NN; x++) if (G.lk[x] || G.xfer[x] || G.pinned[x] || G.handed[x] || G.prev_reset[x] || G.lmarked[x]) return false;
    return !G.xfer_out && !G.relink_next && !G.relink_prev && G.n_empty == 0 && G.n_handoff == 0 && G.n_unlink == 0;
}
/* ---------------- invariant ---------------- */
static bool dom(void) {
    uintptr_t t = UNTAG(W.M.q_tail);
    if (G.left || G.n_unlink > 0) { if (t == UW(ME)) return false; }
    else if (!(G.me_in ? (t == UW(ME) || t == UW(N1) || t == UW(N2)) : ((t == 0 && W.M.q_tail == NULL) || t == UW(P1) || t == UW(P2)))) return false;
    uintptr_t p = UNTAG(ME->my_prev), n = UNTAG(ME->my_next);
    if (G.me_in && !(p == 0 || p == UW(P1) || p == UW(P2))) return false;
    if (G.me_in && !(n == 0 || n == UW(N1) || n == UW(N2))) return false;
    for (int x = 0; x < NN; x++) {
        if (x > 0 || G.me_in) { if (W.n[x].my_going > 2 || W.n[x].my_internal_lock > 1 || !one_state(W.n[x].my_state)) return false; }
        if (IS_NEXT(x)) {
            /* stated assumption: a successor's request kind is fixed; a writer request waits in STATE_WRITER; a reader request behind me does not complete an upgrade while I am in the queue */
            if (G.kind[x] == 0 ? W.n[x].my_state != STATE_WRITER : W.n[x].my_state == STATE_WRITER) return false;
            /* stated assumption: a request that still waits for its first grant has never flagged its my_prev */
            if ((W.n[x].my_state & (STATE_WRITER | STATE_COMBINED_WAITINGREADER)) && (W.n[x].my_prev & FLAG)) return false;
        }
    }
    return true;
}
static bool inv(void) {
    if (!dom()) return false;
    for (int x = 1; x < NN; x++) if ((G.lk[x] || G.xfer[x]) && W.n[x].my_internal_lock != ACQUIRED) return false;
    if (G.xfer_out) { if (!G.lk[0] || G.lock_by_other) return false; }
    else { if (G.me_in && (ME->my_internal_lock == ACQUIRED) != (G.lk[0] || G.lock_by_other)) return false;
        if (G.lk[0] && (G.lock_by_other || ME->my_internal_lock != ACQUIRED)) return false; }
    for (int x = 1; x <= 2; x++) if (!G.me_in && UNTAG(W.M.q_tail) == UW(&W.n[x]) && W.n[x].my_next != 0) return false;   /* the tail node has no successor yet */
    if (G.await_link > 0 && W.n[G.await_link].my_next != 0) return false;
    if (UNTAG(W.M.q_tail) == UW(ME) && ME->my_next != 0) return false;        /* I am the tail: no successor linked */
    return true;
}
#ifndef JOB_INV
#define JOB_INV 1
#endif
#define INV (inv() && (JOB_INV))

/* ---------------- rely ---------------- */
#ifndef JOB_RELY
#define JOB_RELY(o) 1
#endif
static bool rely(const struct world *o) {
    const struct qrw_node *m0 = &o->n[0];
    uintptr_t t0 = UW(o->M.q_tail), t1 = UW(W.M.q_tail);
    /* q_tail: a node that is not in the queue is never made the tail; while I am queued the tail moves away from me only to a newcomer, and comes back to me only when my
       successor unlinks itself (it cleared my my_next before and holds my internal lock) */
    if (t1 != t0) {
        if (UNTAG(t1) == UW(ME) && !(G.me_in && t1 == UW(ME) && UNTAG(t0) != UW(ME) && !o->g.lk[0] && ME->my_next == 0)) return false;
    }
    /* my_state of my node: READER -> READER_UNBLOCKNEXT (arriving successor), UPGRADE_REQUESTED -> UPGRADE_WAITING (upgrading successor), UPGRADE_WAITING -> UPGRADE_LOSER (writer predecessor); transitively closed */
    unsigned char s0 = m0->my_state, s1 = ME->my_state;
    if (s1 != s0 && !(G.me_in && ((s0 == STATE_READER && s1 == STATE_READER_UNBLOCKNEXT && m0->my_next == 0) || (s0 == STATE_UPGRADE_REQUESTED && s1 == STATE_UPGRADE_WAITING) || (s0 == STATE_UPGRADE_WAITING && s1 == STATE_UPGRADE_LOSER)))) return false;
    /* my_going: written by my predecessor only, once I am linked: 2 (pin) or 1 (grant) */
    if (ME->my_going != m0->my_going && !(G.me_in && G.me_linked && !G.no_pred_ever && (ME->my_going == 1 || ME->my_going == 2))) return false;
    /* my_prev: written by my predecessor only (whole-word exchange/store of an unflagged pointer); nobody writes it once it is null */
    if (ME->my_prev != m0->my_prev && !(G.me_in && G.me_linked && UNTAG(m0->my_prev) != 0 && !(ME->my_prev & FLAG))) return false;
    /* flag handshake: my predecessor replaces my my_prev by exchange; if it finds my FLAG it keeps its own internal lock taken and waits for ME to release it */
    for (int p = 1; p <= 2; p++) if (G.xfer[p] != (o->g.xfer[p] || (m0->my_prev == (UW(&W.n[p]) | FLAG) && ME->my_prev != m0->my_prev))) return false;
    /* my_next: a newcomer that swapped the tail links itself (0 -> node); a successor that unlinks itself rewrites it while holding my internal lock (so: never while I hold it) */
    if (ME->my_next != m0->my_next && !(G.me_in && !(ME->my_next & FLAG) && ((m0->my_next == 0 && UNTAG(t1) != UW(ME) && o->g.n_unlink == 0) || !o->g.lk[0]))) return false;
    /* my internal lock: nobody touches it while I hold it */
    if (o->g.lk[0] && !o->g.xfer_out && (ME->my_internal_lock != m0->my_internal_lock || G.lock_by_other)) return false;
    if (o->g.xfer_out && !(ME->my_internal_lock == m0->my_internal_lock || ME->my_internal_lock == RELEASED)) return false;     /* the successor that took over the duty releases it, nothing else */
    if (!G.me_in && (ME->my_internal_lock != m0->my_internal_lock || G.lock_by_other != o->g.lock_by_other)) return false;
    for (int x = 1; x < NN; x++) {
        if (IS_NEXT(x) && (o->n[x].my_state == STATE_UPGRADE_WAITING || o->n[x].my_state == STATE_UPGRADE_LOSER) && W.n[x].my_state != o->n[x].my_state) return false;  /* my successor cannot finish its upgrade while I am ahead of it */
        if (IS_NEXT(x) && G.pinned[x] && W.n[x].my_going != o->n[x].my_going) return false;      /* only its predecessor writes a waiting node's my_going */
    }
    return JOB_RELY(o);
}
static void interfere(void) {
    struct world o = W;
    W.M.q_tail = (struct qrw_node*)nd_word();
    for (int x = 0; x < NN; x++) { W.n[x].my_prev = nd_word(); W.n[x].my_next = nd_word(); W.n[x].my_state = nondet_uchar(); W.n[x].my_going = nondet_uchar(); W.n[x].my_internal_lock = nondet_uchar(); }
    G.lock_by_other = nondet_bool(); G.xfer[1] = nondet_bool(); G.xfer[2] = nondet_bool();
#ifdef JOB_HAVOC
    JOB_HAVOC;
#endif
    if (!o.g.me_in) { W.n[0] = o.n[0]; }        /* an unpublished node is private */
    __CPROVER_assume(rely(&o) && INV);
}

/* ---------------- universal guarantee table: what the sliced code may do to a node word ---------------- */
static bool own_step(unsigned char a, unsigned char b) {
    return (a == STATE_READER && b == STATE_ACTIVEREADER) || (a == STATE_READER_UNBLOCKNEXT && b == STATE_ACTIVEREADER) || (a == STATE_ACTIVEREADER && b == STATE_UPGRADE_REQUESTED)
        || (a == STATE_UPGRADE_REQUESTED && b == STATE_UPGRADE_WAITING) || ((a == STATE_UPGRADE_WAITING || a == STATE_UPGRADE_LOSER) && b == STATE_WRITER)
        || (a == STATE_WRITER && (b == STATE_READER || b == STATE_ACTIVEREADER));
}
static void guarantee(int kind, int f, int x, uintptr_t old, uintptr_t nv) {
    bool own = x == 0, pred = IS_PRED(x), next = IS_NEXT(x);
    switch (f) {
    case F_my_state:
        if (own) { OBLIGATION(G.me_in ? own_step((unsigned char)old, (unsigned char)nv) : (nv == STATE_WRITER || nv == STATE_READER || nv == STATE_ACTIVEREADER),
                "C08.qrw.state: the owner moves its my_state only along the request life cycle (READER|READER_UNBLOCKNEXT->ACTIVEREADER->UPGRADE_REQUESTED->UPGRADE_WAITING|LOSER->WRITER->READER|ACTIVEREADER)");
            if (G.me_in && nv == STATE_WRITER) OBLIGATION(ME->my_prev == 0 && ME->my_going != 2 && !G.lk[0] && !G.xfer_out, "C08.qrw.upgrade: the node becomes WRITER only as head of the queue (my_prev null), holding no internal lock, after its predecessor's pin (my_going==2) is gone"); }
        else if (pred) OBLIGATION(kind == K_CAS && ((old == STATE_READER && nv == STATE_READER_UNBLOCKNEXT) || (old == STATE_UPGRADE_REQUESTED && nv == STATE_UPGRADE_WAITING)),
                "C08.qrw.state: a successor changes its predecessor's my_state only by CAS READER->READER_UNBLOCKNEXT or UPGRADE_REQUESTED->UPGRADE_WAITING");
        else OBLIGATION(old == STATE_UPGRADE_WAITING && nv == STATE_UPGRADE_LOSER, "C08.qrw.state: a predecessor changes its successor's my_state only from UPGRADE_WAITING to UPGRADE_LOSER");
        break;
    case F_my_going:
        if (own) OBLIGATION(G.me_in ? (nv == 1 && ME->my_state == STATE_WRITER && ME->my_prev == 0) : nv == 0, "C08.qrw.going: the owner resets my_going only while its node is outside the queue, and sets it itself only as the upgraded head writer");
        else { OBLIGATION(next, "C08.qrw.going: my_going of another node is written by its predecessor only");
            OBLIGATION(nv == 2 ? !G.pinned[x] : nv == 1, "C08.qrw.going: a predecessor stores 2 (pin) at most once and then 1 (grant)");
            OBLIGATION(!(nv == 1 && (G.handed[x])), "C08.qrw.going: a successor is granted at most once per operation");
            if (nv == 1 && G.pinned[x]) { OBLIGATION(G.prev_reset[x], "C08.qrw.handoff: the grant (my_going=1) of a hand-over comes after the successor's my_prev was reset");
                OBLIGATION(!G.saw_waiting[x] || G.lmarked[x], "C08.qrw.upgrade: a writer that hands over to a successor it saw in UPGRADE_WAITING marks it UPGRADE_LOSER before the grant (the successor's upgrade must report false)"); }
            if (G.nx >= 0) OBLIGATION(x == G.nx, "C08.qrw.handoff: pin and grant go to the node read from my_next (the direct successor)");
            if (nv == 2) OBLIGATION(G.me_head, "C08.qrw.handoff: only the head of the queue (writer, or reader that read its my_prev as null) pins its successor for a hand-over");
            if (nv == 1 && !G.pinned[x]) OBLIGATION(G.kind[x] == 1, "C08.qrw.share: a grant without hand-over (the granter stays in the queue) goes only to a READER request - never lets a writer in"); }
        break;
    case F_my_prev:
        if (own) { if (kind == K_FADD) OBLIGATION((old & FLAG) == 0 && nv == (old | FLAG), "C08.qrw.flag: FLAG is added only to an unflagged my_prev"); }
        else { OBLIGATION(next, "C08.qrw.prev: my_prev of another node is written by its predecessor only");
            OBLIGATION(G.lk[0] || (W.n[x].my_state & (STATE_WRITER | STATE_COMBINED_WAITINGREADER)), "C08.qrw.prev: the successor's my_prev is rewritten under the writer's own internal lock unless the successor still waits for its first grant - an upgrading successor (UPGRADE_WAITING or UPGRADE_LOSER) may have flagged its my_prev and be working on this node, a plain store loses its flag (lost hand-off)");
            if (G.lk[0] && !(W.n[x].my_state & (STATE_WRITER | STATE_COMBINED_WAITINGREADER))) OBLIGATION(kind == K_XCHG, "C08.qrw.prev: under the flag handshake the successor's my_prev is replaced by exchange (the old value tells whether the successor had flagged it)");
            if (nv == 0) OBLIGATION(G.pinned[x] && G.me_head, "C08.qrw.handoff: the successor's my_prev is reset only by the head of the queue after it pinned the successor (my_going=2)");
            else if (nv == UW(ME)) OBLIGATION(G.lk[0], "C08.qrw.upgrade: the upgrader re-points its successor's my_prev to itself only under its own internal lock");
            else { int p = nidx(nv); OBLIGATION(IS_PRED(p) && nv == ME->my_prev && G.lk[0] && G.lk[p], "C08.qrw.unlink: a reader re-points its successor's my_prev to its own predecessor only while holding its own and the predecessor's internal lock"); } }
        break;
    case F_my_next:
        if (own) { if (kind == K_FADD) OBLIGATION(old != 0 && (old & FLAG) == 0 && nv == (old | FLAG), "C08.qrw.flag: FLAG is added only to a non-null unflagged my_next");
            else if (G.me_in) OBLIGATION(nv == (old & ~FLAG), "C08.qrw.flag: the owner of a queued node only clears its own FLAG on my_next"); }
        else { OBLIGATION(pred, "C08.qrw.next: my_next of another node is written by its successor only");
            if (nv == UW(ME)) OBLIGATION(old == 0 && G.me_in && !G.me_linked && G.await_link == x, "C08.qrw.link: a newcomer links itself exactly once, into the null my_next of the node it swapped out of q_tail");
            else OBLIGATION(G.lk[0] && G.lk[x] && G.me_linked && UNTAG(ME->my_prev) == UW(&W.n[x]) && (nv == 0 || nv == ME->my_next), "C08.qrw.unlink: a reader rewrites its predecessor's my_next (null, then its own successor) only while holding its own and the predecessor's internal lock"); }
        break;
    case F_my_internal_lock:
        if (kind == K_CAS) OBLIGATION(!next && nv == ACQUIRED && old == RELEASED, "C08.qrw.ilock: the internal lock of the own node or of the predecessor is taken by CAS RELEASED->ACQUIRED");
        else if (own) OBLIGATION(nv == RELEASED && (G.me_in ? (G.lk[0] && !G.xfer_out) : 1), "C08.qrw.ilock: a queued node's own internal lock is released only by its holder, and not by the holder once the successor that had flagged its my_prev took the duty over");
        else OBLIGATION(pred && nv == RELEASED && (G.lk[x] || G.xfer[x]), "C08.qrw.ilock: the predecessor's internal lock is released only by the thread that took it or was handed the duty (flag handshake on my_prev)");
        break;
    default: {
        bool clean = ME->my_prev == 0 && ME->my_next == 0 && ME->my_going == 0 && ME->my_internal_lock == RELEASED;
        if (kind == K_XCHG) OBLIGATION(nv == UW(ME) && !G.me_in && clean && (ME->my_state == STATE_WRITER || ME->my_state == STATE_READER), "C08.qrw.tail: a node is published by the tail exchange with my_prev, my_next, my_going zero, lock released and state WRITER or READER");
        else if (old == 0) OBLIGATION(nv == UW(ME) && !G.me_in && clean && (ME->my_state == STATE_WRITER || ME->my_state == STATE_ACTIVEREADER), "C08.qrw.tail: try_acquire publishes a clean node in state WRITER or ACTIVEREADER into the empty tail");
        else if (old == UW(ME) && nv == 0) OBLIGATION(G.me_in && G.me_head, "C08.qrw.tail: the tail is emptied only by the head of the queue");
        else if (old == UW(ME) && nv == (UW(ME) | FLAG)) OBLIGATION(G.me_in && G.lk[0] && (ME->my_state & (STATE_UPGRADE_REQUESTED | STATE_COMBINED_UPGRADING)), "C08.qrw.tail: the tail is flagged only by an upgrading reader under its internal lock");
        else if (old == (UW(ME) | FLAG) && nv == UW(ME)) OBLIGATION(G.me_in, "C08.qrw.tail: the flagged tail is restored by its owner");
        else { int p = nidx(nv); OBLIGATION(old == UW(ME) && IS_PRED(p) && nv == ME->my_prev && G.lk[0] && G.lk[p] && ME->my_next == 0, "C08.qrw.unlink: the tail is moved back to the predecessor only by the last node, under both internal locks"); }
        } break;
    }
}
static void ghost(int kind, int f, int x, uintptr_t old, uintptr_t nv, bool wrote) {
    if (f == F_my_state && IS_NEXT(x) && old == STATE_UPGRADE_WAITING) G.saw_waiting[x] = true;
    if (f == F_my_state && IS_NEXT(x) && old == STATE_UPGRADE_LOSER) G.saw_loser = true;
    if (f == F_my_next && x == 0 && kind != K_STORE) G.nx = nidx(UNTAG(old));
    if (!wrote) return;
    if (f == F_q_tail) {
        if (nv == UW(ME) && !G.me_in) { G.me_in = true; G.lock_by_other = false; if (old == 0) { G.me_linked = true; G.me_head = true; G.no_pred_ever = true; G.await_link = -1; } else { G.me_linked = false; G.me_head = false; G.no_pred_ever = false; G.await_link = nidx(UNTAG(old)); } }
        else if (old == UW(ME) && nv == 0) { G.n_empty++; G.me_in = false; G.left = true; G.lock_by_other = false; }   /* nobody can reach the node any more */
        else if (old == UW(ME) && IS_PRED(nidx(nv))) { G.n_unlink++; }                 /* the last node steps out: the tail goes back to its predecessor */
        G.tail_written = true;
    }
    if (f == F_my_next && IS_PRED(x) && nv == UW(ME)) { G.me_linked = true; G.await_link = -1; G.n_link++; }
    if (f == F_my_next && IS_PRED(x) && nv != UW(ME) && nv != 0) { G.n_unlink++; G.relink_next = true; }          /* a middle node steps out: predecessor->my_next = my successor ... */
    if (f == F_my_prev && IS_NEXT(x) && IS_PRED(nidx(nv))) G.relink_prev = true;                                  /* ... and successor->my_prev = my predecessor */
    if (f == F_my_going && x > 0) { if (nv == 2) G.pinned[x] = true; else if (G.pinned[x]) { G.handed[x] = true; G.n_handoff++; } else G.n_share++; }
    if (f == F_my_prev && IS_NEXT(x) && nv == 0) G.prev_reset[x] = true;
    if (f == F_my_state && IS_NEXT(x) && nv == STATE_UPGRADE_LOSER) G.lmarked[x] = true;
    if (f == F_my_internal_lock) { if (kind == K_CAS) G.lk[x] = true; else { G.lk[x] = false; G.xfer[x] = false; } }
    if (f == F_my_prev && IS_NEXT(x) && kind == K_XCHG && (old & FLAG) && G.lk[0]) G.xfer_out = G.xfer_out_seen = true;   /* the successor had flagged its my_prev: it will release MY internal lock for me (I only wait) */
}
#ifndef JOB_HOOK
#define JOB_HOOK(site, kind, f, x, old, nv, wrote, a) ((void)0)
#endif
static uintptr_t rg_op(int kind, int site, int f, const void *obj, uintptr_t a, uintptr_t b) {
    interfere();
    int x = f == F_q_tail ? -1 : nidx(UW(obj));
    if (f == F_q_tail) OBLIGATION(obj == &W.M, "C08.qrw.ptr: q_tail is reached through the mutex the node was queued on");
    else OBLIGATION(x >= 0, "C08.qrw.ptr: only whole node pointers (non-null, FLAG cleared) taken from q_tail / my_prev / my_next are dereferenced");
    if (x < 0 && f != F_q_tail) { __CPROVER_assume(0); }
    if (x > 0) OBLIGATION(!G.handed[x], "C08.qrw.lifetime: a successor is not touched again after the lock was handed to it (my_going=1 after the pin is the predecessor's last access)");
    uintptr_t old = rd(f, x), nv = old; bool wrote = false;
    switch (kind) {
    case K_STORE: case K_XCHG: nv = a; wrote = true; break;
    case K_CAS: if (old == a) { nv = b; wrote = true; } break;
    case K_FADD: nv = old + a; wrote = true; break;
    default: break;
    }
    if (f != F_my_prev && f != F_my_next && f != F_q_tail) nv &= 0xff;
    if (wrote) { guarantee(kind, f, x, old, nv); wr(f, x, nv); G.nwrites++; }
    ghost(kind, f, x, old, nv, wrote);
    JOB_HOOK(site, kind, f, x, old, nv, wrote, a);
    __CPROVER_assert(INV, "guarantee: the invariant is re-established after every atomic step of the sliced code");
    return old;
}
static void rg_spin(int site, int f, const void *obj, uintptr_t v, bool while_eq) {
    interfere();
    int x = nidx(UW(obj));
    OBLIGATION(x >= 0, "C08.qrw.ptr: only whole node pointers (non-null, FLAG cleared) taken from q_tail / my_prev / my_next are dereferenced");
    if (x < 0) { __CPROVER_assume(0); }
    OBLIGATION(!G.left || (x == 0 && f == F_my_going), "C08.qrw.release: once the node has left the queue it waits for nothing but its predecessor's pin (my_going==2)");
    if (f != F_my_prev && f != F_my_next) v &= 0xff;
    __CPROVER_assume(while_eq ? rd(f, x) != v : rd(f, x) == v);     /* assumed contract of spin_wait_while_eq / spin_wait_until_eq (texts pinned by the extractor) */
    if (f == F_my_internal_lock && x == 0 && !while_eq && v == RELEASED) { G.lk[0] = false; G.xfer_out = false; }    /* waited until the internal lock was released for me */
    JOB_HOOK(site, -1, f, x, rd(f, x), rd(f, x), false, v);
}
#define RET_my_prev(v) (v)
#define RET_my_next(v) (v)
#define RET_my_state(v) ((unsigned char)(v))
#define RET_my_going(v) ((unsigned char)(v))
#define RET_my_internal_lock(v) ((unsigned char)(v))
#define RET_q_tail(v) ((struct qrw_node*)(v))
#define A_LOAD(site, fld, obj) RET_##fld(rg_op(K_LOAD, S_##site, F_##fld, (obj), 0, 0))
#define A_STORE(site, fld, obj, v) ((void)rg_op(K_STORE, S_##site, F_##fld, (obj), (uintptr_t)(v), 0))
#define A_XCHG(site, fld, obj, v) RET_##fld(rg_op(K_XCHG, S_##site, F_##fld, (obj), (uintptr_t)(v), 0))
#define A_FETCH_ADD(site, fld, obj, v) RET_##fld(rg_op(K_FADD, S_##site, F_##fld, (obj), (uintptr_t)(v), 0))
#define A_CASV(site, fld, obj, e, d) RET_##fld(rg_op(K_CAS, S_##site, F_##fld, (obj), (uintptr_t)(e), (uintptr_t)(d)))
#define A_CAS(site, fld, obj, ep, d) ({ __typeof__(ep) e_ = (ep); uintptr_t x_ = (uintptr_t)*e_; uintptr_t o_ = rg_op(K_CAS, S_##site, F_##fld, (obj), x_, (uintptr_t)(d)); *e_ = (__typeof__(*e_))o_; o_ == x_; })
#define A_SPIN_WHILE_EQ(site, fld, obj, v) rg_spin(S_##site, F_##fld, (obj), (uintptr_t)(v), true)
#define A_SPIN_UNTIL_EQ(site, fld, obj, v) rg_spin(S_##site, F_##fld, (obj), (uintptr_t)(v), false)

/* cut points of the backward gotos */
#define LABEL_BACK(l) do { __CPROVER_assert(INV && (CUT_##l), "cut point " #l ": the cut invariant holds whenever control reaches the label"); havoc_world(); HAVOC_##l; __CPROVER_assume(INV && (CUT_##l)); } while (0)
#ifdef VACUITY   /* twin: the back edges must be reachable too; the path leaves the function so that the harness can see it */
#define REACH(c, m) __CPROVER_assert(!(c), "VACUITY: reachable: " m)
#define GOTO_BACK(l) do { G.back_hit |= BACKBIT_##l; BACKRET_##l; } while (0)
#define BACKBIT_retry 1
#define BACKBIT_requested 2
#define BACKBIT_waiting 4
#define BACKRET_retry return
#define BACKRET_requested return false
#define BACKRET_waiting return false
#else
#define REACH(c, m) ((void)0)
#define GOTO_BACK(l) do { __CPROVER_assert(INV && (CUT_##l), "cut point " #l ": the cut invariant is re-established at the backward goto"); __CPROVER_assume(0); } while (0)
#endif
static void havoc_world(void) {
    struct ghost g0 = G; struct qrw_mutex *mm = ME->my_mutex;
    W.M.q_tail = (struct qrw_node*)nd_word();
    for (int x = 0; x < NN; x++) { W.n[x].my_prev = nd_word(); W.n[x].my_next = nd_word(); W.n[x].my_state = nondet_uchar(); W.n[x].my_going = nondet_uchar(); W.n[x].my_internal_lock = nondet_uchar(); }
    ME->my_mutex = mm;
    for (int x = 0; x < NN; x++) { G.lk[x] = nondet_bool(); G.xfer[x] = nondet_bool(); G.pinned[x] = nondet_bool(); G.handed[x] = nondet_bool(); G.saw_waiting[x] = nondet_bool(); G.lmarked[x] = nondet_bool(); G.prev_reset[x] = nondet_bool(); }
    G.nx = nondet_int();
    G.lock_by_other = nondet_bool(); G.xfer_out = nondet_bool(); G.relink_next = nondet_bool(); G.relink_prev = nondet_bool(); G.n_empty = nondet_unsigned(); G.n_handoff = nondet_unsigned(); G.n_share = nondet_unsigned(); G.n_unlink = nondet_unsigned();
    G.me_head = nondet_bool(); G.ps = nondet_int(); G.psw = nondet_bool(); G.marked_dg = nondet_bool(); G.marked_by_succ = nondet_bool(); G.own_waiting = nondet_bool(); G.st0 = nondet_uchar(); G.marked = nondet_bool(); G.tail_written = nondet_bool(); G.xfer_seen = nondet_bool(); G.xfer_out_seen = nondet_bool();
    (void)g0;
}
/* spin loops of the sliced code (`while(!try_lock)`, the backoff `for` of upgrade): an iteration that does not leave the loop writes nothing (checked), and the rely is
   transitively closed, so the states at the head of a later iteration are already among those of the first one: the body is analysed once and the back edge is cut */
#define SPIN_ONCE(check) for (unsigned w0_ = G.nwrites, once_ = 0; ; once_++) if (once_) { OBLIGATION(G.nwrites == w0_ && (check), "C08.qrw.spin: a spin-loop iteration that stays in the loop writes nothing and takes nothing (the first iteration stands for all)"); __CPROVER_assume(0); } else
#define LOOP_acquire_internal_lock_1 SPIN_ONCE(!G.lk[nidx(UW(s)) < 0 ? 0 : nidx(UW(s))])
#define LOOP_upgrade_to_writer_1 SPIN_ONCE(1)

static void mk_world(void) {
    W.M.q_tail = (struct qrw_node*)nd_word();
    for (int x = 0; x < NN; x++) { W.n[x].my_mutex = x == 0 ? NULL : &W.M; W.n[x].my_prev = nd_word(); W.n[x].my_next = nd_word(); W.n[x].my_state = nondet_uchar(); W.n[x].my_going = nondet_uchar(); W.n[x].my_internal_lock = nondet_uchar();
        G.lk[x] = G.xfer[x] = G.pinned[x] = G.handed[x] = G.saw_waiting[x] = G.lmarked[x] = G.prev_reset[x] = false; G.kind[x] = nondet_bool(); }
    G.me_in = G.me_linked = G.me_head = G.left = G.relink_next = G.relink_prev = G.xfer_out_seen = G.xfer_seen = false; G.nx = -1; G.lock_by_other = false; G.xfer_out = false; G.await_link = -1; G.n_empty = G.n_handoff = G.n_share = G.n_link = G.n_unlink = G.nwrites = G.back_hit = 0;
    G.granted = G.saw_active = G.cas_ok = G.tail_written = G.marked = G.unblock = G.no_pred_ever = G.psw = G.marked_dg = G.marked_by_succ = G.own_waiting = G.saw_loser = false; G.ps = 0; G.st0 = 0;
}

#ifndef CUT_retry
#define CUT_retry 1
#define HAVOC_retry ((void)0)
#endif
#ifndef CUT_requested
#define CUT_requested 1
#define HAVOC_requested ((void)0)
#endif
#ifndef CUT_waiting
#define CUT_waiting 1
#define HAVOC_waiting ((void)0)
#endif
#pragma CPROVER check pop
#include "qrw.inc"
#pragma CPROVER check push
#pragma CPROVER check disable "pointer"
#pragma CPROVER check disable "pointer-primitive"

#ifdef QRW_TRY_ACQUIRE
bool IN_write;
void h_qrw_try_acquire(void) {
    mk_world(); G.write = IN_write = nondet_bool(); __CPROVER_assume(INV);
    struct qrw_node *t0 = W.M.q_tail;
    bool ok = qrw_try_acquire(&W.M, ME, G.write);
    OBLIGATION(ok == G.cas_ok, "C08.qrw.try_acquire: reports success exactly when its CAS of the EMPTY tail (nullptr -> this node) succeeded - nobody held or waited at that instant");
    OBLIGATION(ok ? (G.me_in && G.me_head && ME->my_mutex == &W.M) : (!G.me_in && ME->my_mutex == NULL && !G.tail_written), "C08.qrw.try_acquire: truthful: on success the node is queued as head and records the mutex; on failure it left no trace (tail untouched, my_mutex null)");
    if (ok) { interfere(); OBLIGATION(ME->my_state == (G.write ? STATE_WRITER : STATE_ACTIVEREADER) && ME->my_prev == 0, "C08.qrw.try_acquire: the holder's state says WRITER / ACTIVEREADER as requested (later readers read it), no predecessor"); }
    (void)t0;
    VACUITY_END();
}
#endif

#ifdef QRW_ACQUIRE
bool IN_write;
void h_qrw_acquire(void) {
    mk_world(); G.write = IN_write = QRW_ACQUIRE; __CPROVER_assume(INV);
    qrw_acquire(&W.M, ME, G.write);
    OBLIGATION(G.me_in && G.me_linked && ME->my_mutex == &W.M, "C08.qrw.acquire: on return the node is queued, linked behind its predecessor (if any) and records the mutex");
    if (G.write) OBLIGATION(G.me_head || G.granted, "C08.qrw.acquire[write]: a writer returns only if the tail was empty at its exchange or after its predecessor granted it (my_going == 1) - no entry without hand-off");
    else { OBLIGATION(G.me_head || G.granted || G.saw_active, "C08.qrw.acquire[read]: a reader returns only if the tail was empty, or it was granted (my_going == 1), or it saw its direct predecessor as ACTIVEREADER before linking");
        OBLIGATION(ME->my_state == STATE_ACTIVEREADER, "C08.qrw.acquire[read]: the reader is ACTIVEREADER on return (later readers may pass on this)"); }
    OBLIGATION(G.n_link == (G.me_head ? 0 : 1), "C08.qrw.acquire: links itself exactly once iff it had a predecessor");
    OBLIGATION(G.n_handoff == 0 && G.n_empty == 0, "C08.qrw.acquire: acquire never hands the lock over or empties the tail");
    VACUITY_END();
}
#endif

#if defined(RELEASE_DONE_HOOK) || defined(QRW_DOWNGRADE) || defined(QRW_UPGRADE)
/* a node that is queued and holds the lock */
static void mk_holder(unsigned char st) {
    mk_world();
    G.me_in = true; G.me_linked = true; ME->my_mutex = &W.M; ME->my_state = st;
    __CPROVER_assume(!(ME->my_prev & FLAG) && !(ME->my_next & FLAG));           /* the holder is not inside upgrade/release: it has no flag set */
    G.lock_by_other = nondet_bool(); G.no_pred_ever = nondet_bool();
}
#endif
#ifdef QRW_RELEASE_W
void h_qrw_release_w(void) {
    mk_holder(STATE_WRITER);
    G.me_head = true; G.no_pred_ever = true;                                     /* stated assumption: an active writer is the head of the queue (nobody ahead writes its words any more) */
    __CPROVER_assume(ME->my_prev == 0 && ME->my_going != 2 && INV);
    qrw_release(ME);
    OBLIGATION(G.left && ME->my_mutex == NULL && G.n_unlink == 0, "C08.qrw.release[writer]: the writer leaves by emptying the tail or by handing over (never by unlinking), and forgets the mutex");
    OBLIGATION(G.n_share == 0, "C08.qrw.release[writer]: no grant other than the one hand-over");
    REACH(G.n_empty == 1, "the writer empties the tail"); REACH(G.n_handoff == 1 && !G.lmarked[3] && !G.lmarked[4], "hand-over to a waiting request");
#if QRW_RELEASE_W == 1
    REACH(G.n_handoff == 1 && (G.lmarked[3] || G.lmarked[4]) && !G.xfer_out_seen, "hand-over to an UPGRADE_WAITING successor, own lock released"); REACH(G.xfer_out_seen, "hand-over to an UPGRADE_WAITING successor that had flagged its my_prev");
#endif
    VACUITY_END();
}
#endif
#ifdef QRW_RELEASE_R
void h_qrw_release_r(void) {
    mk_holder(STATE_ACTIVEREADER);
    __CPROVER_assume((G.no_pred_ever ? ME->my_prev == 0 : 1) && INV);
    qrw_release(ME);
    OBLIGATION(G.left && ME->my_mutex == NULL, "C08.qrw.release[reader]: the reader leaves and forgets the mutex");
    OBLIGATION(G.n_share == 0, "C08.qrw.release[reader]: a releasing reader grants nobody except by the one hand-over as head");
    REACH(G.n_empty == 1, "the last reader empties the tail"); REACH(G.n_handoff == 1, "the head reader hands over"); REACH(G.n_unlink == 1 && !G.relink_next, "the last node unlinks (tail back to the predecessor)");
    REACH(G.n_unlink == 1 && G.relink_next && !G.xfer_out_seen, "a middle reader unlinks"); REACH(G.n_unlink == 1 && G.xfer_out_seen, "a middle reader unlinks from a successor that had flagged its my_prev");
    REACH(G.back_hit == 1 && G.xfer_seen, "retry after the flag handshake (predecessor's lock released on its behalf)"); REACH(G.back_hit == 1 && !G.xfer_seen, "retry after a failed attempt on the predecessor's lock");
    VACUITY_END();
}
#endif

#ifdef QRW_DOWNGRADE
void h_qrw_downgrade(void) {
#if QRW_DOWNGRADE == 1
    mk_holder(STATE_WRITER);
    G.me_head = true; G.no_pred_ever = true;                                     /* stated assumption: an active writer is the head of the queue */
    __CPROVER_assume(ME->my_prev == 0 && ME->my_going != 2 && INV);
#else
    mk_holder(STATE_ACTIVEREADER); __CPROVER_assume(INV);
#endif
    bool r = qrw_downgrade_to_reader(ME);
    OBLIGATION(r, "C08.qrw.downgrade: downgrade_to_reader reports success");
    OBLIGATION(G.me_in && !G.left && ME->my_mutex == &W.M && !G.tail_written && G.n_empty == 0 && G.n_handoff == 0 && G.n_unlink == 0 && !G.pinned[3] && !G.pinned[4] && !G.prev_reset[3] && !G.prev_reset[4],
               "C08.qrw.downgrade: the node never leaves the queue while downgrading: no hand-over, no pin, tail untouched - a waiting writer cannot get in");
    OBLIGATION(!G.lk[0] && !G.lk[1] && !G.lk[2] && !G.lk[3] && !G.lk[4], "C08.qrw.downgrade: no internal lock is left taken");
#if QRW_DOWNGRADE == 1
    OBLIGATION(ME->my_state == STATE_ACTIVEREADER || ME->my_state == STATE_UPGRADE_REQUESTED || ME->my_state == STATE_UPGRADE_WAITING || ME->my_state == STATE_UPGRADE_LOSER, "C08.qrw.downgrade: on return the node is an active reader");
    for (int x = 3; x <= 4; x++) OBLIGATION(!(G.saw_waiting[x] && !G.lmarked[x]), "C08.qrw.downgrade: a successor seen in UPGRADE_WAITING is marked UPGRADE_LOSER (this writer ran while it waited: its upgrade must report false)");
    if (G.nx >= 3) OBLIGATION(W.n[G.nx].my_state != STATE_UPGRADE_WAITING, "C08.qrw.downgrade: the direct successor is not left in UPGRADE_WAITING unmarked");
    REACH(G.n_share == 1, "a waiting reader is unblocked"); REACH(G.lmarked[3], "an UPGRADE_WAITING successor is marked"); REACH(G.nx < 0, "downgrade with no successor");
#else
    OBLIGATION(G.nwrites == 0, "C08.qrw.downgrade: an active reader's downgrade changes nothing");
#endif
    VACUITY_END();
}
#endif

#ifdef QRW_UPGRADE
void h_qrw_upgrade(void) {
#if QRW_UPGRADE == 0
    mk_holder(STATE_WRITER); G.me_head = true; G.no_pred_ever = true; __CPROVER_assume(ME->my_prev == 0 && ME->my_going != 2 && INV);
    bool r = qrw_upgrade_to_writer(ME);
    OBLIGATION(r && G.nwrites == 0, "C08.qrw.upgrade: a writer's upgrade reports true and changes nothing");
#else
    mk_holder(STATE_ACTIVEREADER);
    G.ps = nondet_int(); G.psw = false; G.st0 = 0;
    __CPROVER_assume((G.no_pred_ever ? ME->my_prev == 0 : 1) && G.ps <= 2 && INV);     /* a predecessor may be in the middle of handing over to this (active) reader */
    bool r = qrw_upgrade_to_writer(ME);
    OBLIGATION(G.me_in && !G.left && ME->my_mutex == &W.M && ME->my_state == STATE_WRITER && ME->my_prev == 0 && ME->my_going == 1, "C08.qrw.upgrade: on return the node is the WRITER at the head of the queue (my_prev null, my_going 1), still queued on its mutex");
    OBLIGATION(r == !((G.psw && G.ps >= 3) || G.marked_dg), "C08.qrw.upgrade: truthful: returns false exactly when a writer predecessor marked this request UPGRADE_LOSER (a writer ran while it waited: hand-over from a writer, or that writer's downgrade), true otherwise");
    OBLIGATION(G.ps == 0 || G.ps == 4, "C08.qrw.upgrade: it does not return in the middle of a predecessor's hand-over");
    OBLIGATION(ghost_nolocks() && G.n_link == 0, "C08.qrw.upgrade: no internal lock is left taken or owed, nothing is handed over, emptied or unlinked: the node never leaves the queue");
#if QRW_UPGRADE == 2
    REACH(G.saw_loser, "the successor is seen in UPGRADE_LOSER");
#else
    REACH(r && G.ps == 4, "hand-over from a reader predecessor, true"); REACH(!r && G.ps == 4, "hand-over from a writer predecessor, false"); REACH(!r && G.marked_dg, "marked by a downgrading writer, false");
    REACH(G.n_share == 1, "a waiting reader successor is unblocked"); REACH(G.xfer_seen, "flag handshake with the predecessor"); REACH(G.xfer_out_seen, "flag handshake with the successor");
    REACH(G.back_hit == 2, "goto requested"); REACH(G.back_hit == 4, "goto waiting");
#endif
#endif
    VACUITY_END();
}
#endif

#pragma CPROVER check pop
