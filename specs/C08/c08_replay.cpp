// Native recipes for failed C08 obligations on the REAL mutex headers.
#include <oneapi/tbb/spin_mutex.h>
#include <oneapi/tbb/spin_rw_mutex.h>
#include <oneapi/tbb/queuing_mutex.h>
#include <oneapi/tbb/queuing_rw_mutex.h>
#include <oneapi/tbb/mutex.h>
#include <oneapi/tbb/rw_mutex.h>
#include <atomic>
#include <thread>
#include <chrono>
#include <cstdio>
#include <string>
#include <vector>
using namespace std::chrono_literals;
static std::atomic<int> inside{0}, writers{0}, readers{0}, viol{0};
static void cs_enter() { if (inside.fetch_add(1) != 0) ++viol; }
static void cs_leave() { inside.fetch_sub(1); }

// queuing_mutex: a scoped_lock object that was once granted the lock by hand-off is re-used while another thread holds the mutex
static bool qm_reuse() {
    tbb::queuing_mutex m; std::atomic<int> stage{0};
    tbb::queuing_mutex::scoped_lock reused;
    std::thread t2([&] {
        while (stage != 1) std::this_thread::yield();
        reused.acquire(m);               // queues behind main, granted by hand-off
        cs_enter(); cs_leave();
        reused.release();
        stage = 2;
        while (stage != 3) std::this_thread::yield();
        reused.acquire(m);               // main holds the lock again: must wait
        cs_enter(); std::this_thread::sleep_for(20ms); cs_leave();
        reused.release();
    });
    { tbb::queuing_mutex::scoped_lock l(m); stage = 1; std::this_thread::sleep_for(50ms); }
    while (stage != 2) std::this_thread::yield();
    { tbb::queuing_mutex::scoped_lock l(m); cs_enter(); stage = 3; std::this_thread::sleep_for(100ms); cs_leave(); }
    t2.join();
    return viol != 0;
}
template <class M> static bool stress_excl(int nthreads, int iters) {
    M m; std::vector<std::thread> ts;
    for (int t = 0; t < nthreads; ++t) ts.emplace_back([&, t] { for (int i = 0; i < iters; ++i) { typename M::scoped_lock l; if ((i + t) % 3 == 0) { if (!l.try_acquire(m)) continue; } else l.acquire(m); cs_enter(); cs_leave(); } });
    for (auto& t : ts) t.join();
    return viol != 0;
}
template <class RW> static bool rw_stress(int nthreads, int iters) {
    RW m; std::vector<std::thread> ts; std::atomic<int> bad{0};
    for (int t = 0; t < nthreads; ++t) ts.emplace_back([&, t] {
        for (int i = 0; i < iters; ++i) {
            int k = (i * 7 + t) % 5;
            if (k == 0) { typename RW::scoped_lock l(m, true); if (writers.fetch_add(1) != 0 || readers != 0) ++bad; writers.fetch_sub(1); }
            else if (k == 1) { typename RW::scoped_lock l(m, false); readers.fetch_add(1); if (writers != 0) ++bad; readers.fetch_sub(1); }
            else if (k == 2) { typename RW::scoped_lock l(m, false); readers.fetch_add(1); if (writers != 0) ++bad; readers.fetch_sub(1); l.upgrade_to_writer(); if (writers.fetch_add(1) != 0 || readers != 0) ++bad; writers.fetch_sub(1); }
            else if (k == 3) { typename RW::scoped_lock l(m, true); if (writers.fetch_add(1) != 0 || readers != 0) ++bad; writers.fetch_sub(1); readers.fetch_add(1); l.downgrade_to_reader(); if (writers != 0) ++bad; readers.fetch_sub(1); }
            else { typename RW::scoped_lock l; if (l.try_acquire(m, i & 1)) { if (i & 1) { if (writers.fetch_add(1) != 0 || readers != 0) ++bad; writers.fetch_sub(1); } else { readers.fetch_add(1); if (writers != 0) ++bad; readers.fetch_sub(1); } } }
        }
    });
    for (auto& t : ts) t.join();
    return bad != 0;
}

// ---------------------------------------------------------------------------------------------------------------------
// queuing_rw_mutex, writer release with a successor in UPGRADE_LOSER (finding: lost hand-off).
// Three readers A, X, B queue in this order; A and B upgrade (A wins, B is UPGRADE_WAITING), A downgrades (B becomes UPGRADE_LOSER), upgrades again and releases as
// writer.  release() then takes the branch for "waiting" successors: it resets B's my_prev by a plain store, without its internal lock and without the flag handshake.
// If B is inside a pass of its `waiting:` loop (my_prev flagged, about to take A's internal lock) the reset is overwritten by B's own `my_prev = predecessor` and B
// spins for ever on a predecessor that has left.  To put B there without touching the library, B runs in a second process that shares the mutex and the three
// nodes; in that process A's node lies in a page that is PROT_NONE, every access of B to it faults, the handler waits for a permit, lets exactly that one access
// through (single step) and protects the page again.  The parent hands out a permit only while a call of A is blocked (A waits for B in the flag handshake).
// ---------------------------------------------------------------------------------------------------------------------
#include <new>
#include <cstring>
#include <csignal>
#include <ucontext.h>
#include <sys/mman.h>
#include <sys/wait.h>
#include <unistd.h>
namespace qrwloser {

typedef tbb::queuing_rw_mutex::scoped_lock node_t;
struct ctl_t { std::atomic<int> permits, faults, b_stage, b_result, a_busy; };
static char* shm; static const size_t PG = 4096;
static ctl_t* ctl; static tbb::queuing_rw_mutex* mtx; static node_t *nA, *nX, *nB;
static void on_segv(int, siginfo_t* si, void* uc_) {
    ucontext_t* uc = (ucontext_t*)uc_;
    char* a = (char*)si->si_addr;
    if (a < shm + PG || a >= shm + 2 * PG) { const char m[] = "unexpected SIGSEGV\n"; write(2, m, sizeof m - 1); _exit(3); }
    ctl->faults.fetch_add(1);
    for (;;) { int p = ctl->permits.load(); if (p > 0 && ctl->permits.compare_exchange_strong(p, p - 1)) break; struct timespec ts = {0, 200000}; nanosleep(&ts, nullptr); }
    mprotect(shm + PG, PG, PROT_READ | PROT_WRITE);
    uc->uc_mcontext.gregs[REG_EFL] |= 0x100;          // single-step: re-protect right after this one access
}
static void on_trap(int, siginfo_t*, void* uc_) {
    ucontext_t* uc = (ucontext_t*)uc_;
    uc->uc_mcontext.gregs[REG_EFL] &= ~0x100L;
    mprotect(shm + PG, PG, PROT_NONE);
}
static int child_B() {
    struct sigaction sa; memset(&sa, 0, sizeof sa); sa.sa_flags = SA_SIGINFO; sa.sa_sigaction = on_segv; sigaction(SIGSEGV, &sa, nullptr);
    sa.sa_sigaction = on_trap; sigaction(SIGTRAP, &sa, nullptr);
    mprotect(shm + PG, PG, PROT_NONE);               // in THIS process only: every access of B to A's node stalls until permitted
    nB->acquire(*mtx, false);
    ctl->b_stage = 1;
    while (ctl->b_stage != 2) { struct timespec ts = {0, 200000}; nanosleep(&ts, nullptr); }
    bool r = nB->upgrade_to_writer();                // must eventually return (every blocked acquirer gets the lock once holders release)
    ctl->b_result = r ? 1 : 0; ctl->b_stage = 3;
    nB->release();
    ctl->b_stage = 4;
    return 0;
}
// run one call of A in a thread; while it is blocked, let B make one more access to A's node every 20 ms
template <class F> static bool run_A(F f, const char* what, int max_ms = 3000) {
    std::atomic<bool> done{false};
    std::thread t([&] { f(); done = true; });
    int waited = 0;
    while (!done && waited < max_ms) { std::this_thread::sleep_for(20ms); waited += 20; if (!done) ctl->permits.fetch_add(1); }
    if (!done) { std::printf("A blocked in %s\n", what); t.detach(); return false; }
    t.join(); return true;
}

static int run() {
    shm = (char*)mmap(nullptr, 4 * PG, PROT_READ | PROT_WRITE, MAP_SHARED | MAP_ANONYMOUS, -1, 0);
    ctl = new (shm) ctl_t(); mtx = new (shm + 256) tbb::queuing_rw_mutex();
    nA = new (shm + PG) node_t(); nX = new (shm + 2 * PG) node_t(); nB = new (shm + 3 * PG) node_t();
    nA->acquire(*mtx, false); nX->acquire(*mtx, false);
    pid_t pid = fork();
    if (pid == 0) _exit(child_B());
    while (ctl->b_stage != 1) std::this_thread::sleep_for(1ms);
    // A starts to upgrade (waits for X, an active reader between A and B)
    std::atomic<bool> a1{false}; bool r1 = false;
    std::thread ta([&] { r1 = nA->upgrade_to_writer(); a1 = true; });
    std::this_thread::sleep_for(50ms);
    ctl->b_stage = 2;                                 // B upgrades too: UPGRADE_WAITING behind X
    std::this_thread::sleep_for(50ms);
    nX->release();                                    // X steps out: B's my_prev now names A, B starts a new pass on A (stalls at its first access to A's node)
    int w = 0; while (!a1 && w < 3000) { std::this_thread::sleep_for(20ms); w += 20; if (!a1) ctl->permits.fetch_add(1); }
    if (!a1) { std::printf("A blocked in upgrade#1\n"); kill(pid, SIGKILL); _exit(2); }
    ta.join();
    bool ok = run_A([&] { nA->downgrade_to_reader(); }, "downgrade");          // marks B UPGRADE_LOSER
    bool r2 = false;
    ok = ok && run_A([&] { r2 = nA->upgrade_to_writer(); }, "upgrade#2");       // B answers the flag handshake, starts another pass, stalls before taking A's internal lock
    ok = ok && run_A([&] { nA->release(); }, "release");                        // writer release with successor in UPGRADE_LOSER: plain store of B's my_prev
    if (!ok) { kill(pid, SIGKILL); return 2; }
    ctl->permits = 1 << 30;                           // B runs freely from here
    w = 0; while (ctl->b_stage < 3 && w < 3000) { std::this_thread::sleep_for(20ms); w += 20; }
    std::printf("A: upgrade#1=%d upgrade#2=%d released; B faults=%d stage=%d\n", (int)r1, (int)r2, ctl->faults.load(), ctl->b_stage.load());
    if (ctl->b_stage < 3) {
        std::printf("HANG: B never returns from upgrade_to_writer although A and X have released: q_tail=%s B.my_prev=%s (A's node, already released: A.my_mutex=%p)\n",
                    *(void**)mtx == (void*)nB ? "B" : "?", ((void**)nB)[1] == (void*)nA ? "A" : "?", ((void**)nA)[0]);
        kill(pid, SIGKILL); waitpid(pid, nullptr, 0); return 1;
    }
    while (ctl->b_stage != 4) std::this_thread::sleep_for(1ms);
    waitpid(pid, nullptr, 0);
    std::printf("no hang: B upgrade -> %d\n", ctl->b_result.load());
    return 0;
}
}  // namespace qrwloser

// run a stress recipe in a child process: a hang (lost hand-off / lost wake-up) is a finding too
template <class F> static int watched(F f, int seconds) {
    std::fflush(stdout);
    pid_t pid = fork();
    if (pid == 0) { bool bad = f(); _exit(bad ? 1 : 0); }
    for (int i = 0; i < seconds * 50; ++i) { int st = 0; if (waitpid(pid, &st, WNOHANG) == pid) return WIFEXITED(st) ? WEXITSTATUS(st) : 3; std::this_thread::sleep_for(20ms); }
    kill(pid, SIGKILL); waitpid(pid, nullptr, 0); return 2;
}
int main(int argc, char** argv) {
    std::string job = argc > 1 ? argv[1] : "";
    if (job.rfind("qm", 0) == 0) {
        if (qm_reuse()) { std::printf("REPRODUCED class=queuing_mutex-exclusion a scoped_lock that was granted the lock by hand-off, released, and is used again while another thread holds the queuing_mutex enters the critical section at once: 2 simultaneous holders\n"); return 0; }
        if (stress_excl<tbb::queuing_mutex>(8, 20000)) { std::printf("REPRODUCED class=queuing_mutex-exclusion two holders under 8-thread stress\n"); return 0; }
    } else if (job.rfind("qrw.release.writer.loser", 0) == 0 || job.rfind("qrw.upgrade.loser_successor", 0) == 0) {
        std::fflush(stdout);
        int rc = qrwloser::run();
        if (rc == 1) { std::printf("REPRODUCED class=qrw-loser-successor-lost-handoff readers A,X,B; A and B upgrade (A wins), A downgrades (B marked UPGRADE_LOSER), A upgrades again and releases as writer: release() resets B's my_prev by a plain store (branch for waiting successors), B - inside a pass of its waiting loop - overwrites the reset and never returns from upgrade_to_writer; the mutex stays locked for ever\n"); return 0; }
    } else if (job.rfind("qrw", 0) == 0) {
        int rc = watched([] { return rw_stress<tbb::queuing_rw_mutex>(6, 20000); }, 40);
        if (rc == 1) { std::printf("REPRODUCED class=queuing_rw_mutex-rules writer overlapped another writer or a reader under 6-thread stress (lock/upgrade/downgrade/try mix)\n"); return 0; }
        if (rc >= 2) { std::printf("REPRODUCED class=queuing_rw_mutex-hang the 6-thread stress mix (lock/upgrade/downgrade/try) does not finish: a request never gets the lock (rc=%d)\n", rc); return 0; }
    } else if (job.rfind("mx", 0) == 0) {
        int rc = watched([] { return stress_excl<tbb::mutex>(8, 30000); }, 40);
        if (rc == 1) { std::printf("REPRODUCED class=mutex-exclusion two holders of tbb::mutex under 8-thread stress\n"); return 0; }
        if (rc >= 2) { std::printf("REPRODUCED class=mutex-hang 8 threads on one tbb::mutex do not finish: a sleeping locker is never woken (rc=%d)\n", rc); return 0; }
    } else if (job.rfind("rwm", 0) == 0) {
        int rc = watched([] { return rw_stress<tbb::rw_mutex>(8, 30000); }, 40);
        if (rc == 1) { std::printf("REPRODUCED class=rw_mutex-rules writer overlapped another writer or a reader under 8-thread stress\n"); return 0; }
        if (rc >= 2) { std::printf("REPRODUCED class=rw_mutex-hang 8 threads on one tbb::rw_mutex do not finish: a sleeping locker is never woken (rc=%d)\n", rc); return 0; }
    } else if (job.rfind("sm", 0) == 0) {
        if (stress_excl<tbb::spin_mutex>(8, 50000)) { std::printf("REPRODUCED class=spin_mutex-exclusion two holders under 8-thread stress\n"); return 0; }
    } else if (job.rfind("srw", 0) == 0) {
        if (rw_stress<tbb::spin_rw_mutex>(8, 50000)) { std::printf("REPRODUCED class=spin_rw_mutex-rules writer overlapped another writer or a reader under 8-thread stress (lock/upgrade/downgrade/try mix)\n"); return 0; }
    }
    std::printf("NOT-REPRODUCED\n"); return 0;
}
