// Native recipes for failed C08 obligations on the REAL mutex headers.
#include <oneapi/tbb/spin_mutex.h>
#include <oneapi/tbb/spin_rw_mutex.h>
#include <oneapi/tbb/queuing_mutex.h>
#include <atomic>
#include <thread>
#include <chrono>
#include <cstdio>
#include <string>
#include <vector>
using namespace std::chrono_literals;
static std::atomic<int> inside{0}, writers{0}, readers{0}, viol{0};
static void cs_enter() { if (inside.fetch_add(1) != 0) ++viol; }
static void cs_leave() { inside.fetch_sub(1); }

// queuing_mutex: a scoped_lock object that was once granted the lock by hand-off is re-used while another thread holds the mutex
static bool qm_reuse() {
    tbb::queuing_mutex m; std::atomic<int> stage{0};
    tbb::queuing_mutex::scoped_lock reused;
    std::thread t2([&] {
        while (stage != 1) std::this_thread::yield();
        reused.acquire(m);               // queues behind main, granted by hand-off
        cs_enter(); cs_leave();
        reused.release();
        stage = 2;
        while (stage != 3) std::this_thread::yield();
        reused.acquire(m);               // main holds the lock again: must wait
        cs_enter(); std::this_thread::sleep_for(20ms); cs_leave();
        reused.release();
    });
    { tbb::queuing_mutex::scoped_lock l(m); stage = 1; std::this_thread::sleep_for(50ms); }
    while (stage != 2) std::this_thread::yield();
    { tbb::queuing_mutex::scoped_lock l(m); cs_enter(); stage = 3; std::this_thread::sleep_for(100ms); cs_leave(); }
    t2.join();
    return viol != 0;
}
template <class M> static bool stress_excl(int nthreads, int iters) {
    M m; std::vector<std::thread> ts;
    for (int t = 0; t < nthreads; ++t) ts.emplace_back([&, t] { for (int i = 0; i < iters; ++i) { typename M::scoped_lock l; if ((i + t) % 3 == 0) { if (!l.try_acquire(m)) continue; } else l.acquire(m); cs_enter(); cs_leave(); } });
    for (auto& t : ts) t.join();
    return viol != 0;
}
static bool rw_stress(int nthreads, int iters) {
    tbb::spin_rw_mutex m; std::vector<std::thread> ts; std::atomic<int> bad{0};
    for (int t = 0; t < nthreads; ++t) ts.emplace_back([&, t] {
        for (int i = 0; i < iters; ++i) {
            int k = (i * 7 + t) % 5;
            if (k == 0) { tbb::spin_rw_mutex::scoped_lock l(m, true); if (writers.fetch_add(1) != 0 || readers != 0) ++bad; writers.fetch_sub(1); }
            else if (k == 1) { tbb::spin_rw_mutex::scoped_lock l(m, false); readers.fetch_add(1); if (writers != 0) ++bad; readers.fetch_sub(1); }
            else if (k == 2) { tbb::spin_rw_mutex::scoped_lock l(m, false); readers.fetch_add(1); if (writers != 0) ++bad; readers.fetch_sub(1); l.upgrade_to_writer(); if (writers.fetch_add(1) != 0 || readers != 0) ++bad; writers.fetch_sub(1); }
            else if (k == 3) { tbb::spin_rw_mutex::scoped_lock l(m, true); if (writers.fetch_add(1) != 0 || readers != 0) ++bad; writers.fetch_sub(1); readers.fetch_add(1); l.downgrade_to_reader(); if (writers != 0) ++bad; readers.fetch_sub(1); }
            else { tbb::spin_rw_mutex::scoped_lock l; if (l.try_acquire(m, i & 1)) { if (i & 1) { if (writers.fetch_add(1) != 0 || readers != 0) ++bad; writers.fetch_sub(1); } else { readers.fetch_add(1); if (writers != 0) ++bad; readers.fetch_sub(1); } } }
        }
    });
    for (auto& t : ts) t.join();
    return bad != 0;
}
int main(int argc, char** argv) {
    std::string job = argc > 1 ? argv[1] : "";
    if (job.rfind("qm", 0) == 0) {
        if (qm_reuse()) { std::printf("REPRODUCED class=queuing_mutex-exclusion a scoped_lock that was granted the lock by hand-off, released, and is used again while another thread holds the queuing_mutex enters the critical section at once: 2 simultaneous holders\n"); return 0; }
        if (stress_excl<tbb::queuing_mutex>(8, 20000)) { std::printf("REPRODUCED class=queuing_mutex-exclusion two holders under 8-thread stress\n"); return 0; }
    } else if (job.rfind("sm", 0) == 0) {
        if (stress_excl<tbb::spin_mutex>(8, 50000)) { std::printf("REPRODUCED class=spin_mutex-exclusion two holders under 8-thread stress\n"); return 0; }
    } else if (job.rfind("srw", 0) == 0) {
        if (rw_stress(8, 50000)) { std::printf("REPRODUCED class=spin_rw_mutex-rules writer overlapped another writer or a reader under 8-thread stress (lock/upgrade/downgrade/try mix)\n"); return 0; }
    }
    std::printf("NOT-REPRODUCED\n"); return 0;
}
