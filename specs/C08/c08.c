/* C08 harnesses: rely/guarantee over one state word (spin_mutex, spin_rw_mutex, rw_mutex incl. its sleeping side, mutex on waitable_atomic), the MCS token protocol (queuing_mutex),
   the scoped_lock wrappers (SCOPED).  queuing_rw_mutex: c08_qrw.c; speculative (RTM) mutexes: c08_rtm.c.
   Every ATOMIC_*_AT(site, ...) primitive = interference by any number of other threads, then the plain operation, then the
   site's ghost hook, then the guarantee (INV re-established).  *.inc are generated from /repo on every run. */
#include "verif.h"

#if defined(SRW) || defined(RWM)
typedef intptr_t state_type;
#define WRITER ((state_type)1)
#define WRITER_PENDING ((state_type)2)
#define READERS (~(WRITER | WRITER_PENDING))
#define ONE_READER ((state_type)4)
#define BUSY (WRITER | READERS)
state_type m_state;
/* ghost census over ALL threads: writers, upgraders (own WRITER, still counted as reader), read holders, transient reader increments */
unsigned long gW, gU, gR, gT; bool meW, meU, meR, meT;
#define BOUND (gR < (1UL << 40) && gT < (1UL << 40))
#define INV (gW <= 1 && gU <= 1 && gW + gU <= 1 && ((m_state & WRITER) != 0) == (gW + gU == 1) && m_state >= 0 && (unsigned long)(m_state >> 2) == gR + gT \
  && (gW == 1 ? gR == 0 : 1) && (gU == 1 ? ((m_state & WRITER_PENDING) != 0) : 1) \
  && gW >= meW && gU >= meU && gT >= meT && gR >= (unsigned long)meR + (gU - (unsigned long)meU))
/* two-state rely/guarantee: while some upgrader owns the WRITER bit, no new read holder appears */
#define TWO_STATE(oU, oR) ((oU) == 1 && gU == 1 ? gR <= (oR) : 1)
static void interfere(void) {
    unsigned long oU = gU, oR = gR;
    m_state = nondet_intptr_t(); gW = nondet_ulong(); gU = nondet_ulong(); gR = nondet_ulong(); gT = nondet_ulong();
    __CPROVER_assume(INV && BOUND && (meU ? TWO_STATE(oU, oR) : 1));
}
#define RG_SITE(site, T, op) ({ interfere(); unsigned long oU_ = gU, oR_ = gR; T old_ = m_state; T r_ = (op); GHOST_##site; \
   __CPROVER_assert(INV, "guarantee: INV re-established at " #site); __CPROVER_assert(TWO_STATE(oU_, oR_), "guarantee: no new reader while an upgrader owns WRITER, at " #site); r_; })
#define ATOMIC_LOAD_AT(site, f) RG_SITE(site, state_type, (f))
#define ATOMIC_CAS_AT(site, f, e, d) RG_SITE(site, bool, ((f) == *(e) ? ((f) = (d), true) : (*(e) = (f), false)))
#define ATOMIC_FETCH_ADD_AT(site, f, d) RG_SITE(site, state_type, ((f) = old_ + (d), old_))
#define ATOMIC_FETCH_OR_AT(site, f, d) RG_SITE(site, state_type, ((f) = old_ | (d), old_))
#define ATOMIC_FETCH_AND_AT(site, f, d) RG_SITE(site, state_type, ((f) = old_ & (d), old_))
#define PLAIN_READ(f) (f)
#define ATOMIC_AND_FETCH_AT(site, f, d) RG_SITE(site, state_type, ((f) = old_ & (d), (f)))
#define ATOMIC_ADD_FETCH_AT(site, f, d) RG_SITE(site, state_type, ((f) = old_ + (d), (f)))
#define NOG ((void)0)
#define IDLE (!meW && !meU && !meR && !meT)
#define LOOPI(cond) __CPROVER_assigns(m_state, gW, gU, gR, gT, meW, meU, meR, meT EXTRA_ASSIGNS) __CPROVER_loop_invariant(INV && BOUND && (cond))
#define PRE(c) do { m_state = nondet_intptr_t(); gW = nondet_ulong(); gU = nondet_ulong(); gR = nondet_ulong(); gT = nondet_ulong(); \
    meW = nondet_bool(); meU = nondet_bool(); meR = nondet_bool(); meT = nondet_bool(); __CPROVER_assume(INV && BOUND && (c)); } while (0)
state_type IN_state;
#endif

#ifdef SRW
#define EXTRA_ASSIGNS
#define GHOST_lock_1 NOG
#define GHOST_lock_2 if (r_) { gW++; meW = true; }
#define GHOST_lock_3 NOG
#define GHOST_try_lock_1 NOG
#define GHOST_try_lock_2 if (r_) { gW++; meW = true; }
#define GHOST_unlock_1 { gW--; meW = false; }
#define GHOST_lock_shared_1 NOG
#define GHOST_lock_shared_2 if (!(r_ & WRITER)) { gR++; meR = true; } else { gT++; meT = true; }
#define GHOST_lock_shared_3 { gT--; meT = false; }
#define GHOST_try_lock_shared_1 NOG
#define GHOST_try_lock_shared_2 if (!(r_ & WRITER)) { gR++; meR = true; } else { gT++; meT = true; }
#define GHOST_try_lock_shared_3 { gT--; meT = false; }
#define GHOST_unlock_shared_1 { gR--; meR = false; }
#define GHOST_upgrade_1 NOG
#define GHOST_upgrade_2 if (r_) { gU++; meU = true; }
#define GHOST_upgrade_3 NOG
#define GHOST_upgrade_4 { gU--; gR--; gW++; meU = false; meR = false; meW = true; }
#define GHOST_downgrade_1 { gW--; gR++; meW = false; meR = true; }
#define LOOP_lock_1 LOOPI(IDLE)
#define LOOP_lock_shared_1 LOOPI(IDLE)
#define LOOP_upgrade_1 __CPROVER_assigns(m_state, gW, gU, gR, gT, meW, meU, meR, meT, s) __CPROVER_loop_invariant(INV && BOUND && !meW && !meU && meR && !meT)
#define LOOP_upgrade_2 LOOPI(!meW && meU && meR && !meT)
void spin_rw_mutex_lock(void); void spin_rw_mutex_unlock_shared(void);
#include "srw.inc"
void h_srw_lock(void) { PRE(IDLE); IN_state = m_state; spin_rw_mutex_lock(); interfere(); OBLIGATION(meW && gW == 1 && gR == 0 && gU == 0, "C08.srw: after lock() this thread is the only writer and there is no reader"); VACUITY_END(); }
void h_srw_try_lock(void) { PRE(IDLE); IN_state = m_state; bool ok = spin_rw_mutex_try_lock(); interfere(); OBLIGATION(ok ? (meW && gW == 1 && gR == 0 && gU == 0) : IDLE, "C08.srw: try_lock is truthful: true iff it took the exclusive lock, and it holds nothing otherwise"); VACUITY_END(); }
void h_srw_unlock(void) { PRE(meW && !meU && !meR && !meT); IN_state = m_state; spin_rw_mutex_unlock(); OBLIGATION(IDLE, "C08.srw: unlock releases the writer"); VACUITY_END(); }
void h_srw_lock_shared(void) { PRE(IDLE); IN_state = m_state; spin_rw_mutex_lock_shared(); interfere(); OBLIGATION(meR && gW == 0 && !meT, "C08.srw: after lock_shared() this thread is a reader and there is no writer"); VACUITY_END(); }
void h_srw_try_lock_shared(void) { PRE(IDLE); IN_state = m_state; bool ok = spin_rw_mutex_try_lock_shared(); interfere(); OBLIGATION(ok ? (meR && gW == 0 && !meT) : IDLE, "C08.srw: try_lock_shared is truthful"); VACUITY_END(); }
void h_srw_unlock_shared(void) { PRE(!meW && !meU && meR && !meT); IN_state = m_state; spin_rw_mutex_unlock_shared(); OBLIGATION(IDLE, "C08.srw: unlock_shared releases the reader"); VACUITY_END(); }
bool g_others_wrote;
void h_srw_upgrade(void) { PRE(!meW && !meU && meR && !meT); IN_state = m_state; bool ok = spin_rw_mutex_upgrade(); interfere();
    OBLIGATION(meW && !meR && !meU && gW == 1 && gR == 0, "C08.srw: after upgrade() this thread is the only writer, no reader remains"); VACUITY_END(); }
void h_srw_downgrade(void) { PRE(meW && !meU && !meR && !meT); IN_state = m_state; spin_rw_mutex_downgrade(); interfere(); OBLIGATION(meR && !meW && gW == 0, "C08.srw: downgrade goes writer->reader in one step: still holding, no writer slipped in"); VACUITY_END(); }
#endif

#ifdef RWM
/* rw_mutex: same word layout and census; readers also back off on WRITER_PENDING; unlock keeps WRITER_PENDING */
#define HASW (WRITER | WRITER_PENDING)
#define EXTRA_ASSIGNS , g_rel, g_new, g_slept, g_nW, g_nR, g_nA
#define GHOST_lock_1 NOG
#define GHOST_lock_2 NOG
#define GHOST_try_lock_1 NOG
#define GHOST_try_lock_2 if (r_) { gW++; meW = true; }
#define GHOST_unlock_1 { gW--; meW = false; }
#define GHOST_try_lock_shared_1 NOG
#define GHOST_try_lock_shared_2 if (!(r_ & HASW)) { gR++; meR = true; } else { gT++; meT = true; }
#define GHOST_try_lock_shared_3 { gT--; meT = false; }
#define GHOST_unlock_shared_1 { gR--; meR = false; }
#define GHOST_upgrade_1 NOG
#define GHOST_upgrade_2 if (r_) { gU++; meU = true; }
#define GHOST_upgrade_3 NOG
#define GHOST_upgrade_4 { gU--; gR--; gW++; meU = false; meR = false; meW = true; }
#define GHOST_downgrade_2 { gW--; gR++; meW = false; meR = true; }
#define GHOST_downgrade_3 NOG
#define LOOP_lock_1 LOOPI(IDLE)
#define LOOP_lock_shared_1 LOOPI(IDLE)
#define LOOP_upgrade_1 __CPROVER_assigns(m_state, gW, gU, gR, gT, meW, meU, meR, meT, s EXTRA_ASSIGNS) __CPROVER_loop_invariant(INV && BOUND && !meW && !meU && meR && !meT)
#define LOOP_upgrade_2 LOOPI(!meW && meU && meR && !meT)
/* sleeping side: adaptive_wait_on_address may return at any time (pure interference point); notifications are recorded.  g_rel: this call has changed the state word in the
   releasing direction (writer bit cleared / a reader count taken back / writer turned reader); g_new: the state word it wrote */
#define WRITER_CONTEXT ((uintptr_t)0)
#define READER_CONTEXT ((uintptr_t)1)
bool g_rel; state_type g_new; unsigned g_slept, g_nW, g_nR, g_nA; uintptr_t g_sleep_ctx;
static void STUB_wait(uintptr_t ctx) { OBLIGATION(ctx == g_sleep_ctx, "C08.rw_mutex: a writer (lock, upgrade) sleeps in the writer context, a reader in the reader context - the contexts unlock/unlock_shared/downgrade notify"); g_slept++; interfere(); }
static void STUB_notify(uintptr_t ctx) { OBLIGATION(g_rel, "C08.rw_mutex: waiters are notified only after the state word was changed (a woken thread re-reads the word) - no lost grant"); if (ctx == WRITER_CONTEXT) g_nW++; else g_nR++; }
static void STUB_notify_all(void) { OBLIGATION(g_rel, "C08.rw_mutex: waiters are notified only after the state word was changed (a woken thread re-reads the word) - no lost grant"); g_nA++; }
#undef GHOST_unlock_1
#define GHOST_unlock_1 { gW--; meW = false; g_rel = true; g_new = m_state; }
#undef GHOST_unlock_shared_1
#define GHOST_unlock_shared_1 { gR--; meR = false; g_rel = true; g_new = m_state; }
#undef GHOST_try_lock_shared_3
#define GHOST_try_lock_shared_3 { gT--; meT = false; g_rel = true; g_new = m_state; }
#undef GHOST_downgrade_2
#define GHOST_downgrade_2 { gW--; gR++; meW = false; meR = true; g_rel = true; g_new = m_state; }
#define SLEEPPRE(ctx) do { g_rel = false; g_slept = g_nW = g_nR = g_nA = 0; g_sleep_ctx = (ctx); } while (0)
bool rw_mutex_try_lock(void); bool rw_mutex_try_lock_shared(void); void rw_mutex_unlock_shared(void); void rw_mutex_lock(void);
#include "rwm.inc"
void h_rwm_lock(void) { PRE(IDLE); SLEEPPRE(WRITER_CONTEXT); IN_state = m_state; rw_mutex_lock(); interfere(); OBLIGATION(meW && gW == 1 && gR == 0 && gU == 0, "C08.rw_mutex: after lock() this thread is the only writer and there is no reader"); VACUITY_END(); }
void h_rwm_try_lock(void) { PRE(IDLE); SLEEPPRE(WRITER_CONTEXT); IN_state = m_state; bool ok = rw_mutex_try_lock(); OBLIGATION(g_slept == 0, "C08.rw_mutex: try_lock never sleeps"); interfere(); OBLIGATION(ok ? (meW && gW == 1 && gR == 0 && gU == 0) : IDLE, "C08.rw_mutex: try_lock is truthful and holds nothing when it fails"); VACUITY_END(); }
void h_rwm_unlock(void) { PRE(meW && !meU && !meR && !meT); SLEEPPRE(WRITER_CONTEXT); IN_state = m_state; rw_mutex_unlock();
    OBLIGATION(g_rel && ((g_new & WRITER_PENDING) ? (g_nW == 1 && g_nA == 0) : g_nA == 1), "C08.rw_mutex: unlock wakes the writers when a writer is pending in the word it wrote, everybody otherwise - after the write, exactly once"); OBLIGATION(IDLE, "C08.rw_mutex: unlock releases the writer"); VACUITY_END(); }
void h_rwm_lock_shared(void) { PRE(IDLE); SLEEPPRE(READER_CONTEXT); IN_state = m_state; rw_mutex_lock_shared(); interfere(); OBLIGATION(meR && gW == 0 && !meT, "C08.rw_mutex: after lock_shared() this thread is a reader and there is no writer"); VACUITY_END(); }
void h_rwm_try_lock_shared(void) { PRE(IDLE); SLEEPPRE(READER_CONTEXT); IN_state = m_state; bool ok = rw_mutex_try_lock_shared(); OBLIGATION(g_slept == 0, "C08.rw_mutex: try_lock_shared never sleeps");
    OBLIGATION(g_rel ? (!ok && g_nW == 1) : (g_nW == 0 && g_nA == 0), "C08.rw_mutex: a reader increment that had to be taken back wakes the writers it may have blocked; nothing else notifies"); interfere(); OBLIGATION(ok ? (meR && gW == 0 && !meT) : IDLE, "C08.rw_mutex: try_lock_shared is truthful"); VACUITY_END(); }
void h_rwm_unlock_shared(void) { PRE(!meW && !meU && meR && !meT); SLEEPPRE(READER_CONTEXT); IN_state = m_state; rw_mutex_unlock_shared();
    OBLIGATION(g_rel && ((g_new & WRITER_PENDING) ? (g_nW == 1 && g_nA == 0) : g_nA == 1), "C08.rw_mutex: unlock_shared wakes the writers when a writer is pending in the word it wrote, everybody otherwise - after the write, exactly once"); OBLIGATION(IDLE, "C08.rw_mutex: unlock_shared releases the reader"); VACUITY_END(); }
void h_rwm_upgrade(void) { PRE(!meW && !meU && meR && !meT); SLEEPPRE(WRITER_CONTEXT); IN_state = m_state; bool ok = rw_mutex_upgrade(); interfere(); OBLIGATION(meW && !meR && !meU && gW == 1 && gR == 0, "C08.rw_mutex: after upgrade() this thread is the only writer, no reader remains"); VACUITY_END(); }
void h_rwm_downgrade(void) { PRE(meW && !meU && !meR && !meT); SLEEPPRE(WRITER_CONTEXT); IN_state = m_state; rw_mutex_downgrade();
    OBLIGATION(g_rel && g_nW == 0 && g_nA == 0 && g_nR <= 1, "C08.rw_mutex: downgrade wakes readers only, after the word was changed"); interfere(); OBLIGATION(meR && !meW && gW == 0, "C08.rw_mutex: downgrade goes writer->reader in one step"); VACUITY_END(); }
#endif


#ifdef SM
bool m_flag; unsigned long gH; bool meH;
#define INV (gH <= 1 && m_flag == (gH == 1) && gH >= meH)
static void interfere(void) { m_flag = nondet_bool(); gH = nondet_ulong(); __CPROVER_assume(INV); }
#define ATOMIC_XCHG_AT(site, f, v) ({ interfere(); bool old_ = (f); (f) = (v); GHOST_##site; __CPROVER_assert(INV, "guarantee: INV re-established at " #site); old_; })
#define ATOMIC_STORE_AT(site, f, v) ({ interfere(); __CPROVER_assert(meH, "guarantee: only the holder clears the flag, at " #site); (f) = (v); GHOST_##site; __CPROVER_assert(INV, "guarantee: INV re-established at " #site); })
#define GHOST_lock_1 if (!old_) { gH++; meH = true; }
#define GHOST_try_lock_1 if (!old_) { gH++; meH = true; }
#define GHOST_unlock_1 { gH--; meH = false; }
#define LOOP_lock_1 __CPROVER_assigns(m_flag, gH, meH) __CPROVER_loop_invariant(INV && !meH)
#include "sm.inc"
#define SMPRE(c) do { m_flag = nondet_bool(); gH = nondet_ulong(); meH = nondet_bool(); __CPROVER_assume(INV && (c)); } while (0)
void h_sm_lock(void) { SMPRE(!meH); spin_mutex_lock(); interfere(); OBLIGATION(meH && gH == 1, "C08.spin_mutex: after lock() this thread is the only holder"); VACUITY_END(); }
void h_sm_try_lock(void) { SMPRE(!meH); bool ok = spin_mutex_try_lock(); interfere(); OBLIGATION(ok == meH && (ok ? gH == 1 : 1), "C08.spin_mutex: try_lock returns true iff it took the lock"); VACUITY_END(); }
void h_sm_unlock(void) { SMPRE(meH); spin_mutex_unlock(); OBLIGATION(!meH, "C08.spin_mutex: unlock releases"); VACUITY_END(); }
#endif

#ifdef QM
/* MCS queue lock, thread-modular: one lock token that is FREE, with the others, granted-to-me-in-flight, or held by me */
struct qmutex; struct qnode;
struct qmutex { struct qnode *q_tail; };
enum { T_FREE, T_OTHER, T_ME_INFLIGHT, T_ME };
#define SPIN_WAIT_WHILE_EQ_going(n) spin_wait_going(n)
#define SPIN_WAIT_WHILE_EQ_next(n) spin_wait_next(n)
static void spin_wait_going(struct qnode *n); static void spin_wait_next(struct qnode *n);
static void interfere(void);
struct qnode; 
#define ATOMIC_STORE_AT(site, f, v) do { interfere(); GHOSTPRE_##site; (f) = (v); GHOST_##site; __CPROVER_assert(QINV, "guarantee: INV re-established at " #site); } while (0)
#define ATOMIC_LOAD_AT(site, f) ({ interfere(); (f); })
#define ATOMIC_XCHG_AT(site, f, v) ({ interfere(); struct qnode *old_ = (f); (f) = (v); GHOST_##site; __CPROVER_assert(QINV, "guarantee: INV re-established at " #site); old_; })
#define ATOMIC_CAS_AT(site, f, e, d) ({ interfere(); bool r_ = ((f) == *(e)); if (r_) (f) = (d); else *(e) = (f); GHOST_##site; __CPROVER_assert(QINV, "guarantee: INV re-established at " #site); r_; })
struct qnode_fwd;
#include "qm_decl.h"
#include "qm.inc"
static void spin_wait_going(struct qnode *n) {
    interfere(); __CPROVER_assume(n->m_going != 0);
    OBLIGATION(tok == T_ME_INFLIGHT, "C08.queuing_mutex: the wait for m_going ends only through a grant by the predecessor that held the lock");
    tok = T_ME;
}
static void spin_wait_next(struct qnode *n) { interfere(); __CPROVER_assume(n->m_next != NULL); }
static void mk_state(void) {
    M.q_tail = nondet_bool() ? NULL : (nondet_bool() ? &A : &B);
    A.m_next = NULL; B.m_next = NULL; A.m_going = nondet_uintptr_t(); B.m_going = nondet_uintptr_t();
    me.m_next = nondet_ptr(); me.m_going = nondet_uintptr_t();       /* a re-used node carries stale fields */
    me.m_mutex = NULL; me_in = false; me_has_pred = false; me_linked = false; g_succ = NULL;
    tok = M.q_tail == NULL ? T_FREE : T_OTHER;
}
void h_qm_acquire(void) {
    mk_state(); __CPROVER_assume(QINV);
    qnode_acquire(&me, &M);
    OBLIGATION(tok == T_ME, "C08.queuing_mutex: acquire returns only when this thread holds the one lock token (mutual exclusion)");
    OBLIGATION(me.m_mutex == &M && me_in, "C08.queuing_mutex: the scoped_lock records the mutex it holds");
    interfere();
    OBLIGATION(tok == T_ME, "C08.queuing_mutex: nobody can take the lock from the holder");
    VACUITY_END();
}
void h_qm_try_acquire(void) {
    mk_state(); __CPROVER_assume(QINV);
    bool ok = qnode_try_acquire(&me, &M);
    OBLIGATION(ok ? (tok == T_ME && me.m_mutex == &M) : (tok != T_ME && tok != T_ME_INFLIGHT && !me_in && me.m_mutex == NULL), "C08.queuing_mutex: try_acquire is truthful and leaves no trace when it fails");
    VACUITY_END();
}
void h_qm_release(void) {
    mk_state();
    /* I hold the lock: either alone at the tail or with others queued behind me */
    me.m_mutex = &M; me_in = true; me_linked = true; tok = T_ME; me.m_going = nondet_uintptr_t();
    if (nondet_bool()) { M.q_tail = &me; me.m_next = NULL; } else { M.q_tail = &B; g_succ = &B; me.m_next = nondet_bool() ? &B : NULL; }
    __CPROVER_assume(QINV);
    qnode_release(&me);
    OBLIGATION(!me_in && tok != T_ME && tok != T_ME_INFLIGHT && me.m_mutex == NULL, "C08.queuing_mutex: release gives the token away exactly once (to the successor or back to free)");
    VACUITY_END();
}
#endif

#ifdef MX
/* d1::mutex on waitable_atomic<bool>: the spin_mutex protocol plus sleeping.  r1::wait_on_address may return at any time (spurious wake-ups included): it is a pure interference point;
   timed_spin_wait_until evaluates its predicate one or more times and returns the last value. */
struct waitable_atomic_bool { bool my_atomic; };
struct mutex { struct waitable_atomic_bool my_flag; };
struct mutex MXM; unsigned long gH; bool meH; bool g_last, g_cleared; unsigned g_slept, g_notified;
#define INV (gH <= 1 && MXM.my_flag.my_atomic == (gH == 1) && gH >= meH)
static void interfere(void) { MXM.my_flag.my_atomic = nondet_bool(); gH = nondet_ulong(); __CPROVER_assume(INV); }
#define ATOMIC_LOAD_AT(site, f) ({ interfere(); g_last = (f); g_last; })
#define ATOMIC_XCHG_AT(site, f, v) ({ interfere(); bool old_ = (f); if (v) { (f) = true; if (!old_) { gH++; meH = true; } } \
    else { __CPROVER_assert(meH, "guarantee: only the holder clears the flag, at " #site); (f) = false; gH--; meH = false; g_cleared = true; } \
    __CPROVER_assert(INV, "guarantee: INV re-established at " #site); old_; })
#define TIMED_SPIN_WAIT_UNTIL(e) ({ bool f_ = (e); if (!f_ && nondet_bool()) f_ = (e); f_; })
static void STUB_wait_on_address(struct waitable_atomic_bool *w, uintptr_t ctx) { OBLIGATION(w == &MXM.my_flag, "C08.mutex: the waiter sleeps on the address of the flag it polls"); g_slept++; interfere(); }
static void STUB_notify_by_address_one(struct waitable_atomic_bool *w) {
    OBLIGATION(g_cleared && !meH, "C08.mutex: unlock clears the flag before it notifies (a woken waiter, or one that is about to sleep and re-checks, reads a cleared flag) - no lost grant");
    OBLIGATION(w == &MXM.my_flag, "C08.mutex: the notification goes to the address the waiters sleep on"); g_notified++; }
#define LOOP_wa_wait_1 __CPROVER_assigns(MXM, gH, g_last, g_slept) __CPROVER_loop_invariant(INV && !meH && !g_cleared && g_notified == 0)
#define LOOP_lock_1 __CPROVER_assigns(MXM, gH, meH, g_last, g_slept) __CPROVER_loop_invariant(INV && !meH && !g_cleared && g_notified == 0)
static bool mutex_try_lock(struct mutex* self);
#include "mx.inc"
#define MXPRE(c) do { MXM.my_flag.my_atomic = nondet_bool(); gH = nondet_ulong(); meH = nondet_bool(); g_cleared = false; g_slept = 0; g_notified = 0; g_last = nondet_bool(); __CPROVER_assume(INV && (c)); } while (0)
void h_mx_lock(void) { MXPRE(!meH); mutex_lock(&MXM); OBLIGATION(meH, "C08.mutex: lock() returns only through a successful try_lock (the woken waiter re-takes the flag itself)"); interfere();
    OBLIGATION(meH && gH == 1, "C08.mutex: after lock() this thread is the only holder"); OBLIGATION(g_notified == 0 && !g_cleared, "C08.mutex: lock() neither clears the flag nor notifies"); VACUITY_END(); }
void h_mx_try_lock(void) { MXPRE(!meH); bool ok = mutex_try_lock(&MXM); interfere(); OBLIGATION(ok == meH && (ok ? gH == 1 : 1), "C08.mutex: try_lock returns true iff it took the lock");
    OBLIGATION(g_slept == 0, "C08.mutex: try_lock never sleeps"); VACUITY_END(); }
void h_mx_unlock(void) { MXPRE(meH); mutex_unlock(&MXM); OBLIGATION(!meH && g_cleared, "C08.mutex: unlock releases"); OBLIGATION(g_notified == 1, "C08.mutex: unlock notifies one waiter, once"); VACUITY_END(); }
bool IN_old;
void h_mx_wait(void) { MXPRE(!meH); bool old = IN_old = nondet_bool(); waitable_atomic_wait(&MXM.my_flag, old, 0);
    OBLIGATION(g_last != old, "C08.waitable_atomic: wait(old) returns only after it read a value different from old: a woken waiter re-checks the flag (spurious or stale wake-ups are absorbed)");
    OBLIGATION(!meH && !g_cleared && g_notified == 0, "C08.waitable_atomic: wait changes nothing"); VACUITY_END(); }
#endif

#ifdef SCOPED
/* unique_scoped_lock<Mutex> / rw_scoped_lock<Mutex> over a stub mutex that records the mode held: 0 free of this thread, 1 shared, 2 exclusive.  The mutex operations themselves are proved in
   the sections above; here: pairing of acquire/release, truthful try_acquire, m_is_writer truthful across upgrade/downgrade. */
struct stub_mutex { int mode; unsigned n_lock, n_unlock, n_lock_shared, n_unlock_shared, n_upgrade, n_downgrade, n_try; bool up_result; };
struct unique_lock { struct stub_mutex *m_mutex; };
struct rw_lock { struct stub_mutex *m_mutex; bool m_is_writer; };
struct stub_mutex MU, MU2;
#define FREE_PRE(m) OBLIGATION((m) == &MU && MU.mode == 0, "C08.scoped_lock: a lock operation is issued on the mutex asked for, by a scoped_lock that holds nothing")
static void STUB_mx_lock(struct stub_mutex *m) { FREE_PRE(m); m->mode = 2; m->n_lock++; }
static void STUB_mx_lock_shared(struct stub_mutex *m) { FREE_PRE(m); m->mode = 1; m->n_lock_shared++; }
static bool STUB_mx_try_lock(struct stub_mutex *m) { FREE_PRE(m); m->n_try++; bool ok = nondet_bool(); if (ok) m->mode = 2; return ok; }
static bool STUB_mx_try_lock_shared(struct stub_mutex *m) { FREE_PRE(m); m->n_try++; bool ok = nondet_bool(); if (ok) m->mode = 1; return ok; }
static void STUB_mx_unlock(struct stub_mutex *m) { OBLIGATION(m == &MU && m->mode == 2, "C08.scoped_lock: unlock() is called only on the mutex held, and only when it is held exclusively"); m->mode = 0; m->n_unlock++; }
static void STUB_mx_unlock_shared(struct stub_mutex *m) { OBLIGATION(m == &MU && m->mode == 1, "C08.scoped_lock: unlock_shared() is called only on the mutex held, and only when it is held shared"); m->mode = 0; m->n_unlock_shared++; }
static bool STUB_mx_upgrade(struct stub_mutex *m) { OBLIGATION(m == &MU && m->mode == 1, "C08.scoped_lock: upgrade() is called only by a reader"); m->mode = 2; m->n_upgrade++; m->up_result = nondet_bool(); return m->up_result; }
static void STUB_mx_downgrade(struct stub_mutex *m) { OBLIGATION(m == &MU && m->mode == 2, "C08.scoped_lock: downgrade() is called only by a writer"); m->mode = 1; m->n_downgrade++; }
#include "scoped.inc"
struct unique_lock UL; struct rw_lock RL;
static void mu_init(void) { MU.mode = 0; MU.n_lock = MU.n_unlock = MU.n_lock_shared = MU.n_unlock_shared = MU.n_upgrade = MU.n_downgrade = MU.n_try = 0; }
#define RLINV (RL.m_mutex == NULL ? MU.mode == 0 : (RL.m_mutex == &MU && MU.mode != 0 && RL.m_is_writer == (MU.mode == 2)))
#define RLINV_TEXT "the scoped_lock holds a mutex iff m_mutex is set, and m_is_writer tells the mode really held"
bool IN_write; int IN_mode;
void h_scoped_unique(void) {
    mu_init(); UL.m_mutex = NULL;
    if (nondet_bool()) { unique_acquire(&UL, &MU); OBLIGATION(UL.m_mutex == &MU && MU.mode == 2 && MU.n_lock == 1, "C08.scoped_lock[unique]: acquire locks the mutex once and records it"); }
    else { bool ok = unique_try_acquire(&UL, &MU); OBLIGATION(ok == (MU.mode == 2) && (ok ? UL.m_mutex == &MU : UL.m_mutex == NULL) && MU.n_lock == 0, "C08.scoped_lock[unique]: try_acquire is truthful, records the mutex only on success, and uses the non-blocking try_lock"); }
    bool held = UL.m_mutex != NULL;
    if (nondet_bool()) { if (held) { unique_release(&UL); } } else unique_dtor(&UL);
    OBLIGATION(UL.m_mutex == NULL && MU.mode == 0 && MU.n_unlock == (held ? 1 : 0), "C08.scoped_lock[unique]: release / the destructor unlock exactly once what was locked and nothing otherwise");
    VACUITY_END();
}
void h_scoped_rw_acquire(void) {
    mu_init(); RL.m_mutex = NULL; RL.m_is_writer = nondet_bool(); bool w = IN_write = nondet_bool();
    if (nondet_bool()) { rwl_acquire(&RL, &MU, w); OBLIGATION(RLINV && RL.m_mutex == &MU && MU.mode == (w ? 2 : 1), "C08.scoped_lock[rw]: acquire takes the mode asked for; " RLINV_TEXT); }
    else { bool ok = rwl_try_acquire(&RL, &MU, w); OBLIGATION(RLINV && ok == (RL.m_mutex != NULL) && (ok ? MU.mode == (w ? 2 : 1) : 1) && MU.n_lock == 0 && MU.n_lock_shared == 0, "C08.scoped_lock[rw]: try_acquire is truthful and non-blocking; " RLINV_TEXT); }
    VACUITY_END();
}
void h_scoped_rw_held(void) {
    mu_init(); int md = IN_mode = nondet_bool() ? 1 : 2; MU.mode = md; RL.m_mutex = &MU; RL.m_is_writer = (md == 2);
    int op = nondet_int(); __CPROVER_assume(op >= 0 && op <= 4);
    if (op == 0) { bool r = rwl_upgrade_to_writer(&RL); OBLIGATION(RLINV && MU.mode == 2, "C08.scoped_lock[rw]: after upgrade_to_writer the lock is held exclusively; " RLINV_TEXT);
        OBLIGATION(md == 2 ? (r && MU.n_upgrade == 0) : (MU.n_upgrade == 1 && r == MU.up_result), "C08.scoped_lock[rw]: upgrade_to_writer passes the mutex's verdict on (false exactly when the mutex released the lock in between); a writer gets true without touching the mutex"); }
    else if (op == 1) { bool r = rwl_downgrade_to_reader(&RL); OBLIGATION(r && RLINV && MU.mode == 1 && MU.n_downgrade == (md == 2 ? 1 : 0) && MU.n_unlock == 0, "C08.scoped_lock[rw]: downgrade_to_reader goes writer->reader in one mutex step, never through unlock; " RLINV_TEXT); }
    else if (op == 2) { bool r = rwl_is_writer(&RL); OBLIGATION(r == (MU.mode == 2), "C08.scoped_lock[rw]: is_writer tells the mode really held"); }
    else { if (op == 3) rwl_release(&RL); else rwl_dtor(&RL);
        OBLIGATION(RLINV && RL.m_mutex == NULL && MU.n_unlock == (md == 2 ? 1 : 0) && MU.n_unlock_shared == (md == 1 ? 1 : 0), "C08.scoped_lock[rw]: release / the destructor call the unlock that matches the mode held, once"); }
    VACUITY_END();
}
#endif
