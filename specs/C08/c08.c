/* C08 harnesses: rely/guarantee over one state word (spin_mutex, spin_rw_mutex) and the MCS token protocol (queuing_mutex).
   Every ATOMIC_*_AT(site, ...) primitive = interference by any number of other threads, then the plain operation, then the
   site's ghost hook, then the guarantee (INV re-established).  *.inc are generated from /repo on every run. */
#include "verif.h"

#if defined(SRW) || defined(RWM)
typedef intptr_t state_type;
#define WRITER ((state_type)1)
#define WRITER_PENDING ((state_type)2)
#define READERS (~(WRITER | WRITER_PENDING))
#define ONE_READER ((state_type)4)
#define BUSY (WRITER | READERS)
state_type m_state;
/* ghost census over ALL threads: writers, upgraders (own WRITER, still counted as reader), read holders, transient reader increments */
unsigned long gW, gU, gR, gT; bool meW, meU, meR, meT;
#define BOUND (gR < (1UL << 40) && gT < (1UL << 40))
#define INV (gW <= 1 && gU <= 1 && gW + gU <= 1 && ((m_state & WRITER) != 0) == (gW + gU == 1) && m_state >= 0 && (unsigned long)(m_state >> 2) == gR + gT \
  && (gW == 1 ? gR == 0 : 1) && (gU == 1 ? ((m_state & WRITER_PENDING) != 0) : 1) \
  && gW >= meW && gU >= meU && gT >= meT && gR >= (unsigned long)meR + (gU - (unsigned long)meU))
/* two-state rely/guarantee: while some upgrader owns the WRITER bit, no new read holder appears */
#define TWO_STATE(oU, oR) ((oU) == 1 && gU == 1 ? gR <= (oR) : 1)
static void interfere(void) {
    unsigned long oU = gU, oR = gR;
    m_state = nondet_intptr_t(); gW = nondet_ulong(); gU = nondet_ulong(); gR = nondet_ulong(); gT = nondet_ulong();
    __CPROVER_assume(INV && BOUND && (meU ? TWO_STATE(oU, oR) : 1));
}
#define RG_SITE(site, T, op) ({ interfere(); unsigned long oU_ = gU, oR_ = gR; T old_ = m_state; T r_ = (op); GHOST_##site; \
   __CPROVER_assert(INV, "guarantee: INV re-established at " #site); __CPROVER_assert(TWO_STATE(oU_, oR_), "guarantee: no new reader while an upgrader owns WRITER, at " #site); r_; })
#define ATOMIC_LOAD_AT(site, f) RG_SITE(site, state_type, (f))
#define ATOMIC_CAS_AT(site, f, e, d) RG_SITE(site, bool, ((f) == *(e) ? ((f) = (d), true) : (*(e) = (f), false)))
#define ATOMIC_FETCH_ADD_AT(site, f, d) RG_SITE(site, state_type, ((f) = old_ + (d), old_))
#define ATOMIC_FETCH_OR_AT(site, f, d) RG_SITE(site, state_type, ((f) = old_ | (d), old_))
#define ATOMIC_FETCH_AND_AT(site, f, d) RG_SITE(site, state_type, ((f) = old_ & (d), old_))
#define PLAIN_READ(f) (f)
#define ATOMIC_AND_FETCH_AT(site, f, d) RG_SITE(site, state_type, ((f) = old_ & (d), (f)))
#define ATOMIC_ADD_FETCH_AT(site, f, d) RG_SITE(site, state_type, ((f) = old_ + (d), (f)))
#define NOG ((void)0)
#define IDLE (!meW && !meU && !meR && !meT)
#define LOOPI(cond) __CPROVER_assigns(m_state, gW, gU, gR, gT, meW, meU, meR, meT) __CPROVER_loop_invariant(INV && BOUND && (cond))
#define PRE(c) do { m_state = nondet_intptr_t(); gW = nondet_ulong(); gU = nondet_ulong(); gR = nondet_ulong(); gT = nondet_ulong(); \
    meW = nondet_bool(); meU = nondet_bool(); meR = nondet_bool(); meT = nondet_bool(); __CPROVER_assume(INV && BOUND && (c)); } while (0)
state_type IN_state;
#endif

#ifdef SRW
#define GHOST_lock_1 NOG
#define GHOST_lock_2 if (r_) { gW++; meW = true; }
#define GHOST_lock_3 NOG
#define GHOST_try_lock_1 NOG
#define GHOST_try_lock_2 if (r_) { gW++; meW = true; }
#define GHOST_unlock_1 { gW--; meW = false; }
#define GHOST_lock_shared_1 NOG
#define GHOST_lock_shared_2 if (!(r_ & WRITER)) { gR++; meR = true; } else { gT++; meT = true; }
#define GHOST_lock_shared_3 { gT--; meT = false; }
#define GHOST_try_lock_shared_1 NOG
#define GHOST_try_lock_shared_2 if (!(r_ & WRITER)) { gR++; meR = true; } else { gT++; meT = true; }
#define GHOST_try_lock_shared_3 { gT--; meT = false; }
#define GHOST_unlock_shared_1 { gR--; meR = false; }
#define GHOST_upgrade_1 NOG
#define GHOST_upgrade_2 if (r_) { gU++; meU = true; }
#define GHOST_upgrade_3 NOG
#define GHOST_upgrade_4 { gU--; gR--; gW++; meU = false; meR = false; meW = true; }
#define GHOST_downgrade_1 { gW--; gR++; meW = false; meR = true; }
#define LOOP_lock_1 LOOPI(IDLE)
#define LOOP_lock_shared_1 LOOPI(IDLE)
#define LOOP_upgrade_1 __CPROVER_assigns(m_state, gW, gU, gR, gT, meW, meU, meR, meT, s) __CPROVER_loop_invariant(INV && BOUND && !meW && !meU && meR && !meT)
#define LOOP_upgrade_2 LOOPI(!meW && meU && meR && !meT)
void spin_rw_mutex_lock(void); void spin_rw_mutex_unlock_shared(void);
#include "srw.inc"
void h_srw_lock(void) { PRE(IDLE); IN_state = m_state; spin_rw_mutex_lock(); interfere(); OBLIGATION(meW && gW == 1 && gR == 0 && gU == 0, "C08.srw: after lock() this thread is the only writer and there is no reader"); VACUITY_END(); }
void h_srw_try_lock(void) { PRE(IDLE); IN_state = m_state; bool ok = spin_rw_mutex_try_lock(); interfere(); OBLIGATION(ok ? (meW && gW == 1 && gR == 0 && gU == 0) : IDLE, "C08.srw: try_lock is truthful: true iff it took the exclusive lock, and it holds nothing otherwise"); VACUITY_END(); }
void h_srw_unlock(void) { PRE(meW && !meU && !meR && !meT); IN_state = m_state; spin_rw_mutex_unlock(); OBLIGATION(IDLE, "C08.srw: unlock releases the writer"); VACUITY_END(); }
void h_srw_lock_shared(void) { PRE(IDLE); IN_state = m_state; spin_rw_mutex_lock_shared(); interfere(); OBLIGATION(meR && gW == 0 && !meT, "C08.srw: after lock_shared() this thread is a reader and there is no writer"); VACUITY_END(); }
void h_srw_try_lock_shared(void) { PRE(IDLE); IN_state = m_state; bool ok = spin_rw_mutex_try_lock_shared(); interfere(); OBLIGATION(ok ? (meR && gW == 0 && !meT) : IDLE, "C08.srw: try_lock_shared is truthful"); VACUITY_END(); }
void h_srw_unlock_shared(void) { PRE(!meW && !meU && meR && !meT); IN_state = m_state; spin_rw_mutex_unlock_shared(); OBLIGATION(IDLE, "C08.srw: unlock_shared releases the reader"); VACUITY_END(); }
bool g_others_wrote;
void h_srw_upgrade(void) { PRE(!meW && !meU && meR && !meT); IN_state = m_state; bool ok = spin_rw_mutex_upgrade(); interfere();
    OBLIGATION(meW && !meR && !meU && gW == 1 && gR == 0, "C08.srw: after upgrade() this thread is the only writer, no reader remains"); VACUITY_END(); }
void h_srw_downgrade(void) { PRE(meW && !meU && !meR && !meT); IN_state = m_state; spin_rw_mutex_downgrade(); interfere(); OBLIGATION(meR && !meW && gW == 0, "C08.srw: downgrade goes writer->reader in one step: still holding, no writer slipped in"); VACUITY_END(); }
#endif

#ifdef RWM
/* rw_mutex: same word layout and census; readers also back off on WRITER_PENDING; unlock keeps WRITER_PENDING */
#define HASW (WRITER | WRITER_PENDING)
#define GHOST_lock_1 NOG
#define GHOST_lock_2 NOG
#define GHOST_try_lock_1 NOG
#define GHOST_try_lock_2 if (r_) { gW++; meW = true; }
#define GHOST_unlock_1 { gW--; meW = false; }
#define GHOST_try_lock_shared_1 NOG
#define GHOST_try_lock_shared_2 if (!(r_ & HASW)) { gR++; meR = true; } else { gT++; meT = true; }
#define GHOST_try_lock_shared_3 { gT--; meT = false; }
#define GHOST_unlock_shared_1 { gR--; meR = false; }
#define GHOST_upgrade_1 NOG
#define GHOST_upgrade_2 if (r_) { gU++; meU = true; }
#define GHOST_upgrade_3 NOG
#define GHOST_upgrade_4 { gU--; gR--; gW++; meU = false; meR = false; meW = true; }
#define GHOST_downgrade_2 { gW--; gR++; meW = false; meR = true; }
#define GHOST_downgrade_3 NOG
#define LOOP_lock_1 LOOPI(IDLE)
#define LOOP_lock_shared_1 LOOPI(IDLE)
#define LOOP_upgrade_1 __CPROVER_assigns(m_state, gW, gU, gR, gT, meW, meU, meR, meT, s) __CPROVER_loop_invariant(INV && BOUND && !meW && !meU && meR && !meT)
#define LOOP_upgrade_2 LOOPI(!meW && meU && meR && !meT)
bool rw_mutex_try_lock(void); bool rw_mutex_try_lock_shared(void); void rw_mutex_unlock_shared(void); void rw_mutex_lock(void);
#include "rwm.inc"
void h_rwm_lock(void) { PRE(IDLE); IN_state = m_state; rw_mutex_lock(); interfere(); OBLIGATION(meW && gW == 1 && gR == 0 && gU == 0, "C08.rw_mutex: after lock() this thread is the only writer and there is no reader"); VACUITY_END(); }
void h_rwm_try_lock(void) { PRE(IDLE); IN_state = m_state; bool ok = rw_mutex_try_lock(); interfere(); OBLIGATION(ok ? (meW && gW == 1 && gR == 0 && gU == 0) : IDLE, "C08.rw_mutex: try_lock is truthful and holds nothing when it fails"); VACUITY_END(); }
void h_rwm_unlock(void) { PRE(meW && !meU && !meR && !meT); IN_state = m_state; rw_mutex_unlock(); OBLIGATION(IDLE, "C08.rw_mutex: unlock releases the writer"); VACUITY_END(); }
void h_rwm_lock_shared(void) { PRE(IDLE); IN_state = m_state; rw_mutex_lock_shared(); interfere(); OBLIGATION(meR && gW == 0 && !meT, "C08.rw_mutex: after lock_shared() this thread is a reader and there is no writer"); VACUITY_END(); }
void h_rwm_try_lock_shared(void) { PRE(IDLE); IN_state = m_state; bool ok = rw_mutex_try_lock_shared(); interfere(); OBLIGATION(ok ? (meR && gW == 0 && !meT) : IDLE, "C08.rw_mutex: try_lock_shared is truthful"); VACUITY_END(); }
void h_rwm_unlock_shared(void) { PRE(!meW && !meU && meR && !meT); IN_state = m_state; rw_mutex_unlock_shared(); OBLIGATION(IDLE, "C08.rw_mutex: unlock_shared releases the reader"); VACUITY_END(); }
void h_rwm_upgrade(void) { PRE(!meW && !meU && meR && !meT); IN_state = m_state; bool ok = rw_mutex_upgrade(); interfere(); OBLIGATION(meW && !meR && !meU && gW == 1 && gR == 0, "C08.rw_mutex: after upgrade() this thread is the only writer, no reader remains"); VACUITY_END(); }
void h_rwm_downgrade(void) { PRE(meW && !meU && !meR && !meT); IN_state = m_state; rw_mutex_downgrade(); interfere(); OBLIGATION(meR && !meW && gW == 0, "C08.rw_mutex: downgrade goes writer->reader in one step"); VACUITY_END(); }
#endif


#ifdef SM
bool m_flag; unsigned long gH; bool meH;
#define INV (gH <= 1 && m_flag == (gH == 1) && gH >= meH)
static void interfere(void) { m_flag = nondet_bool(); gH = nondet_ulong(); __CPROVER_assume(INV); }
#define ATOMIC_XCHG_AT(site, f, v) ({ interfere(); bool old_ = (f); (f) = (v); GHOST_##site; __CPROVER_assert(INV, "guarantee: INV re-established at " #site); old_; })
#define ATOMIC_STORE_AT(site, f, v) ({ interfere(); __CPROVER_assert(meH, "guarantee: only the holder clears the flag, at " #site); (f) = (v); GHOST_##site; __CPROVER_assert(INV, "guarantee: INV re-established at " #site); })
#define GHOST_lock_1 if (!old_) { gH++; meH = true; }
#define GHOST_try_lock_1 if (!old_) { gH++; meH = true; }
#define GHOST_unlock_1 { gH--; meH = false; }
#define LOOP_lock_1 __CPROVER_assigns(m_flag, gH, meH) __CPROVER_loop_invariant(INV && !meH)
#include "sm.inc"
#define SMPRE(c) do { m_flag = nondet_bool(); gH = nondet_ulong(); meH = nondet_bool(); __CPROVER_assume(INV && (c)); } while (0)
void h_sm_lock(void) { SMPRE(!meH); spin_mutex_lock(); interfere(); OBLIGATION(meH && gH == 1, "C08.spin_mutex: after lock() this thread is the only holder"); VACUITY_END(); }
void h_sm_try_lock(void) { SMPRE(!meH); bool ok = spin_mutex_try_lock(); interfere(); OBLIGATION(ok == meH && (ok ? gH == 1 : 1), "C08.spin_mutex: try_lock returns true iff it took the lock"); VACUITY_END(); }
void h_sm_unlock(void) { SMPRE(meH); spin_mutex_unlock(); OBLIGATION(!meH, "C08.spin_mutex: unlock releases"); VACUITY_END(); }
#endif

#ifdef QM
/* MCS queue lock, thread-modular: one lock token that is FREE, with the others, granted-to-me-in-flight, or held by me */
struct qmutex; struct qnode;
struct qmutex { struct qnode *q_tail; };
enum { T_FREE, T_OTHER, T_ME_INFLIGHT, T_ME };
#define SPIN_WAIT_WHILE_EQ_going(n) spin_wait_going(n)
#define SPIN_WAIT_WHILE_EQ_next(n) spin_wait_next(n)
static void spin_wait_going(struct qnode *n); static void spin_wait_next(struct qnode *n);
static void interfere(void);
struct qnode; 
#define ATOMIC_STORE_AT(site, f, v) do { interfere(); GHOSTPRE_##site; (f) = (v); GHOST_##site; __CPROVER_assert(QINV, "guarantee: INV re-established at " #site); } while (0)
#define ATOMIC_LOAD_AT(site, f) ({ interfere(); (f); })
#define ATOMIC_XCHG_AT(site, f, v) ({ interfere(); struct qnode *old_ = (f); (f) = (v); GHOST_##site; __CPROVER_assert(QINV, "guarantee: INV re-established at " #site); old_; })
#define ATOMIC_CAS_AT(site, f, e, d) ({ interfere(); bool r_ = ((f) == *(e)); if (r_) (f) = (d); else *(e) = (f); GHOST_##site; __CPROVER_assert(QINV, "guarantee: INV re-established at " #site); r_; })
struct qnode_fwd;
#include "qm_decl.h"
#include "qm.inc"
static void spin_wait_going(struct qnode *n) {
    interfere(); __CPROVER_assume(n->m_going != 0);
    OBLIGATION(tok == T_ME_INFLIGHT, "C08.queuing_mutex: the wait for m_going ends only through a grant by the predecessor that held the lock");
    tok = T_ME;
}
static void spin_wait_next(struct qnode *n) { interfere(); __CPROVER_assume(n->m_next != NULL); }
static void mk_state(void) {
    M.q_tail = nondet_bool() ? NULL : (nondet_bool() ? &A : &B);
    A.m_next = NULL; B.m_next = NULL; A.m_going = nondet_uintptr_t(); B.m_going = nondet_uintptr_t();
    me.m_next = nondet_ptr(); me.m_going = nondet_uintptr_t();       /* a re-used node carries stale fields */
    me.m_mutex = NULL; me_in = false; me_has_pred = false; me_linked = false; g_succ = NULL;
    tok = M.q_tail == NULL ? T_FREE : T_OTHER;
}
void h_qm_acquire(void) {
    mk_state(); __CPROVER_assume(QINV);
    qnode_acquire(&me, &M);
    OBLIGATION(tok == T_ME, "C08.queuing_mutex: acquire returns only when this thread holds the one lock token (mutual exclusion)");
    OBLIGATION(me.m_mutex == &M && me_in, "C08.queuing_mutex: the scoped_lock records the mutex it holds");
    interfere();
    OBLIGATION(tok == T_ME, "C08.queuing_mutex: nobody can take the lock from the holder");
    VACUITY_END();
}
void h_qm_try_acquire(void) {
    mk_state(); __CPROVER_assume(QINV);
    bool ok = qnode_try_acquire(&me, &M);
    OBLIGATION(ok ? (tok == T_ME && me.m_mutex == &M) : (tok != T_ME && tok != T_ME_INFLIGHT && !me_in && me.m_mutex == NULL), "C08.queuing_mutex: try_acquire is truthful and leaves no trace when it fails");
    VACUITY_END();
}
void h_qm_release(void) {
    mk_state();
    /* I hold the lock: either alone at the tail or with others queued behind me */
    me.m_mutex = &M; me_in = true; me_linked = true; tok = T_ME; me.m_going = nondet_uintptr_t();
    if (nondet_bool()) { M.q_tail = &me; me.m_next = NULL; } else { M.q_tail = &B; g_succ = &B; me.m_next = nondet_bool() ? &B : NULL; }
    __CPROVER_assume(QINV);
    qnode_release(&me);
    OBLIGATION(!me_in && tok != T_ME && tok != T_ME_INFLIGHT && me.m_mutex == NULL, "C08.queuing_mutex: release gives the token away exactly once (to the successor or back to free)");
    VACUITY_END();
}
#endif
