"""C18 -- tbbmalloc fails cleanly: overflow guards, argument validation, NULL propagation (entry points of frontend.cpp)."""
import os
import sys
import re
HERE = os.path.dirname(os.path.abspath(__file__))
sys.path.insert(0, os.path.join(HERE, '..'))
sys.path.insert(0, os.path.join(HERE, '..', '..', 'tools'))
import common
import native
import cxx2c
from cxx2c import Rewriter, slice_block, ExtractionBreak, load
from prove import Job

FE = 'src/tbbmalloc/frontend.cpp'
CU = 'src/tbbmalloc/Customize.h'
UT = 'include/oneapi/tbb/detail/_utils.h'


def extract(ctx):
    sliced, fired = [], {}
    rw = Rewriter('tbbmalloc-api')
    out = []
    # power-of-two helpers (Customize.h forwards to _utils.h)
    s = slice_block(UT, r'constexpr bool is_power_of_two\( IntegerType arg \)')
    sliced.append('%s:%d is_power_of_two' % (UT, s.line))
    t = rw.sub(s.text, r'constexpr bool is_power_of_two\( IntegerType arg \)', 'static bool tbb_is_power_of_two(uintptr_t arg)', 1, 1, name='sig + bind-template(IntegerType:=uintptr_t)')
    t = rw.sub(t, r'(?s)static_assert\(.*?\);', 'RG_NOP();', 1, 1, name='static_assert dropped')
    out.append(t)
    s = slice_block(UT, r'constexpr bool is_power_of_two_at_least\(ArgIntegerType arg, DivisorIntegerType divisor\)')
    sliced.append('%s:%d is_power_of_two_at_least' % (UT, s.line))
    t = rw.sub(s.text, r'constexpr bool is_power_of_two_at_least\(ArgIntegerType arg, DivisorIntegerType divisor\)', 'static bool tbb_is_power_of_two_at_least(uintptr_t arg, uintptr_t divisor)', 1, 1, name='sig + bind-template')
    t = rw.sub(t, r'(?s)static_assert\(.*?\);', 'RG_NOP();', 1, 1, name='static_assert dropped')
    out.append(t)
    for name in ('isPowerOfTwo', 'isPowerOfTwoAtLeast'):
        s = slice_block(CU, r'static inline bool %s\(' % name)
        sliced.append('%s:%d %s' % (CU, s.line, name))
        t = rw.sub(s.text, r'tbb::detail::is_power_of_two', 'tbb_is_power_of_two', 1, 1, name='ns-strip')
        out.append(t)
    for name, sig in (('scalable_calloc', r'extern "." void \* scalable_calloc\(size_t nobj, size_t size\)'),
                      ('scalable_posix_memalign', r'extern "." int scalable_posix_memalign\(void \*\*memptr, size_t alignment, size_t size\)'),
                      ('scalable_aligned_malloc', r'extern "." void \* scalable_aligned_malloc\(size_t size, size_t alignment\)'),
                      ('scalable_aligned_realloc', r'extern "." void \* scalable_aligned_realloc\(void \*ptr, size_t size, size_t alignment\)'),
                      ('scalable_realloc', r'extern "." void\* scalable_realloc\(void\* ptr, size_t size\)')):
        s = slice_block(FE, sig)
        sliced.append('%s:%d %s' % (FE, s.line, name))
        t = rw.sub(s.text, r'extern "C" ', '', 1, 1, name='extern "C" dropped')
        t = rw.sub(t, r'\berrno\b', 'VERIF_errno', 0, name='errno -> ghost variable')
        t = rw.sub(t, r'\bmemset\(', 'VERIF_memset(', 0, name='memset -> recording stub')
        t = rw.fcasts(t, ['size_t'])
        t = rw.std(t)
        out.append(t)
    common.write(ctx, 'api.inc', '\n'.join(out) + '\n')
    fired['api'] = rw.fired
    return sliced, fired


BE = 'src/tbbmalloc/backend.cpp'
LOH = 'src/tbbmalloc/large_objects.h'
LOC = 'src/tbbmalloc/large_objects.cpp'
SU = 'src/tbbmalloc/shared_utils.h'


def slice_between(rel, start_pat, end_pat):
    """mechanical fragment: from the start of the first match of start_pat up to (not including) the first later match of end_pat"""
    text = load(rel)
    m = cxx2c.mask(text)
    a = re.search(start_pat, m)
    if not a:
        raise ExtractionBreak('%s: fragment start %r not found' % (rel, start_pat))
    b = re.compile(end_pat).search(m, a.end())
    if not b:
        raise ExtractionBreak('%s: fragment end %r not found' % (rel, end_pat))
    return cxx2c.Slice(rel, a.start(), b.start(), cxx2c.strip_comments(text[a.start():b.start()]), cxx2c.line_of(text, a.start()))


def extract_remap(ctx, sliced, fired):
    """Backend::remap: the size arithmetic and its wrap-around guard (fragment between `const size_t userOffset` and `regionList.remove(oldRegion)`), with the real alignToBin / alignUp / log2"""
    rw = Rewriter('remap')
    l2, f2 = common.log2_c(ctx, sliced)
    out = [l2]
    s = slice_block(SU, r'static inline T alignUp\s*\(T arg, uintptr_t alignment\)')
    sliced.append('%s:%d alignUp' % (SU, s.line))
    t = rw.sub(s.text, r'static inline T alignUp\s*\(T arg, uintptr_t alignment\)', 'static inline size_t alignUp(size_t arg, uintptr_t alignment)', 1, 1, name='bind-template(T:=size_t)')
    t = rw.sub(t, r'\bT\b', 'size_t', 0, name='bind-template(T:=size_t)')
    t = rw.fcasts(t, ['size_t'], 1)
    out.append(t)
    s = slice_block('src/tbbmalloc/Customize.h', r'inline intptr_t BitScanRev\(uintptr_t x\)')
    sliced.append('%s:%d BitScanRev' % (s.rel, s.line))
    t = rw.sub(s.text, r'inline intptr_t BitScanRev\(uintptr_t x\)', 'static intptr_t BitScanRev(uintptr_t x)', 1, 1, name='sig')
    t = rw.sub(t, r'tbb::detail::log2\(', 'tbb_log2(', 1, 1, name='ns-strip')
    t = rw.casts(t, 1)
    out.append(t)
    s = slice_block(LOH, r'static size_t alignToBin\(size_t size\)', within=r'struct LargeBinStructureProps \{')
    sliced.append('%s:%d LargeBinStructureProps::alignToBin' % (LOH, s.line))
    out.append(rw.sub(s.text, r'static size_t alignToBin\(size_t size\)', 'static size_t LargeCacheType_alignToBin(size_t size)', 1, 1, name='sig'))
    s = slice_block(LOH, r'static size_t alignToBin\(size_t size\)', within=r'struct HugeBinStructureProps \{')
    sliced.append('%s:%d HugeBinStructureProps::alignToBin' % (LOH, s.line))
    t = rw.sub(s.text, r'static size_t alignToBin\(size_t size\)', 'static size_t HugeCacheType_alignToBin(size_t size)', 1, 1, name='sig')
    t, n = re.subn(r'MALLOC_ASSERT\((.*), "([^"]*)"\);', lambda m: 'VERIF_ASSERT(%s, "%s");' % (m.group(1), m.group(2).replace(',', ' ')), t)   # messages contain commas
    rw.fired['assert'] = rw.fired.get('assert', 0) + n
    out.append(t)
    s = slice_block(LOC, r'size_t LargeObjectCache::alignToBin\(size_t size\)')
    sliced.append('%s:%d LargeObjectCache::alignToBin' % (LOC, s.line))
    t = rw.sub(s.text, r'size_t LargeObjectCache::alignToBin\(size_t size\)', 'static size_t LargeObjectCache_alignToBin(size_t size)', 1, 1, name='sig')
    t = rw.sub(t, r'(Large|Huge)CacheType::alignToBin\(', r'\1CacheType_alignToBin(', 2, 2, name='ns-strip')
    out.append(t)
    consts = {}
    for name, pat in (('CacheStep', r'static const size_t\s+CacheStep = ([^;]*);'), ('maxLargeSize', r'maxLargeSize = ([^,;]*)[,;]'), ('StepFactor', r'static const int StepFactor\s*= (\d+);')):
        m = re.search(pat, load(LOH))
        if not m:
            raise ExtractionBreak('%s: constant %s not found' % (LOH, name))
        consts[name] = m.group(1).strip()
    pre = '#define CacheStep ((size_t)(%s))\n#define maxLargeSize ((size_t)(%s))\n#define StepFactor (%s)\n#define StepFactorExp 3\n' % (consts['CacheStep'], consts['maxLargeSize'], consts['StepFactor'])
    if consts['StepFactor'] != '8':
        raise ExtractionBreak('StepFactor changed: StepFactorExp = Log2<StepFactor> must be re-derived')
    s = slice_between(BE, r'const size_t userOffset = ', r'regionList\.remove\(oldRegion\);')
    sliced.append('%s:%d Backend::remap (size arithmetic and wrap-around guard)' % (BE, s.line))
    t = rw.sub(s.text, r'LargeObjectCache::alignToBin\(', 'LargeObjectCache_alignToBin(', 1, 1, name='ns-strip')
    t = rw.sub(t, r'sizeof\(MemRegion\)', 'SIZEOF_MemRegion', 1, 1, name='sizeof -> symbolic constant')
    t = rw.sub(t, r'sizeof\(LastFreeBlock\)', 'SIZEOF_LastFreeBlock', 1, 1, name='sizeof -> symbolic constant')
    t = rw.sub(t, r'extMemPool->granularity', 'granularity', 1, 1, name='field path')
    t = rw.std(t)
    common.write(ctx, 'remap.inc', pre + '\n'.join(out) + '\n')
    common.write(ctx, 'remap_frag.inc', t + '\n')
    fired['remap'] = dict(rw.fired, **f2)


def build(ctx):
    sliced, fired = extract(ctx)
    extract_remap(ctx, sliced, fired)
    C = os.path.join(HERE, 'c18.c')
    jobs = []
    for w in (8, 16):
        jobs.append(Job('calloc.overflow.w%d' % w, C, 'h_calloc', route='BD', bounded=True, bound_text='size_t bound to a %d-bit type (the code is sizeof(size_t)-generic); the 32/64-bit instantiations are beyond SAT reach (multiply/divide)' % w,
                        defines=['VSZ_BITS=%d' % w, 'CALLOC'], timeout=600, solver='cadical' if w == 16 else None,
                        checks=['--bounds-check', '--pointer-check', '--div-by-zero-check', '--no-signed-overflow-check'],   # no signed-overflow check: uint8/16 operands promote to int, an artefact of the narrowed type
                        target='scalable_calloc (size_t := uint%d_t)' % w, source=FE))
    jobs.append(Job('calloc.heuristic.w64', C, 'h_calloc64', route='LF', defines=['CALLOC64'], timeout=600, target='scalable_calloc, 64 bit: control flow of the overflow guard (which products reach the exact check; result plumbing)', source=FE))
    jobs += [
        Job('posix_memalign.args', C, 'h_memalign', route='LF', defines=['API'], target='scalable_posix_memalign + isPowerOfTwoAtLeast', source=FE),
        Job('aligned_malloc.args', C, 'h_aligned_malloc', route='LF', defines=['API'], target='scalable_aligned_malloc + isPowerOfTwo', source=FE),
        Job('aligned_realloc.args', C, 'h_aligned_realloc', route='LF', defines=['API'], target='scalable_aligned_realloc', source=FE),
        Job('remap.size_guard', C, 'h_remap', route='LF', defines=['REMAP'], target='Backend::remap: size arithmetic + wrap-around guard (with the real LargeObjectCache::alignToBin, alignUp, log2)', source=BE, timeout=600),
        Job('realloc.args', C, 'h_realloc', route='LF', defines=['API'], target='scalable_realloc', source=FE),
    ]
    return {
        'jobs': jobs, 'sliced': sliced, 'fired': fired,
        'trusted': ['internalMalloc / allocateAligned / reallocAligned / internalFree / scalable_free: stubs that may return NULL (reallocAligned is proved under C17)', 'errno modelled as a ghost variable'],
        'drops': ['extern "C"', 'static_assert', 'errno -> VERIF_errno', 'memset -> recording stub'],
        'not_decided': ['scalable_calloc at 64 bits: the exact overflow test nobj*size / nobj != size (64-bit multiply and divide are beyond the SAT back ends; proved for 16- and 32-bit size_t as a bounded stand-in)',
                        'failure of the k-th OS/raw allocation inside slab refill, back-reference growth, cache misses', 'memory pools: raw-region accounting (pool_destroy/pool_reset), pool_identify',
                        'getFromLLOCache wrap guard'],
        'assumptions': [],
    }


def replay(ctx, jobname, failure):
    exe = native.build([os.path.join(HERE, 'c18_replay.cpp')], os.path.join(ctx.work, 'c18_replay'),
                       flags=['-fno-access-control', '-I', os.path.join(ctx.repo, 'src/tbbmalloc'), '-I', os.path.join(ctx.repo, 'src'), '-D__TBBMALLOC_BUILD=1', '-ldl'])
    extra = [str(failure.get('inputs', {}).get('IN_newSize'))] if jobname == 'remap.size_guard' and failure.get('inputs', {}).get('IN_newSize') else []
    rc, out = native.run([exe, jobname] + extra, timeout=120)
    rep = {'cmd': exe + ' ' + jobname, 'rc': rc, 'output': out[-1500:], 'reproduced': False, 'detail': 'native search found no failing input'}
    m = re.search(r'REPRODUCED (.*)', out)
    if m:
        rep['reproduced'] = True
        rep['detail'] = m.group(1)
        w = re.search(r'class=(\S+)', m.group(1))
        rep['witness_class'] = w.group(1) if w else None
    return rep
